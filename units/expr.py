"""Unit `expr` (C02, builder level): constant folding, algebraic identities and common-subexpression reuse in ExpressionBuilder
never change the value an expression denotes.

Real text: circuit/src/builder/expression_builder.rs  ExpressionBuilder::{is_const_zero, is_const_one, get_const_value, define_const,
           add, sub, mul, div, add_horner_acc, add_bool_check, add_mul_add, add_bin_op, connect}, MulAddKey::new
           circuit/src/expr.rs  ExpressionGraph::{add_expr, get_expr}
Denotation: den(nodes, leaf, i) evaluates node i of the DAG under an arbitrary valuation `leaf` of the input nodes.  Every operation
is proved, for EVERY valuation, to return an id whose denotation in the new graph is the operation applied to the operands'
denotations in the old graph; the graph only grows (old ids keep their denotation); the pools only ever map a key to a node
that denotes the keyed operation (the representation invariant `wf`)."""
import os
import re

from vf.extract import extract_item, match_brace, ExtractError
from vf.unit import Unit, split_or_pattern_guard_arms

HERE = os.path.dirname(os.path.abspath(__file__))

PRELUDE = r'''
verus! {
global size_of usize == 8;
use std::collections::{HashMap, HashSet, BTreeMap, BTreeSet, VecDeque};
use core::hash::Hash;
#[derive(Clone, Copy, PartialEq, Eq, Hash, Structural)]
pub struct ExprId(pub u32);
impl ExprId { pub const ZERO: Self = Self(0); }
#[derive(Clone, Copy, PartialEq, Eq, Hash, Structural)]
pub struct NonPrimitiveOpId(pub u32);

/// executable side of the field element type the builder is generic in (PrimeCharacteristicRing + Eq + Hash + Dup)
pub trait FX: FieldX + Hash + Eq {
    fn eq_(&self, o: &Self) -> (r: bool) ensures r == (*self == *o);
    fn dup(&self) -> (r: Self) ensures r == *self;
    /// ASSUMPTION on every implementor: Hash/Eq of the field type obey vstd's key model
    proof fn key_model() ensures vstd::std_specs::hash::obeys_key_model::<Self>();
}

@@TYPES@@

pub mod ax {
    use super::*;
    // ASSUMPTIONS (listed in evidence): derived Hash/Eq of the key types, and Hash/Eq of the field type, obey vstd's key model
    /// ASSUMPTION: an expression graph holds fewer than 2^32 - 1 nodes (ExprId is a u32 index the builder never range-checks)
    pub broadcast axiom fn graph_ids_fit_u32<F>(g: ExpressionGraph<F>) ensures #[trigger] g.nodes@.len() < 0xFFFF_FFFE;
    pub broadcast axiom fn km_expr_id() ensures #[trigger] vstd::std_specs::hash::obeys_key_model::<ExprId>();
    pub broadcast axiom fn km_cse() ensures #[trigger] vstd::std_specs::hash::obeys_key_model::<(BinOpKind, ExprId, ExprId)>();
    pub broadcast axiom fn km_mul_add() ensures #[trigger] vstd::std_specs::hash::obeys_key_model::<MulAddKey>();
    pub broadcast axiom fn km_horner() ensures #[trigger] vstd::std_specs::hash::obeys_key_model::<HornerAccKey>();
}
broadcast use {ax::graph_ids_fit_u32, ax::km_expr_id, ax::km_cse, ax::km_mul_add, ax::km_horner, vstd::std_specs::hash::group_hash_axioms};

pub struct ExpressionGraph<F> { pub nodes: Vec<Expr<F>> }
/// the fields of ExpressionBuilder<F> present without the `debugging` / `profiling` features
pub struct ExpressionBuilder<F> {
    pub graph: ExpressionGraph<F>,
    pub const_pool: HashMap<F, ExprId>,
    pub cse_pool: HashMap<(BinOpKind, ExprId, ExprId), ExprId>,
    pub mul_add_pool: HashMap<MulAddKey, ExprId>,
    pub horner_acc_pool: HashMap<HornerAccKey, ExprId>,
    pub bool_check_pool: HashMap<ExprId, ExprId>,
    pub pending_connects: Vec<(ExprId, ExprId)>,
}

// ---------------------------------------------------------------------------------------------------- denotation
pub type Leaf<F> = spec_fn(int) -> F;
/// operands of node i are earlier nodes
pub open spec fn ops_lt<F>(e: Expr<F>, i: int) -> bool {
    match e {
        Expr::Add { lhs, rhs } => (lhs.0 as int) < i && (rhs.0 as int) < i,
        Expr::Sub { lhs, rhs } => (lhs.0 as int) < i && (rhs.0 as int) < i,
        Expr::Mul { lhs, rhs } => (lhs.0 as int) < i && (rhs.0 as int) < i,
        Expr::Div { lhs, rhs } => (lhs.0 as int) < i && (rhs.0 as int) < i,
        Expr::HornerAcc { acc, alpha, p_at_z, p_at_x } => (acc.0 as int) < i && (alpha.0 as int) < i && (p_at_z.0 as int) < i && (p_at_x.0 as int) < i,
        Expr::BoolCheck { val } => (val.0 as int) < i,
        Expr::MulAdd { a, b, c } => (a.0 as int) < i && (b.0 as int) < i && (c.0 as int) < i,
        _ => true,
    }
}
/// the value node i denotes under the valuation `leaf` of the input nodes (doc comments of circuit/src/expr.rs)
pub open spec fn den<F: Field>(nodes: Seq<Expr<F>>, leaf: Leaf<F>, i: int) -> F
    decreases i
{
    if i < 0 || i >= nodes.len() || !ops_lt(nodes[i], i) { F::fzero() } else {
        match nodes[i] {
            Expr::Const(c) => c,
            Expr::Add { lhs, rhs } => den(nodes, leaf, lhs.0 as int).fadd(den(nodes, leaf, rhs.0 as int)),
            Expr::Sub { lhs, rhs } => den(nodes, leaf, lhs.0 as int).fsub(den(nodes, leaf, rhs.0 as int)),
            Expr::Mul { lhs, rhs } => den(nodes, leaf, lhs.0 as int).fmul(den(nodes, leaf, rhs.0 as int)),
            Expr::Div { lhs, rhs } => den(nodes, leaf, lhs.0 as int).fdiv(den(nodes, leaf, rhs.0 as int)),
            Expr::HornerAcc { acc, alpha, p_at_z, p_at_x } =>
                den(nodes, leaf, acc.0 as int).fmul(den(nodes, leaf, alpha.0 as int)).fadd(den(nodes, leaf, p_at_z.0 as int)).fsub(den(nodes, leaf, p_at_x.0 as int)),
            Expr::BoolCheck { val } => den(nodes, leaf, val.0 as int),
            Expr::MulAdd { a, b, c } => den(nodes, leaf, a.0 as int).fmul(den(nodes, leaf, b.0 as int)).fadd(den(nodes, leaf, c.0 as int)),
            _ => leaf(i),
        }
    }
}
pub open spec fn is_prefix<T>(a: Seq<T>, b: Seq<T>) -> bool { a.len() <= b.len() && b.subrange(0, a.len() as int) =~= a }
/// growing the graph does not change what existing nodes denote
pub proof fn lemma_den_ext<F: Field>(a: Seq<Expr<F>>, b: Seq<Expr<F>>, leaf: Leaf<F>, i: int)
    requires is_prefix(a, b), 0 <= i < a.len()
    ensures den(b, leaf, i) == den(a, leaf, i)
    decreases i
{
    assert(b[i] == a[i]) by { assert(b.subrange(0, a.len() as int)[i] == a[i]); }
    if ops_lt(a[i], i) {
        match a[i] {
            Expr::Add { lhs, rhs } => { lemma_den_ext(a, b, leaf, lhs.0 as int); lemma_den_ext(a, b, leaf, rhs.0 as int); }
            Expr::Sub { lhs, rhs } => { lemma_den_ext(a, b, leaf, lhs.0 as int); lemma_den_ext(a, b, leaf, rhs.0 as int); }
            Expr::Mul { lhs, rhs } => { lemma_den_ext(a, b, leaf, lhs.0 as int); lemma_den_ext(a, b, leaf, rhs.0 as int); }
            Expr::Div { lhs, rhs } => { lemma_den_ext(a, b, leaf, lhs.0 as int); lemma_den_ext(a, b, leaf, rhs.0 as int); }
            Expr::HornerAcc { acc, alpha, p_at_z, p_at_x } => {
                lemma_den_ext(a, b, leaf, acc.0 as int); lemma_den_ext(a, b, leaf, alpha.0 as int); lemma_den_ext(a, b, leaf, p_at_z.0 as int); lemma_den_ext(a, b, leaf, p_at_x.0 as int);
            }
            Expr::BoolCheck { val } => { lemma_den_ext(a, b, leaf, val.0 as int); }
            Expr::MulAdd { a: x, b: y, c } => { lemma_den_ext(a, b, leaf, x.0 as int); lemma_den_ext(a, b, leaf, y.0 as int); lemma_den_ext(a, b, leaf, c.0 as int); }
            _ => {}
        }
    }
}
pub proof fn lemma_den_ext_all<F: Field>(a: Seq<Expr<F>>, b: Seq<Expr<F>>)
    requires is_prefix(a, b)
    ensures forall|leaf: Leaf<F>, i: int| 0 <= i < a.len() ==> #[trigger] den(b, leaf, i) == den(a, leaf, i)
{
    assert forall|leaf: Leaf<F>, i: int| 0 <= i < a.len() implies #[trigger] den(b, leaf, i) == den(a, leaf, i) by { lemma_den_ext(a, b, leaf, i); }
}

pub open spec fn binop<F: Field>(k: BinOpKind, a: F, b: F) -> F {
    match k { BinOpKind::Add => a.fadd(b), BinOpKind::Mul => a.fmul(b), BinOpKind::Sub => a.fsub(b), BinOpKind::Div => a.fdiv(b) }
}
pub open spec fn d<F: Field>(nodes: Seq<Expr<F>>, leaf: Leaf<F>, e: ExprId) -> F { den(nodes, leaf, e.0 as int) }
pub open spec fn inr<F>(nodes: Seq<Expr<F>>, e: ExprId) -> bool { (e.0 as int) < nodes.len() }

pub open spec fn const_entry_ok<F: Field>(n: Seq<Expr<F>>, v: F, id: ExprId) -> bool { inr(n, id) && n[id.0 as int] == Expr::<F>::Const(v) }
pub open spec fn cse_entry_ok<F: Field>(n: Seq<Expr<F>>, k: (BinOpKind, ExprId, ExprId), id: ExprId) -> bool {
    inr(n, id) && inr(n, k.1) && inr(n, k.2) && forall|leaf: Leaf<F>| #[trigger] d(n, leaf, id) == binop(k.0, d(n, leaf, k.1), d(n, leaf, k.2))
}
pub open spec fn mul_add_entry_ok<F: Field>(n: Seq<Expr<F>>, k: MulAddKey, id: ExprId) -> bool {
    inr(n, id) && inr(n, k.a) && inr(n, k.b) && inr(n, k.c) && forall|leaf: Leaf<F>| #[trigger] d(n, leaf, id) == d(n, leaf, k.a).fmul(d(n, leaf, k.b)).fadd(d(n, leaf, k.c))
}
pub open spec fn horner_entry_ok<F: Field>(n: Seq<Expr<F>>, k: HornerAccKey, id: ExprId) -> bool {
    inr(n, id) && inr(n, k.acc) && inr(n, k.alpha) && inr(n, k.p_at_z) && inr(n, k.p_at_x)
        && forall|leaf: Leaf<F>| #[trigger] d(n, leaf, id) == d(n, leaf, k.acc).fmul(d(n, leaf, k.alpha)).fadd(d(n, leaf, k.p_at_z)).fsub(d(n, leaf, k.p_at_x))
}
pub open spec fn bool_entry_ok<F: Field>(n: Seq<Expr<F>>, k: ExprId, id: ExprId) -> bool { inr(n, id) && inr(n, k) && n[id.0 as int] == (Expr::<F>::BoolCheck { val: k }) }
impl<F: FX> ExpressionBuilder<F> {
    pub open spec fn nodes(&self) -> Seq<Expr<F>> { self.graph.nodes@ }
    pub open spec fn graph_wf(&self) -> bool {
        let n = self.nodes();
        &&& 0 < n.len() < 0xFFFF_FFFF && n[0] == Expr::<F>::Const(F::fzero())
        &&& forall|i: int| 0 <= i < n.len() ==> ops_lt(#[trigger] n[i], i)
    }
    /// representation invariant: a well-formed DAG whose node 0 is the constant zero, and pools that only map a key to a node denoting the keyed operation
    pub open spec fn wf(&self) -> bool {
        let n = self.nodes();
        &&& self.graph_wf()
        &&& forall|v: F| #[trigger] self.const_pool@.dom().contains(v) ==> const_entry_ok(n, v, self.const_pool@[v])
        &&& forall|k: (BinOpKind, ExprId, ExprId)| #[trigger] self.cse_pool@.dom().contains(k) ==> cse_entry_ok(n, k, self.cse_pool@[k])
        &&& forall|k: MulAddKey| #[trigger] self.mul_add_pool@.dom().contains(k) ==> mul_add_entry_ok(n, k, self.mul_add_pool@[k])
        &&& forall|k: HornerAccKey| #[trigger] self.horner_acc_pool@.dom().contains(k) ==> horner_entry_ok(n, k, self.horner_acc_pool@[k])
        &&& forall|k: ExprId| #[trigger] self.bool_check_pool@.dom().contains(k) ==> bool_entry_ok(n, k, self.bool_check_pool@[k])
    }
    /// the invariant survives growing the graph and adding pool entries that are correct in the grown graph
    pub proof fn lemma_wf_grow(s0: &Self, s1: &Self)
        requires
            s0.wf(), is_prefix(s0.nodes(), s1.nodes()), s1.nodes().len() < 0xFFFF_FFFF,
            forall|i: int| s0.nodes().len() <= i < s1.nodes().len() ==> ops_lt(#[trigger] s1.nodes()[i], i),
            forall|v: F| #[trigger] s1.const_pool@.dom().contains(v) ==> (s0.const_pool@.dom().contains(v) && s1.const_pool@[v] == s0.const_pool@[v]) || const_entry_ok(s1.nodes(), v, s1.const_pool@[v]),
            forall|k: (BinOpKind, ExprId, ExprId)| #[trigger] s1.cse_pool@.dom().contains(k) ==> (s0.cse_pool@.dom().contains(k) && s1.cse_pool@[k] == s0.cse_pool@[k]) || cse_entry_ok(s1.nodes(), k, s1.cse_pool@[k]),
            forall|k: MulAddKey| #[trigger] s1.mul_add_pool@.dom().contains(k) ==> (s0.mul_add_pool@.dom().contains(k) && s1.mul_add_pool@[k] == s0.mul_add_pool@[k]) || mul_add_entry_ok(s1.nodes(), k, s1.mul_add_pool@[k]),
            forall|k: HornerAccKey| #[trigger] s1.horner_acc_pool@.dom().contains(k) ==> (s0.horner_acc_pool@.dom().contains(k) && s1.horner_acc_pool@[k] == s0.horner_acc_pool@[k]) || horner_entry_ok(s1.nodes(), k, s1.horner_acc_pool@[k]),
            forall|k: ExprId| #[trigger] s1.bool_check_pool@.dom().contains(k) ==> (s0.bool_check_pool@.dom().contains(k) && s1.bool_check_pool@[k] == s0.bool_check_pool@[k]) || bool_entry_ok(s1.nodes(), k, s1.bool_check_pool@[k]),
        ensures s1.wf()
    {
        let (a, b) = (s0.nodes(), s1.nodes());
        lemma_den_ext_all(a, b);
        assert forall|i: int| 0 <= i < a.len() implies b[i] == a[i] by { assert(b.subrange(0, a.len() as int)[i] == a[i]); }
        assert forall|i: int| 0 <= i < b.len() implies ops_lt(#[trigger] b[i], i) by { if i < a.len() { assert(ops_lt(a[i], i)); } }
        assert forall|v: F| #[trigger] s1.const_pool@.dom().contains(v) implies const_entry_ok(b, v, s1.const_pool@[v]) by {
            if s0.const_pool@.dom().contains(v) && s1.const_pool@[v] == s0.const_pool@[v] { assert(const_entry_ok(a, v, s0.const_pool@[v])); }
        }
        assert forall|k: (BinOpKind, ExprId, ExprId)| #[trigger] s1.cse_pool@.dom().contains(k) implies cse_entry_ok(b, k, s1.cse_pool@[k]) by {
            if s0.cse_pool@.dom().contains(k) && s1.cse_pool@[k] == s0.cse_pool@[k] {
                let id = s0.cse_pool@[k]; assert(cse_entry_ok(a, k, id));
                assert forall|leaf: Leaf<F>| #[trigger] d(b, leaf, id) == binop(k.0, d(b, leaf, k.1), d(b, leaf, k.2)) by { assert(d(a, leaf, id) == binop(k.0, d(a, leaf, k.1), d(a, leaf, k.2))); }
            }
        }
        assert forall|k: MulAddKey| #[trigger] s1.mul_add_pool@.dom().contains(k) implies mul_add_entry_ok(b, k, s1.mul_add_pool@[k]) by {
            if s0.mul_add_pool@.dom().contains(k) && s1.mul_add_pool@[k] == s0.mul_add_pool@[k] {
                let id = s0.mul_add_pool@[k]; assert(mul_add_entry_ok(a, k, id));
                assert forall|leaf: Leaf<F>| #[trigger] d(b, leaf, id) == d(b, leaf, k.a).fmul(d(b, leaf, k.b)).fadd(d(b, leaf, k.c)) by { assert(d(a, leaf, id) == d(a, leaf, k.a).fmul(d(a, leaf, k.b)).fadd(d(a, leaf, k.c))); }
            }
        }
        assert forall|k: HornerAccKey| #[trigger] s1.horner_acc_pool@.dom().contains(k) implies horner_entry_ok(b, k, s1.horner_acc_pool@[k]) by {
            if s0.horner_acc_pool@.dom().contains(k) && s1.horner_acc_pool@[k] == s0.horner_acc_pool@[k] {
                let id = s0.horner_acc_pool@[k]; assert(horner_entry_ok(a, k, id));
                assert forall|leaf: Leaf<F>| #[trigger] d(b, leaf, id) == d(b, leaf, k.acc).fmul(d(b, leaf, k.alpha)).fadd(d(b, leaf, k.p_at_z)).fsub(d(b, leaf, k.p_at_x)) by {
                    assert(d(a, leaf, id) == d(a, leaf, k.acc).fmul(d(a, leaf, k.alpha)).fadd(d(a, leaf, k.p_at_z)).fsub(d(a, leaf, k.p_at_x)));
                }
            }
        }
        assert forall|k: ExprId| #[trigger] s1.bool_check_pool@.dom().contains(k) implies bool_entry_ok(b, k, s1.bool_check_pool@[k]) by {
            if s0.bool_check_pool@.dom().contains(k) && s1.bool_check_pool@[k] == s0.bool_check_pool@[k] { assert(bool_entry_ok(a, k, s0.bool_check_pool@[k])); }
        }
    }
    /// `final` is `old` with a grown graph: every old id keeps its denotation
    pub open spec fn grows(&self, old: &Self) -> bool { is_prefix(old.nodes(), self.nodes()) && self.pending_connects == old.pending_connects }
    /// `self.log_alloc(..)` is a no-op without the `debugging` feature
    pub fn log_alloc(&mut self, id: ExprId, label: &'static str) ensures *final(self) == *old(self) {}
}
/// val is asserted boolean by a BoolCheck node of the graph
pub open spec fn is_checked<F>(nodes: Seq<Expr<F>>, val: ExprId) -> bool { exists|i: int| 0 <= i < nodes.len() && #[trigger] nodes[i] == (Expr::<F>::BoolCheck { val }) }

// ---------------------------------------------------------------------------------------------------- ring facts
pub proof fn lemma_mul_zero<F: Field>(a: F) ensures a.fmul(F::fzero()) == F::fzero(), F::fzero().fmul(a) == F::fzero() {
    let z = F::fzero(); let az = a.fmul(z);
    F::add_zero(z); F::distrib(a, z, z);
    assert(az == az.fadd(az));
    F::add_neg(az); F::add_assoc(az, az, az.fneg()); F::add_zero(az);
    F::mul_comm(a, z);
}
pub proof fn lemma_sub_zero<F: Field>(a: F) ensures a.fsub(F::fzero()) == a {
    let z = F::fzero();
    F::sub_def(a, z); F::add_neg(z); lemma_zero_add(z.fneg()); F::add_zero(a);
}
pub proof fn lemma_sub_self<F: Field>(a: F) ensures a.fsub(a) == F::fzero() { F::sub_def(a, a); F::add_neg(a); }
pub proof fn lemma_div_one<F: Field>(a: F) ensures a.fdiv(F::fone()) == a {
    let o = F::fone();
    F::zero_ne_one(); F::mul_inv(o); lemma_one_mul(o.finv());
    F::div_def(a, o); F::mul_one(a);
}
pub proof fn lemma_zero_div<F: Field>(b: F) ensures F::fzero().fdiv(b) == F::fzero() { F::div_def(F::fzero(), b); lemma_mul_zero(b.finv()); }
pub proof fn lemma_div_self<F: Field>(a: F) requires a != F::fzero() ensures a.fdiv(a) == F::fone() { F::div_def(a, a); F::mul_inv(a); }
} // verus!
'''


def field_arith(expr):
    """R11: an arithmetic expression over identifiers with binary + - * (usual precedence, left associative) -> method calls .add/.sub/.mul"""
    toks = re.findall(r'\w+|[-+*]', expr)
    if ''.join(toks) != re.sub(r'\s+', '', expr):
        raise ExtractError(f'field expression outside the translator: {expr}')
    pos = [0]

    def atom():
        t = toks[pos[0]]
        if not re.match(r'\w+$', t):
            raise ExtractError(f'field expression outside the translator: {expr}')
        pos[0] += 1
        return t

    def term():
        x = atom()
        while pos[0] < len(toks) and toks[pos[0]] == '*':
            pos[0] += 1
            x = f'{x}.mul({atom()})'
        return x

    x = term()
    while pos[0] < len(toks) and toks[pos[0]] in '+-':
        op = toks[pos[0]]
        pos[0] += 1
        x = f'{x}.{"add" if op == "+" else "sub"}({term()})'
    return x


def types_from_repo():
    D = '#[derive(Clone, Copy, PartialEq, Eq, Hash, Structural)]\n'
    E = 'circuit/src/builder/expression_builder.rs'
    t = [D + extract_item(E, r'enum BinOpKind\b'), D + extract_item(E, r'struct MulAddKey\b'), D + extract_item(E, r'struct HornerAccKey\b'),
         extract_item('circuit/src/expr.rs', r'pub enum Expr<F>')]
    t = [re.sub(r'(\n\s+)(\w+): ExprId', r'\1pub \2: ExprId', x) if 'struct' in x.split('{')[0] else x for x in t]
    t = [re.sub(r'^(\s*(?:#\[[^\]]*\]\s*)*)(enum|struct)\b', r'\1pub \2', x, flags=re.M) for x in t]
    return '\n\n'.join(t)


def build():
    u = Unit('expr', ['C02'])
    u.rlimit = 100
    u.cfgs = dict(u.cfgs, **{'feature="debugging"': False, 'feature="profiling"': False})
    u.assume('field laws (commutative ring with 1, inverses of non-zero elements); exec field operators + - * == are the spec operations (trait FX/FieldX); Dup::dup returns an equal value')
    u.assume('derived Hash/Eq of BinOpKind/MulAddKey/HornerAccKey/ExprId tuples and Hash/Eq of the field type obey vstd::std_specs::hash::obeys_key_model; hashbrown maps treated as std (R7)')
    u.assume('an expression graph holds fewer than 2^32 - 1 nodes: ExprId(len as u32) is treated as non-truncating (axiom graph_ids_fit_u32; the builder does not check)')
    u.assume('built without the `debugging` and `profiling` cargo features (R10): allocation log, scope stack and counters are absent; log_alloc is the no-op of that configuration')
    fld = open(os.path.join(HERE, 'gadget_prelude.rs')).read()
    fld = fld[:fld.index('// =====================================================================================================\n// Circuit builder interface')] + '\n} // verus!\n'
    u.text(fld)
    u.text(PRELUDE.replace('@@TYPES@@', types_from_repo()))

    G = 'circuit/src/expr.rs'
    ae = u.extract(G, r'impl<F> ExpressionGraph<F>', 'add_expr', 'ExpressionGraph::add_expr')
    ae.ensures('appends_and_returns_the_new_position', 'final(self).nodes@ == old(self).nodes@.push(expr) && ret.0 == old(self).nodes@.len()')
    ge = u.extract(G, r'impl<F> ExpressionGraph<F>', 'get_expr', 'ExpressionGraph::get_expr')
    ge.requires('in_range', '(id.0 as int) < self.nodes@.len()')
    ge.ensures('the_node', '*ret == self.nodes@[id.0 as int]')
    gn = u.extract(G, r'impl<F> ExpressionGraph<F>', 'new', 'ExpressionGraph::new')
    gn.sig_rewrite('R12', '-> Self', '-> ExpressionGraph<F>')
    gn.rewrite_re('R12', r'\bSelf \{', 'ExpressionGraph {')
    gn.ensures('empty', 'ret.nodes@.len() == 0')
    u.text('verus! {\nimpl<F> ExpressionGraph<F> {')
    u.emit(gn, vis='pub')
    u.emit(ae, vis='pub')
    u.emit(ge, vis='pub')
    u.text('}\n}')

    E = 'circuit/src/builder/expression_builder.rs'
    mk = u.extract(E, r'impl MulAddKey', 'new', 'MulAddKey::new')
    mk.sig_rewrite('R12', '-> Self', '-> MulAddKey')
    mk.rewrite_re('R12', r'\bSelf \{', 'MulAddKey {')
    mk.ensures('normalised_on_the_commutative_pair', 'ret.c == c && ((ret.a == a && ret.b == b) || (ret.a == b && ret.b == a))')
    u.text('verus! {\nimpl MulAddKey {')
    u.emit(mk, vis='pub')
    u.text('}\n}')

    # key / kind helpers a change may introduce next to the builder methods: pure methods of the key types are reasoned about by their bodies
    from vf.unit import pull_pure_type_helpers
    for ty_, known_ in (('BinOpKind', ()), ('MulAddKey', ('new',)), ('HornerAccKey', ('new',))):
        u.text(pull_pure_type_helpers(u, E, ty_, known_))
    IMPL = r'impl<F> ExpressionBuilder<F>'
    fns = []

    def ext(name):
        f = u.extract(E, IMPL, name, f'ExpressionBuilder::{name}')
        # R4: matches!(E, PAT if COND) -> match
        def un_matches(body):
            while True:
                m = re.search(r'matches!\(', body)
                if not m:
                    return body
                o = m.end() - 1
                c = match_brace(body, o)
                inner = body[o + 1:c]
                # split at the top-level comma after the scrutinee
                depth, k = 0, 0
                for k, ch in enumerate(inner):
                    if ch in '([{':
                        depth += 1
                    elif ch in ')]}':
                        depth -= 1
                    elif ch == ',' and depth == 0:
                        break
                scrut, rest = inner[:k].strip(), inner[k + 1:].strip()
                mm = re.match(r'(.*?)\s+if\s+(.*)$', rest, flags=re.S)
                pat, cond = (mm.group(1), mm.group(2)) if mm else (rest, 'true')
                body = body[:m.start()] + f'(match {scrut} {{ {pat} => {cond}, _ => false }})' + body[c + 1:]
        nb = un_matches(f.body)
        if nb != f.body:
            f.body = nb
            f.rewrites.append(('R4', '`matches!(E, PAT if COND)` -> `match E { PAT => COND, _ => false }`', ''))
        f.rewrite_re('R11', r'\*val == F::(ZERO|ONE)', lambda m: f'val.eq_(&F::{m.group(1).lower()}())')
        f.rewrite_re('R11', r'\bF::ONE\b', 'F::one()')
        f.rewrite_re('R11', r'\bF::ZERO\b', 'F::zero()')
        # R4: `if let Some(&X) = E {` -> `if let Some(x_r) = E { let X = *x_r;`
        f.rewrite_re('R4', r'if let Some\(&(\w+)\) = ([^{]+?) \{', r'if let Some(r_\1) = \2 { let \1 = *r_\1;')
        # R11: field arithmetic handed to define_const
        def fa(m):
            return f'self.define_const({field_arith(m.group(1))}, label)'
        f.rewrite_re('R11', r'self\.define_const\(([^,()]*[-+*][^,()]*), label\)', fa)
        f.rewrite_re('R8', r'self\.log_alloc\((\w+), label, \|\| \(\)\);', r'self.log_alloc(\1, label);')
        split_or_pattern_guard_arms(f)
        # partial correctness: a (mutually) recursive builder operation is checked against the callee contracts, termination is not claimed
        f.attr('#[verifier::exec_allows_no_decreases_clause]')
        fns.append(f)
        return f

    WF = 'old(self).wf()'
    def common(f, operands, extra_start=''):
        f.requires('representation_invariant', WF)
        if operands:
            f.requires('operands_allocated', ' && '.join(f'inr(old(self).nodes(), {o})' for o in operands))
        f.ensures('invariant_kept_graph_only_grows', 'final(self).wf() && final(self).grows(old(self)) && inr(final(self).nodes(), ret)')
        f.at_start('proof { F::key_model(); } let ghost n0 = self.nodes(); let ghost s0 = *self; ' + extra_start)

    z = ext('is_const_zero'); z.requires('in_range', 'inr(self.nodes(), id)'); z.ensures('iff_the_node_is_the_constant_zero', 'ret == (self.nodes()[id.0 as int] == Expr::<F>::Const(F::fzero()))')
    o = ext('is_const_one'); o.requires('in_range', 'inr(self.nodes(), id)'); o.ensures('iff_the_node_is_the_constant_one', 'ret == (self.nodes()[id.0 as int] == Expr::<F>::Const(F::fone()))')
    gc = ext('get_const_value'); gc.requires('in_range', 'inr(self.nodes(), id)')
    gc.ensures('the_constant_of_a_constant_node', 'match ret { Some(v) => self.nodes()[id.0 as int] == Expr::<F>::Const(v), None => !(self.nodes()[id.0 as int] is Const) }')

    dc = ext('define_const')
    common(dc, [])
    dc.ensures('denotes_the_constant', 'forall|leaf: Leaf<F>| #[trigger] d(final(self).nodes(), leaf, ret) == val')
    dc.bind_tail('r_', '', before_text='''proof {
            assert(is_prefix(n0, self.nodes()));
            assert(ops_lt(self.nodes()[n0.len() as int], n0.len() as int));
            ExpressionBuilder::lemma_wf_grow(&s0, self);
        }''')
    dc.ensures('is_a_constant_node', 'final(self).nodes()[ret.0 as int] == Expr::<F>::Const(val)')

    ab = ext('add_bin_op')
    ab.ensures('appends_the_node', 'final(self).nodes() == old(self).nodes().push(expr) && ret.0 == old(self).nodes().len() && final(self).const_pool == old(self).const_pool && final(self).cse_pool == old(self).cse_pool '
               '&& final(self).mul_add_pool == old(self).mul_add_pool && final(self).horner_acc_pool == old(self).horner_acc_pool && final(self).bool_check_pool == old(self).bool_check_pool && final(self).pending_connects == old(self).pending_connects')

    D0 = lambda x: f'd(n0, leaf, {x})'

    def binop_fn(name, kind, specop, start_facts, value_post=None):
        f = ext(name)
        common(f, ['lhs', 'rhs'], 'proof { assert(n0[0] == Expr::<F>::Const(F::fzero())); assert forall|leaf: Leaf<F>| true implies ' + start_facts + ' by { ' + FACT_PROOF + ' } }')
        post = value_post or f'forall|leaf: Leaf<F>| #[trigger] d(final(self).nodes(), leaf, ret) == d(old(self).nodes(), leaf, lhs).{specop}(d(old(self).nodes(), leaf, rhs))'
        f.ensures('result_denotes_the_operation_on_the_operands_for_every_valuation', post)
        # identities used by the folding shortcuts: facts about the OLD graph only, so they sit at the start (no anchor inside the body)
        # allocation path: the new node denotes the operation; the pool entry filed for it is correct in the grown graph
        f.bind_tail('r_', '', before_text=f'''proof {{
            let n1 = self.nodes();
            assert(is_prefix(n0, n1)); lemma_den_ext_all(n0, n1);
            assert(n1[n0.len() as int] == (Expr::<F>::{kind} {{ lhs, rhs }})); // @@A:new_node_is_the_operation_on_the_given_operands
            assert(ops_lt(n1[n0.len() as int], n0.len() as int));
            assert forall|leaf: Leaf<F>| #[trigger] d(n1, leaf, expr_id) == d(n0, leaf, lhs).{specop}(d(n0, leaf, rhs)) by {{ assert(d(n1, leaf, lhs) == d(n0, leaf, lhs) && d(n1, leaf, rhs) == d(n0, leaf, rhs)); }}
            assert(cse_entry_ok(n1, key, expr_id)) by {{
                assert forall|leaf: Leaf<F>| #[trigger] d(n1, leaf, expr_id) == binop(key.0, d(n1, leaf, key.1), d(n1, leaf, key.2)) by {{
                    assert(d(n1, leaf, lhs) == d(n0, leaf, lhs) && d(n1, leaf, rhs) == d(n0, leaf, rhs));
                    F::add_comm(d(n0, leaf, lhs), d(n0, leaf, rhs)); F::mul_comm(d(n0, leaf, lhs), d(n0, leaf, rhs));
                }}
            }} // @@A:pool_entry_filed_under_a_key_that_denotes_the_same_operation
            ExpressionBuilder::lemma_wf_grow(&s0, self);
        }}''')
        return f

    FACT_PROOF = '''let (x, y) = (d(n0, leaf, lhs), d(n0, leaf, rhs));
            lemma_zero_add(y); F::add_zero(x); F::add_comm(x, y); lemma_sub_zero(x); lemma_sub_self(x); lemma_mul_zero(x); lemma_mul_zero(y); lemma_one_mul(y); F::mul_one(x); F::mul_comm(x, y);
            lemma_div_one(x); lemma_zero_div(y); if y != F::fzero() { lemma_div_self(y); }'''
    Z, O = 'F::fzero()', 'F::fone()'
    binop_fn('add', 'Add', 'fadd', f'({D0("lhs")} == {Z} ==> {D0("rhs")} == {D0("lhs")}.fadd({D0("rhs")})) && ({D0("rhs")} == {Z} ==> {D0("lhs")} == {D0("lhs")}.fadd({D0("rhs")})) && {D0("rhs")}.fadd({D0("lhs")}) == {D0("lhs")}.fadd({D0("rhs")})')
    binop_fn('sub', 'Sub', 'fsub', f'({D0("rhs")} == {Z} ==> {D0("lhs")} == {D0("lhs")}.fsub({D0("rhs")})) && {D0("lhs")}.fsub({D0("lhs")}) == {Z}')
    binop_fn('mul', 'Mul', 'fmul', f'{D0("lhs")}.fmul({Z}) == {Z} && {Z}.fmul({D0("rhs")}) == {Z} && {O}.fmul({D0("rhs")}) == {D0("rhs")} && {D0("lhs")}.fmul({O}) == {D0("lhs")} && {D0("rhs")}.fmul({D0("lhs")}) == {D0("lhs")}.fmul({D0("rhs")})')
    binop_fn('div', 'Div', 'fdiv', f'{D0("lhs")}.fdiv({O}) == {D0("lhs")} && {Z}.fdiv({D0("rhs")}) == {Z} && ({D0("rhs")} != {Z} ==> {D0("rhs")}.fdiv({D0("rhs")}) == {O})',
             value_post='forall|leaf: Leaf<F>| d(old(self).nodes(), leaf, rhs) != F::fzero() ==> #[trigger] d(final(self).nodes(), leaf, ret) == d(old(self).nodes(), leaf, lhs).fdiv(d(old(self).nodes(), leaf, rhs))')

    # ---- add_horner_acc: acc * alpha + p_at_z - p_at_x
    h = ext('add_horner_acc')
    common(h, ['acc', 'alpha', 'p_at_z', 'p_at_x'])
    HV = lambda n: f'd({n}, leaf, acc).fmul(d({n}, leaf, alpha)).fadd(d({n}, leaf, p_at_z)).fsub(d({n}, leaf, p_at_x))'
    h.ensures('result_denotes_the_horner_step_for_every_valuation', f'forall|leaf: Leaf<F>| #[trigger] d(final(self).nodes(), leaf, ret) == {HV("old(self).nodes()")}')
    h.bind_tail('r_', '', before_text=f'''proof {{
            let n1 = self.nodes();
            assert(is_prefix(n0, n1)); lemma_den_ext_all(n0, n1);
            assert(n1[n0.len() as int] == (Expr::<F>::HornerAcc {{ acc, alpha, p_at_z, p_at_x }})); // @@A:new_node_is_the_horner_step_on_the_given_operands
            assert(ops_lt(n1[n0.len() as int], n0.len() as int));
            assert forall|leaf: Leaf<F>| #[trigger] d(n1, leaf, expr_id) == {HV("n0")} by {{
                assert(d(n1, leaf, acc) == d(n0, leaf, acc) && d(n1, leaf, alpha) == d(n0, leaf, alpha) && d(n1, leaf, p_at_z) == d(n0, leaf, p_at_z) && d(n1, leaf, p_at_x) == d(n0, leaf, p_at_x));
            }}
            assert(horner_entry_ok(n1, key, expr_id)) by {{
                assert forall|leaf: Leaf<F>| #[trigger] d(n1, leaf, expr_id) == d(n1, leaf, key.acc).fmul(d(n1, leaf, key.alpha)).fadd(d(n1, leaf, key.p_at_z)).fsub(d(n1, leaf, key.p_at_x)) by {{
                    assert(d(n1, leaf, acc) == d(n0, leaf, acc) && d(n1, leaf, alpha) == d(n0, leaf, alpha) && d(n1, leaf, p_at_z) == d(n0, leaf, p_at_z) && d(n1, leaf, p_at_x) == d(n0, leaf, p_at_x));
                }}
            }} // @@A:horner_pool_entry_filed_under_its_own_operands
            ExpressionBuilder::lemma_wf_grow(&s0, self);
        }}''')

    # ---- add_mul_add: a * b + c
    ma = ext('add_mul_add')
    common(ma, ['a', 'b', 'c'], 'proof { assert forall|leaf: Leaf<F>| true implies d(n0, leaf, b).fmul(d(n0, leaf, a)) == d(n0, leaf, a).fmul(d(n0, leaf, b)) by { F::mul_comm(d(n0, leaf, a), d(n0, leaf, b)); } }')
    MV = lambda n: f'd({n}, leaf, a).fmul(d({n}, leaf, b)).fadd(d({n}, leaf, c))'
    ma.ensures('result_denotes_a_times_b_plus_c_for_every_valuation', f'forall|leaf: Leaf<F>| #[trigger] d(final(self).nodes(), leaf, ret) == {MV("old(self).nodes()")}')
    ma.bind_tail('r_', '', before_text=f'''proof {{
            let n1 = self.nodes();
            assert(is_prefix(n0, n1)); lemma_den_ext_all(n0, n1);
            assert(n1[n0.len() as int] == (Expr::<F>::MulAdd {{ a, b, c }})); // @@A:new_node_is_the_mul_add_on_the_given_operands
            assert(ops_lt(n1[n0.len() as int], n0.len() as int));
            assert forall|leaf: Leaf<F>| #[trigger] d(n1, leaf, expr_id) == {MV("n0")} by {{ assert(d(n1, leaf, a) == d(n0, leaf, a) && d(n1, leaf, b) == d(n0, leaf, b) && d(n1, leaf, c) == d(n0, leaf, c)); }}
            assert(mul_add_entry_ok(n1, key, expr_id)) by {{
                assert forall|leaf: Leaf<F>| #[trigger] d(n1, leaf, expr_id) == d(n1, leaf, key.a).fmul(d(n1, leaf, key.b)).fadd(d(n1, leaf, key.c)) by {{
                    assert(d(n1, leaf, a) == d(n0, leaf, a) && d(n1, leaf, b) == d(n0, leaf, b) && d(n1, leaf, c) == d(n0, leaf, c));
                    F::mul_comm(d(n0, leaf, a), d(n0, leaf, b));
                }}
            }} // @@A:mul_add_pool_entry_filed_under_a_key_that_denotes_the_same_operation
            ExpressionBuilder::lemma_wf_grow(&s0, self);
        }}''')

    # ---- add_bool_check: same value; and val is either asserted boolean by a node or a constant 0/1
    bc = ext('add_bool_check')
    common(bc, ['val'], 'proof { if s0.bool_check_pool@.dom().contains(val) { let e = s0.bool_check_pool@[val]; assert(bool_entry_ok(n0, val, e)); assert(n0[e.0 as int] == (Expr::<F>::BoolCheck { val })); assert(is_checked(n0, val)); assert(ops_lt(n0[e.0 as int], e.0 as int)); } }')
    bc.ensures('result_denotes_the_checked_value', 'forall|leaf: Leaf<F>| #[trigger] d(final(self).nodes(), leaf, ret) == d(old(self).nodes(), leaf, val)')
    bc.ensures('value_is_asserted_boolean_or_is_a_boolean_constant',
               'is_checked(final(self).nodes(), val) || old(self).nodes()[val.0 as int] == Expr::<F>::Const(F::fzero()) || old(self).nodes()[val.0 as int] == Expr::<F>::Const(F::fone())')
    bc.bind_tail('r_', '', before_text='''proof {
            let n1 = self.nodes();
            assert(is_prefix(n0, n1)); lemma_den_ext_all(n0, n1);
            assert(n1[n0.len() as int] == (Expr::<F>::BoolCheck { val })); // @@A:new_node_checks_the_given_value
            assert(ops_lt(n1[n0.len() as int], n0.len() as int));
            assert forall|leaf: Leaf<F>| #[trigger] d(n1, leaf, expr_id) == d(n0, leaf, val) by { assert(d(n1, leaf, val) == d(n0, leaf, val)); }
            assert(bool_entry_ok(n1, val, expr_id));
            ExpressionBuilder::lemma_wf_grow(&s0, self);
        }''')
    # the pool-hit return: the cached node is a BoolCheck of val (from wf), hence is_checked

    nw = ext('new')
    nw.sig_rewrite('R12', '-> Self', '-> ExpressionBuilder<F>')
    nw.rewrite_re('R12', r'\bSelf \{', 'ExpressionBuilder {')
    nw.rewrite('R6', 'let const_pool = [(zero_val, zero_id)].into();', 'let const_pool = { let mut m_ = HashMap::new(); m_.insert(zero_val, zero_id); m_ };')
    nw.at_start('proof { F::key_model(); }')
    nw.ensures('establishes_the_invariant_with_the_zero_constant_at_id_0', 'ret.wf() && ret.nodes().len() == 1 && ret.pending_connects@.len() == 0')

    for leafname, ctor in (('public', 'Public'), ('private_input', 'PrivateInput')):
        lf = ext(leafname)
        common(lf, [])
        lf.ensures('fresh_input_node', f'final(self).nodes() == old(self).nodes().push(Expr::<F>::{ctor}(pos)) && ret.0 == old(self).nodes().len()')
        lf.ensures('denotes_its_valuation', 'forall|leaf: Leaf<F>| #[trigger] d(final(self).nodes(), leaf, ret) == leaf(ret.0 as int)')
        lf.bind_tail('r_', '', before_text='''proof { assert(is_prefix(n0, self.nodes())); assert(ops_lt(self.nodes()[n0.len() as int], n0.len() as int)); ExpressionBuilder::lemma_wf_grow(&s0, self); }''')

    cn = ext('connect')
    cn.ensures('records_the_pair_unless_trivial', 'final(self).pending_connects@ == (if a != b { old(self).pending_connects@.push((a, b)) } else { old(self).pending_connects@ })')
    cn.ensures('graph_and_pools_untouched', 'final(self).graph == old(self).graph && final(self).const_pool == old(self).const_pool && final(self).cse_pool == old(self).cse_pool && final(self).mul_add_pool == old(self).mul_add_pool '
               '&& final(self).horner_acc_pool == old(self).horner_acc_pool && final(self).bool_check_pool == old(self).bool_check_pool')

    u.text('verus! {\nimpl<F: FX> ExpressionBuilder<F> {')
    for f in fns:
        u.emit(f, vis='pub')
    u.text('}\n}')
    return u
