"""Unit `extkind` (C10, C16): AluExtMulKind::resolve (circuit-prover/src/air/alu_air.rs) -- "the single source of truth for the (degree, w, quintic flag)
trichotomy shared by the prove, native-verify and recursive-verify paths".  Every extension the provers support must resolve (C10: a circuit over a degree-5
BINOMIAL field is provable), and the verifier must derive the same reduction the prover used (C16):
  d == 1 -> Base;  d == 5 with the quintic flag -> the quintic trinomial;  every other (d, flag) -> the binomial x^d = w, and only a missing w is an error."""
import re

from vf.extract import extract_item
from vf.unit import Unit

PRELUDE = r'''
#![allow(unused_imports, unused_variables, dead_code, unused_mut, unused_parens)]
use vstd::prelude::*;
verus! {
global size_of usize == 8;
} // verus!
'''


def build():
    u = Unit('extkind', ['C10', 'C16'])
    u.rlimit = 20
    u.assume('Option::map / bool::then_some have their standard meaning (rewritten to match / if: R6)')
    u.text(PRELUDE)
    A = 'circuit-prover/src/air/alu_air.rs'
    en = extract_item(A, r'pub enum AluExtMulKind<F: Copy>')
    en = re.sub(r'#\[derive\([^)]*\)\]\s*', '', en)
    u.text('verus! {\n' + en + '\n}')
    f = u.extract(A, r'impl<F: Copy> AluExtMulKind<F>', 'resolve', 'AluExtMulKind::resolve')
    f.sig_rewrite('R12', '-> Option<Self>', '-> Option<AluExtMulKind<F>>')
    f.rewrite_re('R12', r'\bSelf::', 'AluExtMulKind::', min_count=0)
    f.rewrite_re('R6', r'(\w+)\.map\(\|(\w+)\| ([^)]*\{[^}]*\}|[^)]*)\)', r'(match \1 { Some(\2) => Some(\3), None => None })', min_count=0)
    f.rewrite_re('R6', r'(\w+)\.then_some\(([^)]*)\)', r'(if \1 { Some(\2) } else { None })', min_count=0)
    f.ensures('base_field', 'd == 1 ==> ret == Some(AluExtMulKind::<F>::Base)')
    f.ensures('quintic_trinomial_only_for_degree_5_with_the_flag', 'd == 5 && quintic_trinomial ==> ret == Some(AluExtMulKind::<F>::QuinticTrinomial)')
    f.ensures('every_other_extension_is_the_binomial_with_the_given_w', 'd != 1 && !(d == 5 && quintic_trinomial) ==> ret == (match w { Some(x) => Some(AluExtMulKind::Binomial { w: x }), None => None::<AluExtMulKind<F>> })')
    u.text('verus! {\nimpl<F: Copy> AluExtMulKind<F> {')
    u.emit(f)
    u.text('}\n}')
    return u
