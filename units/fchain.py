"""Unit `fchain` (C07): the FRI fold chain of one query and the values it is fed with.

Real text: recursion/src/pcs/fri/verifier.rs {fold_chain_circuit, precompute_beta_powers_per_phase, precompute_two_adic_powers,
compute_final_query_point, precompute_subgroup_starts, precompute_evaluation_points}.
Spec: the chain is the left fold of the per-phase native fold (contract of fold_one_phase, proved in unit fold) over the phases, phase i
reading the index bits [sum k_<i, sum k_<=i), its own beta power and its own subgroup start; beta powers are beta_i^(2^k_i); the generator
powers are g^(2^j); the final query point / subgroup starts / evaluation points are select-mul chains over the reversed remaining bits."""
import os
import re

from vf.extract import extract_fn, match_brace
from vf.unit import Unit, Fn, unrange_map_collect_general
from units.fri import SPEC as FRI_SPEC
from units.fold import SPEC as FOLD_SPEC, erase_sig, common
from units import fold_phase

HERE = os.path.dirname(os.path.abspath(__file__))

SPEC = r'''
verus! {
pub struct FoldPhaseConfig { pub beta: Target, pub siblings: Vec<Target>, pub roll_in: Option<Target> }

/// sum of the first i log-arities: the number of index bits consumed before phase i
pub open spec fn off(ks: Seq<usize>, i: int) -> int decreases i { if i <= 0 { 0 } else { off(ks, i - 1) + ks[i - 1] } }
pub proof fn lemma_off_mono(ks: Seq<usize>, i: int, j: int) requires 0 <= i <= j ensures off(ks, i) <= off(ks, j) decreases j { if i < j { lemma_off_mono(ks, i, j - 1); } }
pub open spec fn row_v<F: Field>(fv: F, sib: Seq<F>, bits: Seq<F>) -> Seq<F> { Seq::new(p2(bits.len() as int) as nat, |j: int| placed(fv, sib, le_index(bits), j)) }
pub open spec fn opt_val<F: Field>(cb: &CircuitBuilder<F>, o: Option<ExprId>) -> Option<F> { match o { Some(r) => Some(cb.val(r)), None => None } }
/// the native fold chain: value after the first i phases
pub open spec fn chain_val<F: Field>(cb: &CircuitBuilder<F>, init: ExprId, bits: Seq<ExprId>, phases: Seq<FoldPhaseConfig>, ks: Seq<usize>, starts: Seq<F>, i: int) -> F decreases i {
    if i <= 0 { cb.val(init) } else {
        let p = phases[i - 1]; let k = ks[i - 1] as nat;
        let row = row_v(chain_val(cb, init, bits, phases, ks, starts, i - 1), cb.vals_of(p.siblings@), cb.vals_of(bits.subrange(off(ks, i - 1), off(ks, i - 1) + ks[i - 1])));
        with_roll_in(phase_value(row, cb.val(p.beta), starts[i - 1], k), cb.val(p.beta), k, opt_val(cb, p.roll_in))
    }
}
pub open spec fn phases_alloc<F: Field>(cb: &CircuitBuilder<F>, phases: Seq<FoldPhaseConfig>) -> bool {
    forall|i: int| 0 <= i < phases.len() ==> cb.has((#[trigger] phases[i]).beta) && cb.has_all(phases[i].siblings@) && (phases[i].roll_in matches Some(r) ==> cb.has(r))
}
/// the subgroup start of phase i as the native verifier computes it: g_i^{rev(parent index)} -- an uninterpreted function of exactly what
/// precompute_subgroup_starts reads (the index-bit values, the height, the arity schedule); its defining equation is the contract of that function
pub open spec fn sstart<F: Field>(bits: Seq<F>, lmh: nat, ks: Seq<usize>, i: int) -> F { sstart_def(bits, lmh, ks, i) }
/// the select-mul chain over the first n bits of `bits` against the powers pw: prod_{t<n} (bits[t] ? pw[t] : 1)
pub open spec fn selprod<F: Field>(bits: Seq<F>, pw: Seq<F>, n: int) -> F decreases n {
    if n <= 0 { F::fone() } else { selprod(bits, pw, n - 1).fmul(if bits[n - 1] == F::fone() { pw[n - 1] } else { F::fone() }) }
}
/// BTreeMap<usize, Vec<usize>> used as "which phases capture the chain after k bits": a map from k to the list of phases, in insertion order
pub struct CaptureAt { pub m: Ghost<Map<usize, Seq<usize>>> }
impl CaptureAt {
    #[verifier::external_body] pub fn new() -> (r: Self) ensures r.m@ == Map::<usize, Seq<usize>>::empty() { unimplemented!() }
    /// `self.entry(k).or_default().push(v)`
    #[verifier::external_body] pub fn push_at(&mut self, k: usize, v: usize)
        ensures final(self).m@ == old(self).m@.insert(k, (if old(self).m@.dom().contains(k) { old(self).m@[k] } else { Seq::<usize>::empty() }).push(v)) { unimplemented!() }
    #[verifier::external_body] pub fn get(&self, k: &usize) -> (r: Option<&Vec<usize>>)
        ensures (r matches Some(v) ==> self.m@.dom().contains(*k) && v@ == self.m@[*k]) && (r is None ==> !self.m@.dom().contains(*k)) { unimplemented!() }
}
/// the shared select-mul chain of precompute_subgroup_starts after n bits: prod_{t<n} (bits[lmh-1-t] ? lift(g^(2^t)) : 1), g = two_adic_generator(lmh)
pub open spec fn gchain<F: Field>(bits: Seq<F>, lmh: nat, n: int) -> F decreases n {
    if n <= 0 { F::fone() } else { gchain(bits, lmh, n - 1).fmul(if bits[lmh - n] == F::fone() { lift::<F>(nsqn(gen(lmh), (n - 1) as nat)) } else { F::fone() }) }
}
/// subgroup start of phase i: (chain after log_folded_height_i bits)^(2^bits consumed before phase i); 1 when nothing is left to index
pub open spec fn sstart_def<F: Field>(bits: Seq<F>, lmh: nat, ks: Seq<usize>, i: int) -> F {
    let lf0 = lmh - off(ks, 1); let lfi = lmh - off(ks, i + 1);
    if lf0 <= 0 { F::fone() } else if i == 0 { gchain(bits, lmh, lf0) } else if lfi > 0 { fpow(gchain(bits, lmh, lfi), pow2(off(ks, i) as nat)) } else { F::fone() }
}
pub open spec fn lfh_of(ks: Seq<usize>, lmh: int) -> Seq<int> { Seq::new(ks.len(), |i: int| lmh - off(ks, i + 1)) }
pub open spec fn cap_sound(m: Map<usize, Seq<usize>>, lfh: Seq<int>, i: int) -> bool {
    forall|k: usize, t: int| m.dom().contains(k) && 0 <= t < m[k].len() ==> 1 <= #[trigger] m[k][t] < i && m[k][t] < lfh.len() && lfh[m[k][t] as int] == k && k > 0
}
pub open spec fn cap_has(m: Map<usize, Seq<usize>>, k: usize, p: int) -> bool { m.dom().contains(k) && exists|t: int| 0 <= t < m[k].len() && #[trigger] m[k][t] == p }
pub open spec fn cap_complete(m: Map<usize, Seq<usize>>, lfh: Seq<int>, i: int) -> bool { forall|p: int| 1 <= p < i && p < lfh.len() && lfh[p] > 0 ==> #[trigger] cap_has(m, lfh[p] as usize, p) }
/// value a phase's slot holds after the chain has consumed j bits
pub open spec fn tgt<F: Field>(bv: Seq<F>, lmh: nat, ks: Seq<usize>, lfh: Seq<int>, p: int, j: int) -> F {
    if p >= 1 && 0 < lfh[p] <= j { fpow(gchain(bv, lmh, lfh[p]), pow2(off(ks, p) as nat)) } else { F::fone() }
}
pub open spec fn in_list(pi: Seq<usize>, p: int) -> bool { exists|t: int| 0 <= t < pi.len() && #[trigger] pi[t] == p }
pub proof fn lemma_cap_push(m: Map<usize, Seq<usize>>, lfh: Seq<int>, i: int, lf: usize)
    requires cap_sound(m, lfh, i), cap_complete(m, lfh, i), 1 <= i < lfh.len(), lfh[i] == lf, lf > 0, lfh.len() <= usize::MAX
    ensures ({ let m2 = m.insert(lf, (if m.dom().contains(lf) { m[lf] } else { Seq::<usize>::empty() }).push(i as usize)); cap_sound(m2, lfh, i + 1) && cap_complete(m2, lfh, i + 1) })
{
    let old_l = if m.dom().contains(lf) { m[lf] } else { Seq::<usize>::empty() };
    let m2 = m.insert(lf, old_l.push(i as usize));
    assert forall|k: usize, t: int| m2.dom().contains(k) && 0 <= t < m2[k].len() implies 1 <= #[trigger] m2[k][t] < i + 1 && m2[k][t] < lfh.len() && lfh[m2[k][t] as int] == k && k > 0 by {
        if k == lf { if t < old_l.len() { assert(m2[k][t] == old_l[t]); assert(m.dom().contains(lf)); assert(m[k][t] == old_l[t]); } } else { assert(m2[k] == m[k]); assert(m[k][t] == m2[k][t]); }
    }
    assert forall|p: int| 1 <= p < i + 1 && p < lfh.len() && lfh[p] > 0 implies #[trigger] cap_has(m2, lfh[p] as usize, p) by {
        if p == i { assert(m2[lf][old_l.len() as int] == i); }
        else { assert(cap_has(m, lfh[p] as usize, p)); let k = lfh[p] as usize; let t = choose|t: int| 0 <= t < m[k].len() && #[trigger] m[k][t] == p;
               if k == lf { assert(m2[k][t] == old_l[t]); } else { assert(m2[k] == m[k]); assert(m2[k][t] == p); } }
    }
}
pub proof fn lemma_cap_skip(m: Map<usize, Seq<usize>>, lfh: Seq<int>, i: int)
    requires cap_sound(m, lfh, i), cap_complete(m, lfh, i), 1 <= i < lfh.len(), lfh[i] <= 0
    ensures cap_sound(m, lfh, i + 1) && cap_complete(m, lfh, i + 1)
{
    assert forall|p: int| 1 <= p < i + 1 && p < lfh.len() && lfh[p] > 0 implies #[trigger] cap_has(m, lfh[p] as usize, p) by { assert(p < i); }
}
pub uninterp spec fn nsq(x: NF) -> NF;                          // x.square()
pub open spec fn nsqn(x: NF, j: nat) -> NF decreases j { if j == 0 { x } else { nsq(nsqn(x, (j - 1) as nat)) } }
/// reversed remaining bits, zero-padded in front: what compute_final_query_point runs its select-mul chain over
pub open spec fn final_bits<F: Field>(bits: Seq<F>, lmh: int, total: int) -> Seq<F> { Seq::new(lmh as nat, |t: int| if t < total { F::fzero() } else { bits[lmh - 1 - (t - total)] }) }
pub open spec fn imin(a: int, b: int) -> int { if a <= b { a } else { b } }
pub uninterp spec fn ninv(x: NF) -> NF;                         // x.inverse()
impl NF {
    #[verifier::external_body] pub fn square(&self) -> (r: NF) ensures r == nsq(*self) { unimplemented!() }
    #[verifier::external_body] pub fn inverse(&self) -> (r: NF) ensures r == ninv(*self) { unimplemented!() }
    #[verifier::external_body] pub fn exp_power_of_2(&self, k: usize) -> (r: NF) ensures r == nsqn(*self, k as nat) { unimplemented!() }
}
} // verus!
'''


def unzip_map_collect(f):
    """R6: `A.iter().zip(B.iter()).map(|(&x, &y)| BODY).collect()` -> loop over the common prefix pushing BODY (x, y bound to copies)"""
    m = re.search(r'(\w+)\s*\.iter\(\)\s*\.zip\((\w+)\.iter\(\)\)\s*\.map(\()\s*\|\(\s*&(\w+),\s*&(\w+)\s*\)\|', f.body)
    if not m:
        return f
    close = match_brace(f.body, m.start(3))
    inner = f.body[m.start(3) + 1:close]
    body = re.sub(r'^\s*\|[^|]*\|\s*', '', inner).strip().rstrip(',').strip()
    m2 = re.match(r'\s*\.collect\(\)', f.body[close + 1:])
    if not m2:
        return f
    a, b, x, y = m.group(1), m.group(2), m.group(4), m.group(5)
    new = (f'{{ let mut v_z_: Vec<Target> = Vec::new(); let n_z_ = if {a}.len() <= {b}.len() {{ {a}.len() }} else {{ {b}.len() }}; '
           f'for z_ in 0..n_z_ {{ let {x} = {a}[z_]; let {y} = {b}[z_]; let x_z_ = {body}; v_z_.push(x_z_); }} v_z_ }}')
    f.body = f.body[:m.start()] + new + f.body[close + 1 + m2.end():]
    f.rewrites.append(('R6', '`A.iter().zip(B.iter()).map(|(&x, &y)| BODY).collect()` -> loop over the common prefix pushing BODY', ''))
    return f


def unsuccessors(f):
    """R6: `iter::successors(Some(G), |&prev| Some(STEP)).take(N).map(|p| BODY).collect()` -> loop: N times { push BODY[p := cur]; cur = STEP[prev := cur] }
    (the lazy iterator evaluates STEP N-1 times, the loop N times: STEP is a pure native computation)"""
    m = re.search(r'iter::successors\(Some\((\w+)\),\s*\|&(\w+)\|\s*Some\(([^|]*?)\)\)\s*\.take\(([^|]*?)\)\s*\.map(\()\s*\|(\w+)\|', f.body)
    if not m:
        return f
    close = match_brace(f.body, m.start(5))
    inner = f.body[m.start(5) + 1:close]
    body = re.sub(r'^\s*\|[^|]*\|\s*', '', inner).strip().rstrip(',').strip()
    m2 = re.match(r'\s*\.collect\(\)', f.body[close + 1:])
    if not m2:
        return f
    g, prev, step, n, pv = m.group(1), m.group(2), m.group(3).strip(), m.group(4), m.group(6)
    new = (f'{{ let mut v_s_: Vec<Target> = Vec::new(); let mut cur_s_ = {g}; for s_ in 0..({n}) {{ let {pv} = cur_s_; let x_s_ = {body}; v_s_.push(x_s_); '
           f'cur_s_ = {{ let {prev} = cur_s_; {step} }}; }} v_s_ }}')
    f.body = f.body[:m.start()] + new + f.body[close + 1 + m2.end():]
    f.rewrites.append(('R6', '`iter::successors(Some(G), |&prev| Some(STEP)).take(N).map(|p| BODY).collect()` -> loop (BODY, STEP verbatim)', ''))
    return f


def unfor_zip(f):
    """R5: `for (&x, &y) in A.iter().zip(B.iter()) {` -> index loop over the common prefix"""
    f.rewrite_re('R5', r'for \(&(\w+), &(\w+)\) in (\w+)\.iter\(\)\.zip\((\w+)\.iter\(\)\) \{',
                 r'let n_fz_ = if \3.len() <= \4.len() { \3.len() } else { \4.len() }; for fz_ in 0..n_fz_ { let \1 = \3[fz_]; let \2 = \4[fz_];', min_count=0)
    return f


def unextend_rev_copied(f):
    """R6: `V.extend(W.iter().rev().copied());` -> `for er_ in 0..W.len() { V.push(W[W.len() - 1 - er_]); }`"""
    f.rewrite_re('R6', r'(\w+)\.extend\((\w+)\.iter\(\)\.rev\(\)\.copied\(\)\);', r'for er_ in 0..\2.len() { \1.push(\2[\2.len() - 1 - er_]); }', min_count=0)
    f.rewrite_re('R6', r'(\w+)\.extend\((\w+)\.iter\(\)\.copied\(\)\);', r'for ec_ in 0..\2.len() { \1.push(\2[ec_]); }', min_count=0)
    return f


def stub_fold_one_phase(u):
    """the contract of fold_one_phase exactly as unit fold proves it (same generator), body dropped"""
    fp = common(erase_sig(Fn(u, extract_fn('recursion/src/pcs/fri/verifier.rs', '', 'fold_one_phase', u.cfgs), 'fold_one_phase')))
    fold_phase.contract(fp)
    fp.body = '{ unimplemented!() }'
    fp.attr('#[verifier::external_body]')
    return fp.render().replace('// @@FN:', '// (contract proved in unit fold) ').replace('// @@ENDFN:', '// end ')


def contract_final_query_point(fq):
    fq.requires('allocated', 'old(builder).has_all(index_bits@) && old(builder).has_all(powers_of_g@) && total_bits_consumed <= log_max_height <= index_bits@.len() && all_bool(old(builder).vals_of(index_bits@))')
    fq.ensures('frame', 'final(builder).extends_pure(old(builder)) && final(builder).has(ret)')
    fq.ensures('select_mul_chain_over_reversed_remaining_bits', """({ let b = old(builder); let n = imin(log_max_height as int, powers_of_g@.len() as int);
            final(builder).val(ret) == selprod(final_bits(b.vals_of(index_bits@), log_max_height as int, total_bits_consumed as int), b.vals_of(powers_of_g@), n) })""")


def stub_final_query_point(u):
    """the contract of compute_final_query_point exactly as unit fchain proves it (same generator), body dropped"""
    fq = common(erase_sig(Fn(u, extract_fn('recursion/src/pcs/fri/verifier.rs', '', 'compute_final_query_point', u.cfgs), 'compute_final_query_point')))
    contract_final_query_point(fq)
    fq.body = '{ unimplemented!() }'
    fq.attr('#[verifier::external_body]')
    return fq.render().replace('// @@FN:', '// (contract proved in unit fchain) ').replace('// @@ENDFN:', '// end ')


def build():
    u = Unit('fchain', ['C07'])
    u.rlimit = 100
    u.assume('fold_one_phase meets the contract proved for it in unit fold (the stub here is generated from the same contract text)')
    u.assume('native constants (two_adic_generator, square, EF::from) are uninterpreted functions of exactly the arguments the code passes')
    u.assume('builder primitives (define_const, select, mul, exp_power_of_2, alloc_mul, alloc_const) meet the contracts of the shared gadget prelude (select/exp_power_of_2 proved in unit gad)')
    u.text(open(os.path.join(HERE, 'gadget_prelude.rs')).read())
    u.text(FRI_SPEC)
    u.text(open(os.path.join(HERE, 'fri_rec_spec.rs')).read().replace('pub fn one_hot_from_bits', 'pub fn one_hot_from_bits_unused').replace('/// generic one-hot builder', '/// (unused here) generic one-hot builder'))
    u.text(FOLD_SPEC)
    u.text(SPEC)
    V = 'recursion/src/pcs/fri/verifier.rs'
    u.text('verus! {\n' + stub_fold_one_phase(u) + '''
}
''')

    # ---------------------------------------------------------------- fold_chain_circuit
    fc = common(erase_sig(u.extract(V, '', 'fold_chain_circuit', 'fold_chain_circuit')))
    fc.rewrite_re('R5', r'for \((\w+), (\w+)\) in (\w+)\.iter\(\)\.enumerate\(\) \{', r'for \1 in 0..\3.len() { let \2 = &\3[\1];', min_count=1)
    fc.attr('#[verifier::loop_isolation(false)]')
    fc.requires('allocated', 'old(builder).has(initial_folded_eval) && old(builder).has_all(index_bits@) && old(builder).has_all(beta_pows_per_phase@) && phases_alloc(old(builder), phases@)')
    fc.requires('shape', '''phases@.len() == log_arities@.len() && beta_pows_per_phase@.len() == phases@.len() && index_bits@.len() < 0x1_0000_0000
            && off(log_arities@, phases@.len() as int) <= index_bits@.len()
            && all_bool(old(builder).vals_of(index_bits@))
            && forall|i: int| 0 <= i < phases@.len() ==> 1 <= #[trigger] log_arities@[i] < 32 && phases@[i].siblings@.len() == p2(log_arities@[i] as int) - 1''')
    fc.requires('schedule', '''phases@.len() >= 1 && cumulative_bits@.len() == log_arities@.len() + 1 && (forall|i: int| 0 <= i <= log_arities@.len() ==> #[trigger] cumulative_bits@[i] == off(log_arities@, i))''')
    fc.requires('beta_powers', 'forall|i: int| 0 <= i < phases@.len() ==> old(builder).val(#[trigger] beta_pows_per_phase@[i]) == fpow(old(builder).val(phases@[i].beta), pow2(log_arities@[i] as nat))')
    fc.requires('non_zero_points', 'forall|i: int| 0 <= i < phases@.len() ==> points_nonzero::<EF>(log_arities@[i] as nat, #[trigger] sstart::<EF>(old(builder).vals_of(index_bits@), index_bits@.len() as nat, log_arities@, i))')
    fc.ensures('frame', 'final(builder).extends_pure(old(builder)) && final(builder).has(ret)')
    fc.ensures('native_fold_chain', '''({ let b = old(builder);
            let starts = Seq::new(phases@.len(), |i: int| sstart::<EF>(b.vals_of(index_bits@), index_bits@.len() as nat, log_arities@, i));
            final(builder).val(ret) == chain_val(b, initial_folded_eval, index_bits@, phases@, log_arities@, starts, phases@.len() as int) })''')
    fc.before('let mut folded = initial_folded_eval;', '''let ghost b0 = *old(builder);
        let ghost starts = Seq::new(phases@.len(), |i: int| sstart::<EF>(b0.vals_of(index_bits@), index_bits@.len() as nat, log_arities@, i));''')
    fc.loop('for i in 0..phases.len()', invariants=[
        ('chain', '''builder.extends_pure(&b0) && builder.has(folded) && builder.val(folded) == chain_val(&b0, initial_folded_eval, index_bits@, phases@, log_arities@, starts, i as int)
            && bits_consumed == off(log_arities@, i as int) && subgroup_starts@.len() == phases@.len() && builder.has_all(subgroup_starts@)
            && (forall|q: int| 0 <= q < phases@.len() ==> builder.val(#[trigger] subgroup_starts@[q]) == starts[q])''')])
    lo = fc._loop_open('for i in 0..phases.len()')
    fc.body = fc.body[:lo + 1] + ''' proof {
            lemma_off_mono(log_arities@, i as int + 1, phases@.len() as int); reveal_with_fuel(off, 2);
            let sub = index_bits@.subrange(off(log_arities@, i as int), off(log_arities@, i as int) + log_arities@[i as int]);
            assert(builder.vals_of(sub) =~= b0.vals_of(sub));
            assert(builder.vals_of(phases@[i as int].siblings@) =~= b0.vals_of(phases@[i as int].siblings@));
            assert(all_bool(builder.vals_of(sub))) by { assert forall|q: int| 0 <= q < sub.len() implies is_bool(#[trigger] builder.vals_of(sub)[q]) by { assert(is_bool(b0.vals_of(index_bits@)[off(log_arities@, i as int) + q])); } }
            assert(starts[i as int] == sstart::<EF>(b0.vals_of(index_bits@), index_bits@.len() as nat, log_arities@, i as int));
        } let ghost b_pre = *builder; ''' + fc.body[lo + 1:]
    fc.at_loop_end('for i in 0..phases.len()', '''proof {
            CircuitBuilder::lemma_extends_pure_trans(&b0, &b_pre, builder);
            reveal_with_fuel(chain_val, 2);
            let sub = index_bits@.subrange(off(log_arities@, i as int), off(log_arities@, i as int) + log_arities@[i as int]);
            assert(native_row(&b_pre, b_pre_folded, phases@[i as int].siblings@, sub) =~= row_v(b_pre.val(b_pre_folded), b0.vals_of(phases@[i as int].siblings@), b0.vals_of(sub)));
        }''')
    fc.before('folded = fold_one_phase(', 'let ghost b_pre_folded = folded;')

    u.text('verus! {')
    u.emit(fc)
    u.text('}')

    # ---------------------------------------------------------------- precompute_beta_powers_per_phase
    bp = common(u.extract(V, '', 'precompute_beta_powers_per_phase', 'precompute_beta_powers_per_phase'))
    bp.sig = bp.sig.replace('<EF: Field>', '<EF: FoldX>')
    bp.rewrite_re('R9', r'debug_assert_eq!\(betas\.len\(\), log_arities\.len\(\)\);', 'assert(betas.len() == log_arities.len());', min_count=0)
    unzip_map_collect(bp)
    bp.attr('#[verifier::loop_isolation(false)]')
    bp.requires('allocated', 'old(builder).has_all(betas@) && betas@.len() == log_arities@.len()')
    bp.ensures('frame', 'final(builder).extends_pure(old(builder)) && final(builder).has_all(ret@)')
    bp.ensures('one_power_per_phase', 'ret@.len() == betas@.len() && forall|i: int| 0 <= i < ret@.len() ==> final(builder).val(#[trigger] ret@[i]) == fpow(old(builder).val(betas@[i]), pow2(log_arities@[i] as nat))')
    from units.openin import loop_if_present
    loop_if_present(bp, 'for z_ in 0..n_z_', invariants=[
        ('powers', 'builder.extends_pure(old(builder)) && builder.has_all(v_z_@) && v_z_@.len() == z_ && forall|i: int| 0 <= i < z_ ==> builder.val(#[trigger] v_z_@[i]) == fpow(old(builder).val(betas@[i]), pow2(log_arities@[i] as nat))')])
    if 'for z_ in 0..n_z_' in bp.body:
        lo = bp._loop_open('for z_ in 0..n_z_')
        bp.body = bp.body[:lo + 1] + ' let ghost v_b = v_z_@; let ghost b_b = *builder; ' + bp.body[lo + 1:]
        bp.at_loop_end('for z_ in 0..n_z_', """proof { assert forall|i: int| 0 <= i < v_z_@.len() implies builder.has(#[trigger] v_z_@[i]) && (i < z_ + 1 ==> builder.val(v_z_@[i]) == fpow(old(builder).val(betas@[i]), pow2(log_arities@[i] as nat))) by { if i < z_ { assert(v_z_@[i] == v_b[i]); assert(b_b.has(v_b[i])); } } }""")

    # ---------------------------------------------------------------- precompute_two_adic_powers
    tp = common(erase_sig(u.extract(V, '', 'precompute_two_adic_powers', 'precompute_two_adic_powers')))
    unsuccessors(tp)
    tp.attr('#[verifier::loop_isolation(false)]')
    tp.ensures('frame', 'final(builder).extends_pure(old(builder)) && final(builder).has_all(ret@)')
    tp.ensures('generator_powers', 'ret@.len() == log_height && forall|j: int| 0 <= j < ret@.len() ==> final(builder).val(#[trigger] ret@[j]) == lift::<EF>(nsqn(gen(log_height as nat), j as nat))')
    loop_if_present(tp, 'for s_ in 0..(', invariants=[
        ('powers', 'builder.extends_pure(old(builder)) && builder.has_all(v_s_@) && v_s_@.len() == s_ && cur_s_ == nsqn(gen(log_height as nat), s_ as nat) && forall|j: int| 0 <= j < s_ ==> builder.val(#[trigger] v_s_@[j]) == lift::<EF>(nsqn(gen(log_height as nat), j as nat))')])
    if 'for s_ in 0..(' in tp.body:
        lo = tp._loop_open('for s_ in 0..(')
        tp.body = tp.body[:lo + 1] + ' let ghost v_b = v_s_@; let ghost b_b = *builder; ' + tp.body[lo + 1:]
        tp.at_loop_end('for s_ in 0..(', """proof { reveal_with_fuel(nsqn, 2); assert forall|j: int| 0 <= j < v_s_@.len() implies builder.has(#[trigger] v_s_@[j]) && (j < s_ + 1 ==> builder.val(v_s_@[j]) == lift::<EF>(nsqn(gen(log_height as nat), j as nat))) by { if j < s_ { assert(v_s_@[j] == v_b[j]); assert(b_b.has(v_b[j])); } } }""")

    # ---------------------------------------------------------------- compute_final_query_point
    fq = common(erase_sig(u.extract(V, '', 'compute_final_query_point', 'compute_final_query_point')))
    unextend_rev_copied(fq)
    unfor_zip(fq)
    fq.rewrite_re('R6', r'let mut reversed_bits = vec!\[builder\.define_const\(EF::ZERO\); total_bits_consumed\];', 'let zero_fq_ = builder.define_const(EF::zero()); let mut reversed_bits = vec![zero_fq_; total_bits_consumed];', min_count=0)
    fq.attr('#[verifier::loop_isolation(false)]')
    contract_final_query_point(fq)
    fq.at_start('let ghost fb = final_bits(old(builder).vals_of(index_bits@), log_max_height as int, total_bits_consumed as int); let ghost pw = old(builder).vals_of(powers_of_g@);')
    if 'for er_ in 0..domain_index_bits.len()' in fq.body and 'for fz_ in 0..n_fz_' in fq.body:
        fq.before('for er_ in 0..domain_index_bits.len()', 'let ghost b1 = *builder; proof { assert(domain_index_bits@ == index_bits@.subrange(total_bits_consumed as int, log_max_height as int)); }')
        lo = fq._loop_open('for er_ in 0..domain_index_bits.len()')
        fq.body = fq.body[:lo + 1] + ' let ghost rb_b = reversed_bits@; ' + fq.body[lo + 1:]
        fq.at_loop_end('for er_ in 0..domain_index_bits.len()', """proof { assert forall|t: int| 0 <= t < reversed_bits@.len() implies b1.has(#[trigger] reversed_bits@[t]) && b1.val(reversed_bits@[t]) == fb[t] by {
                if t < rb_b.len() { assert(reversed_bits@[t] == rb_b[t]); } else {
                    let src = log_max_height - 1 - (t - total_bits_consumed);
                    assert(reversed_bits@[t] == index_bits@[src]);
                    assert(old(builder).vals_of(index_bits@)[src] == old(builder).val(index_bits@[src]));
                } } }""")
        lo = fq._loop_open('for fz_ in 0..n_fz_')
        fq.body = fq.body[:lo + 1] + """ let ghost b_pre = *builder; proof { assert(b1.has(reversed_bits@[fz_ as int]) && b1.val(reversed_bits@[fz_ as int]) == fb[fz_ as int]);
                assert(is_bool(fb[fz_ as int])) by { if fz_ >= total_bits_consumed { assert(is_bool(old(builder).vals_of(index_bits@)[log_max_height - 1 - (fz_ - total_bits_consumed)])); } }
                assert(pw[fz_ as int] == old(builder).val(powers_of_g@[fz_ as int])); } """ + fq.body[lo + 1:]
        fq.at_loop_end('for fz_ in 0..n_fz_', 'proof { reveal_with_fuel(selprod, 2); CircuitBuilder::lemma_extends_pure_trans(&b1, &b_pre, builder); }')
        fq.loop('for er_ in 0..domain_index_bits.len()', invariants=[
            ('reversed', 'reversed_bits@.len() == total_bits_consumed + er_ && forall|t: int| 0 <= t < reversed_bits@.len() ==> b1.has(#[trigger] reversed_bits@[t]) && b1.val(reversed_bits@[t]) == fb[t]')])
        fq.loop('for fz_ in 0..n_fz_', invariants=[
            ('chain', 'builder.extends_pure(&b1) && builder.has(result) && builder.has(one) && builder.val(one) == EF::fone() && builder.val(result) == selprod(fb, pw, fz_ as int)')])

    # ---------------------------------------------------------------- precompute_subgroup_starts
    ss = common(erase_sig(u.extract(V, '', 'precompute_subgroup_starts', 'precompute_subgroup_starts')))
    unrange_map_collect_general(ss)
    unsuccessors(ss)
    ss.rewrite_re('R7', r'let mut (\w+): BTreeMap<usize, Vec<usize>> = BTreeMap::new\(\);', r'let mut \1: CaptureAt = CaptureAt::new();', min_count=0)
    ss.rewrite_re('R6', r'(\w+)\.entry\(([^()]+)\)\.or_default\(\)\.push\(([^()]+)\);', r'\1.push_at(\2, \3);', min_count=0)
    ss.rewrite_re('R5', r'for \((\w+), &(\w+)\) in (\w+)\s*\.iter\(\)\s*\.enumerate\(\)\s*\.take\((\w+)\)\s*\.skip\((\w+)\)\s*\{',
                  r'let n_ts_ = if \4 <= \3.len() { \4 } else { \3.len() }; for \1 in \5..n_ts_ { let \2 = \3[\1];', min_count=0)
    ss.rewrite_re('R5', r'for &(\w+) in (\w+) \{', r'for fi_ in 0..\2.len() { let \1 = \2[fi_];', min_count=0)
    ss.rewrite_re('R11', r'\bVec<_>', 'Vec<Target>', min_count=0)
    ss.attr('#[verifier::loop_isolation(false)]')
    ss.requires('schedule', '''log_arities@.len() >= 1 && cumulative_bits@.len() == log_arities@.len() + 1 && log_max_height == index_bits@.len() && log_max_height < 0x1_0000_0000
            && (forall|i: int| 0 <= i <= log_arities@.len() ==> #[trigger] cumulative_bits@[i] == off(log_arities@, i)) && off(log_arities@, log_arities@.len() as int) <= log_max_height
            && (forall|i: int| 0 <= i < log_arities@.len() ==> #[trigger] log_arities@[i] < 32)''')
    ss.requires('allocated_boolean_index_bits', 'old(builder).has_all(index_bits@) && all_bool(old(builder).vals_of(index_bits@))')
    ss.ensures('frame', 'final(builder).extends_pure(old(builder)) && final(builder).has_all(ret@) && ret@.len() == log_arities@.len()')
    ss.ensures('each_phase_start_is_the_power_of_the_shared_chain_prefix', '''forall|i: int| 0 <= i < ret@.len() ==> final(builder).val(#[trigger] ret@[i]) == sstart::<EF>(old(builder).vals_of(index_bits@), log_max_height as nat, log_arities@, i)''')
    TG = 'tgt::<EF>(bv, lmh as nat, ks, lfh, p, {j})'
    CONSTS = 'builder.has(one) && builder.val(one) == EF::fone()'
    ss.at_start('''let ghost b0 = *old(builder); let ghost ks = log_arities@; let ghost lmh = log_max_height as int; let ghost bv = old(builder).vals_of(index_bits@); let ghost lfh = lfh_of(log_arities@, log_max_height as int);
        proof { assert forall|i: int| 0 <= i < ks.len() implies 0 <= #[trigger] lfh[i] <= lmh by { lemma_off_mono(ks, i + 1, ks.len() as int); lemma_off_mono(ks, 0, i + 1); }
                assert forall|i: int, i2: int| 0 <= i <= i2 < ks.len() implies #[trigger] lfh[i2] <= #[trigger] lfh[i] by { lemma_off_mono(ks, i + 1, i2 + 1); } }''')
    heads = ['for i in 0..num_phases', 'for s_ in 0..(', 'for i in 1..n_ts_', 'for j in 0..max_chain_len', 'for fi_ in 0..phase_indices.len()']
    if all(h in ss.body for h in heads):
        # ---- insertions first
        lo = ss._loop_open('for i in 0..num_phases')
        ss.body = ss.body[:lo + 1] + ' proof { assert(0 <= lfh[i as int]); lemma_off_mono(ks, i as int + 1, ks.len() as int); } ' + ss.body[lo + 1:]
        lo = ss._loop_open('for s_ in 0..(')
        ss.body = ss.body[:lo + 1] + ' let ghost v_b = v_s_@; let ghost b_b = *builder; ' + ss.body[lo + 1:]
        ss.at_loop_end('for s_ in 0..(', """proof { reveal_with_fuel(nsqn, 2); assert forall|q: int| 0 <= q < v_s_@.len() implies builder.has(#[trigger] v_s_@[q]) && (q < s_ + 1 ==> builder.val(v_s_@[q]) == lift::<EF>(nsqn(gen(lmh as nat), q as nat))) by { if q < s_ { assert(v_s_@[q] == v_b[q]); assert(b_b.has(v_b[q])); } } }""")
        lo = ss._loop_open('for i in 1..n_ts_')
        ss.body = ss.body[:lo + 1] + ' let ghost m_b = capture_at.m@; ' + ss.body[lo + 1:]
        ss.at_loop_end('for i in 1..n_ts_', 'proof { if lfh[i as int] > 0 { lemma_cap_push(m_b, lfh, i as int, lfh[i as int] as usize); } else { lemma_cap_skip(m_b, lfh, i as int); } }')
        ss.before('for j in 0..max_chain_len', 'let ghost b1 = *builder;')
        lo = ss._loop_open('for j in 0..max_chain_len')
        ss.body = ss.body[:lo + 1] + ''' let ghost b_j0 = *builder; let ghost res_j0 = result@;
            proof { assert(parent_offset_0 + max_chain_len - 1 - j == lmh - 1 - j); assert(is_bool(bv[lmh - 1 - j])); assert(b0.has(index_bits@[lmh - 1 - j])); assert(bv[lmh - 1 - j] == b0.val(index_bits@[lmh - 1 - j])); } ''' + ss.body[lo + 1:]
        ss.before('let bits_done = j + 1;', '''let ghost b_j = *builder; proof { reveal_with_fuel(gchain, 2); assert(builder.val(g_pow) == gchain(bv, lmh as nat, j + 1)); }''')
        lo = ss._loop_open('for fi_ in 0..phase_indices.len()')
        ss.body = ss.body[:lo + 1] + ''' let ghost b_f0 = *builder; let ghost res_f0 = result@;
                proof { assert(capture_at.m@[bits_done][fi_ as int] == phase_indices@[fi_ as int]); } ''' + ss.body[lo + 1:]
        ss.at_loop_end('for fi_ in 0..phase_indices.len()', '''proof {
                    let pi = phase_indices@;
                    assert forall|q: int| 0 <= q < result@.len() implies builder.has(#[trigger] result@[q]) by { if q != phase_i { assert(result@[q] == res_f0[q]); assert(b_f0.has(res_f0[q])); } }
                    assert forall|t: int| 0 <= t < fi_ + 1 implies builder.val(result@[#[trigger] pi[t] as int]) == fpow(gchain(bv, lmh as nat, j + 1), pow2(off(ks, pi[t] as int) as nat)) by {
                        if pi[t] != phase_i { assert(result@[pi[t] as int] == res_f0[pi[t] as int]); assert(b_f0.has(res_f0[pi[t] as int])); } }
                    assert forall|p: int| 0 <= p < result@.len() && !in_list(pi, p) implies builder.val(#[trigger] result@[p]) == b_j.val(res_j0[p]) by {
                        assert(pi[fi_ as int] == phase_i); if p == phase_i { assert(in_list(pi, p)); } assert(result@[p] == res_f0[p]); assert(b_f0.has(res_f0[p])); }
                }''')
        ss.at_loop_end('for j in 0..max_chain_len', '''proof {
                assert forall|p: int| 0 <= p < result@.len() implies builder.has(#[trigger] result@[p]) && builder.val(result@[p]) == tgt::<EF>(bv, lmh as nat, ks, lfh, p, j + 1) by {
                    let k = (j + 1) as usize;
                    if capture_at.m@.dom().contains(k) {
                        let pi = capture_at.m@[k];
                        if in_list(pi, p) { let t = choose|t: int| 0 <= t < pi.len() && #[trigger] pi[t] == p; assert(lfh[pi[t] as int] == k); }
                        else { if p >= 1 && lfh[p] == j + 1 { assert(cap_has(capture_at.m@, lfh[p] as usize, p)); } assert(b_j0.has(res_j0[p])); }
                    } else {
                        if p >= 1 && lfh[p] == j + 1 { assert(cap_has(capture_at.m@, lfh[p] as usize, p)); }
                        assert(result@[p] == res_j0[p]); assert(b_j0.has(res_j0[p]));
                    }
                }
            }''')
        # ---- loop contracts last
        ss.loop('for i in 0..num_phases', invariants=[('heights', 'v_r0_@.len() == i && forall|q: int| 0 <= q < i ==> #[trigger] v_r0_@[q] == lfh[q]')])
        ss.loop('for s_ in 0..(', invariants=[
            ('powers', f'builder.extends_pure(&b0) && {CONSTS} && builder.has_all(v_s_@) && v_s_@.len() == s_ && cur_s_ == nsqn(gen(lmh as nat), s_ as nat) && forall|q: int| 0 <= q < s_ ==> builder.val(#[trigger] v_s_@[q]) == lift::<EF>(nsqn(gen(lmh as nat), q as nat))')])
        ss.loop('for i in 1..n_ts_', invariants=[('capture', 'cap_sound(capture_at.m@, lfh, i as int) && cap_complete(capture_at.m@, lfh, i as int)')])
        ss.loop('for j in 0..max_chain_len', invariants=[
            ('chain', f'''builder.extends_pure(&b1) && {CONSTS} && builder.has(g_pow) && builder.val(g_pow) == gchain(bv, lmh as nat, j as int) && result@.len() == num_phases
                && forall|p: int| 0 <= p < result@.len() ==> builder.has(#[trigger] result@[p]) && builder.val(result@[p]) == {TG.format(j='j as int')}''')])
        ss.loop('for fi_ in 0..phase_indices.len()', invariants=[
            ('captured', '''builder.extends_pure(&b_j) && builder.has(g_pow) && builder.val(g_pow) == gchain(bv, lmh as nat, j + 1) && result@.len() == num_phases
                && (forall|q: int| 0 <= q < result@.len() ==> builder.has(#[trigger] result@[q]))
                && (forall|t: int| 0 <= t < fi_ ==> builder.val(result@[#[trigger] phase_indices@[t] as int]) == fpow(gchain(bv, lmh as nat, j + 1), pow2(off(ks, phase_indices@[t] as int) as nat)))
                && (forall|p: int| 0 <= p < result@.len() && !in_list(phase_indices@, p) ==> builder.val(#[trigger] result@[p]) == b_j.val(res_j0[p]))''')])
    u.text('verus! {')
    u.emit(bp)
    u.emit(ss)
    u.emit(tp)
    u.emit(fq)
    u.text('}')
    return u
