"""Unit `fold` (C07): one FRI fold phase in the circuit is the native fold tree.

Real text: recursion/src/pcs/fri/verifier.rs {fold_one_phase (all four code paths: arity 2 fast path, unrolled arity 4 and 8,
general loop), compute_subgroup_points}.
Spec: the native algorithm folds an arity-2^k row by k rounds of arity-2 folds; round s pairs neighbours and evaluates at the points
ss^(2^s) * omega_k^(2^s * br(2j)), with the challenge beta^(2^s); a roll-in adds beta^(2^k) * ro.  The twiddle constants are native
build-time values (uninterpreted functions of the exact arguments the code computes them from)."""
import os
import re

from vf.extract import match_brace
from vf.unit import Unit
from units.fri import SPEC as FRI_SPEC
from units.sched import unmap_collect

HERE = os.path.dirname(os.path.abspath(__file__))

SPEC = r'''
verus! {
/// a native base-field constant
#[derive(Clone, Copy)]
pub struct NF { pub id: Ghost<int> }
pub uninterp spec fn gen(k: nat) -> NF;                       // F::two_adic_generator(k)
pub uninterp spec fn nexp(x: NF, e: nat) -> NF;               // x.exp_u64(e)
pub uninterp spec fn brev(x: nat, n: nat) -> nat;             // p3_util::reverse_bits_len(x, n)
pub uninterp spec fn lift<F: Field>(x: NF) -> F;              // EF::from(base)
impl NF {
    #[verifier::external_body]
    pub fn two_adic_generator(k: usize) -> (r: NF) ensures r == gen(k as nat) { unimplemented!() }
    #[verifier::external_body]
    pub fn exp_u64(&self, e: u64) -> (r: NF) ensures r == nexp(*self, e as nat) { unimplemented!() }
}
#[verifier::external_body]
pub fn reverse_bits_len(x: usize, n: usize) -> (r: usize) ensures r == brev(x as nat, n as nat) { unimplemented!() }
pub trait FoldX: FriConsts {
    fn from_base(x: NF) -> (r: Self) ensures r == lift::<Self>(x);
    fn two() -> (r: Self) ensures r == Self::fone().fadd(Self::fone());
    fn neg_one() -> (r: Self) ensures r == Self::fone().fneg();
}

/// native arity-2 fold of (e0, e1) at the point x0 with challenge beta (as proved for arity2_fold_at_point in unit fri)
pub open spec fn fold2<F: Field>(e0: F, e1: F, beta: F, x0: F) -> F {
    beta.fsub(x0).fmul(e1.fsub(e0)).fmul(neg_half::<F>().fdiv(x0)).fadd(e0)
}
/// the twiddle of round s, pair j of an arity-2^k fold: omega_k^(2^s * br_{k-s}(2j)), written exactly as the native code computes it
pub open spec fn tw(k: nat, s: nat, j: int) -> NF {
    if s == 0 { nexp(gen(k), brev((2 * j) as nat, k)) } else { nexp(nexp(gen(k), pow2(s)), brev((2 * j) as nat, (k - s) as nat)) }
}
/// evaluation point of round s, pair j
pub open spec fn pt<F: Field>(k: nat, s: nat, j: int, ss: F) -> F { fpow(ss, pow2(s)).fmul(lift::<F>(tw(k, s, j))) }
/// the row after s rounds
pub open spec fn level<F: Field>(evals: Seq<F>, beta: F, ss: F, k: nat, s: nat) -> Seq<F> decreases s {
    if s == 0 { evals } else {
        let prev = level(evals, beta, ss, k, (s - 1) as nat);
        Seq::new(prev.len() / 2, |j: int| fold2(prev[2 * j], prev[2 * j + 1], fpow(beta, pow2((s - 1) as nat)), pt(k, (s - 1) as nat, j, ss)))
    }
}
/// value of one phase (before the roll-in): arity 2 folds directly at ss (native special case), larger arities run the fold tree
pub open spec fn phase_value<F: Field>(evals: Seq<F>, beta: F, ss: F, k: nat) -> F {
    if k == 1 { fold2(evals[0], evals[1], beta, ss) } else { level(evals, beta, ss, k, k)[0] }
}
pub open spec fn with_roll_in<F: Field>(v: F, beta: F, k: nat, ro: Option<F>) -> F { match ro { Some(r) => fpow(beta, pow2(k)).fmul(r).fadd(v), None => v } }
/// every evaluation point is a non-zero field element (they are products of roots of unity and a non-zero coset shift)
pub open spec fn points_nonzero<F: Field>(k: nat, ss: F) -> bool {
    ss != F::fzero() && forall|s: nat, j: int| s < k && 0 <= j ==> #[trigger] pt::<F>(k, s, j, ss) != F::fzero()
}

impl<F: Field> CircuitBuilder<F> {
    /// verified in unit gad
    #[verifier::external_body]
    pub fn exp_power_of_2(&mut self, base: ExprId, power_log: usize) -> (r: ExprId)
        requires old(self).has(base)
        ensures final(self).extends_pure(old(self)), final(self).has(r), final(self).val(r) == fpow(old(self).val(base), pow2(power_log as nat))
    { unimplemented!() }
}
/// proved in unit fri
#[verifier::external_body]
pub fn arity2_fold_at_point<EF: FoldX>(builder: &mut CircuitBuilder<EF>, e0: Target, e1: Target, beta: Target, x0: Target) -> (r: Target)
    requires old(builder).has(e0) && old(builder).has(e1) && old(builder).has(beta) && old(builder).has(x0)
    ensures final(builder).extends_pure(old(builder)), final(builder).has(r),
            old(builder).val(x0) != EF::fzero() ==> final(builder).val(r) == fold2(old(builder).val(e0), old(builder).val(e1), old(builder).val(beta), old(builder).val(x0))
{ unimplemented!() }
/// proved in unit fri
#[verifier::external_body]
pub fn reconstruct_evals<EF: FoldX>(builder: &mut CircuitBuilder<EF>, folded: Target, siblings: &[Target], index_in_group_bits: &[Target]) -> (r: Vec<Target>)
    requires old(builder).has(folded) && old(builder).has_all(siblings@) && old(builder).has_all(index_in_group_bits@),
             all_bool(old(builder).vals_of(index_in_group_bits@)) && index_in_group_bits@.len() < 32, siblings@.len() == p2(index_in_group_bits@.len() as int) - 1
    ensures final(builder).extends_pure(old(builder)), final(builder).has_all(r@), r@.len() == p2(index_in_group_bits@.len() as int),
            forall|j: int| 0 <= j < r@.len() ==> final(builder).val(#[trigger] r@[j]) == placed(old(builder).val(folded), old(builder).vals_of(siblings@), le_index(old(builder).vals_of(index_in_group_bits@)), j)
{ unimplemented!() }
/// the native row of a phase: the folded value at the index given by the bits, the siblings around it
pub open spec fn native_row<F: Field>(cb: &CircuitBuilder<F>, folded: ExprId, siblings: Seq<ExprId>, bits: Seq<ExprId>) -> Seq<F> {
    Seq::new(p2(bits.len() as int) as nat, |j: int| placed(cb.val(folded), cb.vals_of(siblings), le_index(cb.vals_of(bits)), j))
}
pub proof fn lemma_p2_pow2(k: nat) ensures p2(k as int) == pow2(k) decreases k { if k > 0 { lemma_p2_pow2((k - 1) as nat); } }
} // verus!
'''


def inline_closure(f, name):
    """R6: `let NAME = |builder: &mut CircuitBuilder<EF>, j: usize| { BODY };` removed; every `NAME(builder, ARG)` -> `{ let j = ARG; BODY }` (BODY verbatim)"""
    m = re.search(r'let ' + name + r' = \|builder: &mut CircuitBuilder<EF>, (\w+): usize\|\s*\{', f.body)
    if not m:
        return f
    open_ = m.end() - 1
    close = match_brace(f.body, open_)
    body = f.body[open_ + 1:close]
    end = close + 1
    while f.body[end] in ' \n\t':
        end += 1
    assert f.body[end] == ';'
    var = m.group(1)
    rest = f.body[end + 1:]
    # calls up to the next redefinition of the same closure name
    nxt = re.search(r'let ' + name + r' = \|', rest)
    scope_end = nxt.start() if nxt else len(rest)
    scope, tail = rest[:scope_end], rest[scope_end:]
    scope = re.sub(name + r'\(builder, ([^)]+)\)', lambda mm: '{ let ' + var + ': usize = ' + mm.group(1) + '; ' + body + ' }', scope)
    f.body = f.body[:m.start()] + scope + tail
    f.rewrites.append(('R6', f'closure `{name}` inlined at its call sites (body verbatim, argument bound to its parameter)', ''))
    return inline_closure(f, name) if nxt else f


TYPES = [(r'<F, EF>', '<EF: FoldX>')]


def erase_sig(f):
    sig = re.sub(r'\s*where\b.*$', '', f.sig, flags=re.S)
    sig = sig.replace('<F, EF>', '<EF: FoldX>')
    f.sig = sig
    f.rewrites.append(('R11', 'signature: generics <F, EF> + where clause erased to <EF: FoldX> (parameters unchanged)', ''))
    return f


def common(f):
    f.rewrite_re('R8', r'builder\.push_scope\("[^"]*"\);', '', min_count=0)
    f.rewrite_re('R8', r'builder\.pop_scope\(\);', '', min_count=0)
    f.rewrite_re('R11', r'EF::NEG_ONE \* EF::ONE\.halve\(\)', 'EF::neg_half_const()', min_count=0)
    f.rewrite_re('R11', r'\bEF::ONE\b', 'EF::one()', min_count=0)
    f.rewrite_re('R11', r'\bEF::TWO\b', 'EF::two()', min_count=0)
    f.rewrite_re('R11', r'\bEF::NEG_ONE\b', 'EF::neg_one()', min_count=0)
    f.rewrite_re('R11', r'\bF::two_adic_generator\(', 'NF::two_adic_generator(', min_count=0)
    f.rewrite_re('R11', r'p3_util::reverse_bits_len\(', 'reverse_bits_len(', min_count=0)
    f.rewrite_re('R11', r'EF::from\(', 'EF::from_base(', min_count=0)
    f.rewrite_re('R11', r'::<F, EF>\(', '(', min_count=0)
    f.rewrite_re('R11', r'::<EF>\(', '(', min_count=0)
    return f


def build():
    u = Unit('fold', ['C07'])
    u.rlimit = 200
    u.assume('native twiddle constants (two_adic_generator, exp_u64, reverse_bits_len, EF::from) are uninterpreted functions of exactly the arguments the code passes; EF::TWO = 1+1, EF::NEG_ONE = -1, -1/2 constant')
    u.assume('callee contracts proved in unit fri / gad: arity2_fold_at_point (native arity-2 fold when the point is non-zero), reconstruct_evals (native row), select, exp_power_of_2; builder arithmetic; field laws')
    u.assume('every evaluation point of the phase is non-zero (points_nonzero: products of roots of unity and a non-zero coset shift) -- precondition')
    u.text(open(os.path.join(HERE, 'gadget_prelude.rs')).read())
    u.text(FRI_SPEC)
    u.text(open(os.path.join(HERE, 'fri_rec_spec.rs')).read().replace('pub fn one_hot_from_bits', 'pub fn one_hot_from_bits_unused').replace('/// generic one-hot builder', '/// (unused here) generic one-hot builder'))
    u.text(SPEC)
    from units import fold_phase as _fp
    u.text(_fp.RING)
    u.text(_fp.LEVEL_LEMMAS)
    V = 'recursion/src/pcs/fri/verifier.rs'

    # ---------------------------------------------------------------- compute_subgroup_points
    cp = common(erase_sig(u.extract(V, '', 'compute_subgroup_points', 'compute_subgroup_points')))
    unmap_collect(cp)
    cp.rewrite_re('R5', r'for &(\w+) in (\w+)\.iter\(\) \{', r'for q_ in 0..\2.len() { let \1 = \2[q_];', min_count=1)
    cp.requires('allocated', 'old(builder).has(subgroup_start) && log_arity < 32')
    cp.ensures('frame', 'final(builder).extends_pure(old(builder)) && final(builder).has_all(ret.0@) && ret.1 == subgroup_start')
    cp.ensures('points', '''ret.0@.len() == pow2(log_arity as nat) && forall|i: int| 0 <= i < ret.0@.len() ==> final(builder).val(#[trigger] ret.0@[i]) ==
            old(builder).val(subgroup_start).fmul(lift::<EF>(nexp(gen(log_arity as nat), brev(i as nat, log_arity as nat))))''')
    cp.after('let arity = 1usize << log_arity;', 'proof { lemma_shl_p2(log_arity); lemma_p2_pow2(log_arity as nat); } let ghost ssv = builder.val(subgroup_start);')
    cp.loop('for i in 0..arity', invariants=[
        ('consts', 'builder.extends_pure(old(builder)) && old(builder).has(subgroup_start) && v_@.len() == i && builder.has_all(v_@) && omega == gen(log_arity as nat) && forall|q: int| 0 <= q < i ==> builder.val(#[trigger] v_@[q]) == lift::<EF>(nexp(gen(log_arity as nat), brev(q as nat, log_arity as nat)))')])
    lo = cp._loop_open('for i in 0..arity')
    cp.body = cp.body[:lo + 1] + ' let ghost v_b = v_@; ' + cp.body[lo + 1:]
    cp.at_loop_end('for i in 0..arity', 'proof { assert forall|q: int| 0 <= q < v_@.len() implies builder.has(#[trigger] v_@[q]) && (q < i ==> builder.val(v_@[q]) == lift::<EF>(nexp(gen(log_arity as nat), brev(q as nat, log_arity as nat)))) by { if q < i { assert(v_@[q] == v_b[q]); } } }')
    cp.loop('for q_ in 0..omega_br_consts.len()', invariants=[
        ('pts', '''builder.extends_pure(old(builder)) && old(builder).has(subgroup_start) && builder.val(subgroup_start) == ssv && omega_br_consts@.len() == arity && builder.has_all(omega_br_consts@) && xs@.len() == q_ && builder.has_all(xs@)
            && (forall|q: int| 0 <= q < arity ==> builder.val(#[trigger] omega_br_consts@[q]) == lift::<EF>(nexp(gen(log_arity as nat), brev(q as nat, log_arity as nat))))
            && (forall|q: int| 0 <= q < q_ ==> builder.val(#[trigger] xs@[q]) == ssv.fmul(lift::<EF>(nexp(gen(log_arity as nat), brev(q as nat, log_arity as nat)))))''')])
    lo = cp._loop_open('for q_ in 0..omega_br_consts.len()')
    cp.body = cp.body[:lo + 1] + ' let ghost xs_b = xs@; ' + cp.body[lo + 1:]
    cp.at_loop_end('for q_ in 0..omega_br_consts.len()', '''proof {
            assert forall|q: int| 0 <= q < xs@.len() implies builder.has(#[trigger] xs@[q]) && builder.val(xs@[q]) == ssv.fmul(lift::<EF>(nexp(gen(log_arity as nat), brev(q as nat, log_arity as nat)))) by { if q < q_ { assert(xs@[q] == xs_b[q]); } }
            assert forall|q: int| 0 <= q < arity implies builder.has(#[trigger] omega_br_consts@[q]) by {}
        }''')
    from units import fold_phase
    import importlib
    importlib.reload(fold_phase)
    fp = common(erase_sig(u.extract(V, '', 'fold_one_phase', 'fold_one_phase')))
    fold_phase.rewrites(fp, inline_closure)
    fold_phase.contract(fp)
    fold_phase.proof(fp)
    fold_phase.proof2(fp)
    if hasattr(fold_phase, 'proof3'):
        fold_phase.proof3(fp)
    u.text('verus! {')
    u.emit(cp)
    u.emit(fp)
    u.text('}')
    return u
