"""fold_one_phase part of unit `fold` (kept in its own module: long proof scaffolding)."""
from units.sched import unmap_collect

KV = 'log_arity as nat'


def rewrites(fp, inline_closure):
    inline_closure(fp, 'x_at_step0')
    inline_closure(fp, 'x_at_step1')
    fp.rewrite_re('R6', r'(\w+)\.unwrap_or_else\(\|\| ([^;]+)\);', r'(match \1 { Some(v_) => v_, None => \2 });', min_count=0)
    # deferred initialisation of the owned row -> one match producing an owned vector
    fp.rewrite_re('R6', r'let owned_evals;\s*let evals: &\[Target\] = match precomputed_evals \{\s*Some\(e\) => e,\s*None => \{\s*owned_evals = (reconstruct_evals\([^;]*\));\s*&owned_evals\s*\}\s*\};',
                  r'let owned_evals: Vec<Target> = match precomputed_evals { Some(e) => e.to_vec(), None => \1 }; let evals: &[Target] = owned_evals.as_slice();', min_count=1, flags_dotall=True)
    unmap_collect(fp)
    fp.rewrite_re('R5', r'for _ in 1\.\.log_arity \{', 'for p_ in 1..log_arity {', min_count=1)
    fp.rewrite_re('R6', r'let prev = subgroup_start_powers\.last\(\)\.copied\(\)\.unwrap\(\);', 'let prev = subgroup_start_powers[subgroup_start_powers.len() - 1];', min_count=1)
    fp.rewrite_re('R5', r'for \(step, ss\) in subgroup_start_powers\s*\.into_iter\(\)\s*\.enumerate\(\)\s*\.take\(log_arity\)\s*\{',
                  'for step in 0..(if subgroup_start_powers.len() <= log_arity { subgroup_start_powers.len() } else { log_arity }) { let ss = subgroup_start_powers[step];', min_count=1)
    return fp


def contract(fp):
    fp.requires('allocated', """old(builder).has(folded) && old(builder).has_all(siblings@) && old(builder).has(beta) && old(builder).has_all(index_bits@) && old(builder).has(precomputed_subgroup_start)
            && (roll_in matches Some(r) ==> old(builder).has(r)) && (precomputed_beta_pow matches Some(b) ==> old(builder).has(b)) && (precomputed_evals matches Some(e) ==> old(builder).has_all(e@))""")
    fp.requires('shape', """1 <= log_arity < 32 && bits_consumed + log_arity <= index_bits@.len() && index_bits@.len() < 0x1_0000_0000 && siblings@.len() == p2(log_arity as int) - 1
            && all_bool(old(builder).vals_of(index_bits@.subrange(bits_consumed as int, bits_consumed + log_arity)))
            && (precomputed_evals matches Some(e) ==> e@.len() == p2(log_arity as int)
                && old(builder).vals_of(e@) == native_row(old(builder), folded, siblings@, index_bits@.subrange(bits_consumed as int, bits_consumed + log_arity)))""")
    fp.requires('non_zero_points', f'points_nonzero::<EF>({KV}, old(builder).val(precomputed_subgroup_start))')
    fp.requires('given_beta_power', f'precomputed_beta_pow matches Some(b) ==> old(builder).val(b) == fpow(old(builder).val(beta), pow2({KV}))')
    fp.ensures('frame', 'final(builder).extends_pure(old(builder)) && final(builder).has(ret)')
    fp.ensures('native_fold_phase', f"""({{ let b = old(builder);
            let row = native_row(b, folded, siblings@, index_bits@.subrange(bits_consumed as int, bits_consumed + log_arity));
            final(builder).val(ret) == with_roll_in(phase_value(row, b.val(beta), b.val(precomputed_subgroup_start), {KV}), b.val(beta), {KV}, match roll_in {{ Some(r) => Some(b.val(r)), None => None }}) }})""")
    return fp


RING = r'''
verus! {
pub proof fn lemma_neg_unique<F: Field>(a: F, b: F) requires a.fadd(b) == F::fzero() ensures b == a.fneg() {
    // b = 0 + b = (-a + a) + b = -a + (a + b) = -a + 0 = -a
    F::add_neg(a); F::add_comm(a, a.fneg()); lemma_zero_add(b); F::add_assoc(a.fneg(), a, b); F::add_zero(a.fneg());
}
pub proof fn lemma_neg_one_mul<F: Field>(x: F) ensures F::fone().fneg().fmul(x) == x.fneg() {
    // x + (-1)x = (1 + -1) x = 0
    let m = F::fone().fneg();
    lemma_one_mul(x); F::mul_comm(F::fone().fadd(m), x); F::distrib(x, F::fone(), m); F::mul_comm(x, F::fone()); F::mul_comm(x, m);
    F::add_neg(F::fone()); lemma_mul_zero_left(x);
    assert(x.fadd(m.fmul(x)) == F::fzero());
    lemma_neg_unique(x, m.fmul(x));
}
pub proof fn lemma_neg_sub<F: Field>(s: F, f: F) ensures s.fsub(f).fneg() == f.fsub(s) {
    // (s - f) + (f - s) = 0
    F::sub_def(s, f); F::sub_def(f, s);
    let a = s.fadd(f.fneg()); let b = f.fadd(s.fneg());
    F::add_assoc(s, f.fneg(), b); F::add_comm(f, s.fneg()); F::add_assoc(f.fneg(), s.fneg(), f); F::add_comm(f.fneg(), s.fneg());
    F::add_assoc(s.fneg(), f.fneg(), f); F::add_comm(f.fneg(), f); F::add_neg(f); F::add_zero(s.fneg()); F::add_neg(s);
    assert(f.fneg().fadd(b) == s.fneg()) by { F::add_comm(f, s.fneg()); F::add_assoc(f.fneg(), s.fneg(), f); }
    assert(a.fadd(b) == F::fzero());
    lemma_neg_unique(a, b);
}
pub proof fn lemma_two_minus_one<F: Field>() ensures F::fone().fadd(F::fone()).fmul(F::fone()).fadd(F::fone().fneg()) == F::fone() {
    let o = F::fone(); F::mul_one(o.fadd(o)); F::add_assoc(o, o, o.fneg()); F::add_neg(o); F::add_zero(o);
}
pub proof fn lemma_two_zero_minus_one<F: Field>() ensures F::fone().fadd(F::fone()).fmul(F::fzero()).fadd(F::fone().fneg()) == F::fone().fneg() {
    let o = F::fone(); F::mul_comm(o.fadd(o), F::fzero()); lemma_mul_zero_left(o.fadd(o)); lemma_zero_add(o.fneg());
}
pub proof fn lemma_fpow_2<F: Field>(x: F) ensures fpow(x, 2) == x.fmul(x), fpow(x, pow2(1)) == x.fmul(x), fpow(x, pow2(0)) == x {
    reveal_with_fuel(fpow, 3); reveal_with_fuel(pow2, 3); F::mul_one(x);
}
pub proof fn lemma_fpow_4<F: Field>(x: F) ensures fpow(x, pow2(2)) == x.fmul(x).fmul(x.fmul(x)) {
    reveal_with_fuel(pow2, 3); lemma_fpow_2(x); lemma_fpow_square(x, 1);
}
} // verus!
'''


def proof(fp):
    fp.at_start("""let ghost b0 = *builder; let ghost k = log_arity as nat; let ghost bv = builder.val(beta); let ghost ssv = builder.val(precomputed_subgroup_start);
        let ghost bits = index_bits@.subrange(bits_consumed as int, bits_consumed + log_arity); let ghost bvals = builder.vals_of(bits);
        let ghost idx = le_index(bvals); let ghost fv = builder.val(folded); let ghost sv = builder.vals_of(siblings@);
        let ghost row = native_row(&b0, folded, siblings@, bits);
        proof {
            lemma_simp::<EF>(); lemma_bool_arith::<EF>(); lemma_p2_pow2(k); lemma_fpow_2(bv); lemma_fpow_2(ssv); lemma_le_index_range(bvals);
            reveal_with_fuel(p2, 5); reveal_with_fuel(pow2, 5);
            assert((1u64 << 1) == 2) by (bit_vector); assert((1u64 << 2) == 4) by (bit_vector);
            lemma_shl_p2(log_arity); assert(log_arity < 32 ==> (1usize << log_arity) < 0x1_0000_0000) by (bit_vector);
            assert forall|q: int| 0 <= q < bits.len() implies b0.has(#[trigger] bits[q]) by { assert(b0.has(index_bits@[bits_consumed + q])); }
        }""")
    # ---- arity 2 fast path
    fp.before('return new_folded;', """proof {
            let bitv = b0.val(index_bits@[bits_consumed as int]);
            assert(bits.len() == 1 && bits[0] == index_bits@[bits_consumed as int]);
            assert(bvals[0] == bitv && is_bool(bvals[0]));
            reveal_with_fuel(le_index, 2);
            assert(bvals.subrange(1, 1) =~= Seq::<EF>::empty());
            assert(idx == bit(bitv));
            let s = b0.val(siblings@[0]);
            assert(sv[0] == s);
            lemma_neg_one_mul(s.fsub(fv)); lemma_neg_sub(s, fv); lemma_two_minus_one::<EF>(); lemma_two_zero_minus_one::<EF>(); lemma_one_mul(s.fsub(fv));
            assert(row[0] == (if bitv == EF::fzero() { fv } else { s }));
            assert(row[1] == (if bitv == EF::fzero() { s } else { fv }));
            assert(ssv != EF::fzero());
        }""")
    return fp


def proof2(fp):
    """unrolled arity 4 / arity 8"""
    ROWQ = lambda n: f'assert forall|q: int| 0 <= q < {n} implies builder.has(#[trigger] evals@[q]) && builder.val(evals@[q]) == row[q] by {{ assert(b_ev.has(evals@[q]) && b_ev.val(evals@[q]) == row[q]); }}'
    fp.after('let evals: &[Target] = owned_evals.as_slice();', """let ghost b_ev = *builder;
        proof {
            assert(bits =~= index_in_group_bits@);
            assert(evals@.len() == p2(log_arity as int));
            assert forall|q: int| 0 <= q < evals@.len() implies b_ev.has(#[trigger] evals@[q]) && b_ev.val(evals@[q]) == row[q] by {
                match precomputed_evals { Some(e) => { assert(b0.has(e@[q])); assert(b0.vals_of(e@)[q] == row[q]); } None => {} }
            }
        }""")
    fp.rewrite_re('SPEC-bind-tail', r'arity2_fold_at_point\(builder, f0, f1, beta2, x_step1\)\s*\}', """{
        proof {
            """ + ROWQ(4) + """
            reveal_with_fuel(level, 3);
            assert(builder.val(x00) == pt::<EF>(2, 0, 0, ssv)); assert(builder.val(x01) == pt::<EF>(2, 0, 1, ssv)); assert(builder.val(x_step1) == pt::<EF>(2, 1, 0, ssv));
            assert(pt::<EF>(2, 0, 0, ssv) != EF::fzero() && pt::<EF>(2, 0, 1, ssv) != EF::fzero() && pt::<EF>(2, 1, 0, ssv) != EF::fzero());
            let l1 = level(row, bv, ssv, 2, 1);
            assert(l1.len() == 2 && l1[0] == builder.val(f0) && l1[1] == builder.val(f1));
        }
        let r2_ = arity2_fold_at_point(builder, f0, f1, beta2, x_step1);
        proof { reveal_with_fuel(level, 3); assert(builder.val(r2_) == level(row, bv, ssv, 2, 2)[0]); }
        r2_ } }""", min_count=0)
    fp.rewrite_re('SPEC-bind-tail', r'arity2_fold_at_point\(builder, g0, g1, beta4, x_step2\)\s*\}', """{
        proof {
            """ + ROWQ(8) + """
            reveal_with_fuel(level, 4); lemma_fpow_4(bv); lemma_fpow_4(ssv);
            assert(builder.val(x00) == pt::<EF>(3, 0, 0, ssv)); assert(builder.val(x01) == pt::<EF>(3, 0, 1, ssv)); assert(builder.val(x02) == pt::<EF>(3, 0, 2, ssv)); assert(builder.val(x03) == pt::<EF>(3, 0, 3, ssv));
            assert(builder.val(x10) == pt::<EF>(3, 1, 0, ssv)); assert(builder.val(x11) == pt::<EF>(3, 1, 1, ssv)); assert(builder.val(x_step2) == pt::<EF>(3, 2, 0, ssv));
            assert(pt::<EF>(3, 0, 0, ssv) != EF::fzero() && pt::<EF>(3, 0, 1, ssv) != EF::fzero() && pt::<EF>(3, 0, 2, ssv) != EF::fzero() && pt::<EF>(3, 0, 3, ssv) != EF::fzero());
            assert(pt::<EF>(3, 1, 0, ssv) != EF::fzero() && pt::<EF>(3, 1, 1, ssv) != EF::fzero() && pt::<EF>(3, 2, 0, ssv) != EF::fzero());
            let l1 = level(row, bv, ssv, 3, 1); let l2 = level(row, bv, ssv, 3, 2);
            assert(l1.len() == 4 && l1[0] == builder.val(f0) && l1[1] == builder.val(f1) && l1[2] == builder.val(f2) && l1[3] == builder.val(f3));
            assert(l2.len() == 2 && l2[0] == builder.val(g0) && l2[1] == builder.val(g1));
        }
        let r3_ = arity2_fold_at_point(builder, g0, g1, beta4, x_step2);
        proof { reveal_with_fuel(level, 4); assert(builder.val(r3_) == level(row, bv, ssv, 3, 3)[0]); }
        r3_ } }""", min_count=0)
    return fp


LEVEL_LEMMAS = r'''
verus! {
pub proof fn lemma_level_len<F: Field>(evals: Seq<F>, beta: F, ss: F, k: nat, s: nat)
    requires evals.len() == pow2(k), s <= k
    ensures level(evals, beta, ss, k, s).len() == pow2((k - s) as nat)
    decreases s
{
    if s > 0 {
        lemma_level_len(evals, beta, ss, k, (s - 1) as nat);
        assert(pow2((k - s + 1) as nat) == 2 * pow2((k - s) as nat));
    }
}
pub proof fn lemma_pow2_le(a: nat, b: nat) requires a <= b ensures pow2(a) <= pow2(b) decreases b { if a < b { lemma_pow2_le(a, (b - 1) as nat); } }
pub proof fn lemma_shl_u64(k: u64)
    requires k < 64
    ensures (1u64 << k) == pow2(k as nat)
    decreases k
{
    if k == 0 { assert((1u64 << 0u64) == 1) by (bit_vector); }
    else {
        lemma_shl_u64((k - 1) as u64);
        let j = (k - 1) as u64;
        assert(j < 63 ==> (1u64 << ((j + 1) as u64)) == 2 * (1u64 << j)) by (bit_vector);
    }
}
} // verus!
'''


def proof3(fp):
    """general arity: the in-place fold rounds"""
    G = ('builder.extends_pure(&b0) && builder.extends_pure(&b_ev) && k == log_arity && 4 <= k < 32 && bv == b0.val(beta) && ssv == b0.val(precomputed_subgroup_start) && b0.has(beta) && b0.has(precomputed_subgroup_start) '
         '&& points_nonzero::<EF>(k, ssv) && row.len() == pow2(k) && (roll_in matches Some(r) ==> b0.has(r)) && (precomputed_beta_pow matches Some(b) ==> b0.has(b)) && pow2(k) < 0x1_0000_0000')
    XS = ('xs@.len() == pow2(k) && builder.has_all(xs@) && (forall|i: int| 0 <= i < xs@.len() ==> builder.val(#[trigger] xs@[i]) == ssv.fmul(lift::<EF>(nexp(gen(k), brev(i as nat, k)))))')
    PW = lambda n: f'subgroup_start_powers@.len() == {n} && builder.has_all(subgroup_start_powers@) && (forall|q: int| 0 <= q < {n} ==> builder.val(#[trigger] subgroup_start_powers@[q]) == fpow(ssv, pow2(q as nat)))'
    fp.after('let (xs, subgroup_start) = compute_subgroup_points(builder, log_arity, precomputed_subgroup_start);', """proof {
            lemma_p2_pow2(k); assert(row.len() == pow2(k));
            assert(builder.val(subgroup_start) == ssv);
        }""")
    # ---- powers of the subgroup start
    lo = fp._loop_open('for p_ in 1..log_arity')
    fp.body = fp.body[:lo + 1] + ' let ghost pw_b = subgroup_start_powers@; let ghost b_p = *builder; ' + fp.body[lo + 1:]
    fp.at_loop_end('for p_ in 1..log_arity', """proof {
                lemma_fpow_square(ssv, (p_ - 1) as nat);
                assert forall|q: int| 0 <= q < subgroup_start_powers@.len() implies builder.has(#[trigger] subgroup_start_powers@[q]) && builder.val(subgroup_start_powers@[q]) == fpow(ssv, pow2(q as nat)) by {
                    if q < p_ { assert(subgroup_start_powers@[q] == pw_b[q]); assert(b_p.has(pw_b[q])); }
                }
                assert forall|i: int| 0 <= i < xs@.len() implies builder.has(#[trigger] xs@[i]) by { assert(b_p.has(xs@[i])); }
            }""")
    fp.before('for p_ in 1..log_arity', 'proof { lemma_fpow_2(ssv); assert(subgroup_start_powers@[0] == subgroup_start); }')
    fp.loop('for p_ in 1..log_arity', invariants=[('ctx', G), ('xs', XS), ('powers', PW('p_'))])
    return proof4(fp, G, XS, PW)


def proof4(fp, G, XS, PW):
    # ---- the rounds
    DATA = ('data@.len() == pow2((k - step) as nat) && builder.has_all(data@) && (forall|q: int| 0 <= q < data@.len() ==> builder.val(#[trigger] data@[q]) == level(row, bv, ssv, k, step as nat)[q])')
    BETA = 'builder.has(current_beta) && (step < k ==> builder.val(current_beta) == fpow(bv, pow2(step as nat)))'
    fp.before('let mut current_beta = beta;', """proof {
            assert(data@ == evals@); reveal_with_fuel(level, 1);
            assert forall|q: int| 0 <= q < data@.len() implies builder.has(#[trigger] data@[q]) && builder.val(data@[q]) == level(row, bv, ssv, k, 0)[q] by { assert(b_ev.has(evals@[q]) && b_ev.val(evals@[q]) == row[q]); }
            lemma_fpow_2(bv);
        }""")
    STEP_HDR = 'for step in 0..(if subgroup_start_powers.len() <= log_arity { subgroup_start_powers.len() } else { log_arity })'
    fp.after('let ss = subgroup_start_powers[step];', """let ghost lvl = level(row, bv, ssv, k, step as nat); let ghost nxt = level(row, bv, ssv, k, (step + 1) as nat); let ghost cb = fpow(bv, pow2(step as nat));
            proof {
                lemma_level_len(row, bv, ssv, k, step as nat); lemma_level_len(row, bv, ssv, k, (step + 1) as nat);
                assert(pow2((k - step) as nat) == 2 * pow2((k - step - 1) as nat));
                lemma_pow2_le((k - step) as nat, k);
                assert(builder.val(ss) == fpow(ssv, pow2(step as nat)));
            }""")
    # step 0 inner loop (first `for j in 0..num_pairs`), constants loop (second), step>0 inner loop (third)
    FOLDINV = lambda extra: [
        ('ctx', G + ' && step < k && lvl == level(row, bv, ssv, k, step as nat) && nxt == level(row, bv, ssv, k, (step + 1) as nat) && lvl.len() == pow2((k - step) as nat) && nxt.len() == num_pairs && 2 * num_pairs == lvl.len() && lvl.len() < 0x1_0000_0000 '
                '&& data@.len() == lvl.len() && builder.has_all(data@) && builder.has(current_beta) && builder.val(current_beta) == fpow(bv, pow2(step as nat)) && builder.has(beta)' + extra),
        ('done', 'forall|q: int| 0 <= q < j ==> builder.val(#[trigger] data@[q]) == nxt[q]'),
        ('ahead', 'forall|q: int| 2 * j <= q < data@.len() ==> builder.val(#[trigger] data@[q]) == lvl[q]'),
    ]
    PWK = PW('k')
    return proof5(fp, G, XS, PWK, DATA, BETA, FOLDINV, STEP_HDR)


def proof5(fp, G, XS, PWK, DATA, BETA, FOLDINV, STEP_HDR):
    KEEP = ' && ' + XS + ' && ' + PWK
    # inner loop bodies: ghost snapshot at start, proof at end
    for nth, is0 in ((2, False), (0, True)):
        lo = fp._loop_open('for j in 0..num_pairs', nth)
        fp.body = fp.body[:lo + 1] + ' let ghost d_b = data@; let ghost b_j = *builder; ' + fp.body[lo + 1:]
        fp.at_loop_end('for j in 0..num_pairs', """proof {
                        reveal_with_fuel(level, 1); lemma_fpow_2(ssv);
                        if step == 0 { assert(b_j.val(xs@[2 * j]) == pt::<EF>(k, 0, j as int, ssv)); }
                        assert(nxt[j as int] == fold2(lvl[2 * j], lvl[2 * j + 1], fpow(bv, pow2(step as nat)), pt::<EF>(k, step as nat, j as int, ssv)));
                        assert(pt::<EF>(k, step as nat, j as int, ssv) != EF::fzero());
                        assert forall|q: int| 0 <= q < data@.len() implies builder.has(#[trigger] data@[q]) by { if q != j { assert(data@[q] == d_b[q]); assert(b_j.has(d_b[q])); } }
                        assert forall|q: int| 0 <= q < j + 1 implies builder.val(#[trigger] data@[q]) == nxt[q] by { if q < j { assert(data@[q] == d_b[q]); assert(b_j.val(d_b[q]) == nxt[q]); } }
                        assert forall|q: int| 2 * (j + 1) <= q < data@.len() implies builder.val(#[trigger] data@[q]) == lvl[q] by { assert(data@[q] == d_b[q]); assert(b_j.val(d_b[q]) == lvl[q]); }
                        assert forall|i: int| 0 <= i < xs@.len() implies builder.has(#[trigger] xs@[i]) by { assert(b_j.has(xs@[i])); }
                        assert forall|q: int| 0 <= q < subgroup_start_powers@.len() implies builder.has(#[trigger] subgroup_start_powers@[q]) by { assert(b_j.has(subgroup_start_powers@[q])); }
                    }""", nth=nth)
    # constants loop (second `for j in 0..num_pairs`)
    lo = fp._loop_open('for j in 0..num_pairs', 1)
    fp.body = fp.body[:lo + 1] + ' let ghost v_b = v_@; let ghost b_c = *builder; ' + fp.body[lo + 1:]
    fp.at_loop_end('for j in 0..num_pairs', """proof {
                            assert forall|q: int| 0 <= q < v_@.len() implies builder.has(#[trigger] v_@[q]) && builder.val(v_@[q]) == lift::<EF>(tw(k, step as nat, q)) by { if q < j { assert(v_@[q] == v_b[q]); assert(b_c.has(v_b[q])); } }
                            assert forall|q: int| 0 <= q < data@.len() implies builder.has(#[trigger] data@[q]) && builder.val(data@[q]) == lvl[q] by { assert(b_c.has(data@[q])); }
                            assert forall|i: int| 0 <= i < xs@.len() implies builder.has(#[trigger] xs@[i]) by { assert(b_c.has(xs@[i])); }
                            assert forall|q: int| 0 <= q < subgroup_start_powers@.len() implies builder.has(#[trigger] subgroup_start_powers@[q]) by { assert(b_c.has(subgroup_start_powers@[q])); }
                        }""", nth=1)
    fp.before('let omega_s = omega.exp_u64(1 << step);', 'proof { lemma_shl_u64(step as u64); }')
    fp.loop('for j in 0..num_pairs', invariants=FOLDINV(KEEP + ' && step > 0 && builder.has(ss) && builder.val(ss) == fpow(ssv, pow2(step as nat)) && omega_s_br@.len() == num_pairs && builder.has_all(omega_s_br@) '
                                                        '&& (forall|q: int| 0 <= q < num_pairs ==> builder.val(#[trigger] omega_s_br@[q]) == lift::<EF>(tw(k, step as nat, q)))'), nth=2)
    fp.loop('for j in 0..num_pairs', invariants=[
        ('ctx', G + KEEP + ' && 0 < step < k && log_domain == k - step && omega_s == nexp(gen(k), pow2(step as nat)) && lvl == level(row, bv, ssv, k, step as nat) && 2 * num_pairs == lvl.len() && lvl.len() < 0x1_0000_0000 && lvl.len() == pow2((k - step) as nat) && data@.len() == lvl.len() '
                '&& builder.has_all(data@) && (forall|q: int| 0 <= q < data@.len() ==> builder.val(#[trigger] data@[q]) == lvl[q]) && builder.has(current_beta) && builder.val(current_beta) == fpow(bv, pow2(step as nat)) && builder.has(beta) && builder.has(ss) && builder.val(ss) == fpow(ssv, pow2(step as nat))'),
        ('consts', 'v_@.len() == j && builder.has_all(v_@) && forall|q: int| 0 <= q < j ==> builder.val(#[trigger] v_@[q]) == lift::<EF>(tw(k, step as nat, q))'),
    ], nth=1)
    fp.loop('for j in 0..num_pairs', invariants=FOLDINV(KEEP + ' && step == 0'), nth=0)
    # round epilogue / loop invariant
    fp.at_loop_end(STEP_HDR, """proof {
                lemma_fpow_square(bv, step as nat);
                assert forall|q: int| 0 <= q < data@.len() implies builder.has(#[trigger] data@[q]) && builder.val(data@[q]) == nxt[q] by {}
            }""")
    fp.loop(STEP_HDR, invariants=[('ctx', G), ('xs', XS), ('powers', PWK), ('row', DATA), ('beta', BETA + ' && builder.has(beta)'), ('omega', 'omega == gen(k)')])
    return fp
