"""Unit `fquery` (C07): one commit phase of one FRI query in verify_fri_circuit (the MMCS path, i.e. the path every real configuration takes).

Real text: recursion/src/pcs/fri/verifier.rs verify_fri_circuit, sliced (R13) to the BODY of the commit-phase loop
`for (phase_idx, (commit, opening)) in commit_phase_commits.zip(commit_phase_openings).enumerate()`.
Spec (one loop step): the row opened against this phase's commitment IS the row that is folded -- the folded value so far placed among the
proof's siblings at the position given by this phase's own index bits; it is opened at the parent index formed by the remaining bits, with
dimensions (2^log_folded_height, 2^log_arity); the new folded value is the native fold of that row (contract of fold_one_phase, unit fold)
at this phase's subgroup start with this phase's beta / beta power / roll-in; the consumed-bit counter and the height advance by log_arity;
a height-0 phase opens nothing.  MMCS verification itself is abstracted by an uninterpreted acceptance predicate added to `sat`."""
import os
import re

from vf.extract import extract_fn, match_brace, ExtractError
from vf.unit import Unit, Fn, project_on
from units.fri import SPEC as FRI_SPEC
from units.fold import SPEC as FOLD_SPEC, common
from units.fchain import stub_fold_one_phase, stub_final_query_point
from units.openin import slice_loop_body

HERE = os.path.dirname(os.path.abspath(__file__))

SPEC = r'''
verus! {
pub struct Dimensions { pub width: usize, pub height: usize }
pub struct NonPrimitiveOpId(pub u32);
pub struct ErrMsg { pub _p: () }
#[verifier::external_body] pub fn errmsg() -> ErrMsg { unimplemented!() }
pub enum VerificationError { InvalidProofShape(ErrMsg), Other }
pub struct CircuitBuilderError { pub _p: () }
#[derive(Clone, Copy)]
pub struct PermCfg { pub id: Ghost<int> }
pub uninterp spec fn sp_arity4(c: PermCfg) -> bool;
impl PermCfg { #[verifier::external_body] pub fn is_arity4_shape(&self) -> (r: bool) ensures r == sp_arity4(*self) { unimplemented!() } }
/// a commit-phase commitment (Comm: ObservableCommitment): only its lifted observation targets are read
pub struct CommitStub { pub lifted: Vec<Target> }
impl CommitStub { pub fn to_observation_targets(&self) -> (r: Vec<Target>) ensures r@ == self.lifted@ { self.lifted.clone() } }
pub struct OpeningProofStub { pub salts: Vec<Vec<Target>> }
impl OpeningProofStub { pub fn salt_targets(&self) -> (r: &[Vec<Target>]) ensures r@ == self.salts@ { self.salts.as_slice() } }
pub struct OpeningStub { pub opening_proof: OpeningProofStub }

pub open spec fn rows_vals<F: Field>(cb: &CircuitBuilder<F>, rows: Seq<Vec<Target>>) -> Seq<Seq<F>> { Seq::new(rows.len(), |i: int| cb.vals_of(rows[i]@)) }
pub open spec fn rows_alloc<F: Field>(cb: &CircuitBuilder<F>, rows: Seq<Vec<Target>>) -> bool { forall|i: int| 0 <= i < rows.len() ==> cb.has_all((#[trigger] rows[i])@) }
/// the cap rows (extension-packed) of a lifted commitment: uninterpreted function of the lifted values (commitment_cap_rows_from_lifted, unit mbind)
pub uninterp spec fn packed_cap<F: Field>(lifted: Seq<F>, cfg: PermCfg) -> Seq<Seq<F>>;
/// native MMCS acceptance: `cap` opens to `rows` (one per matrix, with `dims`) at the index given by `index_bits`, with the given salts
pub uninterp spec fn mmcs_opens<F: Field>(cfg: PermCfg, cap: Seq<Seq<F>>, dims: Seq<(usize, usize)>, index_bits: Seq<F>, rows: Seq<Seq<F>>, salts: Option<Seq<Seq<F>>>) -> bool;
pub open spec fn dims_v(d: Seq<Dimensions>) -> Seq<(usize, usize)> { Seq::new(d.len(), |i: int| (d[i].height, d[i].width)) }

#[verifier::external_body]
pub fn commitment_cap_rows_from_lifted<EF: FoldX>(builder: &mut CircuitBuilder<EF>, perm_config: PermCfg, lifted: &Vec<Target>) -> (r: Vec<Vec<Target>>)
    requires old(builder).has_all(lifted@)
    ensures final(builder).extends_pure(old(builder)), rows_alloc(final(builder), r@), rows_vals(final(builder), r@) == packed_cap(old(builder).vals_of(lifted@), perm_config)
{ unimplemented!() }
#[verifier::external_body]
pub fn clone_cap(c: &Vec<Vec<Target>>) -> (r: Vec<Vec<Target>>) ensures r@ == c@ { unimplemented!() }
pub assume_specification<T> [core::slice::from_ref::<T>](s: &T) -> (r: &[T]) ensures r@ == seq![*s];

/// ASSUMED contract of verify_batch_circuit_from_extension_opened{,_arity4} (recursion/src/pcs/mmcs.rs; the base-field variant is under contract in
/// units mbind / vbatch): on Ok the circuit is satisfiable only if the native MMCS check accepts exactly these arguments
#[verifier::external_body]
pub fn verify_batch_circuit_from_extension_opened<EF: FoldX>(circuit: &mut CircuitBuilder<EF>, permutation_config: PermCfg, commitment_cap: &Vec<Vec<Target>>, dimensions: &Vec<Dimensions>,
        index_bits: &Vec<Target>, opened_extension_values: &[Vec<Target>], salts: Option<&[Vec<Target>]>) -> (r: Result<Vec<NonPrimitiveOpId>, CircuitBuilderError>)
    requires rows_alloc(old(circuit), commitment_cap@) && old(circuit).has_all(index_bits@) && rows_alloc(old(circuit), opened_extension_values@) && (salts matches Some(s) ==> rows_alloc(old(circuit), s@))
    ensures final(circuit).extends(old(circuit)), final(circuit).chain@ == old(circuit).chain@, final(circuit).row@ == old(circuit).row@,
        r is Ok ==> final(circuit).sat@ == (old(circuit).sat@ && mmcs_opens(permutation_config, rows_vals(old(circuit), commitment_cap@), dims_v(dimensions@), old(circuit).vals_of(index_bits@),
            rows_vals(old(circuit), opened_extension_values@), match salts { Some(s) => Some(rows_vals(old(circuit), s@)), None => None })),
        r is Err ==> final(circuit).sat@ == old(circuit).sat@,
{ unimplemented!() }
#[verifier::external_body]
pub fn verify_batch_circuit_from_extension_opened_arity4<EF: FoldX>(circuit: &mut CircuitBuilder<EF>, permutation_config: PermCfg, commitment_cap: &Vec<Vec<Target>>, dimensions: &Vec<Dimensions>,
        index_bits: &Vec<Target>, opened_extension_values: &[Vec<Target>]) -> (r: Result<Vec<NonPrimitiveOpId>, CircuitBuilderError>)
    requires rows_alloc(old(circuit), commitment_cap@) && old(circuit).has_all(index_bits@) && rows_alloc(old(circuit), opened_extension_values@)
    ensures final(circuit).extends(old(circuit)), final(circuit).chain@ == old(circuit).chain@, final(circuit).row@ == old(circuit).row@,
        r is Ok ==> final(circuit).sat@ == (old(circuit).sat@ && mmcs_opens(permutation_config, rows_vals(old(circuit), commitment_cap@), dims_v(dimensions@), old(circuit).vals_of(index_bits@),
            rows_vals(old(circuit), opened_extension_values@), None)),
        r is Err ==> final(circuit).sat@ == old(circuit).sat@,
{ unimplemented!() }

/// the parent index bits of a phase: the index bits above the ones consumed so far and this phase's in-group bits, zero-padded to the folded height
pub open spec fn parent_bits<F: Field>(bits: Seq<F>, start: int, lfh: int, lmh: int) -> Seq<F> { Seq::new(lfh as nat, |t: int| if start + t < lmh { bits[start + t] } else { F::fzero() }) }
pub open spec fn row_v<F: Field>(fv: F, sib: Seq<F>, bits: Seq<F>) -> Seq<F> { Seq::new(p2(bits.len() as int) as nat, |j: int| placed(fv, sib, le_index(bits), j)) }
/// index of the first entry equal to h (= the length when there is none): `iter().position(|&x| x == h)`
pub open spec fn first_at(s: Seq<usize>, h: usize) -> int decreases s.len() {
    if s.len() == 0 { 0 } else if s[0] == h { 0 } else { 1 + first_at(s.subrange(1, s.len() as int), h) }
}
pub proof fn lemma_first_at(s: Seq<usize>, h: usize, k: int)
    requires 0 <= k < s.len(), forall|j: int| 0 <= j < k ==> s[j] != h
    ensures s[k] == h ==> first_at(s, h) == k, s[k] != h ==> first_at(s, h) > k
    decreases k
{
    if k > 0 { let t = s.subrange(1, s.len() as int); assert forall|j: int| 0 <= j < k - 1 implies t[j] != h by { assert(t[j] == s[j + 1]); } lemma_first_at(t, h, k - 1); assert(t[k - 1] == s[k]); }
    else { if s[0] != h { lemma_first_at_nonneg(s.subrange(1, s.len() as int), h); } }
}
pub proof fn lemma_first_at_nonneg(s: Seq<usize>, h: usize) ensures 0 <= first_at(s, h) <= s.len() decreases s.len() { if s.len() > 0 && s[0] != h { lemma_first_at_nonneg(s.subrange(1, s.len() as int), h); } }
pub proof fn lemma_first_at_none(s: Seq<usize>, h: usize) requires forall|j: int| 0 <= j < s.len() ==> s[j] != h ensures first_at(s, h) == s.len() decreases s.len() {
    if s.len() > 0 { let t = s.subrange(1, s.len() as int); assert forall|j: int| 0 <= j < t.len() implies t[j] != h by { assert(t[j] == s[j + 1]); } lemma_first_at_none(t, h); }
}
pub open spec fn opt_val<F: Field>(cb: &CircuitBuilder<F>, o: Option<ExprId>) -> Option<F> { match o { Some(r) => Some(cb.val(r)), None => None } }
} // verus!
'''


def unmap_err_q(f):
    """R8/R6: `let NAME = RECV .map_err(|e| { BODY })?;` -> `let NAME = match RECV { Ok(v_) => v_, Err(e) => { return Err(BODY); } };` (RECV, BODY verbatim)"""
    n = 0
    while True:
        m = re.search(r'\.\s*map_err(\()\s*\|(\w+)\|', f.body)
        if not m:
            break
        close = match_brace(f.body, m.start(1))
        tail = re.match(r'\s*\?\s*;', f.body[close + 1:])
        if not tail:
            break
        body = re.sub(r'^\s*\|\w+\|\s*', '', f.body[m.start(1) + 1:close]).strip()
        if body.startswith('{') and match_brace(body, 0) == len(body) - 1 and ';' not in body:
            body = body[1:-1].strip()
        # receiver: back to the `=` of the enclosing let at depth 0
        i, depth = m.start() - 1, 0
        while i >= 0:
            ch = f.body[i]
            if ch in ')]}':
                depth += 1
            elif ch in '([{':
                depth -= 1
            elif ch == '=' and depth == 0 and f.body[i - 1] not in '=!<>' and f.body[i + 1] != '=':
                break
            i -= 1
        if i < 0:
            break
        recv = f.body[i + 1:m.start()].strip()
        end = close + 1 + tail.end()
        f.body = f.body[:i + 1] + f' match {recv} {{ Ok(v_) => v_, Err({m.group(2)}) => {{ return Err({body}); }} }};' + f.body[end:]
        n += 1
    if n:
        f.rewrites.append(('R6', f'{n}x `let X = RECV.map_err(|e| BODY)?;` -> match with early return (RECV, BODY verbatim)', ''))
    return f


def unposition(f):
    """R6: `let NAME = VEC.iter().position(|&x| COND);` -> first-match loop: `let mut found_pos_ = None; for pos_ in 0..VEC.len() { let x = VEC[pos_]; if found_pos_.is_none() && (COND) { found_pos_ = Some(pos_); } } let NAME = found_pos_;`"""
    m = re.search(r'let (\w+) = (\w+)\.iter\(\)\.position\(\|&(\w+)\|\s*([^;]*?)\);', f.body)
    if not m:
        return f
    name, vec, x, cond = m.group(1), m.group(2), m.group(3), m.group(4).strip()
    new = (f'let mut found_pos_: Option<usize> = None; for pos_ in 0..{vec}.len() {{ let {x} = {vec}[pos_]; if found_pos_.is_none() && ({cond}) {{ found_pos_ = Some(pos_); }} }} let {name} = found_pos_;')
    f.body = f.body[:m.start()] + new + f.body[m.end():]
    f.rewrites.append(('R6', '`VEC.iter().position(|&x| COND)` -> first-match loop (COND verbatim)', ''))
    return f


FQ_SPECS = r"""
/// (same definitions as in unit fchain, where compute_final_query_point is proved against them)
pub open spec fn selprod<F: Field>(bits: Seq<F>, pw: Seq<F>, n: int) -> F decreases n {
    if n <= 0 { F::fone() } else { selprod(bits, pw, n - 1).fmul(if bits[n - 1] == F::fone() { pw[n - 1] } else { F::fone() }) }
}
pub open spec fn final_bits<F: Field>(bits: Seq<F>, lmh: int, total: int) -> Seq<F> { Seq::new(lmh as nat, |t: int| if t < total { F::fzero() } else { bits[lmh - 1 - (t - total)] }) }
pub open spec fn imin(a: int, b: int) -> int { if a <= b { a } else { b } }
"""


def build():
    u = Unit('fquery', ['C07', 'C20'])
    u.rlimit = 150
    u.assume('fold_one_phase and reconstruct_evals meet the contracts proved for them in units fold / fri (stubs generated from the same contract text / copied from unit fold)')
    u.assume('verify_batch_circuit_from_extension_opened{,_arity4}: ASSUMED contract -- Ok means `sat` gains exactly the native MMCS acceptance of (cap, dimensions, index bits, rows, salts); commitment_cap_rows_from_lifted returns the packed cap of the lifted commitment; the arity-2 variant is under contract in unit vbatchx (there: the explicit level-digest / path / cap relation that `mmcs_opens` abbreviates here), the arity-4 variant is not')
    u.assume('R13 slice: the loop state (current_folded, bits_consumed, log_current_height) enters as parameters and leaves as the Ok value; `continue` = return of that state; everything before the loop (validation, open_input, roll-ins, final point) and the final connect are outside this unit (units shape, openin, fchain, fri)')
    u.text(open(os.path.join(HERE, 'gadget_prelude.rs')).read())
    u.text(FRI_SPEC)
    u.text(open(os.path.join(HERE, 'fri_rec_spec.rs')).read().replace('pub fn one_hot_from_bits', 'pub fn one_hot_from_bits_unused').replace('/// generic one-hot builder', '/// (unused here) generic one-hot builder'))
    u.text(FOLD_SPEC)
    u.text(SPEC)
    u.text('verus! {\n' + stub_fold_one_phase(u) + '\n}')
    V = 'recursion/src/pcs/fri/verifier.rs'
    f = u.extract(V, '', 'verify_fri_circuit', 'verify_fri_circuit[commit_phase_step]')
    slice_loop_body(f, r'for \(phase_idx, \(commit, opening\)\) in fri_proof_targets\s*\.commit_phase_commits\s*\.iter\(\)\s*\.zip\(query_proof\.commit_phase_openings\.iter\(\)\)\s*\.enumerate\(\)\s*\{',
                    'prefix: validation (unit shape), cap packing, open_input (unit openin), roll-in table, final point (unit fchain), final polynomial (unit fri); suffix: connect(current_folded, final_poly_eval) and the no-MMCS branch (unit fchain)')
    common(f)
    f.set_sig('R11', 'fn verify_fri_circuit<EF: FoldX>(builder: &mut CircuitBuilder<EF>, phase_idx: usize, commit: &CommitStub, opening: &OpeningStub, log_arities: &[usize], '
                     'sibling_values_per_phase: &Vec<Vec<Target>>, betas: &[Target], index_bits_per_query: &[Vec<Target>], q: usize, roll_ins: &Vec<Option<Target>>, beta_pows_per_phase: &Vec<Target>, '
                     'subgroup_starts: &Vec<Target>, pre_packed_commit_caps: &Option<Vec<Vec<Vec<Target>>>>, perm_config: PermCfg, log_max_height: usize, all_mmcs_op_ids: &mut Vec<NonPrimitiveOpId>, '
                     'current_folded_in: Target, bits_consumed_in: usize, log_current_height_in: usize) -> Result<(Target, usize, usize), VerificationError>', sliced=True)
    f.erase_error_messages('VerificationError::InvalidProofShape')
    unmap_err_q(f)
    f.rewrite_re('R13', r'\bcontinue;', 'return Ok((current_folded, bits_consumed, log_current_height));', min_count=0)
    f.body = '{ let mut current_folded = current_folded_in; let mut bits_consumed = bits_consumed_in; let mut log_current_height = log_current_height_in;\n' + f.body[1:]
    f.body = f.body[:f.body.rstrip().rfind('}')] + '\n Ok((current_folded, bits_consumed, log_current_height)) }'
    f.rewrites.append(('R13', 'loop state as locals initialised from the *_in parameters; the state is the Ok value at the end of the body and at `continue`', ''))
    f.rewrite_re('R4', r'if let Some\(ref (\w+)\) = pre_packed_commit_caps \{', r'if let Some(\1) = pre_packed_commit_caps {', min_count=0)
    f.rewrite_re('R6', r'(\w+)\[phase_idx\]\.clone\(\)', r'clone_cap(&\1[phase_idx])', min_count=0)
    f.rewrite_re('R6', r'all_mmcs_op_ids\.extend\((\w+)\);', r'{ let mut ext_ = \1; all_mmcs_op_ids.append(&mut ext_); }', min_count=0)
    f.rewrite_re('R6', r'index_bits_per_query\[q\]\[([^\]]+)\]', r'index_bits_per_query[q].as_slice()[\1]', min_count=0)
    f.rewrite_re('R11', r'\bEF::ZERO\b', 'EF::zero()', min_count=0)
    f.attr('#[verifier::loop_isolation(false)]')
    K = 'log_arities@[phase_idx as int]'
    BITS = 'index_bits_per_query@[q as int]@'
    f.requires('shape', f'''phase_idx < log_arities@.len() && log_arities@.len() == sibling_values_per_phase@.len() && betas@.len() == log_arities@.len() && roll_ins@.len() == log_arities@.len()
            && beta_pows_per_phase@.len() == log_arities@.len() && subgroup_starts@.len() == log_arities@.len() && q < index_bits_per_query@.len()
            && {BITS}.len() == log_max_height && log_max_height < 64 && 1 <= {K} < 32 && bits_consumed_in + {K} <= log_max_height
            && log_current_height_in + bits_consumed_in == log_max_height
            && sibling_values_per_phase@[phase_idx as int]@.len() == p2({K} as int) - 1 && all_bool(old(builder).vals_of({BITS}))''')
    f.requires('allocated', f'''old(builder).has(current_folded_in) && old(builder).has_all(betas@) && rows_alloc(old(builder), sibling_values_per_phase@) && old(builder).has_all({BITS})
            && (roll_ins@[phase_idx as int] matches Some(r) ==> old(builder).has(r)) && old(builder).has_all(beta_pows_per_phase@) && old(builder).has_all(subgroup_starts@)
            && old(builder).has_all(commit.lifted@) && rows_alloc(old(builder), opening.opening_proof.salts@)
            && (pre_packed_commit_caps matches Some(pp) ==> phase_idx < pp@.len() && rows_alloc(old(builder), pp@[phase_idx as int]@))''')
    f.requires('pre_packed_caps_are_the_packed_commitments', '''pre_packed_commit_caps matches Some(pp) ==> rows_vals(old(builder), pp@[phase_idx as int]@) == packed_cap(old(builder).vals_of(commit.lifted@), perm_config)''')
    f.requires('beta_power', f'old(builder).val(beta_pows_per_phase@[phase_idx as int]) == fpow(old(builder).val(betas@[phase_idx as int]), pow2({K} as nat))')
    f.requires('non_zero_points', f'points_nonzero::<EF>({K} as nat, old(builder).val(subgroup_starts@[phase_idx as int]))')
    ROW = f'row_v(b.val(current_folded_in), b.vals_of(sibling_values_per_phase@[phase_idx as int]@), b.vals_of({BITS}.subrange(bits_consumed_in as int, bits_consumed_in + {K})))'
    f.ensures('frame', 'final(builder).extends(old(builder)) && (ret matches Ok(s) ==> final(builder).has(s.0))')
    f.ensures('state_advances_by_this_phase_arity', f'ret matches Ok(s) ==> s.1 == bits_consumed_in + {K} && s.2 == log_current_height_in - {K}')
    f.ensures('folded_value_is_the_native_fold_of_the_opened_row', f'''ret matches Ok(s) ==> ({{ let b = old(builder); let k = {K} as nat; let beta = b.val(betas@[phase_idx as int]);
            final(builder).val(s.0) == with_roll_in(phase_value({ROW}, beta, b.val(subgroup_starts@[phase_idx as int]), k), beta, k, opt_val(b, roll_ins@[phase_idx as int])) }})''')
    f.ensures('the_folded_row_is_the_row_opened_against_this_phase_commitment_at_the_parent_index', f'''ret matches Ok(s) ==> ({{ let b = old(builder); let lch = s.2 as int;
            if lch == 0 {{ final(builder).sat@ == b.sat@ }} else {{
                final(builder).sat@ == (b.sat@ && mmcs_opens(perm_config, packed_cap(b.vals_of(commit.lifted@), perm_config), seq![(p2(lch) as usize, p2({K} as int) as usize)],
                    parent_bits(b.vals_of({BITS}), bits_consumed_in + {K}, lch, log_max_height as int), seq![{ROW}],
                    if sp_arity4(perm_config) || opening.opening_proof.salts@.len() == 0 {{ None }} else {{ Some(rows_vals(b, opening.opening_proof.salts@)) }})) }} }})''')
    f.ensures('mmcs_shape_errors_are_invalid_proof_shape', 'ret matches Err(e) ==> e is InvalidProofShape && final(builder).sat@ == old(builder).sat@')
    f.at_start('''let ghost b0 = *old(builder); proof { lemma_shl_p2(log_arities@[phase_idx as int]); lemma_shl_p2((log_current_height_in - log_arities@[phase_idx as int]) as usize);
            assert(b0.vals_of(index_bits_per_query@[q as int]@.subrange(bits_consumed_in as int, bits_consumed_in + log_arities@[phase_idx as int])) =~=
                   b0.vals_of(index_bits_per_query@[q as int]@).subrange(bits_consumed_in as int, bits_consumed_in + log_arities@[phase_idx as int]));
            assert(b0.has_all(sibling_values_per_phase@[phase_idx as int]@)); }''')
    SUB = 'index_bits_per_query@[q as int]@.subrange(bits_consumed_in as int, bits_consumed_in + log_arities@[phase_idx as int])'
    SIB = 'sibling_values_per_phase@[phase_idx as int]@'
    f.before('current_folded = fold_one_phase(', f'''proof {{
                        assert(all_bool(b0.vals_of({SUB}))) by {{ assert forall|t: int| 0 <= t < {SUB}.len() implies is_bool(#[trigger] b0.vals_of({SUB})[t]) by {{ assert(is_bool(b0.vals_of(index_bits_per_query@[q as int]@)[bits_consumed_in + t])); }} }}
                        assert(native_row(&b0, current_folded_in, {SIB}, {SUB}) =~= row_v(b0.val(current_folded_in), b0.vals_of({SIB}), b0.vals_of({SUB})));
                    }}''', nth=0)
    f.before('let evals', f'''proof {{
                        assert(all_bool(b0.vals_of({SUB}))) by {{ assert forall|t: int| 0 <= t < {SUB}.len() implies is_bool(#[trigger] b0.vals_of({SUB})[t]) by {{ assert(is_bool(b0.vals_of(index_bits_per_query@[q as int]@)[bits_consumed_in + t])); }} }}
                        assert(index_in_group_bits@ == {SUB}); // @@A:in_group_bits_are_this_phase_index_bits

                    }}''')
    f.before('let commitment_cap', 'let ghost b_pc = *builder;')
    f.before('let folded_height', '''let ghost b_c = *builder; proof {
                    assert(b_pc.vals_of(commit.lifted@) =~= b0.vals_of(commit.lifted@));
                    match pre_packed_commit_caps {
                        Some(pp) => {
                            assert forall|i: int| 0 <= i < commitment_cap@.len() implies #[trigger] rows_vals(&b_c, commitment_cap@)[i] =~= rows_vals(&b0, pp@[phase_idx as int]@)[i] by { assert(b0.has_all(pp@[phase_idx as int]@[i]@)); }
                            assert(rows_vals(&b_c, commitment_cap@) =~= rows_vals(&b0, pp@[phase_idx as int]@));
                        }
                        None => {}
                    }
                    assert(rows_vals(&b_c, commitment_cap@) == packed_cap(b0.vals_of(commit.lifted@), perm_config));
                    assert(rows_alloc(&b_c, commitment_cap@));
                }''')
    f.before('let commit_phase_ops', f'''let ghost b_m = *builder; proof {{
                    let row = row_v(b0.val(current_folded_in), b0.vals_of({SIB}), b0.vals_of({SUB}));
                    assert(b_m.vals_of(evals@) =~= row); // @@A:opened_row_is_the_folded_value_among_the_siblings

                    assert(rows_vals(&b_m, seq![evals]) =~= seq![row]);
                    assert(dims_v(dimensions@) =~= seq![(p2(log_folded_height as int) as usize, p2(log_arities@[phase_idx as int] as int) as usize)]); // @@A:dimensions_are_folded_height_by_arity

                    assert(parent_index_bits@.len() == log_folded_height);
                    assert(b_m.vals_of(parent_index_bits@) =~= pb);
                    assert(rows_alloc(&b_m, seq![evals]));
                    assert forall|i: int| 0 <= i < opening.opening_proof.salts@.len() implies #[trigger] rows_vals(&b_m, opening.opening_proof.salts@)[i] =~= rows_vals(&b0, opening.opening_proof.salts@)[i] by {{
                        assert(b0.has_all(opening.opening_proof.salts@[i]@)); }}
                    assert(rows_vals(&b_m, opening.opening_proof.salts@) =~= rows_vals(&b0, opening.opening_proof.salts@));
                    assert forall|i: int| 0 <= i < commitment_cap@.len() implies #[trigger] rows_vals(&b_m, commitment_cap@)[i] =~= rows_vals(&b_c, commitment_cap@)[i] by {{ assert(b_c.has_all(commitment_cap@[i]@)); }}
                    assert(rows_vals(&b_m, commitment_cap@) =~= rows_vals(&b_c, commitment_cap@));
                }}''')
    f.before('current_folded = fold_one_phase(', f'''proof {{
                    assert(builder.vals_of({SUB}) =~= b0.vals_of({SUB}));
                    assert(builder.vals_of({SIB}) =~= b0.vals_of({SIB}));
                    assert(builder.vals_of(evals@) =~= native_row(builder, current_folded, {SIB}, {SUB}));
                    assert(native_row(builder, current_folded, {SIB}, {SUB}) =~= row_v(b0.val(current_folded_in), b0.vals_of({SIB}), b0.vals_of({SUB})));
                }}''', nth=1)
    if 'while parent_index_bits.len() < log_folded_height' in f.body:
        f.before('while parent_index_bits.len() < log_folded_height', '''let ghost b2 = *builder; let ghost pb = parent_bits(b0.vals_of(index_bits_per_query@[q as int]@), bits_consumed_in + log_arities@[phase_idx as int], log_folded_height as int, log_max_height as int);
                proof { assert forall|t: int| 0 <= t < parent_index_bits@.len() implies b2.has(#[trigger] parent_index_bits@[t]) && b2.val(parent_index_bits@[t]) == pb[t] by { // @@A:parent_index_bits_are_the_index_bits_above_this_phase
                    assert(parent_index_bits@[t] == index_bits_per_query@[q as int]@[parent_bit_start + t]); // @@A:parent_index_bits_are_the_index_bits_above_this_phase
 assert(b0.has(index_bits_per_query@[q as int]@[parent_bit_start + t])); } }''')
        lo = f._loop_open('while parent_index_bits.len() < log_folded_height')
        f.body = f.body[:lo + 1] + ' let ghost pib_b = parent_index_bits@; ' + f.body[lo + 1:]
        f.at_loop_end('while parent_index_bits.len() < log_folded_height', '''proof { assert forall|t: int| 0 <= t < parent_index_bits@.len() implies b2.has(#[trigger] parent_index_bits@[t]) && b2.val(parent_index_bits@[t]) == pb[t] by {
                    if t < pib_b.len() { assert(parent_index_bits@[t] == pib_b[t]); } } }''')
        f.loop('while parent_index_bits.len() < log_folded_height', invariants=[
            ('padded', '''parent_index_bits@.len() <= log_folded_height || parent_index_bits@.len() == parent_bit_end - parent_bit_start'''),
            ('prefix', 'parent_index_bits@.len() >= parent_bit_end - parent_bit_start && b2.has(zero) && b2.val(zero) == EF::fzero() && forall|t: int| 0 <= t < parent_index_bits@.len() && t < log_folded_height ==> b2.has(#[trigger] parent_index_bits@[t]) && b2.val(parent_index_bits@[t]) == pb[t]'),
        ], decreases='log_folded_height - parent_index_bits@.len()')

    # ------------------------------------------------------------------ verify_fri_circuit[roll_in_step]: one reduced opening below the top height
    r = u.extract(V, '', 'verify_fri_circuit', 'verify_fri_circuit[roll_in_step]')
    slice_loop_body(r, r'for &\(h, ro\) in reduced_by_height\.iter\(\)\.skip\(1\)\s*\{',
                    'the loop distributing the reduced openings of the lower heights over the phases (everything else: see commit_phase_step)')
    common(r)
    r.set_sig('R11', 'fn verify_fri_circuit<EF: FoldX>(builder: &mut CircuitBuilder<EF>, h: usize, ro: Target, folded_height_after: &Vec<usize>, roll_ins: &mut Vec<Option<Target>>) -> Result<(), VerificationError>', sliced=True)
    r.erase_error_messages('VerificationError::InvalidProofShape')
    unposition(r)
    r.rewrite_re('R11', r'\bEF::ZERO\b', 'EF::zero()', min_count=0)
    r.body = r.body[:r.body.rstrip().rfind('}')] + '\n Ok(()) }'
    r.rewrites.append(('R13', 'the slice returns Ok(()) at the end of the loop body', ''))
    r.attr('#[verifier::loop_isolation(false)]')
    r.requires('shape', 'old(roll_ins)@.len() == folded_height_after@.len() && old(builder).has(ro)')
    FIRST = 'first_at(folded_height_after@, h)'
    r.ensures('frame', 'final(builder).extends(old(builder)) && final(roll_ins)@.len() == old(roll_ins)@.len()')
    r.ensures('a_height_matching_a_phase_rolls_into_the_first_such_phase_exactly_once', f'''{FIRST} < folded_height_after@.len() ==> ({{ let i = {FIRST};
            (ret is Ok <==> old(roll_ins)@[i] is None) && final(builder).sat@ == old(builder).sat@
            && (ret is Ok ==> final(roll_ins)@ == old(roll_ins)@.update(i, Some(ro))) }})''')
    r.ensures('a_height_matching_no_phase_must_open_to_zero', f'''{FIRST} >= folded_height_after@.len() ==> ret is Ok && final(roll_ins)@ == old(roll_ins)@
            && final(builder).sat@ == (old(builder).sat@ && old(builder).val(ro) == EF::fzero())''')
    # native verify_query: UnconsumedReducedOpenings for such a height WHATEVER the opening is; the circuit accepts it when it is zero (open finding)
    r.ensures('H_a_reduced_opening_at_a_height_no_phase_lands_on_is_an_error', f'{FIRST} >= folded_height_after@.len() ==> ret is Err')
    r.ensures('errors_are_invalid_proof_shape', 'ret matches Err(e) ==> e is InvalidProofShape')
    if 'for pos_ in 0..folded_height_after.len()' in r.body:
        lo = r._loop_open('for pos_ in 0..folded_height_after.len()')
        r.body = r.body[:lo + 1] + ' let ghost found_b = found_pos_; ' + r.body[lo + 1:]
        r.at_loop_end('for pos_ in 0..folded_height_after.len()', 'proof { if found_b is None { lemma_first_at(folded_height_after@, h, pos_ as int); } }')
        r.before('let phase_idx = found_pos_;', 'proof { if found_pos_ is None { lemma_first_at_none(folded_height_after@, h); } }')
        r.loop('for pos_ in 0..folded_height_after.len()', invariants=[
            ('first_match', '''(found_pos_ matches Some(i) ==> i < pos_ && i == first_at(folded_height_after@, h)) && (found_pos_ is None ==> forall|j: int| 0 <= j < pos_ ==> folded_height_after@[j] != h)''')])
    # ------------------------------------------------------------------ verify_fri_circuit[final_query_point]: which point the final polynomial is evaluated at
    fp = u.extract(V, '', 'verify_fri_circuit', 'verify_fri_circuit[final_query_point]')
    slice_loop_body(fp, r'for \(q, query_proof\) in fri_proof_targets\.query_proofs\.iter\(\)\.enumerate\(\)(?:\.skip\(\w+\))? \{',
                    'the per-query loop (second of the two loops over the query proofs); everything but the computation of the final query point is dropped by the projection', nth=1, of=2)
    project_on(fp, r'let ', {'final_query_point'}, 'statements of the per-query loop body that do not mention final_query_point')
    fp.rewrite_re('R13', r'let final_poly_eval\s*=\s*evaluate_polynomial\([^;]*\);', '', min_count=0)
    fp.body = fp.body.rstrip()[:-1] + '\nfinal_query_point\n}'
    fp.rewrites.append(('R13', 'the slice returns the local `final_query_point`', ''))
    common(fp)
    fp.rewrite_re('R6', r'&index_bits_per_query\[q\]', 'index_bits_per_query[q].as_slice()', min_count=0)
    fp.rewrite_re('R6', r'&powers_of_g_final\b', 'powers_of_g_final.as_slice()', min_count=0)
    fp.set_sig('R11', 'fn final_query_point_of_query<EF: FoldX>(builder: &mut CircuitBuilder<EF>, index_bits_per_query: &Vec<Vec<Target>>, q: usize, log_max_height: usize, total_log_reduction: usize, num_phases: usize, '
                      'powers_of_g_final: &Vec<Target>) -> Target', sliced=True)
    BQ = 'index_bits_per_query@[q as int]@'
    fp.requires('allocated', f'q < index_bits_per_query@.len() && old(builder).has_all({BQ}) && old(builder).has_all(powers_of_g_final@) '
                             f'&& total_log_reduction <= log_max_height <= {BQ}.len() && all_bool(old(builder).vals_of({BQ}))')
    fp.ensures('frame', 'final(builder).extends_pure(old(builder)) && final(builder).has(ret)')
    fp.ensures('the_final_polynomial_is_evaluated_at_the_point_left_after_all_folded_bits',
               '({ let b = old(builder); let n = imin(log_max_height as int, powers_of_g_final@.len() as int); '
               f'final(builder).val(ret) == selprod(final_bits(b.vals_of({BQ}), log_max_height as int, total_log_reduction as int), b.vals_of(powers_of_g_final@), n) }})')
    u.text('verus! { mod final_point_step { use super::*;\n' + FQ_SPECS + stub_final_query_point(u))
    u.emit(fp)
    u.text('} }')
    u.text('verus! { mod commit_phase_step { use super::*;')
    u.emit(f)
    u.text('} mod roll_in_step { use super::*;')
    u.emit(r)
    u.text('} }')
    return u
