"""Unit `fri` (C07 gadget kernel, C20 polynomial/exponent gadgets): real text of recursion/src/pcs/fri/verifier.rs
{one_hot_from_two_bits, one_hot_from_three_bits, arity2_fold_at_point, evaluate_polynomial, circuit_exp_by_constant,
reconstruct_evals (all arities: closed forms 1/2/4/8 and the generic one-hot + cumulative-sum path)}."""
import os

from vf.unit import Unit

HERE = os.path.dirname(os.path.abspath(__file__))

SPEC = r'''
verus! {
global size_of usize == 8;
pub open spec fn is_bool<F: Field>(v: F) -> bool { v == F::fzero() || v == F::fone() }
pub open spec fn bit<F: Field>(v: F) -> int { if v == F::fone() { 1 } else { 0 } }
pub open spec fn ind<F: Field>(c: bool) -> F { if c { F::fone() } else { F::fzero() } }

/// closed arithmetic facts on {0,1} derived from the ring laws (no commutativity/associativity is broadcast)
pub proof fn lemma_bool_arith<F: Field>()
    ensures
        F::fone().fsub(F::fzero()) == F::fone(), F::fone().fsub(F::fone()) == F::fzero(),
        F::fone().fmul(F::fone()) == F::fone(), F::fzero().fmul(F::fzero()) == F::fzero(),
        F::fzero().fmul(F::fone()) == F::fzero(), F::fone().fmul(F::fzero()) == F::fzero(),
        F::fzero() != F::fone(),
{
    let (z, o) = (F::fzero(), F::fone());
    F::zero_ne_one();
    F::sub_def(o, z); F::sub_def(o, o); F::add_neg(o);
    // -0 = 0 :  0 + (-0) = 0  and 0 + (-0) = -0
    F::add_neg(z); lemma_zero_add(z.fneg()); F::add_zero(o);
    F::mul_one(o); F::mul_one(z); lemma_one_mul(z);
    lemma_mul_zero_left(z);
}
pub proof fn lemma_mul_zero_left<F: Field>(a: F) ensures F::fzero().fmul(a) == F::fzero() {
    let z = F::fzero(); let za = z.fmul(a);
    F::add_zero(z); F::mul_comm(z, a); F::distrib(a, z, z); F::mul_comm(a, z);
    assert(za == za.fadd(za));
    F::add_neg(za); F::add_assoc(za, za, za.fneg()); F::add_zero(za);
}
pub proof fn lemma_sub_zero<F: Field>(a: F) ensures a.fsub(F::fzero()) == a {
    let z = F::fzero();
    F::sub_def(a, z); F::add_neg(z); lemma_zero_add(z.fneg()); F::add_zero(a);
}

/// native polynomial evaluation: sum_i c_i x^i  (Horner form over the coefficient list)
pub open spec fn poly_eval<F: Field>(c: Seq<F>, x: F) -> F decreases c.len() {
    if c.len() == 0 { F::fzero() } else { c[0].fadd(x.fmul(poly_eval(c.subrange(1, c.len() as int), x))) }
}

/// -1/2 in the field: the constant `EF::NEG_ONE * EF::ONE.halve()`
pub uninterp spec fn neg_half<F: Field>() -> F;
pub trait FriConsts: FieldX {
    fn neg_half_const() -> (r: Self) ensures r == neg_half::<Self>();
}
/// bit length of a positive usize: replaces `usize::BITS - n.leading_zeros()`
#[verifier::external_body]
pub fn bit_length(n: usize) -> (r: u32)
    requires n > 0
    ensures 1 <= r <= 64, (n >> ((r - 1) as u32)) == 1
{ usize::BITS - n.leading_zeros() }
} // verus!
'''


def build():
    u = Unit('fri', ['C07', 'C20'])
    u.rlimit = 100
    u.assume('builder arithmetic contracts as in unit gad (assumed); field laws; 64-bit usize')
    u.assume('one_hot_from_bits (generic arity) returns the indicator vector of the little-endian index -- callee contract of reconstruct_evals, PROVED in unit onehot (its 2-/3-bit kernels are proved here); CircuitBuilder::select as proved in unit gad')
    u.assume('usize::BITS - n.leading_zeros() is the bit length of n (stub bit_length); EF::NEG_ONE * EF::ONE.halve() is the field constant -1/2 (uninterpreted neg_half)')
    u.text(open(os.path.join(HERE, 'gadget_prelude.rs')).read())
    u.text(SPEC)
    u.text(open(os.path.join(HERE, 'fri_rec_spec.rs')).read())
    V = 'recursion/src/pcs/fri/verifier.rs'

    def sigfix(f):
        f.rewrite_re('R11', r'\bEF::ONE\b', 'EF::one()')
        f.rewrite_re('R11', r'\bEF::ZERO\b', 'EF::zero()')
        return f

    t2 = sigfix(u.extract(V, '', 'one_hot_from_two_bits', 'one_hot_from_two_bits'))
    t2.set_sig('R11', 'fn one_hot_from_two_bits<EF: FieldX>(builder: &mut CircuitBuilder<EF>, b0: Target, b1: Target) -> [Target; 4]')
    t2.requires('allocated', 'old(builder).has(b0) && old(builder).has(b1)')
    t2.requires('boolean_inputs', 'is_bool(old(builder).val(b0)) && is_bool(old(builder).val(b1))')
    t2.ensures('frame', 'final(builder).extends_pure(old(builder)) && forall|j: int| 0 <= j < 4 ==> final(builder).has(#[trigger] ret@[j])')
    t2.ensures('indicator_of_little_endian_index', '''forall|j: int| 0 <= j < 4 ==> final(builder).val(#[trigger] ret@[j]) ==
            ind::<EF>(j == bit(old(builder).val(b0)) + 2 * bit(old(builder).val(b1)))''')
    t2.at_start('proof { lemma_bool_arith::<EF>(); }')

    t3 = sigfix(u.extract(V, '', 'one_hot_from_three_bits', 'one_hot_from_three_bits'))
    t3.set_sig('R11', 'fn one_hot_from_three_bits<EF: FieldX>(builder: &mut CircuitBuilder<EF>, b0: Target, b1: Target, b2: Target) -> [Target; 8]')
    t3.requires('allocated', 'old(builder).has(b0) && old(builder).has(b1) && old(builder).has(b2)')
    t3.requires('boolean_inputs', 'is_bool(old(builder).val(b0)) && is_bool(old(builder).val(b1)) && is_bool(old(builder).val(b2))')
    t3.ensures('frame', 'final(builder).extends_pure(old(builder)) && forall|j: int| 0 <= j < 8 ==> final(builder).has(#[trigger] ret@[j])')
    t3.ensures('indicator_of_little_endian_index', '''forall|j: int| 0 <= j < 8 ==> final(builder).val(#[trigger] ret@[j]) ==
            ind::<EF>(j == bit(old(builder).val(b0)) + 2 * bit(old(builder).val(b1)) + 4 * bit(old(builder).val(b2)))''')
    t3.at_start('proof { lemma_bool_arith::<EF>(); }')

    af = u.extract(V, '', 'arity2_fold_at_point', 'arity2_fold_at_point')
    af.set_sig('R11', 'fn arity2_fold_at_point<EF: FriConsts>(builder: &mut CircuitBuilder<EF>, e0: Target, e1: Target, beta: Target, x0: Target) -> Target')
    af.rewrite('R11', 'EF::NEG_ONE * EF::ONE.halve()', 'EF::neg_half_const()')
    af.requires('allocated', 'old(builder).has(e0) && old(builder).has(e1) && old(builder).has(beta) && old(builder).has(x0)')
    af.ensures('frame', 'final(builder).extends_pure(old(builder)) && final(builder).has(ret)')
    af.ensures('native_arity2_fold', '''({ let b = old(builder); b.val(x0) != EF::fzero() ==> final(builder).val(ret) ==
            b.val(beta).fsub(b.val(x0)).fmul(b.val(e1).fsub(b.val(e0))).fmul(neg_half::<EF>().fdiv(b.val(x0))).fadd(b.val(e0)) })''')

    ep = sigfix(u.extract(V, '', 'evaluate_polynomial', 'evaluate_polynomial'))
    ep.set_sig('R11', 'fn evaluate_polynomial<EF: FieldX>(builder: &mut CircuitBuilder<EF>, coefficients: &[Target], point: Target) -> Target')
    ep.rewrite('R8', 'builder.push_scope("evaluate_polynomial");', '')
    ep.rewrite_re('R8', r'builder\.pop_scope\(\);', '', min_count=1)
    ep.rewrite('R9', 'assert!( !coefficients.is_empty(), "we should have at least a constant polynomial" );', 'assert(!(coefficients.len() == 0));')
    ep.rewrite('R5', 'for &coeff in coefficients.iter().rev() {', 'for r_ in 0..coefficients.len() { let coeff = coefficients[coefficients.len() - 1 - r_];')
    ep.requires('documented_panic', 'coefficients@.len() > 0')
    ep.requires('allocated', 'old(builder).has_all(coefficients@) && old(builder).has(point)')
    ep.ensures('frame', 'final(builder).extends_pure(old(builder)) && final(builder).has(ret)')
    ep.ensures('horner_value', 'final(builder).val(ret) == poly_eval(old(builder).vals_of(coefficients@), old(builder).val(point))')
    ep.at_start('let ghost cv = builder.vals_of(coefficients@); let ghost x = builder.val(point); let ghost n = coefficients@.len() as int;')
    ep.before('return coefficients[0];', '''proof {
            assert(cv.subrange(1, 1) =~= Seq::<EF>::empty());
            reveal_with_fuel(poly_eval, 2);
            lemma_mul_zero_right(x); EF::add_zero(cv[0]);
        }''')
    ep.before('let mut result = zero;', 'proof { assert(cv.subrange(n, n) =~= Seq::<EF>::empty()); }')
    ep.loop('for r_ in 0..coefficients.len()', invariants=[
        ('frame', 'builder.extends_pure(old(builder)) && builder.has(result) && builder.has(zero) && builder.val(zero) == EF::fzero()'),
        ('pre', 'old(builder).has_all(coefficients@) && old(builder).has(point) && cv == old(builder).vals_of(coefficients@) && x == old(builder).val(point) && n == coefficients@.len()'),
        ('suffix', 'builder.val(result) == poly_eval(cv.subrange(n - r_, n), x)'),
    ])
    ep.at_loop_end('for r_ in 0..coefficients.len()', '''proof {
            let k = n - 1 - r_;
            assert(old(builder).has(coefficients@[k]));
            let suf = cv.subrange(k, n);
            assert(suf.subrange(1, suf.len() as int) =~= cv.subrange(k + 1, n));
            assert(suf[0] == cv[k]);
            lemma_sub_zero(poly_eval(cv.subrange(k + 1, n), x).fmul(x).fadd(cv[k]));
            EF::mul_comm(poly_eval(cv.subrange(k + 1, n), x), x);
            EF::add_comm(x.fmul(poly_eval(cv.subrange(k + 1, n), x)), cv[k]);
        }''')
    ep.bind_tail('res_', 'proof { assert(cv.subrange(0, n) =~= cv); }')

    ce = u.extract(V, '', 'circuit_exp_by_constant', 'circuit_exp_by_constant')
    ce.set_sig('R11', 'fn circuit_exp_by_constant<EF: FieldX>(builder: &mut CircuitBuilder<EF>, base: Target, n: usize) -> Target')
    ce.rewrite_re('R9', r'debug_assert!\(n > 0\);', 'assert(n > 0);', min_count=0)
    ce.rewrite_re('R11', r'\bEF::ONE\b', 'EF::one()', min_count=0)
    ce.rewrite('R11', 'usize::BITS - n.leading_zeros()', 'bit_length(n)')
    ce.rewrite('R5', 'for i in (0..num_bits - 1).rev() {', 'for ri_ in 0..(num_bits - 1) { let i = num_bits - 2 - ri_;')
    # no precondition on n: native alpha^0 = 1 (the unit had carried the function's debug assertion n > 0 as a precondition, which hid the panic repaired by the fix)
    ce.requires('allocated', 'old(builder).has(base)')
    ce.ensures('frame', 'final(builder).extends_pure(old(builder)) && final(builder).has(ret)')
    ce.ensures('power', 'final(builder).val(ret) == fpow(old(builder).val(base), n as nat)')
    ce.at_start('let ghost b = builder.val(base); proof { lemma_fpow_one(b); }')
    ce.loop('for ri_ in 0..(num_bits - 1)', invariants=[
        ('frame', 'builder.extends_pure(old(builder)) && builder.has(result) && old(builder).has(base) && b == old(builder).val(base)'),
        ('bits', '1 <= num_bits <= 64 && (n >> ((num_bits - 1) as u32)) == 1 && n > 0'),
        ('prefix', 'builder.val(result) == fpow(b, (n >> ((num_bits - 1 - ri_) as u32)) as nat)'),
    ])
    ce.at_loop_end('for ri_ in 0..(num_bits - 1)', '''proof {
            let i1: u32 = (i + 1) as u32;
            let hi = (n >> i1) as nat;
            let cur = (n >> i) as nat;
            assert(i1 == num_bits - 1 - ri_);
            assert(i < 63 && i1 == i + 1 ==> (n >> i) == 2 * (n >> i1) + ((n >> i) & 1)) by (bit_vector);
            assert(((n >> i) & 1) == 0 || ((n >> i) & 1) == 1) by (bit_vector);
            lemma_fpow_add(b, hi, hi); lemma_fpow_one(b);
            if (n >> i) & 1 == 1 {
                assert(cur == hi + hi + 1);
                lemma_fpow_add(b, hi + hi, 1);
            } else {
                assert(cur == hi + hi);
            }
        }''')
    ce.bind_tail('res_', 'proof { assert((n >> 0u32) == n) by (bit_vector); }')

    # ---------------------------------------------------------------- reconstruct_evals: the native row [siblings.., folded at idx, ..siblings]
    re_ = sigfix(u.extract(V, '', 'reconstruct_evals', 'reconstruct_evals'))
    re_.set_sig('R11', 'fn reconstruct_evals<EF: FieldX>(builder: &mut CircuitBuilder<EF>, folded: Target, siblings: &[Target], index_in_group_bits: &[Target]) -> Vec<Target>')
    re_.rewrite_re('R9', r'debug_assert_eq!\(siblings\.len\(\), arity - 1\);', 'assert(siblings.len() == arity - 1);', min_count=0)
    re_.rewrite_re('R1', r'let \[([^\]]+)\] = (one_hot_from_\w+\([^;]*\));',
                   lambda m: 'let hh_ = ' + m.group(2) + '; ' + ' '.join(f'let {n.strip()} = hh_[{k}];' for k, n in enumerate(m.group(1).split(','))), min_count=0)
    re_.requires('allocated', 'old(builder).has(folded) && old(builder).has_all(siblings@) && old(builder).has_all(index_in_group_bits@)')
    re_.requires('boolean_index_bits', 'all_bool(old(builder).vals_of(index_in_group_bits@)) && index_in_group_bits@.len() < 32')
    re_.requires('documented_shape', 'siblings@.len() == p2(index_in_group_bits@.len() as int) - 1')
    re_.ensures('frame', 'final(builder).extends_pure(old(builder)) && final(builder).has_all(ret@) && ret@.len() == p2(index_in_group_bits@.len() as int)')
    re_.ensures('native_row_placement', """({ let b = old(builder); let idx = le_index(b.vals_of(index_in_group_bits@));
            forall|j: int| 0 <= j < ret@.len() ==> final(builder).val(#[trigger] ret@[j]) == placed(b.val(folded), b.vals_of(siblings@), idx, j) })""")
    re_.at_start("""let ghost bv = builder.vals_of(index_in_group_bits@); let ghost idx = le_index(bv); let ghost sv = builder.vals_of(siblings@); let ghost fv = builder.val(folded);
        proof {
            lemma_simp::<EF>(); lemma_le_index_range(bv); lemma_shl_p2(index_in_group_bits.len());
            reveal_with_fuel(le_index, 4); reveal_with_fuel(p2, 5);
            assert forall|k: int| 0 <= k < siblings@.len() implies builder.has(#[trigger] siblings@[k]) && sv[k] == builder.val(siblings@[k]) by {}
            assert forall|k: int| 0 <= k < index_in_group_bits@.len() implies builder.has(#[trigger] index_in_group_bits@[k]) && is_bool(builder.val(index_in_group_bits@[k])) by { assert(is_bool(bv[k])); }
        }""")

    G_ = ('builder.extends_pure(old(builder)) && arity == p2(log_arity as int) && arity >= 16 && siblings@.len() == arity - 1 && one_hot@.len() == arity && builder.has_all(one_hot@)'
          ' && builder.has_all(siblings@) && builder.has(folded) && builder.val(folded) == fv && builder.vals_of(siblings@) == sv && 0 <= idx < arity'
          ' && (forall|k: int| 0 <= k < arity ==> builder.val(#[trigger] one_hot@[k]) == ind::<EF>(k == idx)) && EF::fzero() != EF::fone()')
    re_.before('let mut cum = Vec::with_capacity(arity);', """proof {
                lemma_p2_ge16(log_arity as int);
                assert(builder.vals_of(siblings@) =~= sv);
            }""")
    re_.loop('for j in 1..arity', invariants=[
        ('ctx', G_),
        ('cum', 'cum@.len() == j && builder.has_all(cum@) && forall|k: int| 0 <= k < j ==> builder.val(#[trigger] cum@[k]) == ind::<EF>(idx <= k)'),
    ])
    re_.at_loop_end('for j in 1..arity', """proof {
                    lemma_simp::<EF>();
                    assert(builder.vals_of(siblings@) =~= sv);
                    assert forall|k: int| 0 <= k < cum@.len() implies builder.has(#[trigger] cum@[k]) && builder.val(cum@[k]) == ind::<EF>(idx <= k) by {}
                }""")
    re_.loop('for j in 0..arity', invariants=[
        ('ctx', G_),
        ('cum', 'cum@.len() == arity && builder.has_all(cum@) && forall|k: int| 0 <= k < arity ==> builder.val(#[trigger] cum@[k]) == ind::<EF>(idx <= k)'),
        ('row', 'evals@.len() == j && builder.has_all(evals@) && forall|k: int| 0 <= k < j ==> builder.val(#[trigger] evals@[k]) == placed(fv, sv, idx, k)'),
    ])
    re_.at_loop_end('for j in 0..arity', """proof {
                    assert(builder.vals_of(siblings@) =~= sv);
                    assert forall|k: int| 0 <= k < evals@.len() implies builder.has(#[trigger] evals@[k]) && builder.val(evals@[k]) == placed(fv, sv, idx, k) by {}
                }""")

    re_.before('builder.pop_scope(); evals', """proof {
            let la = log_arity as int;
            if la == 0 {
                assert(forall|j: int| 0 <= j < evals@.len() ==> builder.val(#[trigger] evals@[j]) == placed(fv, sv, idx, j)); // @@A:arity1_row
            }
            else if la == 1 {
                assert(forall|j: int| 0 <= j < evals@.len() ==> builder.val(#[trigger] evals@[j]) == placed(fv, sv, idx, j)); // @@A:arity2_row
            }
            else if la == 2 {
                assert(forall|j: int| 0 <= j < evals@.len() ==> builder.val(#[trigger] evals@[j]) == placed(fv, sv, idx, j)); // @@A:arity4_row
            }
            else if la == 3 {
                assert(forall|j: int| 0 <= j < evals@.len() ==> builder.val(#[trigger] evals@[j]) == placed(fv, sv, idx, j)); // @@A:arity8_row
            }
            else {
                assert(forall|j: int| 0 <= j < evals@.len() ==> builder.val(#[trigger] evals@[j]) == placed(fv, sv, idx, j)); // @@A:generic_arity_row
            }
        }""")

    u.text('''verus! {
pub proof fn lemma_mul_zero_right<F: Field>(a: F) ensures a.fmul(F::fzero()) == F::fzero() { F::mul_comm(a, F::fzero()); lemma_mul_zero_left(a); }
''')
    for f in (t2, t3, af, ep, ce, re_):
        u.emit(f)
    u.text('}')
    return u
