// ---------------------------------------------------------------- reconstruct_evals vocabulary (unit fri)
verus! {
/// little-endian index of a list of 0/1 values
pub open spec fn le_index<F: Field>(v: Seq<F>) -> int decreases v.len() {
    if v.len() == 0 { 0 } else { bit(v[0]) + 2 * le_index(v.subrange(1, v.len() as int)) }
}
pub open spec fn all_bool<F: Field>(v: Seq<F>) -> bool { forall|i: int| 0 <= i < v.len() ==> is_bool(#[trigger] v[i]) }
/// the native row: evals[idx] = folded, the siblings fill the other positions in order
pub open spec fn placed<F>(folded: F, sib: Seq<F>, idx: int, j: int) -> F { if j == idx { folded } else if j < idx { sib[j] } else { sib[j - 1] } }
pub open spec fn p2(k: int) -> int decreases k { if k <= 0 { 1 } else { 2 * p2(k - 1) } }
pub proof fn lemma_shl_p2(k: usize)
    requires k < 64
    ensures (1usize << k) == p2(k as int)
    decreases k
{
    if k == 0 { assert((1usize << 0usize) == 1) by (bit_vector); }
    else {
        lemma_shl_p2((k - 1) as usize);
        let j = (k - 1) as usize;
        assert(j < 63 ==> (1usize << ((j + 1) as usize)) == 2 * (1usize << j)) by (bit_vector);
    }
}
pub proof fn lemma_p2_ge16(k: int) requires k >= 4 ensures p2(k) >= 16 decreases k {
    reveal_with_fuel(p2, 6);
    if k > 4 { lemma_p2_ge16(k - 1); }
}
pub proof fn lemma_le_index_range<F: Field>(v: Seq<F>)
    ensures 0 <= le_index(v) < p2(v.len() as int)
    decreases v.len()
{
    if v.len() > 0 { lemma_le_index_range(v.subrange(1, v.len() as int)); }
}
/// 0/1 simplification facts used by the closed-form arities
pub proof fn lemma_simp<F: Field>()
    ensures forall|x: F| #[trigger] F::fzero().fmul(x) == F::fzero(), forall|x: F| #[trigger] x.fmul(F::fzero()) == F::fzero(),
            forall|x: F| #[trigger] F::fone().fmul(x) == x, forall|x: F| #[trigger] x.fmul(F::fone()) == x,
            forall|x: F| #[trigger] x.fadd(F::fzero()) == x, forall|x: F| #[trigger] F::fzero().fadd(x) == x,
            forall|x: F| #[trigger] x.fsub(x) == F::fzero(), forall|x: F, y: F| #[trigger] y.fadd(x.fsub(y)) == x, forall|x: F, y: F| #[trigger] x.fsub(y).fadd(y) == x,
            F::fzero() != F::fone(),
{
    F::zero_ne_one();
    assert forall|x: F| #[trigger] F::fzero().fmul(x) == F::fzero() by { lemma_mul_zero_left(x); }
    assert forall|x: F| #[trigger] x.fmul(F::fzero()) == F::fzero() by { F::mul_comm(x, F::fzero()); lemma_mul_zero_left(x); }
    assert forall|x: F| #[trigger] F::fone().fmul(x) == x by { lemma_one_mul(x); }
    assert forall|x: F| #[trigger] x.fmul(F::fone()) == x by { F::mul_one(x); }
    assert forall|x: F| #[trigger] x.fadd(F::fzero()) == x by { F::add_zero(x); }
    assert forall|x: F| #[trigger] F::fzero().fadd(x) == x by { lemma_zero_add(x); }
    assert forall|x: F| #[trigger] x.fsub(x) == F::fzero() by { F::sub_def(x, x); F::add_neg(x); }
    assert forall|x: F, y: F| #[trigger] x.fsub(y).fadd(y) == x by {
        F::sub_def(x, y); F::add_assoc(x, y.fneg(), y); F::add_comm(y.fneg(), y); F::add_neg(y); F::add_zero(x);
    }
    assert forall|x: F, y: F| #[trigger] y.fadd(x.fsub(y)) == x by {
        F::sub_def(x, y); F::add_comm(y, x.fadd(y.fneg())); F::add_assoc(x, y.fneg(), y); F::add_comm(y.fneg(), y); F::add_neg(y); F::add_zero(x);
    }
}
impl<F: Field> CircuitBuilder<F> {
    /// verified in unit gad
    #[verifier::external_body]
    pub fn select(&mut self, b: ExprId, t: ExprId, s: ExprId) -> (r: ExprId)
        requires old(self).has(b) && old(self).has(t) && old(self).has(s)
        ensures final(self).extends_pure(old(self)), final(self).has(r),
                old(self).val(b) == F::fone() ==> final(self).val(r) == old(self).val(t),
                old(self).val(b) == F::fzero() ==> final(self).val(r) == old(self).val(s)
    { unimplemented!() }
    #[verifier::external_body]
    pub fn push_scope(&mut self, s: &'static str) ensures *final(self) == *old(self) {}
    #[verifier::external_body]
    pub fn pop_scope(&mut self) ensures *final(self) == *old(self) {}
}
/// generic one-hot builder (ASSUMED here; its 2- and 3-bit kernels are verified in this unit)
#[verifier::external_body]
pub fn one_hot_from_bits<EF: FieldX>(builder: &mut CircuitBuilder<EF>, bits: &[Target]) -> (r: Vec<Target>)
    requires old(builder).has_all(bits@), all_bool(old(builder).vals_of(bits@)), bits@.len() < 32
    ensures final(builder).extends_pure(old(builder)), r@.len() == p2(bits@.len() as int), final(builder).has_all(r@),
            forall|j: int| 0 <= j < r@.len() ==> final(builder).val(#[trigger] r@[j]) == ind::<EF>(j == le_index(old(builder).vals_of(bits@)))
{ unimplemented!() }
} // verus!
