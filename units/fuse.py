"""Unit `fuse` (C03, C02): MulAdd fusion never drops a relation.
Real text: circuit/src/builder/compiler/optimizer/fuse_mul_add.rs MulAddFusion::{def_idx, is_const, uses, is_backwards,
insert_def, track_backwards_op, scan_use_counts, scan_defs, try_fuse}; analysis.rs OpDef::{is_const, as_mul}, IndexedDef::new.

Stage structure: the scans are proved against SEMANTIC facts about the op list (how often a slot is read by a relation,
which op defines it last, what a backwards op implies); try_fuse is proved to return a candidate only when — modulo two
named hypotheses that the code does not establish (recorded findings) — the product slot is mentioned by no other relation."""
import re

from vf.extract import extract_item
from vf.unit import Unit, unoption_pred

PRELUDE = r'''
#![allow(unused_imports, unused_variables, dead_code, unused_mut, unused_parens)]
use vstd::prelude::*;
use std::collections::{HashMap, HashSet, BTreeMap, BTreeSet, VecDeque};
verus! {
global size_of usize == 8;
pub trait Field: Sized + Copy {}
pub trait HintExecutor<F> {}
pub trait NonPrimitiveExecutor<F> {}
#[derive(Clone, Copy, PartialEq, Eq, Hash, Structural)]
pub struct NonPrimitiveOpId(pub u32);
@@TYPES@@
pub mod ax {
    use super::*;
    pub broadcast axiom fn witness_id_key_model() ensures #[trigger] vstd::std_specs::hash::obeys_key_model::<WitnessId>();
}
} // verus!
verus! {
broadcast use {ax::witness_id_key_model, vstd::std_specs::hash::group_hash_axioms};

// ================================================================ semantic vocabulary over an op list
pub open spec fn b2i(b: bool) -> int { if b { 1 } else { 0 } }
pub open spec fn occ(s: Seq<WitnessId>, w: WitnessId) -> int decreases s.len() { if s.len() == 0 { 0 } else { occ(s.drop_last(), w) + b2i(s.last() == w) } }
pub open spec fn occ2(s: Seq<Vec<WitnessId>>, w: WitnessId) -> int decreases s.len() { if s.len() == 0 { 0 } else { occ2(s.drop_last(), w) + occ(s.last()@, w) } }
/// how often the relation of `op` READS slot w as an ALU operand or a non-primitive input (what `use_counts` is meant to count)
pub open spec fn op_uses<F>(op: Op<F>, w: WitnessId) -> int {
    match op {
        Op::Alu { kind, a, b, c, intermediate_out, .. } => b2i(a == w) + b2i(b == w) + b2i(c == Some(w)) + b2i(kind is HornerAcc && intermediate_out == Some(w)),
        Op::NonPrimitiveOpWithExecutor { inputs, .. } => occ2(inputs@, w),
        _ => 0,
    }
}
pub open spec fn uses_upto<F>(ops: Seq<Op<F>>, n: int, w: WitnessId) -> int decreases n {
    if n <= 0 { 0 } else { uses_upto(ops, n - 1, w) + op_uses(ops[n - 1], w) }
}
pub open spec fn in_seq2(s: Seq<Vec<WitnessId>>, x: WitnessId) -> bool { exists|i: int| 0 <= i < s.len() && (#[trigger] s[i])@.contains(x) }
/// op k writes / creates slot w
pub open spec fn definer<F>(op: Op<F>, w: WitnessId) -> bool {
    match op {
        Op::Const { out, .. } => out == w,
        Op::Public { out, .. } => out == w,
        Op::Alu { out, .. } => out == w,
        Op::Hint { outputs, .. } => outputs@.contains(w),
        Op::NonPrimitiveOpWithExecutor { outputs, .. } => in_seq2(outputs@, w),
    }
}
pub open spec fn const_definer<F>(op: Op<F>, w: WitnessId) -> bool { op matches Op::Const { out, .. } && out == w }
/// plain forward-shaped Add / Mul (no third operand): the ops whose `b` a backwards encoding solves for
pub open spec fn addmul_parts<F>(op: Op<F>) -> Option<(AluOpKind, WitnessId, WitnessId, WitnessId)> {
    match op {
        Op::Alu { kind, a, b, c, out, .. } => if c.is_none() && (kind is Add || kind is Mul) { Some((kind, a, b, out)) } else { None },
        _ => None,
    }
}
pub open spec fn cnt(m: Map<WitnessId, usize>, w: WitnessId) -> int { if m.dom().contains(w) { m[w] as int } else { 0 } }
pub open spec fn lt_len<F>(ops: Seq<Op<F>>) -> bool { ops.len() < 0x1000_0000 }
pub open spec fn total_len(v: Seq<Vec<WitnessId>>) -> int decreases v.len() { if v.len() == 0 { 0 } else { total_len(v.drop_last()) + v.last()@.len() } }
pub open spec fn npo_in_elems<F>(op: Op<F>) -> int { match op { Op::NonPrimitiveOpWithExecutor { inputs, .. } => total_len(inputs@), _ => 0 } }

impl<F: Field> MulAddFusion<F> {
    pub open spec fn const_at(&self, w: WitnessId) -> bool { cat(self.defs@, w) }
    pub open spec fn defs_inv(&self, ops: Seq<Op<F>>, n: int) -> bool { dinv(self.defs@, ops, n) }
    /// the analysis tables were computed from this op list
    pub open spec fn describes(&self, ops: Seq<Op<F>>) -> bool {
        dinv(self.defs@, ops, ops.len() as int) && forall|w: WitnessId| #[trigger] cnt(self.use_counts@, w) == uses_upto(ops, ops.len() as int, w)
    }
}
} // verus!
'''


CAND_OK = r'''verus! {
/// what identify_candidates records for add k: a plain forward add (its out is no constant, no input slot and has no earlier definer) whose one operand is a
/// product that may be fused into it (`fusable`), the other operand being the recorded addend
pub open spec fn cand_ok<F: Field>(s: &MulAddFusion<F>, ops: Seq<Op<F>>, k: usize, e: (usize, Op<F>, WitnessId)) -> bool {
    k < ops.len() && addmul_parts(ops[k as int]).is_some() && addmul_parts(ops[k as int]).unwrap().0 is Add
    && ({ let (_kd, x, y, out) = addmul_parts(ops[k as int]).unwrap();
          !cat(s.defs@, out) && !bwx(s.defs@, s.input_slots@, out, k as int) && (e.2 == x || e.2 == y) && fusable(ops, k as int, e.0 as int, e.1) })
}
}'''
IDC_REQ = ('tables_describe_the_op_list', 'self.describes(ops@)')
IDC_ENS = ('every_candidate_is_a_forward_add_with_a_sound_fusion', 'forall|k: usize| #[trigger] ret@.dom().contains(k) ==> cand_ok(self, ops@, k, ret@[k])')


SU_REQ = [('fresh_counts', 'old(self).use_counts@ == Map::<WitnessId, usize>::empty()'),
          ('realistic_sizes', 'ops@.len() < 0x1000_0000 && forall|k: int| 0 <= k < ops@.len() ==> npo_in_elems(#[trigger] ops@[k]) < 0x10_0000')]
SU_ENS = [('counts_every_relation_read', 'forall|w: WitnessId| #[trigger] cnt(final(self).use_counts@, w) == uses_upto(ops@, ops@.len() as int, w)'),
          ('frame', 'final(self).defs == old(self).defs && final(self).backwards_computed == old(self).backwards_computed && final(self).input_slots == old(self).input_slots')]
SD_REQ = [('fresh', 'old(self).defs@ == Map::<WitnessId, IndexedDef<F>>::empty()'),
          ('told_every_private_input_slot', 'forall|w: WitnessId| #[trigger] is_private_input_slot(w) ==> old(self).input_slots@.contains(w)')]
SD_ENS = [('defs_describe_the_op_list', 'final(self).defs_inv(ops@, ops@.len() as int)'),
          ('frame', 'final(self).use_counts == old(self).use_counts && final(self).input_slots == old(self).input_slots')]


def types_from_repo():
    t = []
    t.append('#[derive(Clone, Copy, PartialEq, Eq, Hash, Structural)]\n' + extract_item('circuit/src/types.rs', r'pub struct WitnessId\b'))
    t.append('#[derive(Clone, Copy, PartialEq, Eq, Hash, Structural)]\n' + extract_item('circuit/src/ops/op.rs', r'pub enum AluOpKind\b'))
    t.append('#[verifier::reject_recursive_types(F)]\n' + extract_item('circuit/src/ops/op.rs', r'pub enum Op<F>'))
    A = 'circuit/src/builder/compiler/optimizer/analysis.rs'
    od = extract_item(A, r'pub\(super\) enum OpDef<F>').replace('pub(super) ', 'pub ')
    idf = extract_item(A, r'pub\(super\) struct IndexedDef<F>').replace('pub(super) ', 'pub ')
    t.append(od)
    t.append(idf)
    mf = extract_item('circuit/src/builder/compiler/optimizer/fuse_mul_add.rs', r'pub\(super\) struct MulAddFusion<F>').replace('pub(super) ', 'pub ')
    mf = re.sub(r'(\n\s+)(\w+):', r'\1pub \2:', mf)
    t.append(mf)
    return '\n\n'.join(t)


def build():
    u = Unit('fuse', ['C03', 'C02'])
    u.rlimit = 200
    u.assume('hashbrown maps treated as std maps (R7); key model of WitnessId; executors opaque')
    u.assume('realistic sizes: fewer than 2^28 ops and 2^20 input elements per non-primitive op, so use counters (usize) cannot overflow')
    u.text(PRELUDE.replace('@@TYPES@@', types_from_repo()))
    u.text(open(__file__.replace('fuse.py', 'fuse_defs.rs')).read())
    A = 'circuit/src/builder/compiler/optimizer/analysis.rs'
    FM = 'circuit/src/builder/compiler/optimizer/fuse_mul_add.rs'
    IMPL = r'impl<F: Field> MulAddFusion<F>'

    # ---------------------------------------------------------------- analysis.rs helpers
    ic = u.extract(A, r'impl<F> OpDef<F>', 'is_const', 'OpDef::is_const')
    ic.rewrite_re('R12', r'\bSelf::', 'OpDef::')
    ic.ensures('is_const', 'ret == (self is Const)')
    am = u.extract(A, r'impl<F> OpDef<F>', 'as_mul', 'OpDef::as_mul')
    am.rewrite_re('R12', r'\bSelf::', 'OpDef::')
    am.ensures('as_mul', 'ret == (if self is Mul { Some((self->Mul_a, self->Mul_b)) } else { None })')
    inw = u.extract(A, r'impl<F> IndexedDef<F>', 'new', 'IndexedDef::new')
    inw.sig_rewrite('R12', '-> Self', '-> IndexedDef<F>')
    inw.rewrite_re('R12', r'\bSelf\s*\{', 'IndexedDef {')
    inw.ensures('fields', 'ret.idx == idx && ret.def == def')
    u.text('verus! {\nimpl<F> OpDef<F> {')
    u.emit(ic)
    u.emit(am)
    u.text('}\nimpl<F> IndexedDef<F> {')
    u.emit(inw)
    u.text('}\n}')

    # ---------------------------------------------------------------- small accessors
    di = u.extract(FM, IMPL, 'def_idx', 'MulAddFusion::def_idx')
    di.rewrite('R6', 'self.defs.get(id).map(|d| d.idx)', '(match self.defs.get(id) { Some(d) => Some(d.idx), None => None })')
    di.ensures('def_idx', 'ret == (if self.defs@.dom().contains(*id) { Some(self.defs@[*id].idx) } else { None })')
    isc = u.extract(FM, IMPL, 'is_const', 'MulAddFusion::is_const')
    isc.rewrite('R6', 'self.defs.get(id).is_some_and(|d| d.def.is_const())', '(match self.defs.get(id) { Some(d) => d.def.is_const(), None => false })')
    isc.ensures('is_const', 'ret == self.const_at(*id)')
    us = u.extract(FM, IMPL, 'uses', 'MulAddFusion::uses')
    us.rewrite('R6', 'self.use_counts.get(id).copied().unwrap_or(0)', '(match self.use_counts.get(id) { Some(v) => *v, None => 0 })')
    us.ensures('uses', 'ret == cnt(self.use_counts@, *id)')
    ib = u.extract(FM, IMPL, 'is_backwards', 'MulAddFusion::is_backwards')
    ib.rewrite('R6', 'self.def_idx(out).is_some_and(|i| i < idx)', '(match self.def_idx(out) { Some(i) => i < idx, None => false })')
    ib.ensures('is_backwards', 'ret == bwx(self.defs@, self.input_slots@, *out, idx as int)')
    ind = u.extract(FM, IMPL, 'insert_def', 'MulAddFusion::insert_def')
    ind.ensures('insert_unless_const', '''final(self).use_counts == old(self).use_counts && final(self).backwards_computed == old(self).backwards_computed && final(self).input_slots == old(self).input_slots
            && final(self).defs@ == (if old(self).const_at(id) { old(self).defs@ } else { old(self).defs@.insert(id, IndexedDef { idx, def }) })''')
    tb = u.extract(FM, IMPL, 'track_backwards_op', 'MulAddFusion::track_backwards_op')
    tb.ensures('backwards_rerecords_computed_operand', '''final(self).use_counts == old(self).use_counts && final(self).input_slots == old(self).input_slots && ({
            let bw = bwx(old(self).defs@, old(self).input_slots@, out, idx as int);
            &&& final(self).defs@ == (if bw && !old(self).const_at(computed) { old(self).defs@.insert(computed, IndexedDef { idx, def: OpDef::Other }) } else { old(self).defs@ })
            &&& final(self).backwards_computed@ == (if bw { old(self).backwards_computed@.insert(computed, idx) } else { old(self).backwards_computed@ })
        })''')

    # ---------------------------------------------------------------- scan_use_counts
    su = u.extract(FM, IMPL, 'scan_use_counts', 'MulAddFusion::scan_use_counts')
    su.rewrite('R5', 'for op in ops {', 'for oi_ in 0..ops.len() { let op = &ops[oi_];')
    for v in ('a', 'b', 'c'):
        su.rewrite('R7', f'*self.use_counts.entry(*{v}).or_default() += 1;',
                   f'{{ proof {{ assert(cnt(uc0, *{v}) <= 0x10_0004 * oi_); }} let cur_ = match self.use_counts.get({v}) {{ Some(v_) => *v_, None => 0 }}; self.use_counts.insert(*{v}, cur_ + 1); }}')
    su.rewrite('R7', 'if *kind == AluOpKind::HornerAcc && let Some(acc) = intermediate_out { *self.use_counts.entry(*acc).or_default() += 1; }',
               'if *kind == AluOpKind::HornerAcc { if let Some(acc) = intermediate_out { proof { assert(cnt(uc0, *acc) <= 0x10_0004 * oi_); } let cur_ = match self.use_counts.get(acc) { Some(v_) => *v_, None => 0 }; self.use_counts.insert(*acc, cur_ + 1); } }')
    su.rewrite('R5', 'for &id in inputs.iter().flatten() { *self.use_counts.entry(id).or_default() += 1; }',
               'for gi_ in 0..inputs.len() { for wi_ in 0..inputs[gi_].len() { let id = inputs[gi_][wi_]; let ghost m_prev = self.use_counts@; proof { assert(cnt(uc0, id) <= 0x10_0004 * oi_); lemma_occ2_bound(gdone, id); lemma_occ_bound(acc, id); } let cur_ = match self.use_counts.get(&id) { Some(v_) => *v_, None => 0 }; proof { assert(cur_ as int == cnt(self.use_counts@, id)); assert(acc.len() == wi_); } self.use_counts.insert(id, cur_ + 1); } }')
    from vf.unit import normalize_let_chains
    normalize_let_chains(su)
    for c_ in SU_REQ:
        su.requires(*c_)
    for c_ in SU_ENS:
        su.ensures(*c_)
    su.loop('for oi_ in 0..ops.len()', invariants=[
        ('frame', 'self.defs == old(self).defs && self.backwards_computed == old(self).backwards_computed && ops@.len() < 0x1000_0000 && forall|k: int| 0 <= k < ops@.len() ==> npo_in_elems(#[trigger] ops@[k]) < 0x10_0000'),
        ('count', 'forall|w: WitnessId| #[trigger] cnt(self.use_counts@, w) == uses_upto(ops@, oi_ as int, w)'),
        ('bound', 'forall|w: WitnessId| #[trigger] cnt(self.use_counts@, w) <= 0x10_0004 * oi_'),
    ])
    su.after('let op = &ops[oi_];', 'let ghost uc0 = self.use_counts@; let ghost mut acc: Seq<WitnessId> = Seq::empty(); let ghost mut gdone: Seq<Vec<WitnessId>> = Seq::empty();')
    su.loop('for gi_ in 0..inputs.len()', invariants=[
        ('frame', 'self.defs == old(self).defs && self.backwards_computed == old(self).backwards_computed && oi_ < ops@.len() && ops@.len() < 0x1000_0000 && total_len(inputs@) < 0x10_0000'),
        ('done', 'gdone == inputs@.take(gi_ as int) && total_len(gdone) <= total_len(inputs@)'),
        ('count', 'forall|w: WitnessId| #[trigger] cnt(self.use_counts@, w) == cnt(uc0, w) + occ2(gdone, w)'),
        ('bound', 'forall|w: WitnessId| #[trigger] cnt(uc0, w) <= 0x10_0004 * oi_'),
    ])
    su.loop('for wi_ in 0..inputs[gi_].len()', invariants=[
        ('frame', 'self.defs == old(self).defs && self.backwards_computed == old(self).backwards_computed && oi_ < ops@.len() && ops@.len() < 0x1000_0000 && total_len(inputs@) < 0x10_0000 && gi_ < inputs@.len()'),
        ('done', 'gdone == inputs@.take(gi_ as int) && acc == inputs@[gi_ as int]@.take(wi_ as int) && total_len(gdone) + inputs@[gi_ as int]@.len() <= total_len(inputs@)'),
        ('count', 'forall|w: WitnessId| #[trigger] cnt(self.use_counts@, w) == cnt(uc0, w) + occ2(gdone, w) + occ(acc, w)'),
        ('bound', 'forall|w: WitnessId| #[trigger] cnt(uc0, w) <= 0x10_0004 * oi_'),
    ])
    su.before('for wi_ in 0..inputs[gi_].len()', 'proof { acc = Seq::empty(); lemma_total_len_take(inputs@, gi_ as int); assert(inputs@[gi_ as int]@.take(0) =~= Seq::<WitnessId>::empty()); }')
    su.at_loop_end('for wi_ in 0..inputs[gi_].len()', '''proof {
                let row = inputs@[gi_ as int]@;
                assert(row.take(wi_ as int + 1) =~= row.take(wi_ as int).push(row[wi_ as int]));
                assert(row.take(wi_ as int + 1).drop_last() =~= row.take(wi_ as int));
                let acc_prev = acc;
                acc = row.take(wi_ as int + 1);
                lemma_occ_bound_all();
                assert forall|w: WitnessId| #[trigger] cnt(self.use_counts@, w) == cnt(uc0, w) + occ2(gdone, w) + occ(acc, w) by {
                    assert(cnt(m_prev, w) == cnt(uc0, w) + occ2(gdone, w) + occ(acc_prev, w));
                    assert(occ(acc, w) == occ(acc_prev, w) + b2i(row[wi_ as int] == w));
                    assert(cnt(self.use_counts@, w) == cnt(m_prev, w) + b2i(row[wi_ as int] == w));
                }
            }''')
    su.at_loop_end('for gi_ in 0..inputs.len()', '''proof {
                let row = inputs@[gi_ as int]@;
                assert(row.take(row.len() as int) =~= row);
                assert(inputs@.take(gi_ as int + 1).drop_last() =~= inputs@.take(gi_ as int));
                gdone = inputs@.take(gi_ as int + 1);
            }''')
    su.before('for gi_ in 0..inputs.len()', 'proof { lemma_total_len_nonneg(inputs@); assert(inputs@.take(0) =~= Seq::<Vec<WitnessId>>::empty()); assert(npo_in_elems(ops@[oi_ as int]) < 0x10_0000); lemma_occ_bound_all(); }')
    su.at_loop_end('for oi_ in 0..ops.len()', '''proof {
            lemma_occ_bound_all();
            match ops@[oi_ as int] { Op::NonPrimitiveOpWithExecutor { inputs, .. } => { assert(inputs@.take(inputs@.len() as int) =~= inputs@); } _ => {} }
            assert forall|w: WitnessId| #[trigger] cnt(self.use_counts@, w) == uses_upto(ops@, oi_ as int + 1, w) && cnt(self.use_counts@, w) <= 0x10_0004 * (oi_ + 1) by {
                assert(cnt(uc0, w) == uses_upto(ops@, oi_ as int, w));
                assert(cnt(uc0, w) <= 0x10_0004 * oi_);
                lemma_occ2_bound(match ops@[oi_ as int] { Op::NonPrimitiveOpWithExecutor { inputs, .. } => inputs@, _ => Seq::empty() }, w);
            }
        }''')

    # ---------------------------------------------------------------- scan_defs
    sd = u.extract(FM, IMPL, 'scan_defs', 'MulAddFusion::scan_defs')
    sd.rewrite('R5', 'for (idx, op) in ops.iter().enumerate() {', 'for idx in 0..ops.len() { let op = &ops[idx];')
    sd.rewrite_re('R5', r'for &id in outputs\.iter\(\)\.flatten\(\) \{\s*self\.insert_def\(id, idx, OpDef::Other\);\s*\}',
                  'for gi_ in 0..outputs.len() { for wi_ in 0..outputs[gi_].len() { let id = outputs[gi_][wi_]; let ghost dpre = self.defs@; self.insert_def(id, idx, OpDef::Other); /*@npo*/ } }', min_count=0)
    sd.rewrite_re('R5', r'for &id in outputs \{\s*self\.insert_def\(id, idx, OpDef::Other\);\s*\}',
                  'for hi_ in 0..outputs.len() { let id = outputs[hi_]; let ghost dpre = self.defs@; self.insert_def(id, idx, OpDef::Other); /*@hint*/ }', min_count=0)
    # `set.extend(v.iter().copied())` -> trait stub ExtendCopied (the set grows by the elements of v)
    sd.rewrite_re('R6', r'([\w.]+)\.extend\((\w+)\.iter\(\)\.copied\(\)\);', r'\1.extend_copied(\2);', min_count=0)
    for c_ in SD_REQ:
        sd.requires(*c_)
    for c_ in SD_ENS:
        sd.ensures(*c_)
    sd.loop('for idx in 0..ops.len()', invariants=[('frame', 'self.use_counts == old(self).use_counts && self.input_slots == old(self).input_slots && forall|w: WitnessId| #[trigger] is_private_input_slot(w) ==> old(self).input_slots@.contains(w)'), ('defs', 'dinv(self.defs@, ops@, idx as int)')])
    sd.after('let op = &ops[idx];', 'let ghost d0 = self.defs@; let ghost n = idx as int; let ghost mut ex: WSet = wnone();')
    # Const arm
    sd.after('self.defs .insert(*out, IndexedDef::new(idx, OpDef::Const(*val)));', 'proof { lemma_const(d0, ops@, n, *out, *val); }')
    # Mul / Add arms: structural anchors (arm start / arm end); the proof only relates the defs at arm start and at arm end
    from vf.extract import match_brace
    def arm_block(kind):
        i = sd.body.index('kind: AluOpKind::' + kind + ',')
        j = sd.body.index('=> {', i) + 3
        return j, match_brace(sd.body, j)
    for kind in ('Add', 'Mul'):   # later text first
        o_, c_ = arm_block(kind)
        ARM_END = """ proof {
                    let dfin = self.defs@;
                    // what the arm must have done: the backwards step on b, then re-record out at this op (unless constant)
                    lemma_backwards(d0, ops@, n, *out, *b, self.input_slots@.contains(*out));
                    let bw = bwx(d0, self.input_slots@, *out, n);
                    let d1 = if bw { ins_uc(d0, *b, n as usize, OpDef::<F>::Other) } else { d0 };
                    assert(cat(d1, *out) ==> dfin == d1); // @@A:constant_out_slot_left_alone
                    assert(!cat(d1, *out) ==> dfin.dom().contains(*out) && dfin[*out].idx == n && dfin == d1.insert(*out, dfin[*out])); // @@A:out_slot_rerecorded_at_this_op
                    if cat(d1, *out) { lemma_ins(d1, ops@, n, wnone(), true, *out, OpDef::<F>::Other); }
                    else { let dd = dfin[*out].def; lemma_ins(d1, ops@, n, wnone(), true, *out, dd); assert(dfin =~= ins_uc(d1, *out, n as usize, dd)); }
                    assert forall|w: WitnessId| #[trigger] definer(ops@[n], w) implies wadd(wnone(), *out)(w) by {}
                    lemma_close(self.defs@, ops@, n, wadd(wnone(), *out), true);
                } """
        sd.body = sd.body[:c_] + ARM_END + sd.body[c_:]
        sd.spec_inserts += 1
        if kind == 'Add':
            # an Add whose out slot has no earlier definer is taken to COMPUTE that slot: it must not be a private input (those have no defining op).
            # Before the fix 0ed2fc1 nothing told the pass which slots are private inputs (finding F9); now it is told (precondition) and checks it.
            H = ''' proof { if !bwx(d0, self.input_slots@, *out, n) {
                        assert(!old(self).input_slots@.contains(*out));
                        assert(!is_private_input_slot(*out)); // @@A:an_add_whose_out_has_no_earlier_definer_does_not_write_a_private_input
                    } } '''
            sd.body = sd.body[:o_ + 1] + H + sd.body[o_ + 1:]
            sd.spec_inserts += 1
    # other Alu / Public arm
    sd.at_enclosing_block_end('Op::Alu { out, .. } | Op::Public { out, .. } => {', '''proof {
                    lemma_open(d0, ops@, n);
                    lemma_ins(d0, ops@, n, wnone(), false, *out, OpDef::<F>::Other);
                    assert forall|w: WitnessId| #[trigger] definer(ops@[n], w) implies wadd(wnone(), *out)(w) by {}
                    lemma_close(self.defs@, ops@, n, wadd(wnone(), *out), false);
                }''')
    # NPO arm
    if 'for gi_ in 0..outputs.len()' in sd.body:
      sd.before('for gi_ in 0..outputs.len()', 'proof { lemma_open(d0, ops@, n); }')
      sd.loop('for gi_ in 0..outputs.len()', invariants=[
          ('frame', 'self.use_counts == old(self).use_counts && self.input_slots == old(self).input_slots && n == idx && idx < ops@.len() && ops@.len() <= usize::MAX'),
          ('partial', 'pinv(self.defs@, ops@, n, ex, false)'),
          ('covered', 'forall|i: int, j: int| 0 <= i < gi_ && 0 <= j < outputs@[i]@.len() ==> ex(#[trigger] outputs@[i]@[j])'),
      ])
      sd.loop('for wi_ in 0..outputs[gi_].len()', invariants=[
          ('frame', 'self.use_counts == old(self).use_counts && self.input_slots == old(self).input_slots && n == idx && idx < ops@.len() && ops@.len() <= usize::MAX && gi_ < outputs@.len()'),
          ('partial', 'pinv(self.defs@, ops@, n, ex, false)'),
          ('covered', '''(forall|i: int, j: int| 0 <= i < gi_ && 0 <= j < outputs@[i]@.len() ==> ex(#[trigger] outputs@[i]@[j]))
                  && forall|j: int| 0 <= j < wi_ ==> ex(#[trigger] outputs@[gi_ as int]@[j])'''),
      ])
      sd.body = sd.body.replace('/*@npo*/', 'proof { let e0 = ex; lemma_ins(dpre, ops@, n, e0, false, id, OpDef::<F>::Other); ex = wadd(e0, id); }')
      sd.after_enclosing_block('for wi_ in 0..outputs[gi_].len()', '''proof {
                          assert forall|w: WitnessId| #[trigger] definer(ops@[n], w) implies ex(w) by {
                              let i = choose|i: int| 0 <= i < outputs@.len() && (#[trigger] outputs@[i])@.contains(w);
                              let j = choose|j: int| 0 <= j < outputs@[i]@.len() && outputs@[i]@[j] == w;
                              assert(ex(outputs@[i]@[j]));
                          }
                          lemma_close(self.defs@, ops@, n, ex, false);
                      }''')
    # Hint arm
    if 'for hi_ in 0..outputs.len()' in sd.body:
      sd.before('for hi_ in 0..outputs.len()', 'proof { lemma_open(d0, ops@, n); }')
      sd.loop('for hi_ in 0..outputs.len()', invariants=[
          ('frame', 'self.use_counts == old(self).use_counts && self.input_slots == old(self).input_slots && n == idx && idx < ops@.len() && ops@.len() <= usize::MAX'),
          ('partial', 'pinv(self.defs@, ops@, n, ex, false)'),
          ('covered', 'forall|j: int| 0 <= j < hi_ ==> ex(#[trigger] outputs@[j])'),
      ])
      sd.body = sd.body.replace('/*@hint*/', 'proof { let e0 = ex; lemma_ins(dpre, ops@, n, e0, false, id, OpDef::<F>::Other); ex = wadd(e0, id); }')
      sd.after_enclosing_block('let id = outputs[hi_];', '''proof {
                          assert forall|w: WitnessId| #[trigger] definer(ops@[n], w) implies ex(w) by {
                              let j = choose|j: int| 0 <= j < outputs@.len() && outputs@[j] == w;
                              assert(ex(outputs@[j]));
                          }
                          lemma_close(self.defs@, ops@, n, ex, false);
                      }''')


    # ---------------------------------------------------------------- try_fuse
    tf = u.extract(FM, IMPL, 'try_fuse', 'MulAddFusion::try_fuse')
    tf.rewrite('R6', 'self.def_idx(&addend).is_some_and(|i| i >= add_idx)', '(match self.def_idx(&addend) { Some(i) => i >= add_idx, None => false })')
    tf.rewrite('R6', 'self .backwards_computed .get(&addend) .is_some_and(|&i| i >= mul_idx)', '(match self.backwards_computed.get(&addend) { Some(i) => *i >= mul_idx, None => false })')
    tf.rewrite('R6', 'self.def_idx(&mul_b).is_some_and(|i| i >= mul_idx)', '(match self.def_idx(&mul_b) { Some(i) => i >= mul_idx, None => false })')
    tf.ensures('candidate_is_a_sound_fusion', '''ret matches Some((mul_idx, muladd, ad)) ==> ad == addend && forall|ops: Seq<Op<F>>| #![trigger self.describes(ops)]
            self.describes(ops) && 0 <= add_idx < ops.len()
            && (ops[add_idx as int] matches Op::Alu { kind, a: x, b: y, c, out: o, .. } && kind is Add && c.is_none() && o == out && ((x == mul_result && y == addend) || (y == mul_result && x == addend)))
            ==> fusable(ops, add_idx as int, mul_idx as int, muladd)''')
    tf.bind_tail('res_', '''proof {
            assert forall|ops: Seq<Op<F>>| #![trigger self.describes(ops)] self.describes(ops) && 0 <= add_idx < ops.len()
                && (ops[add_idx as int] matches Op::Alu { kind, a: x, b: y, c, out: o, .. } && kind is Add && c.is_none() && o == out && ((x == mul_result && y == addend) || (y == mul_result && x == addend)))
                implies fusable(ops, add_idx as int, mul_idx as int, muladd) by {
                assert(cnt(self.use_counts@, mul_result) == uses_upto(ops, ops.len() as int, mul_result));
                lemma_candidate_is_fusable(self.defs@, ops, add_idx as int, mul_result, addend, out, muladd);
            }
        }''')

    # ---------------------------------------------------------------- identify_candidates
    idc = u.extract(FM, IMPL, 'identify_candidates', 'MulAddFusion::identify_candidates')
    idc.rewrite_re('R5', r'for \((\w+), (\w+)\) in (\w+)\.iter\(\)\.enumerate\(\) \{', r'for \1 in 0..\3.len() { let \2 = &\3[\1];', min_count=1)
    idc.rewrite_re('R7', r'let mut candidates = HashMap::new\(\);', 'let mut candidates: HashMap<usize, (usize, Op<F>, WitnessId)> = HashMap::new();', min_count=0)
    unoption_pred(idc)
    idc.requires(*IDC_REQ)
    idc.ensures(*IDC_ENS)
    if 'for add_idx in 0..ops.len()' in idc.body:
        idc.loop('for add_idx in 0..ops.len()', invariants=[
            ('candidates_so_far', 'self.describes(ops@) && forall|k: usize| #[trigger] candidates@.dom().contains(k) ==> cand_ok(self, ops@, k, candidates@[k])'),
        ])

    u.text(CAND_OK)
    u.text('''verus! {
/// `set.extend(v.iter().copied())`
pub trait ExtendCopied { spec fn elems(&self) -> Set<WitnessId>; fn extend_copied(&mut self, v: &Vec<WitnessId>) ensures final(self).elems() == old(self).elems().union(v@.to_set()); }
impl ExtendCopied for HashSet<WitnessId> { open spec fn elems(&self) -> Set<WitnessId> { self@ } #[verifier::external_body] fn extend_copied(&mut self, v: &Vec<WitnessId>) { unimplemented!() } }
}''')
    u.text('''verus! {
pub proof fn lemma_occ_bound(s: Seq<WitnessId>, w: WitnessId) ensures 0 <= occ(s, w) <= s.len() decreases s.len() { if s.len() > 0 { lemma_occ_bound(s.drop_last(), w); } }
pub proof fn lemma_occ_bound_all() ensures forall|s: Seq<WitnessId>, w: WitnessId| 0 <= #[trigger] occ(s, w) <= s.len()
{ assert forall|s: Seq<WitnessId>, w: WitnessId| 0 <= #[trigger] occ(s, w) <= s.len() by { lemma_occ_bound(s, w); } }
pub proof fn lemma_occ2_bound(s: Seq<Vec<WitnessId>>, w: WitnessId) ensures 0 <= occ2(s, w) <= total_len(s) decreases s.len()
{ if s.len() > 0 { lemma_occ2_bound(s.drop_last(), w); lemma_occ_bound(s.last()@, w); } }
pub proof fn lemma_total_len_take(v: Seq<Vec<WitnessId>>, k: int)
    requires 0 <= k < v.len()
    ensures total_len(v.take(k + 1)) == total_len(v.take(k)) + v[k]@.len(), total_len(v.take(k + 1)) <= total_len(v), total_len(v.take(k)) >= 0
    decreases v.len() - k
{
    assert(v.take(k + 1).drop_last() =~= v.take(k));
    lemma_total_len_nonneg(v.take(k));
    if k + 1 < v.len() { lemma_total_len_take(v, k + 1); } else { assert(v.take(k + 1) =~= v); }
}
pub proof fn lemma_total_len_nonneg(v: Seq<Vec<WitnessId>>) ensures total_len(v) >= 0 decreases v.len() { if v.len() > 0 { lemma_total_len_nonneg(v.drop_last()); } }
impl<F: Field> MulAddFusion<F> {''')
    for f in (di, isc, us, ib, ind, tb, su, sd, tf, idc):
        u.emit(f)
    u.text('}\n}')
    return u
