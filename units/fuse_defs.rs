verus! {
// ================================================================ scan_defs: invariant algebra over the abstract map
pub type Defs<F> = Map<WitnessId, IndexedDef<F>>;
pub open spec fn cat<F>(d: Defs<F>, w: WitnessId) -> bool { d.dom().contains(w) && d[w].def is Const }
pub open spec fn ins_uc<F>(d: Defs<F>, w: WitnessId, idx: usize, def: OpDef<F>) -> Defs<F> { if cat(d, w) { d } else { d.insert(w, IndexedDef { idx, def }) } }
pub type WSet = spec_fn(WitnessId) -> bool;

/// partial invariant while op n is being processed: ops < n fully accounted, of op n the definers in `extra`;
/// `dn`: the backwards clause for op n itself has been established
pub open spec fn pinv<F>(d: Defs<F>, ops: Seq<Op<F>>, n: int, extra: WSet, dn: bool) -> bool {
    &&& 0 <= n < ops.len()
    &&& forall|w: WitnessId| #[trigger] d.dom().contains(w) ==> d[w].idx <= n
    &&& forall|w: WitnessId| (exists|k: int| 0 <= k < n && const_definer(#[trigger] ops[k], w)) <==> #[trigger] cat(d, w)
    &&& forall|w: WitnessId, k: int| 0 <= k < n && #[trigger] definer(ops[k], w) ==> d.dom().contains(w) && (cat(d, w) || d[w].idx >= k)
    &&& forall|w: WitnessId| #[trigger] extra(w) ==> d.dom().contains(w) && (cat(d, w) || d[w].idx >= n)
    &&& forall|w: WitnessId| #[trigger] d.dom().contains(w) && d[w].def is Mul ==>
            addmul_parts(ops[d[w].idx as int]) == Some((AluOpKind::Mul, d[w].def->Mul_a, d[w].def->Mul_b, w))
    &&& forall|k: int, k0: int| 0 <= k0 < k < n && (#[trigger] addmul_parts(ops[k])).is_some() && #[trigger] definer(ops[k0], addmul_parts(ops[k]).unwrap().3)
            ==> ({ let b = addmul_parts(ops[k]).unwrap().2; cat(d, b) || (d.dom().contains(b) && d[b].idx >= k) })
    &&& (dn ==> forall|k0: int| 0 <= k0 < n && addmul_parts(ops[n]).is_some() && #[trigger] definer(ops[k0], addmul_parts(ops[n]).unwrap().3)
            ==> ({ let b = addmul_parts(ops[n]).unwrap().2; cat(d, b) || (d.dom().contains(b) && d[b].idx >= n) }))
}
/// full invariant after n ops (this is MulAddFusion::defs_inv on the abstract map)
pub open spec fn dinv<F>(d: Defs<F>, ops: Seq<Op<F>>, n: int) -> bool {
    &&& 0 <= n <= ops.len()
    &&& forall|w: WitnessId| #[trigger] d.dom().contains(w) ==> d[w].idx < n
    &&& forall|w: WitnessId| (exists|k: int| 0 <= k < n && const_definer(#[trigger] ops[k], w)) <==> #[trigger] cat(d, w)
    &&& forall|w: WitnessId, k: int| 0 <= k < n && #[trigger] definer(ops[k], w) ==> d.dom().contains(w) && (cat(d, w) || d[w].idx >= k)
    &&& forall|w: WitnessId| #[trigger] d.dom().contains(w) && d[w].def is Mul ==>
            addmul_parts(ops[d[w].idx as int]) == Some((AluOpKind::Mul, d[w].def->Mul_a, d[w].def->Mul_b, w))
    &&& forall|k: int, k0: int| 0 <= k0 < k < n && (#[trigger] addmul_parts(ops[k])).is_some() && #[trigger] definer(ops[k0], addmul_parts(ops[k]).unwrap().3)
            ==> ({ let b = addmul_parts(ops[k]).unwrap().2; cat(d, b) || (d.dom().contains(b) && d[b].idx >= k) })
}
pub open spec fn wnone() -> WSet { |w: WitnessId| false }
pub open spec fn wadd(s: WSet, x: WitnessId) -> WSet { |w: WitnessId| s(w) || w == x }

pub proof fn lemma_open<F>(d: Defs<F>, ops: Seq<Op<F>>, n: int)
    requires dinv(d, ops, n), n < ops.len()
    ensures pinv(d, ops, n, wnone(), false)
{}

/// inserting (n, non-Const def) for slot x unless x is constant keeps the partial invariant and accounts for x
pub proof fn lemma_ins<F>(d: Defs<F>, ops: Seq<Op<F>>, n: int, extra: WSet, dn: bool, x: WitnessId, def: OpDef<F>)
    requires
        pinv(d, ops, n, extra, dn), n < usize::MAX, !(def is Const),
        def is Mul ==> addmul_parts(ops[n]) == Some((AluOpKind::Mul, def->Mul_a, def->Mul_b, x)),
    ensures pinv(ins_uc(d, x, n as usize, def), ops, n, wadd(extra, x), dn)
{
    let d2 = ins_uc(d, x, n as usize, def);
    assert forall|w: WitnessId| (exists|k: int| 0 <= k < n && const_definer(#[trigger] ops[k], w)) <==> #[trigger] cat(d2, w) by {
        assert(cat(d2, w) == cat(d, w));
    }
    assert forall|w: WitnessId, k: int| 0 <= k < n && #[trigger] definer(ops[k], w) implies d2.dom().contains(w) && (cat(d2, w) || d2[w].idx >= k) by {
        assert(cat(d2, w) == cat(d, w));
    }
    assert forall|w: WitnessId| #[trigger] wadd(extra, x)(w) implies d2.dom().contains(w) && (cat(d2, w) || d2[w].idx >= n) by {
        assert(cat(d2, w) == cat(d, w));
        if w != x { assert(extra(w)); }
    }
    assert forall|k: int, k0: int| 0 <= k0 < k < n && (#[trigger] addmul_parts(ops[k])).is_some() && #[trigger] definer(ops[k0], addmul_parts(ops[k]).unwrap().3)
            implies ({ let b = addmul_parts(ops[k]).unwrap().2; cat(d2, b) || (d2.dom().contains(b) && d2[b].idx >= k) }) by {
        let b = addmul_parts(ops[k]).unwrap().2;
        assert(cat(d2, b) == cat(d, b));
    }
    if dn {
        assert forall|k0: int| 0 <= k0 < n && addmul_parts(ops[n]).is_some() && #[trigger] definer(ops[k0], addmul_parts(ops[n]).unwrap().3)
                implies ({ let b = addmul_parts(ops[n]).unwrap().2; cat(d2, b) || (d2.dom().contains(b) && d2[b].idx >= n) }) by {
            let b = addmul_parts(ops[n]).unwrap().2;
            assert(cat(d2, b) == cat(d, b));
        }
    }
}

/// the backwards step of an Add/Mul op n: if its out already has a recorded def, b is re-recorded at n (unless constant)
pub proof fn lemma_backwards<F>(d: Defs<F>, ops: Seq<Op<F>>, n: int, out: WitnessId, b: WitnessId)
    requires
        dinv(d, ops, n), n < ops.len(), n < usize::MAX,
        addmul_parts(ops[n]).is_some(), addmul_parts(ops[n]).unwrap().3 == out, addmul_parts(ops[n]).unwrap().2 == b,
    ensures
        ({ let bw = d.dom().contains(out) && d[out].idx < n;
           pinv(if bw { ins_uc(d, b, n as usize, OpDef::Other) } else { d }, ops, n, wnone(), true) })
{
    lemma_open(d, ops, n);
    let bw = d.dom().contains(out) && d[out].idx < n;
    if bw {
        lemma_ins(d, ops, n, wnone(), false, b, OpDef::<F>::Other);
        let d2 = ins_uc(d, b, n as usize, OpDef::<F>::Other);
        assert(wadd(wnone(), b)(b));
        // pinv(d2, .., wadd(..), false) -> weaken extra to none, establish dn
        assert forall|w: WitnessId| #[trigger] wnone()(w) implies d2.dom().contains(w) && (cat(d2, w) || d2[w].idx >= n) by {}
    } else {
        // no earlier definer of out can exist: it would have put out into the map with idx < n
        assert forall|k0: int| 0 <= k0 < n && #[trigger] definer(ops[k0], out) implies false by {
            assert(d.dom().contains(out));
        }
    }
}

/// closing an op that is not a Const: every slot it defines is accounted for
pub proof fn lemma_close<F>(d: Defs<F>, ops: Seq<Op<F>>, n: int, extra: WSet, dn: bool)
    requires
        pinv(d, ops, n, extra, dn), !(ops[n] is Const),
        forall|w: WitnessId| #[trigger] definer(ops[n], w) ==> extra(w),
        dn || addmul_parts(ops[n]).is_none(),
    ensures dinv(d, ops, n + 1)
{
    assert forall|w: WitnessId| (exists|k: int| 0 <= k < n + 1 && const_definer(#[trigger] ops[k], w)) <==> #[trigger] cat(d, w) by {
        if exists|k: int| 0 <= k < n + 1 && const_definer(#[trigger] ops[k], w) {
            let k = choose|k: int| 0 <= k < n + 1 && const_definer(#[trigger] ops[k], w);
            assert(k < n);
        }
    }
    assert forall|w: WitnessId, k: int| 0 <= k < n + 1 && #[trigger] definer(ops[k], w) implies d.dom().contains(w) && (cat(d, w) || d[w].idx >= k) by {
        if k == n { assert(extra(w)); }
    }
    assert forall|k: int, k0: int| 0 <= k0 < k < n + 1 && (#[trigger] addmul_parts(ops[k])).is_some() && #[trigger] definer(ops[k0], addmul_parts(ops[k]).unwrap().3)
            implies ({ let b = addmul_parts(ops[k]).unwrap().2; cat(d, b) || (d.dom().contains(b) && d[b].idx >= k) }) by {}
}

/// a Const op always (re)records its slot as Const
pub proof fn lemma_const<F>(d: Defs<F>, ops: Seq<Op<F>>, n: int, out: WitnessId, val: F)
    requires dinv(d, ops, n), n < ops.len(), n < usize::MAX, ops[n] matches Op::Const { out: o, .. } && o == out
    ensures dinv(d.insert(out, IndexedDef { idx: n as usize, def: OpDef::Const(val) }), ops, n + 1)
{
    let d2 = d.insert(out, IndexedDef { idx: n as usize, def: OpDef::Const(val) });
    assert forall|w: WitnessId| (exists|k: int| 0 <= k < n + 1 && const_definer(#[trigger] ops[k], w)) <==> #[trigger] cat(d2, w) by {
        if w == out { assert(const_definer(ops[n], w)); }
        else {
            assert(cat(d2, w) == cat(d, w));
            if exists|k: int| 0 <= k < n + 1 && const_definer(#[trigger] ops[k], w) {
                let k = choose|k: int| 0 <= k < n + 1 && const_definer(#[trigger] ops[k], w);
                assert(k < n);
            }
        }
    }
    assert forall|w: WitnessId, k: int| 0 <= k < n + 1 && #[trigger] definer(ops[k], w) implies d2.dom().contains(w) && (cat(d2, w) || d2[w].idx >= k) by {
        if w != out { assert(cat(d2, w) == cat(d, w)); }
    }
    assert forall|k: int, k0: int| 0 <= k0 < k < n + 1 && (#[trigger] addmul_parts(ops[k])).is_some() && #[trigger] definer(ops[k0], addmul_parts(ops[k]).unwrap().3)
            implies ({ let b = addmul_parts(ops[k]).unwrap().2; cat(d2, b) || (d2.dom().contains(b) && d2[b].idx >= k) }) by {
        let b = addmul_parts(ops[k]).unwrap().2;
        if b != out { assert(cat(d2, b) == cat(d, b)); }
    }
}
} // verus!
