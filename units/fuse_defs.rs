verus! {
// ================================================================ scan_defs: invariant algebra over the abstract map
pub type Defs<F> = Map<WitnessId, IndexedDef<F>>;
pub open spec fn cat<F>(d: Defs<F>, w: WitnessId) -> bool { d.dom().contains(w) && d[w].def is Const }
pub open spec fn ins_uc<F>(d: Defs<F>, w: WitnessId, idx: usize, def: OpDef<F>) -> Defs<F> { if cat(d, w) { d } else { d.insert(w, IndexedDef { idx, def }) } }
pub type WSet = spec_fn(WitnessId) -> bool;

/// partial invariant while op n is being processed: ops < n fully accounted, of op n the definers in `extra`;
/// `dn`: the backwards clause for op n itself has been established
pub open spec fn pinv<F>(d: Defs<F>, ops: Seq<Op<F>>, n: int, extra: WSet, dn: bool) -> bool {
    &&& 0 <= n < ops.len()
    &&& forall|w: WitnessId| #[trigger] d.dom().contains(w) ==> d[w].idx <= n
    &&& forall|w: WitnessId| (exists|k: int| 0 <= k < n && const_definer(#[trigger] ops[k], w)) <==> #[trigger] cat(d, w)
    &&& forall|w: WitnessId, k: int| 0 <= k < n && #[trigger] definer(ops[k], w) ==> d.dom().contains(w) && (cat(d, w) || d[w].idx >= k)
    &&& forall|w: WitnessId| #[trigger] extra(w) ==> d.dom().contains(w) && (cat(d, w) || d[w].idx >= n)
    &&& forall|w: WitnessId| #[trigger] d.dom().contains(w) && d[w].def is Mul ==>
            addmul_parts(ops[d[w].idx as int]) == Some((AluOpKind::Mul, d[w].def->Mul_a, d[w].def->Mul_b, w))
            && no_definer_before(ops, d[w].idx as int, w)
    &&& forall|k: int, k0: int| 0 <= k0 < k < n && (#[trigger] addmul_parts(ops[k])).is_some() && #[trigger] definer(ops[k0], addmul_parts(ops[k]).unwrap().3)
            ==> ({ let b = addmul_parts(ops[k]).unwrap().2; cat(d, b) || (d.dom().contains(b) && d[b].idx >= k) })
    &&& (dn ==> forall|k0: int| 0 <= k0 < n && addmul_parts(ops[n]).is_some() && #[trigger] definer(ops[k0], addmul_parts(ops[n]).unwrap().3)
            ==> ({ let b = addmul_parts(ops[n]).unwrap().2; cat(d, b) || (d.dom().contains(b) && d[b].idx >= n) }))
}
/// full invariant after n ops (this is MulAddFusion::defs_inv on the abstract map)
pub open spec fn dinv<F>(d: Defs<F>, ops: Seq<Op<F>>, n: int) -> bool {
    &&& 0 <= n <= ops.len()
    &&& forall|w: WitnessId| #[trigger] d.dom().contains(w) ==> d[w].idx < n
    &&& forall|w: WitnessId| (exists|k: int| 0 <= k < n && const_definer(#[trigger] ops[k], w)) <==> #[trigger] cat(d, w)
    &&& forall|w: WitnessId, k: int| 0 <= k < n && #[trigger] definer(ops[k], w) ==> d.dom().contains(w) && (cat(d, w) || d[w].idx >= k)
    &&& forall|w: WitnessId| #[trigger] d.dom().contains(w) && d[w].def is Mul ==>
            addmul_parts(ops[d[w].idx as int]) == Some((AluOpKind::Mul, d[w].def->Mul_a, d[w].def->Mul_b, w))
            && no_definer_before(ops, d[w].idx as int, w)
    &&& forall|k: int, k0: int| 0 <= k0 < k < n && (#[trigger] addmul_parts(ops[k])).is_some() && #[trigger] definer(ops[k0], addmul_parts(ops[k]).unwrap().3)
            ==> ({ let b = addmul_parts(ops[k]).unwrap().2; cat(d, b) || (d.dom().contains(b) && d[b].idx >= k) })
}
/// a Mul is only recorded as a fusable definition when its out slot had no definer before it
pub open spec fn no_definer_before<F>(ops: Seq<Op<F>>, n: int, w: WitnessId) -> bool { forall|k0: int| 0 <= k0 < n ==> !definer(#[trigger] ops[k0], w) }
pub open spec fn wnone() -> WSet { |w: WitnessId| false }
pub open spec fn wadd(s: WSet, x: WitnessId) -> WSet { |w: WitnessId| s(w) || w == x }

pub proof fn lemma_open<F>(d: Defs<F>, ops: Seq<Op<F>>, n: int)
    requires dinv(d, ops, n), n < ops.len()
    ensures pinv(d, ops, n, wnone(), false)
{}

/// inserting (n, non-Const def) for slot x unless x is constant keeps the partial invariant and accounts for x
pub proof fn lemma_ins<F>(d: Defs<F>, ops: Seq<Op<F>>, n: int, extra: WSet, dn: bool, x: WitnessId, def: OpDef<F>)
    requires
        pinv(d, ops, n, extra, dn), n < usize::MAX, !(def is Const),
        def is Mul ==> addmul_parts(ops[n]) == Some((AluOpKind::Mul, def->Mul_a, def->Mul_b, x)) && no_definer_before(ops, n, x),
    ensures pinv(ins_uc(d, x, n as usize, def), ops, n, wadd(extra, x), dn)
{
    let d2 = ins_uc(d, x, n as usize, def);
    assert forall|w: WitnessId| (exists|k: int| 0 <= k < n && const_definer(#[trigger] ops[k], w)) <==> #[trigger] cat(d2, w) by {
        assert(cat(d2, w) == cat(d, w));
    }
    assert forall|w: WitnessId, k: int| 0 <= k < n && #[trigger] definer(ops[k], w) implies d2.dom().contains(w) && (cat(d2, w) || d2[w].idx >= k) by {
        assert(cat(d2, w) == cat(d, w));
    }
    assert forall|w: WitnessId| #[trigger] wadd(extra, x)(w) implies d2.dom().contains(w) && (cat(d2, w) || d2[w].idx >= n) by {
        assert(cat(d2, w) == cat(d, w));
        if w != x { assert(extra(w)); }
    }
    assert forall|k: int, k0: int| 0 <= k0 < k < n && (#[trigger] addmul_parts(ops[k])).is_some() && #[trigger] definer(ops[k0], addmul_parts(ops[k]).unwrap().3)
            implies ({ let b = addmul_parts(ops[k]).unwrap().2; cat(d2, b) || (d2.dom().contains(b) && d2[b].idx >= k) }) by {
        let b = addmul_parts(ops[k]).unwrap().2;
        assert(cat(d2, b) == cat(d, b));
    }
    if dn {
        assert forall|k0: int| 0 <= k0 < n && addmul_parts(ops[n]).is_some() && #[trigger] definer(ops[k0], addmul_parts(ops[n]).unwrap().3)
                implies ({ let b = addmul_parts(ops[n]).unwrap().2; cat(d2, b) || (d2.dom().contains(b) && d2[b].idx >= n) }) by {
            let b = addmul_parts(ops[n]).unwrap().2;
            assert(cat(d2, b) == cat(d, b));
        }
    }
}

/// the backwards step of an Add/Mul op n: if its out already has a recorded def, b is re-recorded at n (unless constant)
/// `out` already has a value before op n: an earlier op defines it, or it is an input slot filled from outside the op list
pub open spec fn bwx<F>(d: Defs<F>, inputs: Set<WitnessId>, out: WitnessId, n: int) -> bool { inputs.contains(out) || (d.dom().contains(out) && d[out].idx < n) }
pub proof fn lemma_backwards<F>(d: Defs<F>, ops: Seq<Op<F>>, n: int, out: WitnessId, b: WitnessId, ext: bool)
    requires
        dinv(d, ops, n), n < ops.len(), n < usize::MAX,
        addmul_parts(ops[n]).is_some(), addmul_parts(ops[n]).unwrap().3 == out, addmul_parts(ops[n]).unwrap().2 == b,
    ensures
        ({ let bw = ext || (d.dom().contains(out) && d[out].idx < n);
           pinv(if bw { ins_uc(d, b, n as usize, OpDef::Other) } else { d }, ops, n, wnone(), true) && (!bw ==> no_definer_before(ops, n, out)) })
{
    lemma_open(d, ops, n);
    let bw = ext || (d.dom().contains(out) && d[out].idx < n);
    if bw {
        lemma_ins(d, ops, n, wnone(), false, b, OpDef::<F>::Other);
        let d2 = ins_uc(d, b, n as usize, OpDef::<F>::Other);
        assert(wadd(wnone(), b)(b));
        // pinv(d2, .., wadd(..), false) -> weaken extra to none, establish dn
        assert forall|w: WitnessId| #[trigger] wnone()(w) implies d2.dom().contains(w) && (cat(d2, w) || d2[w].idx >= n) by {}
    } else {
        // no earlier definer of out can exist: it would have put out into the map with idx < n
        assert forall|k0: int| 0 <= k0 < n && #[trigger] definer(ops[k0], out) implies false by {
            assert(d.dom().contains(out));
        }
    }
}

/// closing an op that is not a Const: every slot it defines is accounted for
pub proof fn lemma_close<F>(d: Defs<F>, ops: Seq<Op<F>>, n: int, extra: WSet, dn: bool)
    requires
        pinv(d, ops, n, extra, dn), !(ops[n] is Const),
        forall|w: WitnessId| #[trigger] definer(ops[n], w) ==> extra(w),
        dn || addmul_parts(ops[n]).is_none(),
    ensures dinv(d, ops, n + 1)
{
    assert forall|w: WitnessId| (exists|k: int| 0 <= k < n + 1 && const_definer(#[trigger] ops[k], w)) <==> #[trigger] cat(d, w) by {
        if exists|k: int| 0 <= k < n + 1 && const_definer(#[trigger] ops[k], w) {
            let k = choose|k: int| 0 <= k < n + 1 && const_definer(#[trigger] ops[k], w);
            assert(k < n);
        }
    }
    assert forall|w: WitnessId, k: int| 0 <= k < n + 1 && #[trigger] definer(ops[k], w) implies d.dom().contains(w) && (cat(d, w) || d[w].idx >= k) by {
        if k == n { assert(extra(w)); }
    }
    assert forall|k: int, k0: int| 0 <= k0 < k < n + 1 && (#[trigger] addmul_parts(ops[k])).is_some() && #[trigger] definer(ops[k0], addmul_parts(ops[k]).unwrap().3)
            implies ({ let b = addmul_parts(ops[k]).unwrap().2; cat(d, b) || (d.dom().contains(b) && d[b].idx >= k) }) by {}
}

/// a Const op always (re)records its slot as Const
pub proof fn lemma_const<F>(d: Defs<F>, ops: Seq<Op<F>>, n: int, out: WitnessId, val: F)
    requires dinv(d, ops, n), n < ops.len(), n < usize::MAX, ops[n] matches Op::Const { out: o, .. } && o == out
    ensures dinv(d.insert(out, IndexedDef { idx: n as usize, def: OpDef::Const(val) }), ops, n + 1)
{
    let d2 = d.insert(out, IndexedDef { idx: n as usize, def: OpDef::Const(val) });
    assert forall|w: WitnessId| (exists|k: int| 0 <= k < n + 1 && const_definer(#[trigger] ops[k], w)) <==> #[trigger] cat(d2, w) by {
        if w == out { assert(const_definer(ops[n], w)); }
        else {
            assert(cat(d2, w) == cat(d, w));
            if exists|k: int| 0 <= k < n + 1 && const_definer(#[trigger] ops[k], w) {
                let k = choose|k: int| 0 <= k < n + 1 && const_definer(#[trigger] ops[k], w);
                assert(k < n);
            }
        }
    }
    assert forall|w: WitnessId, k: int| 0 <= k < n + 1 && #[trigger] definer(ops[k], w) implies d2.dom().contains(w) && (cat(d2, w) || d2[w].idx >= k) by {
        if w != out { assert(cat(d2, w) == cat(d, w)); }
    }
    assert forall|k: int, k0: int| 0 <= k0 < k < n + 1 && (#[trigger] addmul_parts(ops[k])).is_some() && #[trigger] definer(ops[k0], addmul_parts(ops[k]).unwrap().3)
            implies ({ let b = addmul_parts(ops[k]).unwrap().2; cat(d2, b) || (d2.dom().contains(b) && d2[b].idx >= k) }) by {
        let b = addmul_parts(ops[k]).unwrap().2;
        if b != out { assert(cat(d2, b) == cat(d, b)); }
    }
}
} // verus!

verus! {
// ================================================================ what a fusion candidate must satisfy (C03)
/// slot x occurs in a position that the RELATION of op reads or writes (hints have no relation; the product slot kept
/// in a MulAdd's intermediate_out is not part of its relation, a HornerAcc's accumulator is)
pub open spec fn rel_mentions<F>(op: Op<F>, x: WitnessId) -> bool {
    match op {
        Op::Const { out, .. } => out == x,
        Op::Public { out, .. } => out == x,
        Op::Alu { kind, a, b, c, out, intermediate_out } => a == x || b == x || c == Some(x) || out == x || (kind is HornerAcc && intermediate_out == Some(x)),
        Op::Hint { .. } => false,
        Op::NonPrimitiveOpWithExecutor { inputs, outputs, .. } => in_seq2(inputs@, x) || in_seq2(outputs@, x),
    }
}
/// slots filled by set_private_inputs: they have NO defining op in the list (uninterpreted: the optimizer is not told which slots they are)
pub uninterp spec fn is_private_input_slot(w: WitnessId) -> bool;
/// (add_idx, mul_idx) is a sound fusion of ops: a plain product m = a*b read only by the plain sum out = m + addend
pub open spec fn fusable<F>(ops: Seq<Op<F>>, add_idx: int, mul_idx: int, muladd: Op<F>) -> bool {
    &&& 0 <= add_idx < ops.len() && 0 <= mul_idx < ops.len() && add_idx != mul_idx
    &&& addmul_parts(ops[mul_idx]).is_some() && addmul_parts(ops[mul_idx]).unwrap().0 is Mul
    &&& addmul_parts(ops[add_idx]).is_some() && addmul_parts(ops[add_idx]).unwrap().0 is Add
    &&& ({
        let (_k, a, b, m) = addmul_parts(ops[mul_idx]).unwrap();
        let (_k2, x, y, out) = addmul_parts(ops[add_idx]).unwrap();
        let addend = if x == m { y } else { x };
        &&& (x == m || y == m) && addend != m && out != m && a != m && b != m
        &&& muladd matches Op::Alu { kind, a: a2, b: b2, c, out: o2, intermediate_out } && kind is MulAdd && a2 == a && b2 == b && c == Some(addend) && o2 == out && intermediate_out == Some(m)
        // the product slot is mentioned by no other relation
        &&& forall|k: int| 0 <= k < ops.len() && k != add_idx && k != mul_idx ==> !rel_mentions(#[trigger] ops[k], m)
    })
}

pub proof fn lemma_uses_upto_zero_means_unread<F>(ops: Seq<Op<F>>, n: int, w: WitnessId, k: int)
    requires 0 <= k < n <= ops.len(), uses_upto(ops, n, w) - op_uses(ops[k], w) == 0 || uses_upto(ops, n, w) == op_uses(ops[k], w)
    ensures forall|j: int| 0 <= j < n && j != k ==> op_uses(#[trigger] ops[j], w) == 0
    decreases n
{
    lemma_uses_nonneg_all(ops, n, w);
    if n - 1 == k {
        lemma_uses_zero(ops, n - 1, w);
    } else {
        lemma_op_uses_nonneg(ops[n - 1], w);
        lemma_uses_ge(ops, n - 1, w, k);
        assert(op_uses(ops[n - 1], w) == 0);
        lemma_uses_upto_zero_means_unread(ops, n - 1, w, k);
    }
}
pub proof fn lemma_occ_nonneg(s: Seq<WitnessId>, w: WitnessId) ensures occ(s, w) >= 0 decreases s.len() { if s.len() > 0 { lemma_occ_nonneg(s.drop_last(), w); } }
pub proof fn lemma_occ2_nonneg(s: Seq<Vec<WitnessId>>, w: WitnessId) ensures occ2(s, w) >= 0 decreases s.len() { if s.len() > 0 { lemma_occ2_nonneg(s.drop_last(), w); lemma_occ_nonneg(s.last()@, w); } }
pub proof fn lemma_op_uses_nonneg<F>(op: Op<F>, w: WitnessId) ensures op_uses(op, w) >= 0
{ match op { Op::NonPrimitiveOpWithExecutor { inputs, .. } => { lemma_occ2_nonneg(inputs@, w); } _ => {} } }
pub proof fn lemma_uses_nonneg_all<F>(ops: Seq<Op<F>>, n: int, w: WitnessId) ensures uses_upto(ops, n, w) >= 0 decreases n
{ if n > 0 { lemma_uses_nonneg_all(ops, n - 1, w); lemma_op_uses_nonneg(ops[n - 1], w); } }
/// total >= the contribution of any single op
pub proof fn lemma_uses_ge<F>(ops: Seq<Op<F>>, n: int, w: WitnessId, k: int)
    requires 0 <= k < n <= ops.len()
    ensures uses_upto(ops, n, w) >= op_uses(ops[k], w)
    decreases n
{
    lemma_op_uses_nonneg(ops[n - 1], w);
    if k == n - 1 { lemma_uses_nonneg_all(ops, n - 1, w); } else { lemma_uses_ge(ops, n - 1, w, k); }
}
pub proof fn lemma_uses_zero<F>(ops: Seq<Op<F>>, n: int, w: WitnessId)
    requires 0 <= n <= ops.len(), uses_upto(ops, n, w) == 0
    ensures forall|j: int| 0 <= j < n ==> op_uses(#[trigger] ops[j], w) == 0
    decreases n
{
    if n > 0 {
        lemma_uses_nonneg_all(ops, n - 1, w); lemma_op_uses_nonneg(ops[n - 1], w);
        lemma_uses_zero(ops, n - 1, w);
    }
}
/// a slot that is an element of a nested list occurs at least once
pub proof fn lemma_in_seq2_occ2(s: Seq<Vec<WitnessId>>, w: WitnessId)
    requires in_seq2(s, w)
    ensures occ2(s, w) >= 1
    decreases s.len()
{
    let i = choose|i: int| 0 <= i < s.len() && (#[trigger] s[i])@.contains(w);
    lemma_occ2_nonneg(s.drop_last(), w); lemma_occ_nonneg(s.last()@, w);
    if i == s.len() - 1 { lemma_contains_occ(s.last()@, w); }
    else { assert(s.drop_last()[i] == s[i]); assert(in_seq2(s.drop_last(), w)); lemma_in_seq2_occ2(s.drop_last(), w); }
}
pub proof fn lemma_contains_occ(s: Seq<WitnessId>, w: WitnessId)
    requires s.contains(w)
    ensures occ(s, w) >= 1
    decreases s.len()
{
    let i = choose|i: int| 0 <= i < s.len() && s[i] == w;
    lemma_occ_nonneg(s.drop_last(), w);
    if i < s.len() - 1 { assert(s.drop_last()[i] == w); assert(s.drop_last().contains(w)); lemma_contains_occ(s.drop_last(), w); }
}

/// C03 core for fusion: what the analysis tables imply about the op list.
/// (Before the fixes F4/F5 two hypotheses were needed here: constant second factor, HornerAcc accumulator.)
pub proof fn lemma_candidate_is_fusable<F>(d: Defs<F>, ops: Seq<Op<F>>, add_idx: int, m: WitnessId, addend: WitnessId, out: WitnessId, muladd: Op<F>)
    requires
        dinv(d, ops, ops.len() as int),
        0 <= add_idx < ops.len(),
        ops[add_idx] matches Op::Alu { kind, a: x, b: y, c, out: o, .. } && kind is Add && c.is_none() && o == out && ((x == m && y == addend) || (y == m && x == addend)),
        d.dom().contains(m), d[m].def is Mul, !cat(d, m),
        uses_upto(ops, ops.len() as int, m) == 1,
        muladd matches Op::Alu { kind, a: a2, b: b2, c, out: o2, intermediate_out } && kind is MulAdd && a2 == d[m].def->Mul_a && b2 == d[m].def->Mul_b && c == Some(addend) && o2 == out && intermediate_out == Some(m),
    ensures
        fusable(ops, add_idx, d[m].idx as int, muladd)
{
    let i = d[m].idx as int;
    let n = ops.len() as int;
    let (a, b) = (d[m].def->Mul_a, d[m].def->Mul_b);
    assert(addmul_parts(ops[i]) == Some((AluOpKind::Mul, a, b, m)));
    // the add reads m once => nothing else reads it, and the add's other operand is not m
    lemma_uses_ge(ops, n, m, add_idx);
    assert(op_uses(ops[add_idx], m) >= 1);
    lemma_uses_upto_zero_means_unread(ops, n, m, add_idx);
    assert(i != add_idx);
    assert(op_uses(ops[i], m) == 0);
    // no other definer of m: later ones would have replaced the recorded def, earlier ones are excluded by construction
    assert forall|k: int| 0 <= k < n && k != i implies !definer(#[trigger] ops[k], m) by {
        if definer(ops[k], m) {
            assert(d[m].idx >= k);
            assert(k < i);
            assert(no_definer_before(ops, i, m));
        }
    }
    assert forall|k: int| 0 <= k < n && k != add_idx && k != i implies !rel_mentions(#[trigger] ops[k], m) by {
        assert(op_uses(ops[k], m) == 0);
        assert(!definer(ops[k], m));
        match ops[k] {
            Op::NonPrimitiveOpWithExecutor { inputs, outputs, .. } => { if in_seq2(inputs@, m) { lemma_in_seq2_occ2(inputs@, m); } }
            _ => {}
        }
    }
    assert(!definer(ops[add_idx], m));
}
} // verus!
