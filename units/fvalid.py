"""Unit `fvalid` (C02, C18): which fusion candidates survive -- MulAddFusion::{effective_position, filter_valid}
(circuit/src/builder/compiler/optimizer/fuse_mul_add.rs).

filter_valid iterates hash containers and passes closures to `filter_map` / `retain`. R14 lifts each closure (body verbatim) to a
top-level fn, and every iteration over a hash set / map becomes an indexed loop over an ARBITRARY duplicate-free listing of it, so
what is proved holds for every iteration order the runtime may choose:
  * C02 side: every kept candidate's addend is available before its mul, measured against the table of moved outputs OF THE KEPT SET
    (`positions_rel` + `keep`): `apply` can place the fused MulAdd at the mul's position;
  * C18 side: the kept set is a FUNCTION of (analysis tables, op list, candidate map): it is the first fixpoint of `fv_step` from the
    full candidate set (`fv_iter`), whatever the hash order."""
import re

from vf.extract import match_brace, ExtractError
from vf.unit import Unit, closure_at, lift_closure, unoption_pred, drop_capacity_hints
from units.fuse import PRELUDE, types_from_repo

SPEC = r'''
verus! {
pub type Cands<F> = Map<usize, (usize, Op<F>, WitnessId)>;
/// the (out, mul position) entry that a kept candidate contributes to the table of moved outputs
pub open spec fn pos_entry<F>(c: Cands<F>, ops: Seq<Op<F>>, a: usize) -> Option<(WitnessId, usize)> {
    if c.dom().contains(a) && a < ops.len() && ops[a as int] is Alu { Some((ops[a as int]->Alu_out, c[a].0)) } else { None }
}
/// fp is a table of moved outputs for the kept set v: every entry comes from a kept candidate, every kept candidate has its out in the table
pub open spec fn positions_rel<F>(fp: Map<WitnessId, usize>, v: Set<usize>, c: Cands<F>, ops: Seq<Op<F>>) -> bool {
    (forall|k: WitnessId| #[trigger] fp.dom().contains(k) ==> exists|a: usize| v.contains(a) && #[trigger] pos_entry(c, ops, a) == Some((k, fp[k])))
    && (forall|a: usize| v.contains(a) && (#[trigger] pos_entry(c, ops, a)) is Some ==> fp.dom().contains(pos_entry(c, ops, a).unwrap().0))
}
pub open spec fn eff_pos<F>(d: Map<WitnessId, IndexedDef<F>>, fp: Map<WitnessId, usize>, w: WitnessId) -> Option<usize> {
    if fp.dom().contains(w) { Some(fp[w]) } else if d.dom().contains(w) { Some(d[w].idx) } else { None }
}
/// the addend of candidate a is available before its mul, given the table of moved outputs
pub open spec fn keep<F>(d: Map<WitnessId, IndexedDef<F>>, c: Cands<F>, fp: Map<WitnessId, usize>, a: usize) -> bool {
    c.dom().contains(a) ==> (match eff_pos(d, fp, c[a].2) { None => true, Some(p) => p < c[a].0 })
}
/// no two candidates write the same slot (a candidate add is the last definer of its out)
pub open spec fn outs_unique<F>(c: Cands<F>, ops: Seq<Op<F>>) -> bool {
    forall|a: usize, b: usize| a != b && (#[trigger] pos_entry(c, ops, a)) is Some && (#[trigger] pos_entry(c, ops, b)) is Some ==> pos_entry(c, ops, a).unwrap().0 != pos_entry(c, ops, b).unwrap().0
}
/// THE moved position of slot w under a kept set (a function of the set: independent of any iteration order)
pub open spec fn fp_lookup<F>(v: Set<usize>, c: Cands<F>, ops: Seq<Op<F>>, w: WitnessId) -> Option<usize> {
    if exists|a: usize| v.contains(a) && (#[trigger] pos_entry(c, ops, a)) is Some && pos_entry(c, ops, a).unwrap().0 == w {
        let a = choose|a: usize| v.contains(a) && (#[trigger] pos_entry(c, ops, a)) is Some && pos_entry(c, ops, a).unwrap().0 == w; Some(c[a].0)
    } else { None }
}
pub open spec fn keep_of<F>(d: Map<WitnessId, IndexedDef<F>>, c: Cands<F>, ops: Seq<Op<F>>, v: Set<usize>, a: usize) -> bool {
    c.dom().contains(a) ==> (match (match fp_lookup(v, c, ops, c[a].2) { Some(p) => Some(p), None => if d.dom().contains(c[a].2) { Some(d[c[a].2].idx) } else { None } }) { None => true, Some(p) => p < c[a].0 })
}
/// one round: drop the candidates whose addend is not available given the fusions still kept
pub open spec fn fv_step<F>(d: Map<WitnessId, IndexedDef<F>>, c: Cands<F>, ops: Seq<Op<F>>, v: Set<usize>) -> Set<usize> {
    v.filter(|a: usize| keep_of(d, c, ops, v, a))
}
pub open spec fn fv_iter<F>(d: Map<WitnessId, IndexedDef<F>>, c: Cands<F>, ops: Seq<Op<F>>, n: nat) -> Set<usize> decreases n {
    if n == 0 { c.dom() } else { fv_step(d, c, ops, fv_iter(d, c, ops, (n - 1) as nat)) }
}
pub proof fn lemma_fp_unique<F>(fp: Map<WitnessId, usize>, v: Set<usize>, c: Cands<F>, ops: Seq<Op<F>>, w: WitnessId)
    requires positions_rel(fp, v, c, ops), outs_unique(c, ops)
    ensures fp_lookup(v, c, ops, w) == (if fp.dom().contains(w) { Some(fp[w]) } else { None::<usize> })
{
    if fp.dom().contains(w) {
        let a = choose|a: usize| v.contains(a) && #[trigger] pos_entry(c, ops, a) == Some((w, fp[w]));
        assert(pos_entry(c, ops, a) is Some && pos_entry(c, ops, a).unwrap().0 == w);
        let b = choose|b: usize| v.contains(b) && (#[trigger] pos_entry(c, ops, b)) is Some && pos_entry(c, ops, b).unwrap().0 == w;
        if a != b { assert(false); }
    } else {
        if exists|a: usize| v.contains(a) && (#[trigger] pos_entry(c, ops, a)) is Some && pos_entry(c, ops, a).unwrap().0 == w {
            let a = choose|a: usize| v.contains(a) && (#[trigger] pos_entry(c, ops, a)) is Some && pos_entry(c, ops, a).unwrap().0 == w;
            assert(fp.dom().contains(pos_entry(c, ops, a).unwrap().0));
        }
    }
}
pub proof fn lemma_keep_is_keep_of<F>(d: Map<WitnessId, IndexedDef<F>>, fp: Map<WitnessId, usize>, v: Set<usize>, c: Cands<F>, ops: Seq<Op<F>>, a: usize)
    requires positions_rel(fp, v, c, ops), outs_unique(c, ops)
    ensures keep(d, c, fp, a) == keep_of(d, c, ops, v, a)
{
    if c.dom().contains(a) { lemma_fp_unique(fp, v, c, ops, c[a].2); }
}
/// table built from the first n listed elements
pub open spec fn table_upto<F>(m: Map<WitnessId, usize>, l: Seq<usize>, n: int, c: Cands<F>, ops: Seq<Op<F>>) -> bool {
    (forall|k: WitnessId| #[trigger] m.dom().contains(k) ==> exists|j: int| 0 <= j < n && #[trigger] pos_entry(c, ops, l[j]) == Some((k, m[k])))
    && (forall|j: int| 0 <= j < n && (#[trigger] pos_entry(c, ops, l[j])) is Some ==> m.dom().contains(pos_entry(c, ops, l[j]).unwrap().0))
}
pub proof fn lemma_table_done<F>(m: Map<WitnessId, usize>, l: Seq<usize>, v: Set<usize>, c: Cands<F>, ops: Seq<Op<F>>)
    requires table_upto(m, l, l.len() as int, c, ops), l.to_set() == v
    ensures positions_rel(m, v, c, ops)
{
    assert forall|k: WitnessId| #[trigger] m.dom().contains(k) implies exists|a: usize| v.contains(a) && #[trigger] pos_entry(c, ops, a) == Some((k, m[k])) by {
        let j = choose|j: int| 0 <= j < l.len() && #[trigger] pos_entry(c, ops, l[j]) == Some((k, m[k]));
        assert(l.to_set().contains(l[j]));
    }
    assert forall|a: usize| v.contains(a) && (#[trigger] pos_entry(c, ops, a)) is Some implies m.dom().contains(pos_entry(c, ops, a).unwrap().0) by {
        assert(l.to_set().contains(a)); let j = choose|j: int| 0 <= j < l.len() && l[j] == a; assert(pos_entry(c, ops, l[j]) is Some);
    }
}
/// `m.keys().copied().collect()` into a hash set
#[verifier::external_body]
pub fn keys_of<V>(c: &HashMap<usize, V>) -> (r: HashSet<usize>) ensures r@ == c@.dom() { unimplemented!() }
/// AN enumeration of a hash set / of the keys of a hash map: duplicate-free, exactly its elements, in an order nothing is known about
pub trait Listing { spec fn elems(&self) -> Set<usize>; fn listing(&self) -> (r: Vec<usize>) ensures r@.no_duplicates(), r@.to_set() == self.elems(); }
impl Listing for HashSet<usize> { open spec fn elems(&self) -> Set<usize> { self@ } #[verifier::external_body] fn listing(&self) -> (r: Vec<usize>) { unimplemented!() } }
impl<V> Listing for HashMap<usize, V> { open spec fn elems(&self) -> Set<usize> { self@.dom() } #[verifier::external_body] fn listing(&self) -> (r: Vec<usize>) { unimplemented!() } }
} // verus!
'''

GEN = '<F: Field>'
CAPS = {
    'self': 'this: &MulAddFusion<F>',
    'candidates': 'candidates: &HashMap<usize, (usize, Op<F>, WitnessId)>',
    'ops': 'ops: &[Op<F>]',
    'fused_positions': 'fused_positions: &HashMap<WitnessId, usize>',
}
KINDS = {'valid': 'set', 'candidates': 'map'}


def hash_iteration_skeletons(f, lifted):
    """R5/R14 on the hash containers named in KINDS:
       (a) `let X: HashMap<K, V> = SRC.iter().filter_map(CLOSURE).collect();`   (b) `SET.retain(CLOSURE);`   (c) `for PAT in [&]SRC {`
    Each becomes an indexed loop over `SRC.listing()`; markers /*@<tag>:..*/ are the places where the unit may put ghost code."""
    n = {'fm': 0, 'rt': 0, 'for': 0}
    while True:
        m = re.search(r'(\w+)\s*\.\s*iter\(\)\s*\.\s*filter_map(\()', f.body)
        if not m or m.group(1) not in KINDS:
            break
        src = m.group(1)
        k = m.end(2)
        while f.body[k].isspace():
            k += 1
        tag = f'fm{n["fm"]}'
        n['fm'] += 1
        g, call, end = lift_closure(f, k, f'filter_valid_{tag}', GEN, 'usize', src, KINDS[src], CAPS, 'Option<(WitnessId, usize)>')
        mc = re.match(r'\s*\)\s*\.\s*collect\(\)', f.body[end:])
        if not mc:
            raise ExtractError(f'{f.qual}: filter_map over `{src}` not followed by collect()')
        skel = (f'{{ let l_{tag}_ = {src}.listing(); let mut m_{tag}_: HashMap<WitnessId, usize> = HashMap::new(); /*@{tag}:listed*/ '
                f'for i_{tag}_ in 0..l_{tag}_.len() {{ let k_ = l_{tag}_[i_{tag}_]; /*@{tag}:body*/ match {call} {{ Some((a_, b_)) => {{ m_{tag}_.insert(a_, b_); }} None => {{}} }} /*@{tag}:body_end*/ }} /*@{tag}:after*/ m_{tag}_ }}')
        f.body = f.body[:m.start()] + skel + f.body[end + mc.end():]
        g.src_, g.tag_ = src, tag
        lifted.append(g)
        f.rewrites.append(('R5', f'`{src}.iter().filter_map(..).collect()` -> indexed loop over `{src}.listing()` (arbitrary order) inserting the entries', ''))
    while True:
        m = re.search(r'(\w+)\s*\.\s*retain(\()', f.body)
        if not m or m.group(1) not in KINDS:
            break
        src = m.group(1)
        k = m.end(2)
        while f.body[k].isspace():
            k += 1
        tag = f'rt{n["rt"]}'
        n['rt'] += 1
        g, call, end = lift_closure(f, k, f'filter_valid_{tag}', GEN, 'usize', src, KINDS[src], CAPS, 'bool')
        mc = re.match(r'\s*\)\s*;', f.body[end:])
        if not mc:
            raise ExtractError(f'{f.qual}: retain on `{src}`: statement end not found')
        skel = (f'/*@{tag}:before*/ {{ let l_{tag}_ = {src}.listing(); /*@{tag}:listed*/ for i_{tag}_ in 0..l_{tag}_.len() {{ let k_ = l_{tag}_[i_{tag}_]; '
                f'if !{call} {{ {src}.remove(&k_); }} }} /*@{tag}:after_loop*/ }} /*@{tag}:after*/')
        f.body = f.body[:m.start()] + skel + f.body[end + mc.end():]
        g.src_, g.tag_ = src, tag
        lifted.append(g)
        f.rewrites.append(('R5', f'`{src}.retain(..)` -> indexed loop over `{src}.listing()` (arbitrary order) removing the rejected elements', ''))
    while True:
        m = re.search(r'for\s+(\([^{]*?\)|&?\w+)\s+in\s+&?(\w+)\s*\{', f.body)
        if not m or m.group(2) not in KINDS:
            break
        pat, src = m.group(1), m.group(2)
        tag = f'for{n["for"]}'
        n['for'] += 1
        lets = []
        if KINDS[src] == 'map':
            from vf.unit import _split_top_commas
            kp, vp = _split_top_commas(pat[1:-1])
            lets.append(f'let {kp[1:]} = l_{tag}_[i_{tag}_];' if kp.startswith('&') else f'let {kp} = &l_{tag}_[i_{tag}_];')
            key = kp[1:] if kp.startswith('&') else '*' + kp
            if vp != '_':
                lets.append(f'let {vp} = {src}.get(&{key}).unwrap();')
        else:
            lets.append(f'let {pat[1:]} = l_{tag}_[i_{tag}_];' if pat.startswith('&') else f'let {pat} = &l_{tag}_[i_{tag}_];')
        f.body = f.body[:m.start()] + f'let l_{tag}_ = {src}.listing(); for i_{tag}_ in 0..l_{tag}_.len() {{ ' + ' '.join(lets) + f.body[m.end():]
        f.rewrites.append(('R5', f'`for {pat} in {src}` -> indexed loop over `{src}.listing()` (arbitrary order)', ''))
    return f


def build():
    u = Unit('fvalid', ['C02', 'C18'])
    u.rlimit = 100
    u.assume('hashbrown maps/sets treated as std ones (R7); key model of WitnessId; iteration over a hash container = iteration over an arbitrary duplicate-free listing of it (trait Listing, external_body)')
    u.assume('filter_valid precondition `outs_unique`: no two candidates write the same slot -- identify_candidates admits only an add that is the LAST definer of its out (not under contract here)')
    u.text(PRELUDE.replace('@@TYPES@@', types_from_repo()))
    u.text(open(__file__.replace('fvalid.py', 'fuse_defs.rs')).read())
    u.text(SPEC)
    FM = 'circuit/src/builder/compiler/optimizer/fuse_mul_add.rs'
    IMPL = r'impl<F: Field> MulAddFusion<F>'
    di = u.extract(FM, IMPL, 'def_idx', 'MulAddFusion::def_idx')
    di.rewrite('R6', 'self.defs.get(id).map(|d| d.idx)', '(match self.defs.get(id) { Some(d) => Some(d.idx), None => None })')
    di.ensures('def_idx', 'ret == (if self.defs@.dom().contains(*id) { Some(self.defs@[*id].idx) } else { None })')
    ep = u.extract(FM, IMPL, 'effective_position', 'MulAddFusion::effective_position')
    unoption_pred(ep)
    ep.ensures('moved_position_wins_over_the_defining_position', 'ret == eff_pos(self.defs@, fused_positions@, witness)')

    fv = u.extract(FM, IMPL, 'filter_valid', 'MulAddFusion::filter_valid')
    fv.rewrite_re('R7', r'hashbrown::(HashSet|HashMap)', r'\1', where='sig')
    fv.rewrite_re('R7', r'hashbrown::(HashSet|HashMap)', r'\1')
    drop_capacity_hints(fv, ctors=('HashSet', 'HashMap', 'Vec'))
    fv.rewrite_re('R6', r'(\w+)\.keys\(\)\.copied\(\)\.collect\(\)', r'keys_of(\1)')
    unoption_pred(fv)
    lifted = []
    hash_iteration_skeletons(fv, lifted)
    for g in lifted:
        unoption_pred(g)
        if g.src_ == 'candidates':
            g.requires('listed_key', 'candidates@.dom().contains(k_)')
        if g.tag_.startswith('fm'):
            g.ensures('entry_of_a_kept_candidate_is_its_out_at_its_mul_position', 'ret == pos_entry(candidates@, ops@, k_)')
        else:
            g.ensures('kept_iff_the_addend_is_available_before_the_mul', 'ret == keep(this.defs@, candidates@, fused_positions@, k_)')
    POST = ('exists|fp: Map<WitnessId, usize>| #[trigger] positions_rel(fp, {v}, candidates@, ops@) && forall|a: usize| {v}.contains(a) ==> keep(self.defs@, candidates@, fp, a)')
    DET = 'exists|n: nat| {v} == #[trigger] fv_iter(self.defs@, candidates@, ops@, n) && fv_step(self.defs@, candidates@, ops@, {v}) == {v}'
    fv.requires('no_two_candidates_write_the_same_slot', 'outs_unique(candidates@, ops@)')
    fv.ensures('kept_are_candidates', 'ret@.subset_of(candidates@.dom())')
    fv.ensures('every_kept_addend_is_available_before_its_mul_given_the_kept_fusions', POST.format(v='ret@'))
    fv.ensures('kept_set_is_the_first_fixpoint_whatever_the_hash_order', DET.format(v='ret@'))

    def mark(tag, text):
        fv.body = fv.body.replace(f'/*@{tag}*/', text)

    # ---- ghost code at the generated markers (only where the construct is there)
    if re.search(r'let mut valid\b[^;]*= keys_of\(candidates\);', fv.body):
        fv.rewrite_re('SPEC', r'(let mut valid\b[^;]*= keys_of\(candidates\);)', r'\1 proof { assert(valid@ == fv_iter(self.defs@, candidates@, ops@, 0)); }')
    in_loop = False
    lm = re.search(r'\bloop\s*\{', fv.body)
    if lm:
        lo = fv.body.index('{', lm.start())
        lc = match_brace(fv.body, lo)
        in_loop = lo < fv.body.find('/*@fm0:listed*/') < lc and lo < fv.body.find('/*@rt0:before*/') < lc
    for g in lifted:
        t, src = g.tag_, g.src_
        SET = f'{src}@' if KINDS[src] == 'set' else f'{src}@.dom()'
        if t.startswith('fm'):
            mark(f'{t}:listed', '')
            mark(f'{t}:body', f'let ghost m0_ = m_{t}_@;')
            mark(f'{t}:body_end', f'''proof {{
                    assert forall|k: WitnessId| #[trigger] m_{t}_@.dom().contains(k) implies exists|j: int| 0 <= j < i_{t}_ + 1 && #[trigger] pos_entry(candidates@, ops@, l_{t}_@[j]) == Some((k, m_{t}_@[k])) by {{
                        if m0_.dom().contains(k) && m_{t}_@[k] == m0_[k] {{
                            let j = choose|j: int| 0 <= j < i_{t}_ && #[trigger] pos_entry(candidates@, ops@, l_{t}_@[j]) == Some((k, m0_[k]));
                            assert(pos_entry(candidates@, ops@, l_{t}_@[j]) == Some((k, m_{t}_@[k])));
                        }} else {{
                            assert(pos_entry(candidates@, ops@, l_{t}_@[i_{t}_ as int]) == Some((k, m_{t}_@[k])));
                        }}
                    }}
                }}''')
            mark(f'{t}:after', f'proof {{ lemma_table_done(m_{t}_@, l_{t}_@, {SET}, candidates@, ops@); }}')
        else:
            mark(f'{t}:before', f'let ghost v0_ = {SET}; let ghost mut ls_: Seq<usize> = Seq::empty();')
            mark(f'{t}:listed', f'proof {{ ls_ = l_{t}_@; }}')
            mark(f'{t}:after_loop', f'''proof {{
                assert forall|j: int| 0 <= j < ls_.len() && !{SET}.contains(#[trigger] ls_[j]) implies !keep(self.defs@, candidates@, fused_positions@, ls_[j]) by {{}}
                assert forall|a: usize| {SET}.contains(a) implies keep(self.defs@, candidates@, fused_positions@, a) by {{
                    assert(ls_.to_set().contains(a)); let j = choose|j: int| 0 <= j < ls_.len() && ls_[j] == a; assert({SET}.contains(ls_[j]));
                }}
            }}''')
            mark(f'{t}:after', f'''proof {{ vstd::set_lib::lemma_len_subset({SET}, v0_);
                assert forall|a: usize| keep(self.defs@, candidates@, fused_positions@, a) == keep_of(self.defs@, candidates@, ops@, v0_, a) by {{ lemma_keep_is_keep_of(self.defs@, fused_positions@, v0_, candidates@, ops@, a); }}
                assert({SET} =~= fv_step(self.defs@, candidates@, ops@, v0_)) by {{
                    assert forall|a: usize| v0_.contains(a) && keep(self.defs@, candidates@, fused_positions@, a) implies {SET}.contains(a) by {{
                        assert(ls_.to_set().contains(a)); let j = choose|j: int| 0 <= j < ls_.len() && ls_[j] == a; assert(ls_[j] == a);
                    }}
                }}
                let n0 = choose|n: nat| v0_ == #[trigger] fv_iter(self.defs@, candidates@, ops@, n);
                assert({SET} == fv_iter(self.defs@, candidates@, ops@, n0 + 1));
            }}''')
    fv.body = re.sub(r'/\*@\w+:\w+\*/', '', fv.body)
    # the round's exit: same size after a round that only removes = nothing was removed
    if lm and re.search(r'if valid\.len\(\) == before \{\s*break;', fv.body) and 'v0_' in fv.body:
        fv.rewrite_re('SPEC', r'(if valid\.len\(\) == before \{)(\s*break;)',
                      r'\1 proof { vstd::set_lib::lemma_subset_equality(valid@, v0_); assert(positions_rel(fused_positions@, valid@, candidates@, ops@)); }\2')
    # ---- loop contracts (attached by the generated heads, whatever surrounds them)
    for g in lifted:
        t, src = g.tag_, g.src_
        SET = f'{src}@' if KINDS[src] == 'set' else f'{src}@.dom()'
        if t.startswith('fm'):
            fv.loop(f'for i_{t}_ in 0..l_{t}_.len()', invariants=[
                ('entries_of_the_elements_listed_so_far', f'table_upto(m_{t}_@, l_{t}_@, i_{t}_ as int, candidates@, ops@) && l_{t}_@.to_set() == {SET}'),
            ])
        else:
            fv.loop(f'for i_{t}_ in 0..l_{t}_.len()', invariants=[
                ('only_rejected_elements_were_removed', f'''{SET}.subset_of(v0_) && l_{t}_@.to_set() == v0_ && l_{t}_@.no_duplicates() && ls_ == l_{t}_@
                    && (forall|j: int| 0 <= j < i_{t}_ && {SET}.contains(#[trigger] l_{t}_@[j]) ==> keep(self.defs@, candidates@, fused_positions@, l_{t}_@[j]))
                    && (forall|j: int| i_{t}_ <= j < l_{t}_@.len() ==> {SET}.contains(#[trigger] l_{t}_@[j]))
                    && (forall|j: int| 0 <= j < i_{t}_ && !{SET}.contains(#[trigger] l_{t}_@[j]) ==> !keep(self.defs@, candidates@, fused_positions@, l_{t}_@[j]))'''),
            ])
    for k in range(4):
        if f'for i_for{k}_ in 0..l_for{k}_.len()' in fv.body:
            src = re.search(rf'let l_for{k}_ = (\w+)\.listing\(\);', fv.body).group(1)
            SET = f'{src}@' if KINDS[src] == 'set' else f'{src}@.dom()'
            fv.loop(f'for i_for{k}_ in 0..l_for{k}_.len()', invariants=[('listing', f'l_for{k}_@.to_set() == {SET}')])
    if lm:
        fv.rewrite_re('SPEC', r'\bloop\s*\{', 'loop /*@main*/ {')
        fv.loop('loop /*@main*/', invariants=[
            ('kept_so_far_is_a_round_of_the_iteration', 'valid@.subset_of(candidates@.dom()) && valid@.finite() && outs_unique(candidates@, ops@) && (exists|n: nat| valid@ == #[trigger] fv_iter(self.defs@, candidates@, ops@, n))'),
        ], ensures=[
            ('exit_is_a_fixpoint', 'valid@.subset_of(candidates@.dom()) && (' + DET.format(v='valid@') + ') && (' + POST.format(v='valid@') + ')'),
        ], decreases='valid@.len()')
    u.text('verus! {\nimpl<F: Field> MulAddFusion<F> {')
    u.emit(di)
    u.emit(ep)
    u.text('}')
    for g in lifted:
        u.emit(g)
    u.text('impl<F: Field> MulAddFusion<F> {')
    u.emit(fv)
    u.text('}\n}')
    return u
