"""Unit `fvalid` (C02, C18): which fusion candidates survive -- MulAddFusion::{effective_position, filter_valid}
(circuit/src/builder/compiler/optimizer/fuse_mul_add.rs).

filter_valid iterates hash containers and passes closures to `filter_map` / `retain`. R14 lifts each closure (body verbatim) to a
top-level fn, and every iteration over a hash set / map becomes an indexed loop over an ARBITRARY duplicate-free listing of it, so
what is proved holds for every iteration order the runtime may choose:
  * C02 side: every kept candidate's addend is available before its mul, measured against the table of moved outputs OF THE KEPT SET
    (`positions_rel` + `keep`): `apply` can place the fused MulAdd at the mul's position;
  * C18 side: the kept set is a FUNCTION of (analysis tables, op list, candidate map): it is the first fixpoint of `fv_step` from the
    full candidate set (`fv_iter`), whatever the hash order."""
import re

from vf.extract import match_brace, ExtractError
from vf.unit import Unit, closure_at, lift_closure, unoption_pred, drop_capacity_hints
from units.fuse import PRELUDE, types_from_repo, CAND_OK, IDC_REQ, IDC_ENS

SPEC = r'''
verus! {
pub type Cands<F> = Map<usize, (usize, Op<F>, WitnessId)>;
/// the (out, mul position) entry that a kept candidate contributes to the table of moved outputs
pub open spec fn pos_entry<F>(c: Cands<F>, ops: Seq<Op<F>>, a: usize) -> Option<(WitnessId, usize)> {
    if c.dom().contains(a) && a < ops.len() && ops[a as int] is Alu { Some((ops[a as int]->Alu_out, c[a].0)) } else { None }
}
/// fp is a table of moved outputs for the kept set v: every entry comes from a kept candidate, every kept candidate has its out in the table
pub open spec fn positions_rel<F>(fp: Map<WitnessId, usize>, v: Set<usize>, c: Cands<F>, ops: Seq<Op<F>>) -> bool {
    (forall|k: WitnessId| #[trigger] fp.dom().contains(k) ==> exists|a: usize| v.contains(a) && #[trigger] pos_entry(c, ops, a) == Some((k, fp[k])))
    && (forall|a: usize| v.contains(a) && (#[trigger] pos_entry(c, ops, a)) is Some ==> fp.dom().contains(pos_entry(c, ops, a).unwrap().0))
}
pub open spec fn eff_pos<F>(d: Map<WitnessId, IndexedDef<F>>, fp: Map<WitnessId, usize>, w: WitnessId) -> Option<usize> {
    if fp.dom().contains(w) { Some(fp[w]) } else if d.dom().contains(w) { Some(d[w].idx) } else { None }
}
/// the addend of candidate a is available before its mul, given the table of moved outputs
pub open spec fn keep<F>(d: Map<WitnessId, IndexedDef<F>>, c: Cands<F>, fp: Map<WitnessId, usize>, a: usize) -> bool {
    c.dom().contains(a) ==> (match eff_pos(d, fp, c[a].2) { None => true, Some(p) => p < c[a].0 })
}
/// no two candidates write the same slot (a candidate add is the last definer of its out)
pub open spec fn outs_unique<F>(c: Cands<F>, ops: Seq<Op<F>>) -> bool {
    forall|a: usize, b: usize| a != b && (#[trigger] pos_entry(c, ops, a)) is Some && (#[trigger] pos_entry(c, ops, b)) is Some ==> pos_entry(c, ops, a).unwrap().0 != pos_entry(c, ops, b).unwrap().0
}
/// THE moved position of slot w under a kept set (a function of the set: independent of any iteration order)
pub open spec fn fp_lookup<F>(v: Set<usize>, c: Cands<F>, ops: Seq<Op<F>>, w: WitnessId) -> Option<usize> {
    if exists|a: usize| v.contains(a) && (#[trigger] pos_entry(c, ops, a)) is Some && pos_entry(c, ops, a).unwrap().0 == w {
        let a = choose|a: usize| v.contains(a) && (#[trigger] pos_entry(c, ops, a)) is Some && pos_entry(c, ops, a).unwrap().0 == w; Some(c[a].0)
    } else { None }
}
pub open spec fn keep_of<F>(d: Map<WitnessId, IndexedDef<F>>, c: Cands<F>, ops: Seq<Op<F>>, v: Set<usize>, a: usize) -> bool {
    c.dom().contains(a) ==> (match (match fp_lookup(v, c, ops, c[a].2) { Some(p) => Some(p), None => if d.dom().contains(c[a].2) { Some(d[c[a].2].idx) } else { None } }) { None => true, Some(p) => p < c[a].0 })
}
/// one round: drop the candidates whose addend is not available given the fusions still kept
pub open spec fn fv_step<F>(d: Map<WitnessId, IndexedDef<F>>, c: Cands<F>, ops: Seq<Op<F>>, v: Set<usize>) -> Set<usize> {
    v.filter(|a: usize| keep_of(d, c, ops, v, a))
}
pub open spec fn fv_iter<F>(d: Map<WitnessId, IndexedDef<F>>, c: Cands<F>, ops: Seq<Op<F>>, n: nat) -> Set<usize> decreases n {
    if n == 0 { c.dom() } else { fv_step(d, c, ops, fv_iter(d, c, ops, (n - 1) as nat)) }
}
pub proof fn lemma_fp_unique<F>(fp: Map<WitnessId, usize>, v: Set<usize>, c: Cands<F>, ops: Seq<Op<F>>, w: WitnessId)
    requires positions_rel(fp, v, c, ops), outs_unique(c, ops)
    ensures fp_lookup(v, c, ops, w) == (if fp.dom().contains(w) { Some(fp[w]) } else { None::<usize> })
{
    if fp.dom().contains(w) {
        let a = choose|a: usize| v.contains(a) && #[trigger] pos_entry(c, ops, a) == Some((w, fp[w]));
        assert(pos_entry(c, ops, a) is Some && pos_entry(c, ops, a).unwrap().0 == w);
        let b = choose|b: usize| v.contains(b) && (#[trigger] pos_entry(c, ops, b)) is Some && pos_entry(c, ops, b).unwrap().0 == w;
        if a != b { assert(false); }
    } else {
        if exists|a: usize| v.contains(a) && (#[trigger] pos_entry(c, ops, a)) is Some && pos_entry(c, ops, a).unwrap().0 == w {
            let a = choose|a: usize| v.contains(a) && (#[trigger] pos_entry(c, ops, a)) is Some && pos_entry(c, ops, a).unwrap().0 == w;
            assert(fp.dom().contains(pos_entry(c, ops, a).unwrap().0));
        }
    }
}
pub proof fn lemma_keep_is_keep_of<F>(d: Map<WitnessId, IndexedDef<F>>, fp: Map<WitnessId, usize>, v: Set<usize>, c: Cands<F>, ops: Seq<Op<F>>, a: usize)
    requires positions_rel(fp, v, c, ops), outs_unique(c, ops)
    ensures keep(d, c, fp, a) == keep_of(d, c, ops, v, a)
{
    if c.dom().contains(a) { lemma_fp_unique(fp, v, c, ops, c[a].2); }
}
/// table built from the first n listed elements
pub open spec fn table_upto<F>(m: Map<WitnessId, usize>, l: Seq<usize>, n: int, c: Cands<F>, ops: Seq<Op<F>>) -> bool {
    (forall|k: WitnessId| #[trigger] m.dom().contains(k) ==> exists|j: int| 0 <= j < n && #[trigger] pos_entry(c, ops, l[j]) == Some((k, m[k])))
    && (forall|j: int| 0 <= j < n && (#[trigger] pos_entry(c, ops, l[j])) is Some ==> m.dom().contains(pos_entry(c, ops, l[j]).unwrap().0))
}
pub proof fn lemma_table_done<F>(m: Map<WitnessId, usize>, l: Seq<usize>, v: Set<usize>, c: Cands<F>, ops: Seq<Op<F>>)
    requires table_upto(m, l, l.len() as int, c, ops), l.to_set() == v
    ensures positions_rel(m, v, c, ops)
{
    assert forall|k: WitnessId| #[trigger] m.dom().contains(k) implies exists|a: usize| v.contains(a) && #[trigger] pos_entry(c, ops, a) == Some((k, m[k])) by {
        let j = choose|j: int| 0 <= j < l.len() && #[trigger] pos_entry(c, ops, l[j]) == Some((k, m[k]));
        assert(l.to_set().contains(l[j]));
    }
    assert forall|a: usize| v.contains(a) && (#[trigger] pos_entry(c, ops, a)) is Some implies m.dom().contains(pos_entry(c, ops, a).unwrap().0) by {
        assert(l.to_set().contains(a)); let j = choose|j: int| 0 <= j < l.len() && l[j] == a; assert(pos_entry(c, ops, l[j]) is Some);
    }
}
// ------------------------------------------------------------------ apply
/// no two kept candidates replace the same mul (a product that is fused is read by exactly one add: `fusable`)
pub open spec fn muls_unique<F>(c: Cands<F>, v: Set<usize>) -> bool {
    forall|a: usize, b: usize| a != b && v.contains(a) && v.contains(b) && c.dom().contains(a) && c.dom().contains(b) ==> (#[trigger] c[a]).0 != (#[trigger] c[b]).0
}
pub open spec fn consumed<F>(c: Cands<F>, v: Set<usize>, i: usize) -> bool { v.contains(i) && c.dom().contains(i) }
pub open spec fn repl_from<F>(c: Cands<F>, v: Set<usize>, i: usize, a: usize) -> bool { consumed(c, v, a) && c[a].0 == i }
/// the fused op that takes the place of op i (a function of the SETS: independent of any iteration order)
pub open spec fn repl_at<F>(c: Cands<F>, v: Set<usize>, i: usize) -> Option<Op<F>> {
    if exists|a: usize| #[trigger] repl_from(c, v, i, a) { let a = choose|a: usize| #[trigger] repl_from(c, v, i, a); Some(c[a].1) } else { None }
}
/// the op list after fusion: consumed adds dropped, a fused mul replaced by its MulAdd, everything else in place and in order
pub open spec fn apply_seq<F>(ops: Seq<Op<F>>, c: Cands<F>, v: Set<usize>, n: int) -> Seq<Op<F>> decreases n {
    if n <= 0 { Seq::empty() } else {
        let p = apply_seq(ops, c, v, n - 1);
        if consumed(c, v, (n - 1) as usize) { p } else { p.push(match repl_at(c, v, (n - 1) as usize) { Some(o) => o, None => ops[n - 1] }) }
    }
}
pub proof fn lemma_repl_unique<F>(c: Cands<F>, v: Set<usize>, i: usize, a: usize)
    requires muls_unique(c, v), repl_from(c, v, i, a)
    ensures repl_at(c, v, i) == Some(c[a].1)
{
    let b = choose|b: usize| #[trigger] repl_from(c, v, i, b);
    if a != b { assert(c[a].0 != c[b].0); }
}
/// `m.keys().copied().collect()` into a hash set
#[verifier::external_body]
pub fn keys_of<V>(c: &HashMap<usize, V>) -> (r: HashSet<usize>) ensures r@ == c@.dom() { unimplemented!() }
/// AN enumeration of a hash set / of the keys of a hash map: duplicate-free, exactly its elements, in an order nothing is known about
pub trait Listing { spec fn elems(&self) -> Set<usize>; fn listing(&self) -> (r: Vec<usize>) ensures r@.no_duplicates(), r@.to_set() == self.elems(); }
impl Listing for HashSet<usize> { open spec fn elems(&self) -> Set<usize> { self@ } #[verifier::external_body] fn listing(&self) -> (r: Vec<usize>) { unimplemented!() } }
impl<V> Listing for HashMap<usize, V> { open spec fn elems(&self) -> Set<usize> { self@.dom() } #[verifier::external_body] fn listing(&self) -> (r: Vec<usize>) { unimplemented!() } }
} // verus!
'''

RN_ENS = '''exists|c: Cands<F>, v: Set<usize>| #![trigger apply_seq(ops@, c, v, ops@.len() as int)]
            (forall|k: usize| #[trigger] c.dom().contains(k) ==> cand_ok(&self, ops@, k, c[k])) && v.subset_of(c.dom())
            && (exists|fp: Map<WitnessId, usize>| #[trigger] positions_rel(fp, v, c, ops@) && forall|a: usize| v.contains(a) ==> keep(self.defs@, c, fp, a))
            && ret@ == apply_seq(ops@, c, v, ops@.len() as int)'''

GEN = '<F: Field>'
CAPS = {
    'self': 'this: &MulAddFusion<F>',
    'candidates': 'candidates: &HashMap<usize, (usize, Op<F>, WitnessId)>',
    'ops': 'ops: &[Op<F>]',
    'fused_positions': 'fused_positions: &HashMap<WitnessId, usize>',
}
KINDS = {'valid': 'set', 'candidates': 'map'}


def hash_iteration_skeletons(f, lifted):
    """R5/R14 on the hash containers named in KINDS:
       (a) `let X: HashMap<K, V> = SRC.iter().filter_map(CLOSURE).collect();`   (b) `SET.retain(CLOSURE);`   (c) `for PAT in [&]SRC {`
    Each becomes an indexed loop over `SRC.listing()`; markers /*@<tag>:..*/ are the places where the unit may put ghost code."""
    n = {'fm': 0, 'rt': 0, 'for': 0}
    while True:
        m = re.search(r'(\w+)\s*\.\s*iter\(\)\s*\.\s*filter_map(\()', f.body)
        if not m or m.group(1) not in KINDS:
            break
        src = m.group(1)
        k = m.end(2)
        while f.body[k].isspace():
            k += 1
        tag = f'fm{n["fm"]}'
        n['fm'] += 1
        g, call, end = lift_closure(f, k, f'filter_valid_{tag}', GEN, 'usize', src, KINDS[src], CAPS, 'Option<(WitnessId, usize)>')
        mc = re.match(r'\s*\)\s*\.\s*collect\(\)', f.body[end:])
        if not mc:
            raise ExtractError(f'{f.qual}: filter_map over `{src}` not followed by collect()')
        skel = (f'{{ let l_{tag}_ = {src}.listing(); let mut m_{tag}_: HashMap<WitnessId, usize> = HashMap::new(); /*@{tag}:listed*/ '
                f'for i_{tag}_ in 0..l_{tag}_.len() {{ let k_ = l_{tag}_[i_{tag}_]; /*@{tag}:body*/ match {call} {{ Some((a_, b_)) => {{ m_{tag}_.insert(a_, b_); }} None => {{}} }} /*@{tag}:body_end*/ }} /*@{tag}:after*/ m_{tag}_ }}')
        f.body = f.body[:m.start()] + skel + f.body[end + mc.end():]
        g.src_, g.tag_ = src, tag
        lifted.append(g)
        f.rewrites.append(('R5', f'`{src}.iter().filter_map(..).collect()` -> indexed loop over `{src}.listing()` (arbitrary order) inserting the entries', ''))
    while True:
        m = re.search(r'(\w+)\s*\.\s*retain(\()', f.body)
        if not m or m.group(1) not in KINDS:
            break
        src = m.group(1)
        k = m.end(2)
        while f.body[k].isspace():
            k += 1
        tag = f'rt{n["rt"]}'
        n['rt'] += 1
        g, call, end = lift_closure(f, k, f'filter_valid_{tag}', GEN, 'usize', src, KINDS[src], CAPS, 'bool')
        mc = re.match(r'\s*\)\s*;', f.body[end:])
        if not mc:
            raise ExtractError(f'{f.qual}: retain on `{src}`: statement end not found')
        skel = (f'/*@{tag}:before*/ {{ let l_{tag}_ = {src}.listing(); /*@{tag}:listed*/ for i_{tag}_ in 0..l_{tag}_.len() {{ let k_ = l_{tag}_[i_{tag}_]; '
                f'if !{call} {{ {src}.remove(&k_); }} }} /*@{tag}:after_loop*/ }} /*@{tag}:after*/')
        f.body = f.body[:m.start()] + skel + f.body[end + mc.end():]
        g.src_, g.tag_ = src, tag
        lifted.append(g)
        f.rewrites.append(('R5', f'`{src}.retain(..)` -> indexed loop over `{src}.listing()` (arbitrary order) removing the rejected elements', ''))
    while True:
        m = re.search(r'for\s+(\([^{]*?\)|&?\w+)\s+in\s+&?(\w+)\s*\{', f.body)
        if not m or m.group(2) not in KINDS:
            break
        pat, src = m.group(1), m.group(2)
        tag = f'for{n["for"]}'
        n['for'] += 1
        lets = []
        if KINDS[src] == 'map':
            from vf.unit import _split_top_commas
            kp, vp = _split_top_commas(pat[1:-1])
            lets.append(f'let {kp[1:]} = l_{tag}_[i_{tag}_];' if kp.startswith('&') else f'let {kp} = &l_{tag}_[i_{tag}_];')
            key = kp[1:] if kp.startswith('&') else '*' + kp
            if vp != '_':
                lets.append(f'let {vp} = {src}.get(&{key}).unwrap();')
        else:
            lets.append(f'let {pat[1:]} = l_{tag}_[i_{tag}_];' if pat.startswith('&') else f'let {pat} = &l_{tag}_[i_{tag}_];')
        f.body = f.body[:m.start()] + f'let l_{tag}_ = {src}.listing(); for i_{tag}_ in 0..l_{tag}_.len() {{ ' + ' '.join(lets) + f.body[m.end():]
        f.rewrites.append(('R5', f'`for {pat} in {src}` -> indexed loop over `{src}.listing()` (arbitrary order)', ''))
    return f


def build():
    u = Unit('fvalid', ['C02', 'C03', 'C18'])
    u.rlimit = 100
    u.assume('hashbrown maps/sets treated as std ones (R7); key model of WitnessId; iteration over a hash container = iteration over an arbitrary duplicate-free listing of it (trait Listing, external_body)')
    u.assume('C18 only: the determinism postcondition of filter_valid is conditional on `outs_unique` (no two candidates write the same slot); in the real pipeline the later of two adds writing one slot is a backwards add, which try_fuse rejects through backwards_computed -- that implication is NOT proved here')
    u.text(PRELUDE.replace('@@TYPES@@', types_from_repo()))
    u.text(open(__file__.replace('fvalid.py', 'fuse_defs.rs')).read())
    u.text(SPEC)
    FM = 'circuit/src/builder/compiler/optimizer/fuse_mul_add.rs'
    IMPL = r'impl<F: Field> MulAddFusion<F>'
    di = u.extract(FM, IMPL, 'def_idx', 'MulAddFusion::def_idx')
    di.rewrite('R6', 'self.defs.get(id).map(|d| d.idx)', '(match self.defs.get(id) { Some(d) => Some(d.idx), None => None })')
    di.ensures('def_idx', 'ret == (if self.defs@.dom().contains(*id) { Some(self.defs@[*id].idx) } else { None })')
    ep = u.extract(FM, IMPL, 'effective_position', 'MulAddFusion::effective_position')
    unoption_pred(ep)
    ep.ensures('moved_position_wins_over_the_defining_position', 'ret == eff_pos(self.defs@, fused_positions@, witness)')

    fv = u.extract(FM, IMPL, 'filter_valid', 'MulAddFusion::filter_valid')
    fv.rewrite_re('R7', r'hashbrown::(HashSet|HashMap)', r'\1', where='sig')
    fv.rewrite_re('R7', r'hashbrown::(HashSet|HashMap)', r'\1')
    drop_capacity_hints(fv, ctors=('HashSet', 'HashMap', 'Vec'))
    fv.rewrite_re('R6', r'(\w+)\.keys\(\)\.copied\(\)\.collect\(\)', r'keys_of(\1)')
    unoption_pred(fv)
    lifted = []
    hash_iteration_skeletons(fv, lifted)
    for g in lifted:
        unoption_pred(g)
        if g.src_ == 'candidates':
            g.requires('listed_key', 'candidates@.dom().contains(k_)')
        if g.tag_.startswith('fm'):
            g.ensures('entry_of_a_kept_candidate_is_its_out_at_its_mul_position', 'ret == pos_entry(candidates@, ops@, k_)')
        else:
            g.ensures('kept_iff_the_addend_is_available_before_the_mul', 'ret == keep(this.defs@, candidates@, fused_positions@, k_)')
    POST = ('exists|fp: Map<WitnessId, usize>| #[trigger] positions_rel(fp, {v}, candidates@, ops@) && forall|a: usize| {v}.contains(a) ==> keep(self.defs@, candidates@, fp, a)')
    DET = 'exists|n: nat| {v} == #[trigger] fv_iter(self.defs@, candidates@, ops@, n) && fv_step(self.defs@, candidates@, ops@, {v}) == {v}'
    fv.ensures('kept_are_candidates', 'ret@.subset_of(candidates@.dom())')
    fv.ensures('every_kept_addend_is_available_before_its_mul_given_the_kept_fusions', POST.format(v='ret@'))
    fv.ensures('kept_set_is_the_first_fixpoint_whatever_the_hash_order', 'outs_unique(candidates@, ops@) ==> (' + DET.format(v='ret@') + ')')

    def mark(tag, text):
        fv.body = fv.body.replace(f'/*@{tag}*/', text)

    # ---- ghost code at the generated markers (only where the construct is there)
    if re.search(r'let mut valid\b[^;]*= keys_of\(candidates\);', fv.body):
        fv.rewrite_re('SPEC', r'(let mut valid\b[^;]*= keys_of\(candidates\);)', r'\1 proof { assert(valid@ == fv_iter(self.defs@, candidates@, ops@, 0)); }')
    in_loop = False
    lm = re.search(r'\bloop\s*\{', fv.body)
    if lm:
        lo = fv.body.index('{', lm.start())
        lc = match_brace(fv.body, lo)
        in_loop = lo < fv.body.find('/*@fm0:listed*/') < lc and lo < fv.body.find('/*@rt0:before*/') < lc
    for g in lifted:
        t, src = g.tag_, g.src_
        SET = f'{src}@' if KINDS[src] == 'set' else f'{src}@.dom()'
        if t.startswith('fm'):
            mark(f'{t}:listed', '')
            mark(f'{t}:body', f'let ghost m0_ = m_{t}_@;')
            mark(f'{t}:body_end', f'''proof {{
                    assert forall|k: WitnessId| #[trigger] m_{t}_@.dom().contains(k) implies exists|j: int| 0 <= j < i_{t}_ + 1 && #[trigger] pos_entry(candidates@, ops@, l_{t}_@[j]) == Some((k, m_{t}_@[k])) by {{
                        if m0_.dom().contains(k) && m_{t}_@[k] == m0_[k] {{
                            let j = choose|j: int| 0 <= j < i_{t}_ && #[trigger] pos_entry(candidates@, ops@, l_{t}_@[j]) == Some((k, m0_[k]));
                            assert(pos_entry(candidates@, ops@, l_{t}_@[j]) == Some((k, m_{t}_@[k])));
                        }} else {{
                            assert(pos_entry(candidates@, ops@, l_{t}_@[i_{t}_ as int]) == Some((k, m_{t}_@[k])));
                        }}
                    }}
                }}''')
            mark(f'{t}:after', f'proof {{ lemma_table_done(m_{t}_@, l_{t}_@, {SET}, candidates@, ops@); }}')
        else:
            mark(f'{t}:before', f'let ghost v0_ = {SET}; let ghost mut ls_: Seq<usize> = Seq::empty();')
            mark(f'{t}:listed', f'proof {{ ls_ = l_{t}_@; }}')
            mark(f'{t}:after_loop', f'''proof {{
                assert forall|j: int| 0 <= j < ls_.len() && !{SET}.contains(#[trigger] ls_[j]) implies !keep(self.defs@, candidates@, fused_positions@, ls_[j]) by {{}}
                assert forall|a: usize| {SET}.contains(a) implies keep(self.defs@, candidates@, fused_positions@, a) by {{
                    assert(ls_.to_set().contains(a)); let j = choose|j: int| 0 <= j < ls_.len() && ls_[j] == a; assert({SET}.contains(ls_[j]));
                }}
            }}''')
            mark(f'{t}:after', f'''proof {{ vstd::set_lib::lemma_len_subset({SET}, v0_);
              if outs_unique(candidates@, ops@) {{
                assert forall|a: usize| keep(self.defs@, candidates@, fused_positions@, a) == keep_of(self.defs@, candidates@, ops@, v0_, a) by {{ lemma_keep_is_keep_of(self.defs@, fused_positions@, v0_, candidates@, ops@, a); }}
                assert({SET} =~= fv_step(self.defs@, candidates@, ops@, v0_)) by {{
                    assert forall|a: usize| v0_.contains(a) && keep(self.defs@, candidates@, fused_positions@, a) implies {SET}.contains(a) by {{
                        assert(ls_.to_set().contains(a)); let j = choose|j: int| 0 <= j < ls_.len() && ls_[j] == a; assert(ls_[j] == a);
                    }}
                }}
                let n0 = choose|n: nat| v0_ == #[trigger] fv_iter(self.defs@, candidates@, ops@, n);
                assert({SET} == fv_iter(self.defs@, candidates@, ops@, n0 + 1));
              }}
            }}''')
    fv.body = re.sub(r'/\*@\w+:\w+\*/', '', fv.body)
    # the round's exit: same size after a round that only removes = nothing was removed
    if lm and re.search(r'if valid\.len\(\) == before \{\s*break;', fv.body) and 'v0_' in fv.body:
        fv.rewrite_re('SPEC', r'(if valid\.len\(\) == before \{)(\s*break;)',
                      r'\1 proof { vstd::set_lib::lemma_subset_equality(valid@, v0_); assert(positions_rel(fused_positions@, valid@, candidates@, ops@)); }\2')
    # ---- loop contracts (attached by the generated heads, whatever surrounds them)
    for g in lifted:
        t, src = g.tag_, g.src_
        SET = f'{src}@' if KINDS[src] == 'set' else f'{src}@.dom()'
        if t.startswith('fm'):
            fv.loop(f'for i_{t}_ in 0..l_{t}_.len()', invariants=[
                ('entries_of_the_elements_listed_so_far', f'table_upto(m_{t}_@, l_{t}_@, i_{t}_ as int, candidates@, ops@) && l_{t}_@.to_set() == {SET}'),
            ])
        else:
            fv.loop(f'for i_{t}_ in 0..l_{t}_.len()', invariants=[
                ('only_rejected_elements_were_removed', f'''{SET}.subset_of(v0_) && l_{t}_@.to_set() == v0_ && l_{t}_@.no_duplicates() && ls_ == l_{t}_@
                    && (forall|j: int| 0 <= j < i_{t}_ && {SET}.contains(#[trigger] l_{t}_@[j]) ==> keep(self.defs@, candidates@, fused_positions@, l_{t}_@[j]))
                    && (forall|j: int| i_{t}_ <= j < l_{t}_@.len() ==> {SET}.contains(#[trigger] l_{t}_@[j]))
                    && (forall|j: int| 0 <= j < i_{t}_ && !{SET}.contains(#[trigger] l_{t}_@[j]) ==> !keep(self.defs@, candidates@, fused_positions@, l_{t}_@[j]))'''),
            ])
    for k in range(4):
        if f'for i_for{k}_ in 0..l_for{k}_.len()' in fv.body:
            src = re.search(rf'let l_for{k}_ = (\w+)\.listing\(\);', fv.body).group(1)
            SET = f'{src}@' if KINDS[src] == 'set' else f'{src}@.dom()'
            fv.loop(f'for i_for{k}_ in 0..l_for{k}_.len()', invariants=[('listing', f'l_for{k}_@.to_set() == {SET}')])
    if lm:
        fv.rewrite_re('SPEC', r'\bloop\s*\{', 'loop /*@main*/ {')
        fv.loop('loop /*@main*/', invariants=[
            ('kept_so_far_is_a_round_of_the_iteration', 'valid@.subset_of(candidates@.dom()) && valid@.finite() && (outs_unique(candidates@, ops@) ==> (exists|n: nat| valid@ == #[trigger] fv_iter(self.defs@, candidates@, ops@, n)))'),
        ], ensures=[
            ('exit_is_a_fixpoint', 'valid@.subset_of(candidates@.dom()) && (outs_unique(candidates@, ops@) ==> (' + DET.format(v='valid@') + ')) && (' + POST.format(v='valid@') + ')'),
        ], decreases='valid@.len()')
    # ---------------------------------------------------------------- apply
    from vf.unit import normalize_let_chains, uniter_collect
    ap = u.extract(FM, IMPL, 'apply', 'MulAddFusion::apply')
    ap.rewrite_re('R7', r'hashbrown::(HashSet|HashMap)', r'\1', where='sig')
    ap.rewrite_re('R7', r'hashbrown::(HashSet|HashMap)', r'\1')
    ap.rewrite_re('R7', r'let mut consumed_adds = HashSet::new\(\);', 'let mut consumed_adds: HashSet<usize> = HashSet::new();', min_count=0)
    drop_capacity_hints(ap, ctors=('HashSet', 'HashMap', 'Vec'))
    normalize_let_chains(ap)
    # the tail pipeline gets a name so that the pipeline compiler (R6) can turn it into a loop
    ap.body = re.sub(r'(\bops\s*\.\s*into_iter\(\).*?\.collect\(\))\s*\}\s*$', r'let out_: Vec<Op<F>> = \1;\nout_\n}', ap.body, flags=re.S)
    uniter_collect(ap)
    hash_iteration_skeletons(ap, [])
    ap.requires('no_two_kept_candidates_replace_the_same_mul', 'muls_unique(candidates@, valid@)')
    ap.requires('op_count_fits', 'ops@.len() < usize::MAX')
    ap.ensures('consumed_adds_dropped_fused_muls_replaced_rest_in_place_whatever_the_hash_order', 'ret@ == apply_seq(ops@, candidates@, valid@, ops@.len() as int)')
    ap.at_start('let ghost c0 = candidates@; let ghost o0 = ops@; let ghost vs = valid@;')
    L1 = 'for i_for0_ in 0..l_for0_.len()'
    if L1 in ap.body and re.search(r'let l_for0_ = valid\.listing\(\);', ap.body):
        lo = ap._loop_open(L1)
        ap.body = ap.body[:lo + 1] + ' let ghost mr0_ = mul_replacements@; let ghost ca0_ = consumed_adds@; let ghost cd0_ = candidates@;' + ap.body[lo + 1:]
        ap.at_loop_end(L1, '''proof {
                let a = l_for0_@[i_for0_ as int];
                if c0.dom().contains(a) {
                    assert(cd0_.dom().contains(a) && cd0_[a] == c0[a]);
                    if mr0_.dom().contains(c0[a].0) {
                        let j = choose|j: int| 0 <= j < i_for0_ && c0.dom().contains(l_for0_@[j]) && (#[trigger] c0[l_for0_@[j]]).0 == c0[a].0;
                        assert(vs.contains(l_for0_@[j]) && vs.contains(a)) by { assert(l_for0_@.to_set().contains(l_for0_@[j])); assert(l_for0_@.to_set().contains(a)); }
                        assert(false);
                    }
                    assert forall|m: usize| #[trigger] mul_replacements@.dom().contains(m) implies exists|j: int| 0 <= j < i_for0_ + 1 && c0.dom().contains(l_for0_@[j]) && (#[trigger] c0[l_for0_@[j]]).0 == m by {
                        if mr0_.dom().contains(m) { let j = choose|j: int| 0 <= j < i_for0_ && c0.dom().contains(l_for0_@[j]) && (#[trigger] c0[l_for0_@[j]]).0 == m; assert(c0[l_for0_@[j]].0 == m); } else { assert(c0[l_for0_@[i_for0_ as int]].0 == m); }
                    }
                } else {
                    assert(!cd0_.dom().contains(a));
                }
            }''')
        ap.loop(L1, invariants=[
            ('listing', 'l_for0_@.to_set() == vs && l_for0_@.no_duplicates() && vs == valid@ && muls_unique(c0, vs)'),
            ('candidates_not_yet_taken', 'forall|k: usize| (#[trigger] candidates@.dom().contains(k) <==> c0.dom().contains(k) && !(exists|j: int| 0 <= j < i_for0_ && l_for0_@[j] == k)) && (candidates@.dom().contains(k) ==> candidates@[k] == c0[k])'),
            ('consumed_adds_are_the_listed_candidates', 'forall|x: usize| #[trigger] consumed_adds@.contains(x) <==> c0.dom().contains(x) && (exists|j: int| 0 <= j < i_for0_ && l_for0_@[j] == x)'),
            ('replacements_are_the_fused_ops_of_the_listed_candidates', '''(forall|m: usize| #[trigger] mul_replacements@.dom().contains(m) ==> exists|j: int| 0 <= j < i_for0_ && c0.dom().contains(l_for0_@[j]) && (#[trigger] c0[l_for0_@[j]]).0 == m)
                && (forall|j: int| 0 <= j < i_for0_ && c0.dom().contains(#[trigger] l_for0_@[j]) ==> mul_replacements@.dom().contains(c0[l_for0_@[j]].0) && mul_replacements@[c0[l_for0_@[j]].0] == c0[l_for0_@[j]].1)'''),
        ])
    L2 = 'for e_i_ops in it_i_ops: ops'
    if L2 in ap.body:
        ap.before('let out_: Vec<Op<F>> =', '''let ghost mrf = mul_replacements@;
        proof {
            assert forall|x: usize| consumed_adds@.contains(x) == consumed(c0, vs, x) by {
                if consumed(c0, vs, x) { assert(l_for0_@.to_set().contains(x)); let j = choose|j: int| 0 <= j < l_for0_@.len() && l_for0_@[j] == x; assert(l_for0_@[j] == x); }
                if consumed_adds@.contains(x) { let j = choose|j: int| 0 <= j < l_for0_@.len() && l_for0_@[j] == x; assert(l_for0_@.to_set().contains(l_for0_@[j])); }
            }
            assert forall|i: usize| (#[trigger] mrf.dom().contains(i) ==> repl_at(c0, vs, i) == Some(mrf[i])) && (!mrf.dom().contains(i) ==> repl_at(c0, vs, i) is None) by {
                if mrf.dom().contains(i) {
                    let j = choose|j: int| 0 <= j < l_for0_@.len() && c0.dom().contains(l_for0_@[j]) && (#[trigger] c0[l_for0_@[j]]).0 == i;
                    assert(l_for0_@.to_set().contains(l_for0_@[j])); assert(repl_from(c0, vs, i, l_for0_@[j])); lemma_repl_unique(c0, vs, i, l_for0_@[j]);
                } else if exists|a: usize| #[trigger] repl_from(c0, vs, i, a) {
                    let a = choose|a: usize| #[trigger] repl_from(c0, vs, i, a);
                    assert(l_for0_@.to_set().contains(a)); let j = choose|j: int| 0 <= j < l_for0_@.len() && l_for0_@[j] == a; assert(c0.dom().contains(l_for0_@[j]));
                }
            }
        }''')
        lo = ap._loop_open(L2)
        ap.body = ap.body[:lo + 1] + ' let ghost v_b_ = v0_@; let ghost mr_b_ = mul_replacements@;' + ap.body[lo + 1:]
        ap.at_loop_end(L2, '''proof {
                let i = (c_i_ops - 1) as usize;
                assert(apply_seq(o0, c0, vs, c_i_ops as int) == (if consumed(c0, vs, i) { apply_seq(o0, c0, vs, i as int) } else { apply_seq(o0, c0, vs, i as int).push(match repl_at(c0, vs, i) { Some(o) => o, None => o0[i as int] }) }));
            }''')
        ap.loop(L2, invariants=[
            ('frame', 'c_i_ops == it_i_ops.index@ && it_i_ops.seq() == o0 && o0.len() < usize::MAX && (forall|x: usize| consumed_adds@.contains(x) == consumed(c0, vs, x))'),
            ('replacements_of_later_positions_untouched', '''(forall|i: usize| (#[trigger] mrf.dom().contains(i) ==> repl_at(c0, vs, i) == Some(mrf[i])) && (!mrf.dom().contains(i) ==> repl_at(c0, vs, i) is None))
                && (forall|i: usize| i >= c_i_ops ==> (#[trigger] mul_replacements@.dom().contains(i) <==> mrf.dom().contains(i)) && (mrf.dom().contains(i) ==> mul_replacements@[i] == mrf[i]))'''),
            ('output_so_far', 'v0_@ == apply_seq(o0, c0, vs, c_i_ops as int)'),
        ])
    # ---------------------------------------------------------------- run: the three phases composed (callee contracts only)
    rn = u.extract(FM, IMPL, 'run', 'MulAddFusion::run')
    rn.rewrite_re('R12', r'\bSelf::', 'MulAddFusion::')
    rn.requires(*IDC_REQ)
    rn.requires('op_count_fits', 'ops@.len() < usize::MAX')
    rn.ensures('result_is_the_op_list_with_a_sound_set_of_fusions_applied', RN_ENS)
    if re.search(r'let valid = self\.filter_valid\(&ops, &candidates\);', rn.body):
        rn.rewrite_re('SPEC', r'(let valid = self\.filter_valid\(&ops, &candidates\);)', r'\1 let ghost c_ = candidates@; let ghost v_ = valid@; let ghost o_ = ops@; proof { lemma_muls_unique(&self, o_, c_, v_); }')
        rn.bind_tail('res_', 'proof { assert(res_@ == apply_seq(o_, c_, v_, o_.len() as int)); }')
    u.text(CAND_OK)
    u.text('''verus! {
/// a product fused into one add is read by no other op (`fusable`), so no two candidates replace the same mul
pub proof fn lemma_muls_unique<F: Field>(s: &MulAddFusion<F>, ops: Seq<Op<F>>, c: Cands<F>, v: Set<usize>)
    requires forall|k: usize| #[trigger] c.dom().contains(k) ==> cand_ok(s, ops, k, c[k])
    ensures muls_unique(c, v)
{
    assert forall|a: usize, b: usize| a != b && v.contains(a) && v.contains(b) && c.dom().contains(a) && c.dom().contains(b) implies (#[trigger] c[a]).0 != (#[trigger] c[b]).0 by {
        if c[a].0 == c[b].0 {
            assert(cand_ok(s, ops, a, c[a]) && cand_ok(s, ops, b, c[b]));
            let i = c[a].0 as int; let m = addmul_parts(ops[i]).unwrap().3;
            assert(fusable(ops, a as int, i, c[a].1) && fusable(ops, b as int, i, c[b].1));
            assert(!rel_mentions(ops[b as int], m));
            assert(false);
        }
    }
}
impl<F: Field> MulAddFusion<F> {
    /// contract PROVED in unit `fuse` (same text); assumed here
    #[verifier::external_body]
    pub fn identify_candidates(&self, ops: &[Op<F>]) -> (ret: HashMap<usize, (usize, Op<F>, WitnessId)>)
        requires ''' + IDC_REQ[1] + '''
        ensures ''' + IDC_ENS[1] + '''
    { unimplemented!() }
}
}''')
    u.text('verus! {\nimpl<F: Field> MulAddFusion<F> {')
    u.emit(di)
    u.emit(ep)
    u.text('}')
    for g in lifted:
        u.emit(g)
    u.text('impl<F: Field> MulAddFusion<F> {')
    u.emit(fv)
    u.emit(ap)
    u.emit(rn)
    u.text('}\n}')
    return u
