"""Unit `gad` (C20): verifier arithmetic gadgets against their native formulas.
Real text: CircuitBuilder::{exp_power_of_2, mul_many, inner_product, select} (circuit_builder.rs),
vanishing_poly_at_point_{circuit,native} (verifier/quotient.rs), selectors_at_point_circuit x2 (pcs/fri/targets.rs)."""
import os
import re

from vf.unit import Unit

HERE = os.path.dirname(os.path.abspath(__file__))

SPEC = r'''
verus! {
/// left-fold product / dot product: the native `iter().product()` and `sum of a_i*b_i`
pub open spec fn fprod<F: Field>(s: Seq<F>) -> F decreases s.len() {
    if s.len() == 0 { F::fone() } else { fprod(s.drop_last()).fmul(s.last()) }
}
pub open spec fn fdot<F: Field>(a: Seq<F>, b: Seq<F>) -> F decreases a.len() {
    if a.len() == 0 || b.len() == 0 { F::fzero() } else { a.last().fmul(b.last()).fadd(fdot(a.drop_last(), b.drop_last())) }
}

/// what the gadgets need from the PCS / domain: a first point (coset shift) and a log-size
pub trait PcsStub<F: Field, Domain> {
    spec fn sp_first_point(&self, d: &Domain) -> F;
    spec fn sp_log_size(&self, d: &Domain) -> nat;
    fn first_point(&self, d: &Domain) -> (r: F) ensures r == self.sp_first_point(d);
    fn log_size(&self, d: &Domain) -> (r: usize) ensures r == self.sp_log_size(d);
}

/// native Z_H(point) = (point / g)^{2^k} - 1   (p3-commit TwoAdicMultiplicativeCoset / quotient.rs native helper)
pub open spec fn sp_vanishing<F: Field>(point: F, first_point: F, log_size: nat) -> F {
    fpow(point.fmul(first_point.finv()), pow2(log_size)).fsub(F::fone())
}

/// a native base-field value (Val<SC>): opaque, with the operations the gadgets apply to it as uninterpreted functions
#[derive(Clone, Copy)]
pub struct NV { pub id: Ghost<int> }
pub uninterp spec fn nv_mul(a: NV, b: NV) -> NV;
pub uninterp spec fn nv_inv(a: NV) -> NV;
pub uninterp spec fn nv_one() -> NV;
pub uninterp spec fn nv_lift<F: Field>(a: NV) -> F;           // SC::Challenge::from(base value)
impl vstd::std_specs::ops::MulSpecImpl<NV> for NV {
    open spec fn obeys_mul_spec() -> bool { true }
    open spec fn mul_req(self, rhs: NV) -> bool { true }
    open spec fn mul_spec(self, rhs: NV) -> NV { nv_mul(self, rhs) }
}
impl core::ops::Mul for NV { type Output = NV; #[verifier::external_body] fn mul(self, o: NV) -> (r: NV) { unimplemented!() } }
impl NV {
    #[verifier::external_body] pub fn inverse(&self) -> (r: NV) ensures r == nv_inv(*self) { unimplemented!() }
    #[verifier::external_body] pub fn one() -> (r: NV) ensures r == nv_one() { unimplemented!() }
}
pub trait NvLift: FieldX {
    fn from_nv(x: NV) -> (r: Self) ensures r == nv_lift::<Self>(x);
    /// the embedding of the base field maps 1 to 1
    proof fn lift_one() ensures nv_lift::<Self>(nv_one()) == Self::fone();
}
/// TwoAdicMultiplicativeCoset as the gadgets see it
pub trait CosetStub {
    spec fn sp_nshift(&self) -> NV;
    spec fn sp_nshift_inv(&self) -> NV;
    spec fn sp_ngen(&self) -> NV;
    spec fn sp_log_size(&self) -> nat;
    fn shift(&self) -> (r: NV) ensures r == self.sp_nshift();
    fn shift_inverse(&self) -> (r: NV) ensures r == self.sp_nshift_inv();
    fn subgroup_generator(&self) -> (r: NV) ensures r == self.sp_ngen();
    fn log_size(&self) -> (r: usize) ensures r == self.sp_log_size();
}
/// shift^{-1} and g^{-1} lifted to the challenge field, exactly as native selectors_at_point uses them
pub open spec fn sp_shift_inverse<F: Field, C: CosetStub>(d: &C) -> F { nv_lift::<F>(d.sp_nshift_inv()) }
pub open spec fn sp_gen_inverse<F: Field, C: CosetStub>(d: &C) -> F { nv_lift::<F>(nv_inv(d.sp_ngen())) }

pub struct RowSelectorsTargets { pub is_first_row: Target, pub is_last_row: Target, pub is_transition: Target }
pub struct RecursiveLagrangeSelectors { pub row_selectors: RowSelectorsTargets, pub inv_vanishing: Target }

/// native LagrangeSelectors (p3-commit 0.6.3 domain.rs:262-271), transcribed
pub open spec fn sp_unshifted<F: Field>(point: F, shift_inv: F) -> F { point.fmul(shift_inv) }
pub open spec fn sp_zh<F: Field>(us: F, log_size: nat) -> F { fpow(us, pow2(log_size)).fsub(F::fone()) }

proof fn lemma_fprod_push<F: Field>(s: Seq<F>, x: F)
    ensures fprod(s.push(x)) == fprod(s).fmul(x)
{
    assert(s.push(x).drop_last() =~= s);
}
proof fn lemma_fdot_push<F: Field>(a: Seq<F>, b: Seq<F>, x: F, y: F)
    requires a.len() == b.len()
    ensures fdot(a.push(x), b.push(y)) == x.fmul(y).fadd(fdot(a, b))
{
    assert(a.push(x).drop_last() =~= a);
    assert(b.push(y).drop_last() =~= b);
}
} // verus!
'''


def build():
    u = Unit('gad', ['C20'])
    u.rlimit = 60
    u.assume('builder arithmetic contracts (add/sub/mul/div/mul_add/define_const: value of the returned id under one fixed input assignment) are ASSUMED here; they are the postconditions proved for ExpressionBuilder in unit `expr`')
    u.assume('native formulas transcribed from p3-commit 0.6.3 (TwoAdicMultiplicativeCoset::selectors_at_point) and from quotient.rs vanishing_poly_at_point_native (which is itself under contract here)')
    u.assume('field laws: commutative ring with inverses (trait Field proof obligations)')
    u.text(open(os.path.join(HERE, 'gadget_prelude.rs')).read())
    u.text(SPEC)

    CB = 'circuit/src/builder/circuit_builder.rs'
    IMPL = r'impl<F> CircuitBuilder<F>'

    # ------------------------------------------------------------------ exp_power_of_2
    e = u.extract(CB, IMPL, 'exp_power_of_2', 'CircuitBuilder::exp_power_of_2')
    e.rewrite('R5', 'for _ in 0..power_log {', 'for i_ in 0..power_log {')
    e.requires('base_allocated', 'old(self).has(base)')
    e.ensures('frame', 'final(self).extends_pure(old(self))')
    e.ensures('allocated', 'final(self).has(ret)')
    e.ensures('value', 'final(self).val(ret) == fpow(old(self).val(base), pow2(power_log as nat))')
    e.at_start('let ghost b0 = self.val(base); proof { lemma_fpow_one(b0); }')
    e.loop('for i_ in 0..power_log', invariants=[
        ('frame', 'self.extends_pure(old(self))'), ('alloc', 'self.has(res)'),
        ('value', 'self.val(res) == fpow(b0, pow2(i_ as nat))'),
    ])
    e.after('let square = self.mul(res, res);', 'proof { lemma_fpow_square(b0, i_ as nat); }')

    # ------------------------------------------------------------------ mul_many
    m = u.extract(CB, IMPL, 'mul_many', 'CircuitBuilder::mul_many')
    m.rewrite_re('R11', r'\bF::ONE\b', 'F::one()', min_count=1)
    m.rewrite('R6', 'inputs .iter() .skip(1) .fold(inputs[0], |acc, &x| self.mul(acc, x))',
              '{ let mut acc = inputs[0]; for k_ in 1..inputs.len() { let x = inputs[k_]; acc = self.mul(acc, x); } acc }')
    m.requires('inputs_allocated', 'old(self).has_all(inputs@)')
    m.ensures('frame', 'final(self).extends_pure(old(self))')
    m.ensures('allocated', 'final(self).has(ret)')
    m.ensures('value', 'final(self).val(ret) == fprod(old(self).vals_of(inputs@))')
    m.at_start('let ghost vs = self.vals_of(inputs@);')
    m.before('return inputs[0];', '''proof {
            assert(vs.drop_last() =~= Seq::<F>::empty());
            reveal_with_fuel(fprod, 2);
            lemma_one_mul(vs[0]);
        }''')
    m.before('let mut acc = inputs[0];', '''proof {
            assert(vs.take(1).drop_last() =~= Seq::<F>::empty());
            reveal_with_fuel(fprod, 2);
            lemma_one_mul(vs[0]);
            assert(vs.take(1).last() == vs[0]);
        }''')
    m.loop('for k_ in 1..inputs.len()', invariants=[
        ('frame', 'self.extends_pure(old(self))'), ('alloc', 'self.has(acc)'), ('vs', 'vs == old(self).vals_of(inputs@)'), ('pre', 'old(self).has_all(inputs@)'),
        ('value', 'self.val(acc) == fprod(vs.take(k_ as int))'),
    ])
    m.after('acc = self.mul(acc, x);', '''proof {
            assert(old(self).has(inputs@[k_ as int]));
            assert(vs.take(k_ as int + 1) =~= vs.take(k_ as int).push(vs[k_ as int]));
            lemma_fprod_push(vs.take(k_ as int), vs[k_ as int]);
        }''')
    m.rewrite('SPEC', 'acc }', 'proof { assert(vs.take(inputs.len() as int) =~= vs); } acc }')

    # ------------------------------------------------------------------ inner_product
    ip = u.extract(CB, IMPL, 'inner_product', 'CircuitBuilder::inner_product')
    ip.rewrite_re('R11', r'\bF::ZERO\b', 'F::zero()', min_count=1)
    ip.rewrite('R6', 'zip_eq(a, b).fold(zero, |acc, (&x, &y)| self.mul_add(x, y, acc))',
               '{ assert(a.len() == b.len()); /* zip_eq panics on unequal lengths */ let mut acc = zero; for k_ in 0..a.len() { let x = a[k_]; let y = b[k_]; acc = self.mul_add(x, y, acc); } acc }')
    ip.requires('allocated', 'old(self).has_all(a@) && old(self).has_all(b@)')
    ip.requires('same_length', 'a@.len() == b@.len()')
    ip.ensures('frame', 'final(self).extends_pure(old(self))')
    ip.ensures('allocated', 'final(self).has(ret)')
    ip.ensures('value', 'final(self).val(ret) == fdot(old(self).vals_of(a@), old(self).vals_of(b@))')
    ip.at_start('let ghost va = self.vals_of(a@); let ghost vb = self.vals_of(b@);')
    ip.loop('for k_ in 0..a.len()', invariants=[
        ('frame', 'self.extends_pure(old(self))'), ('alloc', 'self.has(acc)'),
        ('snap', 'va == old(self).vals_of(a@) && vb == old(self).vals_of(b@) && a@.len() == b@.len()'), ('pre', 'old(self).has_all(a@) && old(self).has_all(b@)'),
        ('value', 'self.val(acc) == fdot(va.take(k_ as int), vb.take(k_ as int))'),
    ])
    ip.after('acc = self.mul_add(x, y, acc);', '''proof {
            assert(old(self).has(a@[k_ as int]) && old(self).has(b@[k_ as int]));
            assert(va.take(k_ as int + 1) =~= va.take(k_ as int).push(va[k_ as int]));
            assert(vb.take(k_ as int + 1) =~= vb.take(k_ as int).push(vb[k_ as int]));
            lemma_fdot_push(va.take(k_ as int), vb.take(k_ as int), va[k_ as int], vb[k_ as int]);
        }''')
    ip.rewrite('SPEC', 'acc }', 'proof { assert(va.take(a.len() as int) =~= va); assert(vb.take(a.len() as int) =~= vb); } acc }')

    u.text('''verus! {
/// `self.expr_builder.get_const_value(b)`: Some(v) only for a constant node, whose value is v (proved for the real ExpressionBuilder in unit expr)
#[verifier::external_body] pub fn get_const_value_<F: Field>(cb: &CircuitBuilder<F>, b: ExprId) -> (r: Option<F>) ensures r matches Some(v) ==> cb.val(b) == v { unimplemented!() }
/// `==` of two field elements
#[verifier::external_body] pub fn feq_<F: Field>(a: &F, b: &F) -> (r: bool) ensures r == (*a == *b) { unimplemented!() }
}''')
    # ------------------------------------------------------------------ select
    s = u.extract(CB, IMPL, 'select', 'CircuitBuilder::select')
    s.rewrite_re('R11', r'self\.expr_builder\.is_const_zero\(b\)', 'is_const_zero(self, b)', min_count=0)
    s.rewrite_re('R11', r'self\.expr_builder\.is_const_one\(b\)', 'is_const_one(self, b)', min_count=0)
    s.rewrite_re('R11', r'self\.expr_builder\.get_const_value\(b\)', 'get_const_value_(self, b)', min_count=0)
    s.rewrite_re('R11', r'(\w+) == F::ZERO\b', r'feq_(&\1, &F::zero())', min_count=0)
    s.rewrite_re('R11', r'(\w+) == F::ONE\b', r'feq_(&\1, &F::one())', min_count=0)
    s.requires('allocated', 'old(self).has(b) && old(self).has(t) && old(self).has(s)')
    s.ensures('frame', 'final(self).extends_pure(old(self))')
    s.ensures('allocated', 'final(self).has(ret)')
    s.ensures('one_selects_t', 'old(self).val(b) == F::fone() ==> final(self).val(ret) == old(self).val(t)')
    # C02: select is an ARITHMETIC expression, s + b * (t - s), for every selector value -- a constant selector other than 0 / 1 included (the two boolean cases are its corollaries)
    s.ensures('denotes_s_plus_b_times_t_minus_s_for_every_selector', 'final(self).val(ret) == old(self).val(b).fmul(old(self).val(t).fsub(old(self).val(s))).fadd(old(self).val(s))')
    s.ensures('zero_selects_s', 'old(self).val(b) == F::fzero() ==> final(self).val(ret) == old(self).val(s)')
    s.at_start('''proof {
            F::zero_ne_one();
            let (vt, vs) = (self.val(t), self.val(s));
            // 1*(t-s)+s == t ; 0*(t-s)+s == s
            lemma_one_mul(vt.fsub(vs)); F::sub_def(vt, vs);
            F::add_assoc(vt, vs.fneg(), vs); F::add_comm(vs.fneg(), vs); F::add_neg(vs); F::add_zero(vt);
            lemma_mul_zero_left(vt.fsub(vs)); lemma_zero_add(vs);
            // t == s: b*(s-s)+s == s
            if t == s { let vb = self.val(b); F::sub_def(vs, vs); F::add_neg(vs); F::mul_comm(vb, F::fzero()); lemma_mul_zero_left(vb); lemma_zero_add(vs); }
        }''')

    u.text('verus! {\nproof fn lemma_mul_zero_left<F: Field>(a: F) ensures F::fzero().fmul(a) == F::fzero() {\n'
           '    // 0*a = (0+0)*a = 0*a + 0*a  =>  0*a = 0\n'
           '    let z = F::fzero(); let za = z.fmul(a);\n'
           '    F::add_zero(z); F::mul_comm(z, a); F::distrib(a, z, z); F::mul_comm(a, z);\n'
           '    assert(za == za.fadd(za));\n'
           '    F::add_neg(za); F::add_assoc(za, za, za.fneg()); F::add_zero(za);\n'
           '}\n'
           'impl<F: FieldX> CircuitBuilder<F> {')
    for f in (e, m, ip, s):
        u.emit(f)
    u.text('}\n}')

    # ------------------------------------------------------------------ vanishing polynomial: native and in-circuit
    Q = 'recursion/src/verifier/quotient.rs'
    GSIG = '<F: FieldX, Domain, P: PcsStub<F, Domain>>'
    vn = u.extract(Q, '', 'vanishing_poly_at_point_native', 'vanishing_poly_at_point_native')
    vn.set_sig('R11', f'fn vanishing_poly_at_point_native{GSIG}(pcs: &P, domain: &Domain, point: F) -> F')
    vn.rewrite('R11', 'point * pcs.first_point(domain).inverse()', 'point.mul(pcs.first_point(domain).inverse())')
    vn.rewrite('R11', 'power - SC::Challenge::ONE', 'power.sub(F::one())')
    vn.ensures('native_formula', 'ret == sp_vanishing(point, pcs.sp_first_point(domain), pcs.sp_log_size(domain))')

    vc = u.extract(Q, '', 'vanishing_poly_at_point_circuit', 'vanishing_poly_at_point_circuit')
    vc.set_sig('R11', f'fn vanishing_poly_at_point_circuit{GSIG}(pcs: &P, domain: &Domain, point: Target, circuit: &mut CircuitBuilder<F>) -> Target')
    vc.rewrite('R11', 'SC::Challenge::ONE', 'F::one()')
    vc.requires('allocated', 'old(circuit).has(point)')
    vc.ensures('frame', 'final(circuit).extends_pure(old(circuit))')
    vc.ensures('allocated', 'final(circuit).has(ret)')
    vc.ensures('equals_native', 'final(circuit).val(ret) == sp_vanishing(old(circuit).val(point), pcs.sp_first_point(domain), pcs.sp_log_size(domain))')
    u.text('verus! {')
    u.emit(vn)
    u.emit(vc)
    u.text('}')

    # ------------------------------------------------------------------ Lagrange selectors (both PCS impls share one body)
    T = 'recursion/src/pcs/fri/targets.rs'
    for tag, cont in (('fri', r'for TwoAdicFriPcs<'), ('hiding', r'for HidingFriPcs<')):
        sel = u.extract(T, cont, 'selectors_at_point_circuit', f'selectors_at_point_circuit[{tag}]')
        sel.set_sig('R11', f'fn selectors_at_point_circuit_{tag}<F: NvLift, C: CosetStub>(circuit: &mut CircuitBuilder<F>, domain: &C, point: &Target) -> RecursiveLagrangeSelectors', drop_self=True)
        sel.rewrite_re('R11', r'SC::Challenge::from\(', 'F::from_nv(', min_count=1)
        sel.rewrite_re('R11', r'Val::<SC>::ONE', 'NV::one()', min_count=0)
        sel.requires('allocated', 'old(circuit).has(*point)')
        sel.ensures('frame', 'final(circuit).extends_pure(old(circuit))')
        pre = 'let c = *final(circuit); let us = sp_unshifted(old(circuit).val(*point), sp_shift_inverse::<F, C>(domain)); let zh = sp_zh(us, domain.sp_log_size()); let d1 = us.fsub(F::fone()); let dg = us.fsub(sp_gen_inverse::<F, C>(domain));'
        sel.ensures('is_transition', '({ %s c.val(ret.row_selectors.is_transition) == dg })' % pre)
        sel.ensures('is_first_row', '({ %s d1 != F::fzero() ==> c.val(ret.row_selectors.is_first_row) == zh.fdiv(d1) })' % pre)
        sel.ensures('is_last_row', '({ %s dg != F::fzero() ==> c.val(ret.row_selectors.is_last_row) == zh.fdiv(dg) })' % pre)
        sel.ensures('inv_vanishing', '({ %s zh != F::fzero() ==> c.val(ret.inv_vanishing) == zh.finv() })' % pre)
        sel.at_start('let ghost p0 = circuit.val(*point);')
        sel.before('RecursiveLagrangeSelectors {', '''proof {
            F::lift_one();
            F::mul_comm(sp_shift_inverse::<F, C>(domain), p0);
            let zh = sp_zh(sp_unshifted(p0, sp_shift_inverse::<F, C>(domain)), domain.sp_log_size());
            assert(circuit.val(z_h) == zh);
            assert(circuit.val(one) == F::fone());
            lemma_one_mul(zh.finv()); F::div_def(F::fone(), zh);
            assert(zh != F::fzero() ==> circuit.val(inv_vanishing) == F::fone().fdiv(zh));
        }''')
        u.text('verus! {')
        u.emit(sel)
        u.text('}')
    return u
