#![allow(unused_imports, unused_variables, dead_code, unused_mut, unused_parens)]
use vstd::prelude::*;

verus! {

// =====================================================================================================
// Abstract field.  Every law is a proof obligation on an implementor (none exists in a unit, so the
// gadget proofs hold for every field satisfying the laws: BabyBear, KoalaBear, Goldilocks and extensions).
// =====================================================================================================
pub trait Field: Sized + Copy {
    spec fn fadd(self, o: Self) -> Self;
    spec fn fmul(self, o: Self) -> Self;
    spec fn fneg(self) -> Self;
    spec fn finv(self) -> Self;
    spec fn fzero() -> Self;
    spec fn fone() -> Self;

    // ---- laws (commutative ring with 1, inverses of non-zero elements, 0 != 1)
    proof fn add_comm(a: Self, b: Self) ensures a.fadd(b) == b.fadd(a);
    proof fn add_assoc(a: Self, b: Self, c: Self) ensures a.fadd(b).fadd(c) == a.fadd(b.fadd(c));
    proof fn add_zero(a: Self) ensures a.fadd(Self::fzero()) == a;
    proof fn add_neg(a: Self) ensures a.fadd(a.fneg()) == Self::fzero();
    proof fn mul_comm(a: Self, b: Self) ensures a.fmul(b) == b.fmul(a);
    proof fn mul_assoc(a: Self, b: Self, c: Self) ensures a.fmul(b).fmul(c) == a.fmul(b.fmul(c));
    proof fn mul_one(a: Self) ensures a.fmul(Self::fone()) == a;
    proof fn distrib(a: Self, b: Self, c: Self) ensures a.fmul(b.fadd(c)) == a.fmul(b).fadd(a.fmul(c));
    proof fn mul_inv(a: Self) requires a != Self::fzero() ensures a.fmul(a.finv()) == Self::fone();
    proof fn zero_ne_one() ensures Self::fzero() != Self::fone();

    // ---- derived operations and their definitions
    spec fn fsub(self, o: Self) -> Self;
    spec fn fdiv(self, o: Self) -> Self;
    proof fn sub_def(a: Self, b: Self) ensures a.fsub(b) == a.fadd(b.fneg());
    proof fn div_def(a: Self, b: Self) ensures a.fdiv(b) == a.fmul(b.finv());
}

pub open spec fn pow2(k: nat) -> nat decreases k { if k == 0 { 1 } else { 2 * pow2((k - 1) as nat) } }
pub open spec fn fpow<F: Field>(x: F, n: nat) -> F decreases n { if n == 0 { F::fone() } else { x.fmul(fpow(x, (n - 1) as nat)) } }

/// executable side of the field: constants / operations used by native pre-computations inside gadgets
pub trait FieldX: Field {
    fn zero() -> (r: Self) ensures r == Self::fzero();
    fn one() -> (r: Self) ensures r == Self::fone();
    fn inverse(&self) -> (r: Self) ensures r == self.finv();
    fn mul(self, o: Self) -> (r: Self) ensures r == self.fmul(o);
    fn add(self, o: Self) -> (r: Self) ensures r == self.fadd(o);
    fn sub(self, o: Self) -> (r: Self) ensures r == self.fsub(o);
    fn exp_power_of_2(&self, k: usize) -> (r: Self) ensures r == fpow(*self, pow2(k as nat));
}

pub proof fn lemma_pow2_pos(k: nat) ensures pow2(k) >= 1 decreases k { if k > 0 { lemma_pow2_pos((k - 1) as nat); } }

pub proof fn lemma_one_mul<F: Field>(a: F) ensures F::fone().fmul(a) == a { F::mul_comm(F::fone(), a); F::mul_one(a); }
pub proof fn lemma_zero_add<F: Field>(a: F) ensures F::fzero().fadd(a) == a { F::add_comm(F::fzero(), a); F::add_zero(a); }

pub proof fn lemma_fpow_add<F: Field>(x: F, m: nat, n: nat)
    ensures fpow(x, m + n) == fpow(x, m).fmul(fpow(x, n))
    decreases m
{
    if m == 0 {
        lemma_one_mul(fpow(x, n));
    } else {
        lemma_fpow_add(x, (m - 1) as nat, n);
        assert((m + n - 1) as nat == (m - 1) as nat + n);
        F::mul_assoc(x, fpow(x, (m - 1) as nat), fpow(x, n));
    }
}
pub proof fn lemma_fpow_square<F: Field>(x: F, k: nat)
    ensures fpow(x, pow2(k + 1)) == fpow(x, pow2(k)).fmul(fpow(x, pow2(k)))
{
    assert(pow2(k + 1) == pow2(k) + pow2(k));
    lemma_fpow_add(x, pow2(k), pow2(k));
}
pub proof fn lemma_fpow_one<F: Field>(x: F) ensures fpow(x, 1) == x {
    reveal_with_fuel(fpow, 2);
    F::mul_one(x);
}

// ASSUMED std specification (vstd has none): cloning a slice of plain ids/values yields the same sequence
pub assume_specification<T: Clone> [<[T]>::to_vec](s: &[T]) -> (r: Vec<T>)
    ensures r@ == s@;

// =====================================================================================================
// Circuit builder interface for gadget units.
//   Ghost state = the value of every allocated expression under ONE arbitrary, fixed assignment of the
//   circuit's inputs (so no quantifier over environments appears in gadget proofs), plus `sat`, the
//   conjunction of every equality asserted so far.  The arithmetic contracts below are the expression-level
//   denotation proved for the real ExpressionBuilder in unit `expr` (C02); here they are ASSUMED.
// =====================================================================================================
#[derive(Clone, Copy, PartialEq, Eq, Hash, Structural)]
pub struct ExprId(pub u32);
pub type Target = ExprId;
impl ExprId { /// the zero constant is always the first expression in the graph
    pub const ZERO: ExprId = ExprId(0); }

pub struct ExprBuilderStub<F> { pub _p: core::marker::PhantomData<F> }
/// HashMap<ExprId, (b, t, s)> of recorded selects, by its key set (the records themselves are not modelled)
pub struct SelectSourcesStub { pub keys: Ghost<Set<ExprId>> }
impl SelectSourcesStub {
    #[verifier::external_body]
    pub fn insert(&mut self, k: ExprId, v: (ExprId, ExprId, ExprId)) ensures final(self).keys@ == old(self).keys@.insert(k) {}
    #[verifier::external_body]
    pub fn remove(&mut self, k: &ExprId) -> (r: Option<(ExprId, ExprId, ExprId)>) ensures final(self).keys@ == old(self).keys@.remove(*k) { unimplemented!() }
}

pub struct CircuitBuilder<F> {
    pub vals: Ghost<Map<ExprId, F>>,
    pub sat: Ghost<bool>,
    /// taint (C06): targets whose value is pinned, in every accepted proof, by constants, public values and
    /// relation-checked operations over pinned operands
    pub bnd: Ghost<Set<ExprId>>,
    /// taint (C06): the full output state of the latest sponge-table row is pinned (in-table chaining)
    pub chain: Ghost<bool>,
    /// the full output state (values) of the latest permutation-table row: what an omitted input limb chains to
    pub row: Ghost<Seq<F>>,
    pub expr_builder: ExprBuilderStub<F>,
    pub ext_select_sources: SelectSourcesStub,
    /// configuration flags read by the coefficient (de)composition gadgets; no builder operation changes them (part of `extends`)
    pub recompose_npo_enabled: bool,
    pub recompose_coeff_ctl_for_decompose_links: bool,
    pub decompose_skip_select_provenance: bool,
    pub ext_recompose_coeffs: CoeffProvenanceStub,
}
/// HashMap<ExprId, Vec<ExprId>> provenance cache (contents not modelled)
pub struct CoeffProvenanceStub { pub _p: () }
impl CoeffProvenanceStub {
    #[verifier::external_body]
    pub fn insert(&mut self, k: ExprId, v: Vec<ExprId>) {}
}

impl<F: Field> CircuitBuilder<F> {
    pub open spec fn has(&self, e: ExprId) -> bool { self.vals@.dom().contains(e) }
    pub open spec fn val(&self, e: ExprId) -> F { self.vals@[e] }
    pub open spec fn has_all(&self, s: Seq<ExprId>) -> bool { forall|i: int| 0 <= i < s.len() ==> self.has(#[trigger] s[i]) }
    pub open spec fn vals_of(&self, s: Seq<ExprId>) -> Seq<F> { Seq::new(s.len(), |i: int| self.val(s[i])) }
    pub open spec fn bound(&self, e: ExprId) -> bool { self.bnd@.contains(e) }
    pub open spec fn all_bound(&self, s: Seq<ExprId>) -> bool { forall|i: int| 0 <= i < s.len() ==> self.bound(#[trigger] s[i]) }
    /// every expression allocated in `old` is still there with the same value; no constraint was retracted
    pub open spec fn extends(&self, old: &Self) -> bool {
        &&& forall|e: ExprId| #[trigger] old.has(e) ==> self.has(e) && self.val(e) == old.val(e)
        &&& (self.sat@ ==> old.sat@)
        &&& forall|e: ExprId| #[trigger] old.bound(e) ==> self.bound(e)
        &&& self.recompose_npo_enabled == old.recompose_npo_enabled && self.recompose_coeff_ctl_for_decompose_links == old.recompose_coeff_ctl_for_decompose_links
            && self.decompose_skip_select_provenance == old.decompose_skip_select_provenance
    }
    /// `extends` without new constraints
    pub open spec fn extends_pure(&self, old: &Self) -> bool { self.extends(old) && self.sat@ == old.sat@ && self.chain@ == old.chain@ && self.row@ == old.row@ }

    pub proof fn lemma_extends_trans(a: &Self, b: &Self, c: &Self)
        requires b.extends(a), c.extends(b) ensures c.extends(a) {}
    pub proof fn lemma_extends_pure_trans(a: &Self, b: &Self, c: &Self)
        requires b.extends_pure(a), c.extends_pure(b) ensures c.extends_pure(a) {}

    // ---------------------------------------------------------------- primitive operations (assumed contracts)
    #[verifier::external_body]
    pub fn define_const(&mut self, v: F) -> (r: ExprId)
        ensures final(self).extends_pure(old(self)), final(self).has(r), final(self).bound(r), final(self).val(r) == v
    { unimplemented!() }
    #[verifier::external_body]
    pub fn alloc_const(&mut self, v: F, label: &'static str) -> (r: ExprId)
        ensures final(self).extends_pure(old(self)), final(self).has(r), final(self).bound(r), final(self).val(r) == v
    { unimplemented!() }

    #[verifier::external_body]
    pub fn add(&mut self, lhs: ExprId, rhs: ExprId) -> (r: ExprId)
        ensures final(self).extends_pure(old(self)), final(self).has(r), old(self).bound(lhs) && old(self).bound(rhs) ==> final(self).bound(r), final(self).val(r) == old(self).val(lhs).fadd(old(self).val(rhs))
    { unimplemented!() }
    #[verifier::external_body]
    pub fn alloc_add(&mut self, lhs: ExprId, rhs: ExprId, label: &'static str) -> (r: ExprId)
        ensures final(self).extends_pure(old(self)), final(self).has(r), old(self).bound(lhs) && old(self).bound(rhs) ==> final(self).bound(r), final(self).val(r) == old(self).val(lhs).fadd(old(self).val(rhs))
    { unimplemented!() }
    #[verifier::external_body]
    pub fn sub(&mut self, lhs: ExprId, rhs: ExprId) -> (r: ExprId)
        ensures final(self).extends_pure(old(self)), final(self).has(r), old(self).bound(lhs) && old(self).bound(rhs) ==> final(self).bound(r), final(self).val(r) == old(self).val(lhs).fsub(old(self).val(rhs))
    { unimplemented!() }
    #[verifier::external_body]
    pub fn alloc_sub(&mut self, lhs: ExprId, rhs: ExprId, label: &'static str) -> (r: ExprId)
        ensures final(self).extends_pure(old(self)), final(self).has(r), old(self).bound(lhs) && old(self).bound(rhs) ==> final(self).bound(r), final(self).val(r) == old(self).val(lhs).fsub(old(self).val(rhs))
    { unimplemented!() }
    #[verifier::external_body]
    pub fn mul(&mut self, lhs: ExprId, rhs: ExprId) -> (r: ExprId)
        ensures final(self).extends_pure(old(self)), final(self).has(r), old(self).bound(lhs) && old(self).bound(rhs) ==> final(self).bound(r), final(self).val(r) == old(self).val(lhs).fmul(old(self).val(rhs))
    { unimplemented!() }
    #[verifier::external_body]
    pub fn alloc_mul(&mut self, lhs: ExprId, rhs: ExprId, label: &'static str) -> (r: ExprId)
        ensures final(self).extends_pure(old(self)), final(self).has(r), old(self).bound(lhs) && old(self).bound(rhs) ==> final(self).bound(r), final(self).val(r) == old(self).val(lhs).fmul(old(self).val(rhs))
    { unimplemented!() }
    /// division: the quotient is pinned only when the divisor is non-zero (backward multiplication)
    #[verifier::external_body]
    pub fn div(&mut self, lhs: ExprId, rhs: ExprId) -> (r: ExprId)
        ensures final(self).extends_pure(old(self)), final(self).has(r),
                old(self).val(rhs) != F::fzero() ==> final(self).val(r) == old(self).val(lhs).fdiv(old(self).val(rhs))
    { unimplemented!() }
    #[verifier::external_body]
    pub fn alloc_div(&mut self, lhs: ExprId, rhs: ExprId, label: &'static str) -> (r: ExprId)
        ensures final(self).extends_pure(old(self)), final(self).has(r),
                old(self).val(rhs) != F::fzero() ==> final(self).val(r) == old(self).val(lhs).fdiv(old(self).val(rhs))
    { unimplemented!() }
    #[verifier::external_body]
    pub fn mul_add(&mut self, a: ExprId, b: ExprId, c: ExprId) -> (r: ExprId)
        ensures final(self).extends_pure(old(self)), final(self).has(r), old(self).bound(a) && old(self).bound(b) && old(self).bound(c) ==> final(self).bound(r),
                final(self).val(r) == old(self).val(a).fmul(old(self).val(b)).fadd(old(self).val(c))
    { unimplemented!() }
    #[verifier::external_body]
    pub fn horner_acc_step(&mut self, acc: ExprId, alpha: ExprId, p_at_z: ExprId, p_at_x: ExprId) -> (r: ExprId)
        ensures final(self).extends_pure(old(self)), final(self).has(r),
                final(self).val(r) == old(self).val(acc).fmul(old(self).val(alpha)).fadd(old(self).val(p_at_z)).fsub(old(self).val(p_at_x))
    { unimplemented!() }

    /// asserted equality: strengthens `sat`
    #[verifier::external_body]
    pub fn connect(&mut self, a: ExprId, b: ExprId)
        ensures final(self).extends(old(self)), final(self).sat@ == (old(self).sat@ && old(self).val(a) == old(self).val(b))
    { unimplemented!() }
    #[verifier::external_body]
    pub fn assert_zero(&mut self, a: ExprId)
        ensures final(self).extends(old(self)), final(self).sat@ == (old(self).sat@ && old(self).val(a) == F::fzero())
    { unimplemented!() }
    #[verifier::external_body]
    pub fn assert_bool(&mut self, a: ExprId)
        ensures final(self).extends(old(self)),
                final(self).sat@ == (old(self).sat@ && (old(self).val(a) == F::fzero() || old(self).val(a) == F::fone()))
    { unimplemented!() }

    /// inputs: value unconstrained
    #[verifier::external_body]
    pub fn public_input(&mut self) -> (r: ExprId)
        ensures final(self).extends_pure(old(self)), final(self).has(r), final(self).bound(r), !old(self).has(r)
    { unimplemented!() }
    #[verifier::external_body]
    pub fn alloc_private_input(&mut self, label: &'static str) -> (r: ExprId)
        ensures final(self).extends_pure(old(self)), final(self).has(r), !old(self).has(r)
    { unimplemented!() }
}

impl<F: Field> ExprBuilderStub<F> {
    // these two are queried through the owning builder; their contract is stated there
}
/// `self.expr_builder.is_const_zero(b)` / `is_const_one(b)`: true only for the constant nodes 0 / 1
#[verifier::external_body]
pub fn is_const_zero<F: Field>(cb: &CircuitBuilder<F>, b: ExprId) -> (r: bool)
    ensures r ==> cb.val(b) == F::fzero()
{ unimplemented!() }
#[verifier::external_body]
pub fn is_const_one<F: Field>(cb: &CircuitBuilder<F>, b: ExprId) -> (r: bool)
    ensures r ==> cb.val(b) == F::fone()
{ unimplemented!() }

} // verus!
