"""Unit `hash` (C08): leaf hashing of extension-field rows is the native overwrite-mode sponge
(p3-symmetric PaddingFreeSponge::hash_iter: for every chunk of RATE inputs overwrite the first positions of the
state, keep the others, permute; the digest is the first OUT state elements).

Real text: recursion/src/pcs/mmcs.rs  add_hash_extension_elements (whole function).
Callee contracts (assumed): CircuitBuilder::add_perm = one permutation-table row (given limbs read from the bus,
omitted limbs zero on a chain start or chained to the previous row's output), add_hash_base_coeffs_overwrite (the
D=1-in-extension route), decompose_ext_to_base_coeffs."""
import os
import re

from vf.unit import Unit
from units.chal import STUBS as CHAL_STUBS

HERE = os.path.dirname(os.path.abspath(__file__))

SPEC = r'''
verus! {
pub struct NonPrimitiveOpId(pub u32);
#[derive(Clone, Copy)]
pub struct PermConfig { pub dd: usize, pub rate_: usize, pub rext: usize, pub wext: usize }
impl PermConfig {
    pub fn d(&self) -> (r: usize) ensures r == self.dd { self.dd }
    pub fn rate(&self) -> (r: usize) ensures r == self.rate_ { self.rate_ }
    pub fn rate_ext(&self) -> (r: usize) ensures r == self.rext { self.rext }
    pub fn width_ext(&self) -> (r: usize) ensures r == self.wext { self.wext }
}
pub struct PermCall { pub new_start: bool, pub merkle_path: bool, pub mmcs_bit: Option<ExprId>, pub mmcs_bit2: Option<ExprId>,
    pub inputs: Vec<Option<ExprId>>, pub out_ctl: Vec<bool>, pub return_all_outputs: bool, pub mmcs_index_sum: Option<ExprId> }
impl CircuitBuilderError {
    #[verifier::external_body]
    pub fn missing_output() -> Self { unimplemented!() }
}

// ---------------------------------------------------------------- native sponge (transcribed from p3-symmetric 0.6 sponge.rs PaddingFreeSponge::hash_iter)
pub open spec fn zeros<F: Field>(n: nat) -> Seq<F> { Seq::new(n, |i: int| F::fzero()) }
pub open spec fn imin(a: int, b: int) -> int { if a < b { a } else { b } }
/// k-th chunk of `rate` inputs
pub open spec fn chunk_of<F>(xs: Seq<F>, rate: int, k: int) -> Seq<F> { xs.subrange(k * rate, imin(k * rate + rate, xs.len() as int)) }
/// overwrite mode: the chunk replaces the first positions, the rest of the state is kept
pub open spec fn absorb<F>(st: Seq<F>, ch: Seq<F>) -> Seq<F> { Seq::new(st.len(), |j: int| if j < ch.len() { ch[j] } else { st[j] }) }
/// state after n chunks
pub open spec fn sponge_n<F: Field>(st: Seq<F>, xs: Seq<F>, rate: int, n: nat) -> Seq<F> decreases n {
    if n == 0 { st } else { perm(absorb(sponge_n(st, xs, rate, (n - 1) as nat), chunk_of(xs, rate, n - 1))) }
}
pub open spec fn nchunks(len: int, rate: int) -> int { if rate > 0 { (len + rate - 1) / rate } else { 0 } }
/// native digest: sponge from the zero state over ceil(len/rate) chunks, first `rate` elements
pub open spec fn native_hash<F: Field>(xs: Seq<F>, rate: int, width: int) -> Seq<F> {
    sponge_n(zeros::<F>(width as nat), xs, rate, nchunks(xs.len() as int, rate) as nat).take(rate)
}

/// AIR fact (poseidon{1,2}-circuit-air eval): only the compact D=1 branch has the constraint `new_start && !merkle => capacity inputs == (tag, 0, ..)`;
/// the extension-mode branch leaves an omitted limb of a chain-start row unconstrained
pub open spec fn chain_start_capacity_zero_asserted(cfg: &PermConfig) -> bool { cfg.dd == 1 }

// ---------------------------------------------------------------- one permutation-table row (ASSUMED; executor.rs)
/// the state a row permutes: given limbs from the bus, omitted limbs zero on a chain start, else the previous row's output
pub open spec fn row_in<F: Field>(cb: &CircuitBuilder<F>, inputs: Seq<Option<ExprId>>, new_start: bool) -> Seq<F> {
    Seq::new(inputs.len(), |j: int| match inputs[j] { Some(t) => cb.val(t), None => if new_start { F::fzero() } else { cb.row@[j] } })
}
impl<F: Field> CircuitBuilder<F> {
    #[verifier::external_body]
    pub fn add_perm(&mut self, cfg: PermConfig, call: &PermCall) -> (r: Result<(NonPrimitiveOpId, Vec<Option<ExprId>>), CircuitBuilderError>)
        ensures final(self).extends(old(self)),
                r matches Ok(p) ==> ({
                    &&& p.1@.len() == cfg.wext
                    &&& forall|i: int| 0 <= i < cfg.wext ==> ((#[trigger] p.1@[i]) is Some <==> (if i < cfg.rext { i < call.out_ctl@.len() && call.out_ctl@[i] } else { call.return_all_outputs }))
                    &&& (!call.merkle_path && call.inputs@.len() == cfg.wext ==> ({
                            let st = perm(row_in(old(self), call.inputs@, call.new_start));
                            final(self).row@ == st && forall|i: int| 0 <= i < cfg.wext ==> ((#[trigger] p.1@[i]) matches Some(t) ==> final(self).has(t) && final(self).val(t) == st[i])
                        }))
                })
    { unimplemented!() }
}
/// `xs.iter().take(n).map(|o| o.ok_or(MissingOutput)).collect::<Result<Vec<_>, _>>()`
#[verifier::external_body]
pub fn take_outputs(xs: &Vec<Option<ExprId>>, n: usize) -> (r: Result<Vec<ExprId>, CircuitBuilderError>)
    ensures r matches Ok(v) ==> v@.len() == imin(n as int, xs@.len() as int) && forall|i: int| 0 <= i < v@.len() ==> xs@[i] == Some(#[trigger] v@[i]),
            r is Err ==> exists|i: int| 0 <= i < n && i < xs@.len() && (#[trigger] xs@[i]) is None
{ unimplemented!() }
/// usize::div_ceil
#[verifier::external_body]
pub fn div_ceil_(a: usize, b: usize) -> (r: usize) requires b > 0 ensures r == nchunks(a as int, b as int) { unimplemented!() }
/// the D=1-permutation-in-an-extension route (ASSUMED callee; not the subject here)
#[verifier::external_body]
pub fn add_hash_base_coeffs_overwrite<EF: ExtX>(circuit: &mut CircuitBuilder<EF>, permutation_config: &PermConfig, base_coeffs: &[Target], reset: bool, alu_recompose: bool, merkle_seed: bool)
    -> (r: Result<Vec<Target>, CircuitBuilderError>)
    ensures final(circuit).extends(old(circuit))
{ unimplemented!() }

pub proof fn lemma_nchunks_pos(len: int, rate: int)
    requires len > 0, rate > 0 ensures nchunks(len, rate) >= 1
{
    assert((len + rate - 1) / rate >= 1) by (nonlinear_arith) requires len > 0, rate > 0;
}
pub proof fn lemma_sponge_len<F: Field>(st: Seq<F>, xs: Seq<F>, rate: int, n: nat)
    ensures sponge_n(st, xs, rate, n).len() == st.len()
    decreases n
{
    if n > 0 { lemma_sponge_len(st, xs, rate, (n - 1) as nat); }
}
pub proof fn lemma_vals_ext<F: Field>(a: &CircuitBuilder<F>, b: &CircuitBuilder<F>, s: Seq<ExprId>)
    requires b.extends(a), a.has_all(s)
    ensures b.has_all(s), b.vals_of(s) == a.vals_of(s)
{
    assert forall|i: int| 0 <= i < s.len() implies b.has(#[trigger] s[i]) && b.val(s[i]) == a.val(s[i]) by { assert(a.has(s[i])); }
    assert(b.vals_of(s) =~= a.vals_of(s));
}
pub proof fn lemma_chunk_bounds(len: int, rate: int, i: int)
    requires rate > 0, len > 0, 0 <= i < nchunks(len, rate)
    ensures 0 <= i * rate < len, i * rate + rate == (i + 1) * rate, (i + 1 < nchunks(len, rate) ==> i * rate + rate <= len - 1), (i + 1 == nchunks(len, rate) ==> len <= i * rate + rate)
{
    let n = nchunks(len, rate);
    assert(n * rate >= len && (n - 1) * rate < len) by (nonlinear_arith) requires n == (len + rate - 1) / rate, rate > 0, len > 0;
    assert(i * rate + rate == (i + 1) * rate) by (nonlinear_arith);
    assert(0 <= i * rate) by (nonlinear_arith) requires i >= 0, rate > 0;
    assert((i + 1) * rate <= (n - 1) * rate || i + 1 == n) by (nonlinear_arith) requires i + 1 <= n, rate > 0;
    assert(i * rate <= (n - 1) * rate) by (nonlinear_arith) requires i <= n - 1, rate > 0;
}
} // verus!
'''


def build():
    u = Unit('hash', ['C08'])
    u.rlimit = 120
    u.assume('native sponge (native_hash / sponge_n / absorb) transcribed from p3-symmetric 0.6 PaddingFreeSponge::hash_iter')
    u.assume('one permutation row (add_perm, non-Merkle): given limbs are read from the bus, omitted limbs are zero on a chain start and the previous row\'s output otherwise; '
             'exposed outputs carry the permuted state -- ASSUMED from ops/poseidon_perm/executor.rs (C06 examines how far the proof system enforces it)')
    u.assume('no other permutation row is emitted between the rows of one leaf hash (the builder is only touched by this function in between)')
    u.assume('64-bit usize; R6 helpers: take_outputs = iter().take(n).map(ok_or).collect(); div_ceil_ = usize::div_ceil; slice::chunks(n).enumerate() = index loop over ceil(len/n) sub-slices')
    u.assume('call sites pass reset = true (all six in pcs/mmcs.rs do); nothing is claimed for reset = false; single-chunk merkle_seed rows (Merkle-mode) are not specified')
    u.text(open(os.path.join(HERE, 'gadget_prelude.rs')).read())
    u.text('verus! {\nglobal size_of usize == 8;   // standing assumption: 64-bit target\n}')
    u.text(CHAL_STUBS)
    u.text(SPEC)

    M = 'recursion/src/pcs/mmcs.rs'
    h = u.extract(M, '', 'add_hash_extension_elements', 'add_hash_extension_elements')
    h.set_sig('R11', 'fn add_hash_extension_elements<EF: ExtX>(circuit: &mut CircuitBuilder<EF>, permutation_config: &PermConfig, ext_elements: &[Target], reset: bool, merkle_seed: bool) -> Result<Vec<Target>, CircuitBuilderError>')
    h.rewrite_re('R11', r'<EF as BasedVectorSpace<F>>::DIMENSION', 'EF::dimension()', min_count=1)
    h.rewrite_re('R11', r'::<F, EF>\(', '::<EF>(', min_count=0)
    h.rewrite_re('R11', r'::<F>\(', '::<EF>(', min_count=0)
    h.rewrite_re('R11', r'\bEF::ZERO\b', 'EF::zero()', min_count=1)
    # R5/R6 normalisations (all optional: applied where the construct occurs)
    h.rewrite_re('R5', r'for &t in ext_elements \{', 'for k_ in 0..ext_elements.len() { let t = ext_elements[k_];')
    h.rewrite_re('R6', r'base_coeffs\.extend\(coeffs\);', 'base_coeffs.extend_from_slice(coeffs.as_slice());')
    h.rewrite_re('R6', r'(\w+)\.len\(\)\.div_ceil\((\w+)\)', r'div_ceil_(\1.len(), \2)')
    h.rewrite_re('R5', r'for \((\w+), (\w+)\) in (\w+)\.chunks\((\w+)\)\.enumerate\(\) \{',
                 r'let nch_ = div_ceil_(\3.len(), \4); for \1 in 0..nch_ { proof { lemma_chunk_bounds(\3@.len() as int, \4 as int, \1 as int); assert(0 <= (\1 as int) * (\4 as int) < \3@.len()); } let \2 = &\3[\1 * \4..(if \1 * \4 + \4 < \3.len() { \1 * \4 + \4 } else { \3.len() })];')
    h.rewrite_re('R5', r'for \((\w+), &(\w+)\) in (\w+)\.iter\(\)\.enumerate\(\) \{', r'for \1 in 0..\3.len() { let \2 = \3[\1];')
    h.rewrite_re('R5', r'for (\w+) in (\w+)\[([^\]]+?)\.\.([^\]]+?)\]\.iter_mut\(\) \{\s*\*\1 = ([^;]+);', r'for ix_ in \3..\4 { \2[ix_] = \5;')
    h.rewrite_re('R6', r'(\w+)\.as_ref\(\)\.map\(\|o\| o\[(\w+)\]\)\.unwrap_or\((\w+)\)', r'(match &\1 { Some(o) => o[\2], None => \3 })')
    h.rewrite_re('R6', r'(\w+)\.then_some\((\w+)\)', r'(if \1 { Some(\2) } else { None })')
    h.rewrite_re('R6', r'(\w+)\s*\.(?:iter|into_iter)\(\)\s*\.take\(([^)]+)\)\s*\.map\(\|o\| o\.ok_or\(CircuitBuilderError::MissingOutput\)\)\s*\.collect(?:::<Result<Vec<_>, _>>)?\(\)', r'take_outputs(&\1, \2)', flags_dotall=True)

    h.requires('allocated', 'old(circuit).has_all(ext_elements@)')
    h.requires('geometry', '0 < permutation_config.rext <= permutation_config.wext < 0x1_0000 && ext_elements@.len() < 0x1_0000_0000 && sp_dim::<EF>() < 0x1_0000')
    h.ensures('frame', 'final(circuit).extends(old(circuit))')
    h.ensures('digest_is_the_native_overwrite_mode_sponge', '''({
            let via_base = permutation_config.dd == 1 && sp_dim::<EF>() > 1;
            let n = nchunks(ext_elements@.len() as int, permutation_config.rext as int);
            reset && !via_base && !(merkle_seed && n == 1) ==> (ret matches Ok(v) ==>
                v@.len() == permutation_config.rext && final(circuit).has_all(v@)
                && final(circuit).vals_of(v@) == native_hash(old(circuit).vals_of(ext_elements@), permutation_config.rext as int, permutation_config.wext as int))
        })''')
    return finish(u, h)


def finish(u, h):
    # ---------------------------------------------------------------- proof scaffolding
    XS = 'old(circuit).vals_of(ext_elements@)'
    ST = lambda n: f'sponge_n(zeros::<EF>(width_ext as nat), xs, rate_ext as int, {n})'
    has_last = 'last_rate_outputs' in h.body
    h.before('let mut base_coeffs: Vec<Target> = Vec::with_capacity', 'proof { assert(ext_elements.len() * ext_degree < 0x1_0000_0000_0000) by (nonlinear_arith) requires ext_elements.len() < 0x1_0000_0000, ext_degree < 0x1_0000; }')
    h.loop('for k_ in 0..ext_elements.len()', invariants=[('frame', 'circuit.extends(old(circuit)) && old(circuit).has_all(ext_elements@)')])
    h.before('let t = ext_elements[k_];', 'proof { assert(old(circuit).has(ext_elements@[k_ as int])); }')
    h.after('let width_ext = permutation_config.width_ext();', f'let ghost xs = {XS};')
    # empty input: the native digest of nothing is the zero state
    h.rewrite_re('SPEC-bind-tail', r'return Ok\(vec!\[zero; rate_ext\]\);', """let z_ = vec![zero; rate_ext];
        proof { vstd::arithmetic::div_mod::lemma_basic_div(rate_ext as int - 1, rate_ext as int); assert(nchunks(0, rate_ext as int) == 0); assert(xs.len() == 0); assert(circuit.vals_of(z_@) =~= native_hash(xs, rate_ext as int, width_ext as int)); }
        return Ok(z_);""", min_count=1)
    CTX = (f'circuit.extends(old(circuit)) && old(circuit).has_all(ext_elements@) && xs == {XS} && xs.len() == ext_elements@.len() && ext_elements@.len() > 0'
           ' && rate_ext == permutation_config.rext && width_ext == permutation_config.wext && 0 < rate_ext <= width_ext < 0x1_0000 && ext_elements@.len() < 0x1_0000_0000'
           ' && nch_ == nchunks(ext_elements@.len() as int, rate_ext as int) && num_chunks == nch_ && single_chunk_seed == (merkle_seed && num_chunks == 1)'
           ' && circuit.has(zero) && circuit.val(zero) == EF::fzero()')
    LIVE = 'reset && !single_chunk_seed'
    invs = [('ctx', CTX),
            ('state', f'{LIVE} && i > 0 ==> circuit.row@ == {ST("i as nat")}')]
    if has_last:
        invs.append(('last', f'{LIVE} && 0 < i < nch_ ==> (last_rate_outputs matches Some(o) && o@.len() == rate_ext && circuit.has_all(o@) && circuit.vals_of(o@) == circuit.row@.take(rate_ext as int))'))
    if has_last:
        invs.append(('last_len', 'last_rate_outputs matches Some(o) ==> o@.len() == rate_ext'))
    invs.append(('final', f'{LIVE} && i > 0 ==> forall|j: int| 0 <= j < rate_ext ==> ((#[trigger] final_outputs@[j]) matches Some(t) && circuit.has(t) && circuit.val(t) == circuit.row@[j])'))
    invs.append(('final0', 'final_outputs@.len() == width_ext'))
    LASTHINT = 'if i > 0 {{ let o = last_b.unwrap(); assert(circ_b.vals_of(o@)[j] == circ_b.val(o@[j])); assert(circ_b.row@.take(rate_ext as int)[j] == circ_b.row@[j]); }}' if has_last else ''
    h.at_loop_end('for i in 0..nch_', (f"""proof {{
            if {LIVE} {{
                let s0 = if i == 0 {{ zeros::<EF>(width_ext as nat) }} else {{ {ST("i as nat")} }};
                assert(s0 == {ST("i as nat")});
                lemma_sponge_len(zeros::<EF>(width_ext as nat), xs, rate_ext as int, i as nat);
                let want = absorb(s0, chunk_of(xs, rate_ext as int, i as int));
                let got = row_in(&circ_b, call_inputs, i == 0 && reset);
                assert(chunk_v@.len() == chunk_of(xs, rate_ext as int, i as int).len());
                assert forall|j: int| 0 <= j < width_ext implies #[trigger] got[j] == want[j] by {{ // @@A:row_reads_the_native_absorbed_state
                    if j < chunk_v@.len() {{
                        assert(old(circuit).has(ext_elements@[i * rate_ext + j]));
                        assert(call_inputs[j] == Some(chunk_v@[j]) && chunk_v@[j] == ext_elements@[i * rate_ext + j]);
                        assert(want[j] == xs[i * rate_ext + j]);
                    }} else if j < rate_ext {{
                        LASTHINT
                    }} else {{
                        assert(call_inputs[j] is None);
                    }}
                }}
                assert(got =~= want);
                assert({ST("(i + 1) as nat")} == perm(want));
                assert forall|j: int| 0 <= j < rate_ext implies ((#[trigger] final_outputs@[j]) matches Some(t) && circuit.has(t) && circuit.val(t) == circuit.row@[j]) by {{}}
            }}
        }}""").replace('LASTHINT', LASTHINT.replace('{{', '{').replace('}}', '}')))
    h.loop('for i in 0..nch_', invariants=invs)
    h.after('let is_first = i == 0;', 'let ghost chunk_v = chunk; let ghost circ_b = *circuit;' + (' let ghost last_b = last_rate_outputs;' if has_last else ''))
    h.loop('for j in 0..chunk.len()', invariants=[
        ('filled', 'inputs@.len() == width_ext && chunk@.len() <= rate_ext <= width_ext && (forall|q: int| 0 <= q < j ==> #[trigger] inputs@[q] == Some(chunk@[q])) && (forall|q: int| j <= q < width_ext ==> (#[trigger] inputs@[q]) is None)')])
    FILL = '(if is_first { zero } else { match last_rate_outputs { Some(o) => o@[q], None => zero } })' if has_last else 'zero'
    pad_hdr = 'for j in chunk.len()..rate_ext' if 'for j in chunk.len()..rate_ext' in h.body else 'for ix_ in chunk.len()..rate_ext'
    pv = 'j' if pad_hdr.startswith('for j') else 'ix_'
    h.loop(pad_hdr, invariants=[
        ('ctx', ('(last_rate_outputs matches Some(o) ==> o@.len() == rate_ext) && ' if has_last else '') + 'is_first == (i == 0)'),
        ('filled', f'inputs@.len() == width_ext && chunk@.len() <= rate_ext <= width_ext && (forall|q: int| 0 <= q < chunk@.len() ==> #[trigger] inputs@[q] == Some(chunk@[q]))'
                   f' && (forall|q: int| chunk@.len() <= q < {pv} ==> #[trigger] inputs@[q] == Some({FILL})) && (forall|q: int| {pv} <= q < width_ext && q >= chunk@.len() ==> (#[trigger] inputs@[q]) is None)')])
    h.before('let (_, maybe_outputs) = circuit.add_perm(', '''let ghost call_inputs = inputs@;
        proof {
            // soundness side (C08): the capacity limbs are omitted; on a chain start only the compact D=1 AIR asserts them zero
            assert(is_first && reset ==> chain_start_capacity_zero_asserted(permutation_config)); // @@A:H_leaf_hash_chain_start_capacity_zero_asserted
        }''')
    h.bind_tail('r_', '''proof {
        if reset && !single_chunk_seed {
            match &r_ { Ok(v) => {
                lemma_sponge_len(zeros::<EF>(width_ext as nat), xs, rate_ext as int, nch_ as nat);
                lemma_nchunks_pos(ext_elements@.len() as int, rate_ext as int);
                assert forall|j: int| 0 <= j < v@.len() implies circuit.has(#[trigger] v@[j]) && circuit.val(v@[j]) == circuit.row@[j] by { assert(final_outputs@[j] == Some(v@[j])); }
                assert(circuit.vals_of(v@) =~= native_hash(xs, rate_ext as int, width_ext as int));
            }, Err(_) => {} }
        }
    }''')
    return h_done(u, h)


def h_done(u, h):
    u.text('verus! {')
    u.emit(h)
    u.text('}')
    return u
