"""Unit `hashb` (C08): leaf hashing of BASE-field rows, recursion/src/pcs/mmcs.rs add_hash_base_coeffs_overwrite (whole function) -- the function every
opened row of base-field values goes through (verify_batch_circuit, the arity-4 driver, and add_hash_extension_elements on the D=1-in-extension route).

The native leaf hash is PaddingFreeSponge::hash_iter over the base-field stream: each chunk of RATE base elements OVERWRITES the first positions of the
state, the other positions keep the previous permutation output.  The permutation table holds the state as width_ext limbs, one limb = the packing of D
consecutive base positions, so the native overwrite seen through the packing is:
   limb j fully covered by the chunk     -> packing of the chunk's D values,
   limb j not touched                    -> kept (omitted input: chained to the previous row / zero on a chain start),
   limb j covered in its first k < D positions -> packing of (k chunk values, then coefficients k.. of the limb's previous value).
`absorb_b` below is that function; `native_hash_b` iterates it.  On the lift route (D=1 permutation inside an extension circuit) every rate slot takes one
base value and the sponge is the plain one of unit hash.

Callee contracts (assumed): add_perm (one permutation row, as in unit hash), recompose_* = ext_of(values), decompose = coeffs_of(value) (units coef / chal)."""
import os
import re

from vf.unit import Unit, unrange_map_collect_general, unoption_and_then, unref_patterns_in_arms
from units.chal import STUBS as CHAL_STUBS
from units.hash import SPEC as HASH_SPEC

HERE = os.path.dirname(os.path.abspath(__file__))

SPEC_B = r'''
verus! {
pub axiom fn ax_ext_of_coeffs<F: Field>(x: F) ensures ext_of(coeffs_of(x)) == x;
pub axiom fn ax_coeffs_zero<F: Field>() ensures coeffs_of(F::fzero()) =~= zeros::<F>(sp_dim::<F>());
/// the D coefficient values a partially (or fully) covered limb is packed from: the first k from the chunk, the others kept from the limb's previous value
pub open spec fn mix<F: Field>(s: F, ch: Seq<F>, lo: int, k: int) -> Seq<F> { Seq::new(sp_dim::<F>(), |t: int| if t < k { ch[lo + t] } else { coeffs_of(s)[t] }) }
/// overwrite mode over base elements, seen through the packing of D base positions into one limb
pub open spec fn absorb_b<F: Field>(st: Seq<F>, ch: Seq<F>) -> Seq<F> {
    Seq::new(st.len(), |j: int| { let lo = j * sp_dim::<F>(); if ch.len() - lo <= 0 { st[j] } else { ext_of(mix(st[j], ch, lo, ch.len() - lo)) } })
}
pub open spec fn sponge_b_n<F: Field>(st: Seq<F>, xs: Seq<F>, rate: int, n: nat) -> Seq<F> decreases n {
    if n == 0 { st } else { perm(absorb_b(sponge_b_n(st, xs, rate, (n - 1) as nat), chunk_of(xs, rate, n - 1))) }
}
/// native digest of a base-field stream: sponge from the zero state over ceil(len/rate) chunks of `rate` BASE elements, first rate_ext limbs
pub open spec fn native_hash_b<F: Field>(xs: Seq<F>, rate: int, rext: int, wext: int) -> Seq<F> {
    sponge_b_n(zeros::<F>(wext as nat), xs, rate, nchunks(xs.len() as int, rate) as nat).take(rext)
}
pub proof fn lemma_sponge_b_len<F: Field>(st: Seq<F>, xs: Seq<F>, rate: int, n: nat)
    ensures sponge_b_n(st, xs, rate, n).len() == st.len()
    decreases n
{ if n > 0 { lemma_sponge_b_len(st, xs, rate, (n - 1) as nat); } }
impl<F: Field> CircuitBuilder<F> {
    #[verifier::external_body]
    pub fn recompose_base_coeffs_to_ext_via_alu<BF>(&mut self, coeffs: &[ExprId]) -> (r: Result<ExprId, CircuitBuilderError>)
        ensures final(self).extends(old(self)), final(self).chain@ == old(self).chain@, final(self).row@ == old(self).row@,
                r is Ok <==> coeffs@.len() == sp_dim::<F>(),
                r matches Ok(t) ==> final(self).has(t) && final(self).val(t) == ext_of(old(self).vals_of(coeffs@))
    { unimplemented!() }
}
/// limb q of the row the next add_perm call reads is the wanted value: a given limb through its target, an omitted limb through the chain (zero on a chain start)
pub open spec fn input_ok<F: Field>(cb: &CircuitBuilder<F>, inputs: Seq<Option<ExprId>>, fresh: bool, prev_row: Seq<F>, want: Seq<F>, q: int) -> bool {
    match inputs[q] { Some(t) => cb.has(t) && cb.val(t) == want[q], None => (if fresh { F::fzero() } else { prev_row[q] }) == want[q] }
}
pub uninterp spec fn sp_cext(c: PermConfig) -> usize;
impl PermConfig { #[verifier::external_body] pub fn capacity_ext(&self) -> (r: usize) ensures r == sp_cext(*self) { unimplemented!() } }
pub fn min_(a: usize, b: usize) -> (r: usize) ensures r == (if a < b { a } else { b }) { if a < b { a } else { b } }
pub fn sat_sub_(a: usize, b: usize) -> (r: usize) ensures r == (if a >= b { a - b } else { 0 }) { if a >= b { a - b } else { 0 } }
} // verus!
'''


def build():
    u = Unit('hashb', ['C08'])
    u.rlimit = 200
    u.assume('native sponge over base elements seen through the packing of D base positions into one state limb (absorb_b / sponge_b_n / native_hash_b): the permutation table permutes the packed state, '
             'ext_of / coeffs_of are the packing and its inverse (ax_ext_of_coeffs), the zero limb has zero coefficients (ax_coeffs_zero)')
    u.assume('one permutation row (add_perm, non-Merkle) as in unit hash; recompose_base_coeffs_to_ext(_via_alu) = ext_of(values), decompose_ext_to_base_coeffs = coeffs_of(value), none of them emits a permutation row -- ASSUMED (units coef / chal / rcair examine them)')
    u.assume('geometry of the permutation configuration: rate() == rate_ext() * DIMENSION off the lift route, rate() == rate_ext() on it (PermConfig accessors, stated as a precondition)')
    u.assume('call sites pass reset = true; nothing is claimed for reset = false, for the empty stream, or for single-chunk merkle_seed rows (Merkle-mode)')
    u.text(open(os.path.join(HERE, 'gadget_prelude.rs')).read())
    u.text('verus! {\nglobal size_of usize == 8;   // standing assumption: 64-bit target\n}')
    u.text(CHAL_STUBS)
    hs = re.sub(r'/// the D=1-permutation-in-an-extension route.*?\{ unimplemented!\(\) \}\n', '', HASH_SPEC, count=1, flags=re.S)
    assert 'fn add_hash_base_coeffs_overwrite' not in hs
    u.text(hs)
    u.text(SPEC_B)
    M = 'recursion/src/pcs/mmcs.rs'
    b = u.extract(M, '', 'add_hash_base_coeffs_overwrite', 'add_hash_base_coeffs_overwrite')
    b.set_sig('R11', 'fn add_hash_base_coeffs_overwrite<EF: ExtX>(circuit: &mut CircuitBuilder<EF>, permutation_config: &PermConfig, base_coeffs: &[Target], reset: bool, alu_recompose: bool, merkle_seed: bool) -> Result<Vec<Target>, CircuitBuilderError>')
    b.rewrite_re('R11', r'<EF as BasedVectorSpace<F>>::DIMENSION', 'EF::dimension()', min_count=1)
    b.rewrite_re('R11', r'::<F>\(', '::<EF>(', min_count=0)
    b.rewrite_re('R11', r'\bEF::ZERO\b', 'EF::zero()', min_count=1)
    b.rewrite_re('R6', r'(\w+)\.len\(\)\.div_ceil\((\w+)\)', r'div_ceil_(\1.len(), \2)', min_count=1)
    b.rewrite_re('R6', r'(\w+)\.then\(\|\| (circuit\.define_const\([^()]*\(\)\))\)', r'(if \1 { Some(\2) } else { None })', min_count=0)
    b.rewrite_re('R5', r'for \((\w+), (\w+)\) in (\w+)\.chunks\((\w+)\)\.enumerate\(\) \{',
                 r'for \1 in 0..num_chunks { proof { lemma_chunk_bounds(\3@.len() as int, \4 as int, \1 as int); assert(0 <= (\1 as int) * (\4 as int) < \3@.len()); } let \2 = &\3[\1 * \4..(if \1 * \4 + \4 < \3.len() { \1 * \4 + \4 } else { \3.len() })];', min_count=1)
    b.rewrite_re('R6', r'min\((\w+), (\w+)\.len\(\)\.saturating_sub\((\w+)\)\)', r'min_(\1, sat_sub_(\2.len(), \3))', min_count=0)
    unrange_map_collect_general(b)
    unoption_and_then(b)
    unref_patterns_in_arms(b)
    b.rewrite_re('R6', r'if let Some\(ref (\w+)\) = (\w+) \{', r'if let Some(\1) = &\2 {', min_count=0)
    b.rewrite_re('R6', r'&ext_coeffs\)', 'ext_coeffs.as_slice())', min_count=0)
    b.rewrite_re('R6', r'(\w+)\s*\.(?:iter|into_iter)\(\)\s*\.take\(((?:[^()]|\([^()]*\))+)\)\s*\.map\(\|o\| o\.ok_or\(CircuitBuilderError::MissingOutput\)\)\s*\.collect(?:::<Result<Vec<_>, _>>)?\(\)', r'take_outputs(&\1, \2)', flags_dotall=True)
    b.requires('allocated', 'old(circuit).has_all(base_coeffs@)')
    b.ensures('frame', 'final(circuit).extends(old(circuit))')
    b.attr('#[verifier::loop_isolation(false)]')
    b.requires('geometry', '''0 < permutation_config.rext <= permutation_config.wext < 0x1_0000 && permutation_config.rate_ > 0 && base_coeffs@.len() < 0x1_0000_0000 && 1 <= sp_dim::<EF>() < 0x1_0000
            && (if permutation_config.dd == 1 && sp_dim::<EF>() > 1 { permutation_config.rate_ == permutation_config.rext } else { permutation_config.rate_ == permutation_config.rext * sp_dim::<EF>() })''')
    b.ensures('digest_is_the_native_overwrite_mode_sponge_over_the_base_stream', '''({
            let lift = permutation_config.dd == 1 && sp_dim::<EF>() > 1;
            let n = nchunks(base_coeffs@.len() as int, permutation_config.rate_ as int);
            let xs = old(circuit).vals_of(base_coeffs@);
            reset && base_coeffs@.len() > 0 && !(merkle_seed && n == 1) ==> (ret matches Ok(v) ==>
                v@.len() == permutation_config.rext && final(circuit).has_all(v@)
                && final(circuit).vals_of(v@) == (if lift { native_hash(xs, permutation_config.rext as int, permutation_config.wext as int) }
                                                  else { native_hash_b(xs, permutation_config.rate_ as int, permutation_config.rext as int, permutation_config.wext as int) }))
        })''')
    b.at_start('let ghost c0 = *circuit; let ghost xs = c0.vals_of(base_coeffs@);')
    b.after('let use_per_base_lift = permutation_config.d() == 1 && ext_degree > 1;', '''
    let ghost lift = use_per_base_lift;
    proof { lemma_nchunks_pos(base_coeffs@.len() as int, rate as int); assert(rate_ext * ext_degree < 0x1_0000_0000) by (nonlinear_arith) requires rate_ext < 0x1_0000, ext_degree < 0x1_0000; }''')
    ST = lambda n: f'(if lift {{ sponge_n(zeros::<EF>(width_ext as nat), xs, rate as int, {n}) }} else {{ sponge_b_n(zeros::<EF>(width_ext as nat), xs, rate as int, {n}) }})'
    LIVE = 'reset && !single_chunk_seed'
    CTX = ('circuit.extends(&c0) && c0.has_all(base_coeffs@) && xs == c0.vals_of(base_coeffs@) && base_coeffs@.len() > 0 && base_coeffs@.len() < 0x1_0000_0000'
           ' && rate == permutation_config.rate_ && rate_ext == permutation_config.rext && width_ext == permutation_config.wext && 0 < rate_ext <= width_ext < 0x1_0000 && rate > 0'
           ' && ext_degree == sp_dim::<EF>() && 1 <= ext_degree < 0x1_0000 && lift == use_per_base_lift && lift == (permutation_config.dd == 1 && sp_dim::<EF>() > 1)'
           ' && (lift ==> rate == rate_ext) && (!lift ==> rate == rate_ext * ext_degree)'
           ' && num_chunks == nchunks(base_coeffs@.len() as int, rate as int) && num_chunks >= 1 && single_chunk_seed == (merkle_seed && num_chunks == 1)')
    b.loop('for chunk_idx in 0..num_chunks', invariants=[
        ('ctx', CTX),
        ('state', f'{LIVE} && chunk_idx > 0 ==> circuit.row@ == {ST("chunk_idx as nat")}'),
        ('last', f'{LIVE} && 0 < chunk_idx < num_chunks ==> (last_rate_outputs matches Some(o) && o@.len() == rate_ext && circuit.has_all(o@) && circuit.vals_of(o@) == circuit.row@.take(rate_ext as int))'),
        ('final', f'{LIVE} && chunk_idx > 0 ==> forall|j: int| 0 <= j < rate_ext ==> ((#[trigger] final_outputs@[j]) matches Some(t) && circuit.has(t) && circuit.val(t) == circuit.row@[j])'),
        ('final0', 'final_outputs@.len() == width_ext'),
        ('last_len', 'last_rate_outputs matches Some(o) ==> o@.len() == rate_ext'),
    ])
    b.after('let is_last = chunk_idx == num_chunks - 1;', f'''
        let ghost circ_b = *circuit; let ghost last_b = last_rate_outputs; let ghost chv = c0.vals_of(chunk@); let ghost fresh = chunk_idx == 0 && reset;
        let ghost s0 = if chunk_idx == 0 {{ zeros::<EF>(width_ext as nat) }} else {{ circ_b.row@ }};
        let ghost want = if lift {{ absorb(s0, chv) }} else {{ absorb_b(s0, chv) }};
        proof {{
            lemma_sponge_len(zeros::<EF>(width_ext as nat), xs, rate as int, chunk_idx as nat); lemma_sponge_b_len(zeros::<EF>(width_ext as nat), xs, rate as int, chunk_idx as nat);
            assert(chv =~= chunk_of(xs, rate as int, chunk_idx as int)) by {{
                assert forall|q: int| 0 <= q < chunk@.len() implies c0.has(#[trigger] chunk@[q]) by {{ assert(c0.has(base_coeffs@[chunk_idx * rate + q])); }}
            }}
            assert(chunk@.len() <= rate && chunk@.len() >= 1);
            if {LIVE} {{ assert(s0 == {ST("chunk_idx as nat")}); assert(s0.len() == width_ext); }}
        }}''')
    # ---- lift route: one base value per rate slot
    b.loop('for ext_idx in 0..rate_ext', nth=0, invariants=[
        ('filled', '''inputs@.len() == width_ext && *circuit == circ_b
            && (forall|q: int| 0 <= q < ext_idx ==> #[trigger] inputs@[q] == (if q < chunk@.len() { Some(chunk@[q]) } else { None::<Target> }))
            && (forall|q: int| ext_idx <= q < width_ext ==> (#[trigger] inputs@[q]) is None)''')])
    # ---- packed route
    RES = lambda q: f'input_ok(circuit, inputs@, fresh, circ_b.row@, want, {q})'
    b.loop('for ext_idx in 0..rate_ext', nth=1, invariants=[
        ('ctx', 'inputs@.len() == width_ext && circuit.extends(&circ_b) && circuit.row@ == circ_b.row@ && !lift'),
        ('filled', f'{LIVE} ==> forall|q: int| 0 <= q < ext_idx ==> #[trigger] {RES("q")}'),
        ('rest', 'forall|q: int| ext_idx <= q < width_ext ==> (#[trigger] inputs@[q]) is None'),
    ])
    b.rewrite_re('SPEC', r'(let base_start = [^;]*;)', r'''proof { assert(ext_idx * ext_degree <= rate_ext * ext_degree && ext_idx * ext_degree + ext_degree <= rate_ext * ext_degree) by (nonlinear_arith) requires ext_idx < rate_ext, ext_degree >= 1; }
                let ghost cq = *circuit; let ghost inq = inputs@;
                \1''', min_count=1)
    b.after('let num_values_in_ext = min_(ext_degree, sat_sub_(chunk.len(), base_start));', '''
                let ghost kk = chv.len() - base_start;   // the specification's count (may exceed D)
                proof { assert(chv.len() == chunk@.len()); }''')
    # the fully covered limb
    mfull = re.search(r'for (\w+) in 0\.\.ext_degree \{ let (\w+) = chunk\[base_start \+ \1\]; (\w+)\.push\(\2\); \}', b.body)
    if mfull:
        iv, vv = mfull.group(1), mfull.group(3)
        b.loop(mfull.group(0)[:mfull.group(0).index('{')].strip(), invariants=[
            ('copied', f'{vv}@.len() == {iv} && base_start + ext_degree <= chunk@.len() && forall|t: int| 0 <= t < {iv} ==> #[trigger] {vv}@[t] == chunk@[base_start + t]')])
    # the partially covered limb
    b.loop('for coeff_idx in 0..ext_degree', invariants=[
        ('ctx', 'circuit.extends(&cq) && circuit.row@ == cq.row@ && inputs@ == inq && 0 < num_values_in_ext < ext_degree && base_start + num_values_in_ext == chunk@.len()'),
        ('prev', f'''(prev_coeffs matches Some(p) ==> p@.len() == ext_degree && circuit.has_all(p@) && ({LIVE} ==> circuit.vals_of(p@) == coeffs_of(s0[ext_idx as int])))
            && (prev_coeffs is None && {LIVE} ==> chunk_idx == 0)'''),
        ('mixed', f'''ext_coeffs@.len() == coeff_idx && (forall|t: int| 0 <= t < coeff_idx ==> circuit.has(#[trigger] ext_coeffs@[t]))
            && ({LIVE} ==> forall|t: int| 0 <= t < coeff_idx ==> circuit.val(#[trigger] ext_coeffs@[t]) == mix(s0[ext_idx as int], chv, base_start as int, num_values_in_ext as int)[t])'''),
    ])
    b.before('let mut ext_coeffs = Vec::with_capacity(ext_degree);', f'''proof {{
                        if {LIVE} && chunk_idx > 0 {{
                            let o = last_b.unwrap();
                            assert(circ_b.vals_of(o@)[ext_idx as int] == circ_b.val(o@[ext_idx as int]));
                            assert(circ_b.row@.take(rate_ext as int)[ext_idx as int] == circ_b.row@[ext_idx as int]);
                            assert(cq.has(o@[ext_idx as int]) && cq.val(o@[ext_idx as int]) == s0[ext_idx as int]) by {{ assert(circ_b.has(o@[ext_idx as int])); }}
                        }}
                        match &prev_coeffs {{ Some(p) => {{ assert(circuit.vals_of(p@).len() == p@.len()); }}, None => {{}} }}
                    }}
                    let ghost cd = *circuit;''')
    b.rewrite_re('SPEC', r'ext_coeffs\.push\(chunk\[base_start \+ coeff_idx\]\);', r'''proof { assert(c0.has(chunk@[base_start + coeff_idx])); assert(chv[base_start + coeff_idx] == c0.val(chunk@[base_start + coeff_idx])); }
                            ext_coeffs.push(chunk[base_start + coeff_idx]);''')
    b.rewrite_re('SPEC', r'ext_coeffs\.push\(prev\[coeff_idx\]\);', r'''proof { assert(circuit.vals_of(prev@)[coeff_idx as int] == circuit.val(prev@[coeff_idx as int])); }
                            ext_coeffs.push(prev[coeff_idx]);''')
    b.rewrite_re('SPEC', r'ext_coeffs\.push\(circuit\.define_const\(EF::zero\(\)\)\);', r'''let ghost cz_ = *circuit; let z_ = circuit.define_const(EF::zero());
                            proof { ax_coeffs_zero::<EF>(); if '''+LIVE+r''' { assert(s0[ext_idx as int] == EF::fzero()); }
                                assert forall|t: int| 0 <= t < coeff_idx implies circuit.has(#[trigger] ext_coeffs@[t]) && circuit.val(ext_coeffs@[t]) == cz_.val(ext_coeffs@[t]) by { assert(cz_.has(ext_coeffs@[t])); }
                                match &prev_coeffs { Some(p) => { lemma_vals_ext(&cz_, circuit, p@); }, None => {} } }
                            ext_coeffs.push(z_);''')
    n_some = len(re.findall(r'inputs\[ext_idx\] = Some\(if alu_recompose \{', b.body))
    b.rewrite_re('SPEC', r'(inputs\[ext_idx\] = Some\(if alu_recompose \{.*?\}\);)', r'''let ghost cr_ = *circuit;
                    \1
                    proof { if ''' + LIVE + r''' {
                        let j = ext_idx as int; let lo = base_start as int;
                        assert(cr_.vals_of(ext_coeffs@) =~= mix(s0[j], chv, lo, kk)) by {
                            assert forall|t: int| 0 <= t < ext_degree implies cr_.val(#[trigger] ext_coeffs@[t]) == mix(s0[j], chv, lo, kk)[t] by {
                                if num_values_in_ext == ext_degree {
                                    assert(c0.has(chunk@[lo + t])); assert(chv[lo + t] == c0.val(chunk@[lo + t]));
                                } else {
                                    assert(mix(s0[j], chv, lo, num_values_in_ext as int)[t] == mix(s0[j], chv, lo, kk)[t]);
                                }
                            }
                        }
                        assert(want[j] == ext_of(mix(s0[j], chv, lo, kk)));
                        assert(input_ok(circuit, inputs@, fresh, circ_b.row@, want, j));
                    } }''', flags_dotall=True, min_count=0)
    b.rewrite_re('SPEC', r'(if num_values_in_ext == 0 \{\s*inputs\[ext_idx\] = None;)', r'''\1
                    proof { if ''' + LIVE + r''' { assert(want[ext_idx as int] == s0[ext_idx as int]); assert(input_ok(circuit, inputs@, fresh, circ_b.row@, want, ext_idx as int)); } }''', min_count=0)
    b.at_loop_end('for ext_idx in 0..rate_ext', f'''proof {{ if {LIVE} {{
                assert forall|q: int| 0 <= q < ext_idx implies #[trigger] input_ok(circuit, inputs@, fresh, circ_b.row@, want, q) by {{
                    assert(input_ok(&cq, inq, fresh, circ_b.row@, want, q)); assert(inputs@[q] == inq[q]);
                    match inq[q] {{ Some(t) => {{ assert(cq.has(t)); }}, None => {{}} }}
                }}
            }} }}''', nth=1)
    b.before('let (_, maybe_outputs) = circuit.add_perm(', f'''let ghost call_inputs = inputs@; let ghost circ_p = *circuit;
        proof {{ if {LIVE} {{
            let got = row_in(&circ_p, call_inputs, fresh);
            assert(circ_p.row@ == circ_b.row@);
            assert forall|j: int| 0 <= j < width_ext implies #[trigger] got[j] == want[j] by {{ // @@A:row_reads_the_native_absorbed_state
                if lift {{
                    if j < chunk@.len() && j < rate_ext {{ assert(c0.has(chunk@[j])); assert(chv[j] == c0.val(chunk@[j])); assert(call_inputs[j] == Some(chunk@[j])); }}
                    else {{ assert(call_inputs[j] is None); }}
                }} else {{
                    if j < rate_ext {{ assert(input_ok(&circ_p, call_inputs, fresh, circ_b.row@, want, j)); }}
                    else {{
                        assert(call_inputs[j] is None);
                        assert(j * ext_degree >= rate_ext * ext_degree) by (nonlinear_arith) requires j >= rate_ext, ext_degree >= 1;
                        assert(want[j] == s0[j]);
                    }}
                }}
            }}
            assert(got =~= want);
        }} }}''')
    b.at_loop_end('for chunk_idx in 0..num_chunks', f'''proof {{ if {LIVE} {{
            assert({ST("(chunk_idx + 1) as nat")} == perm(want));
            assert(circuit.row@ == perm(want));
            lemma_sponge_len(zeros::<EF>(width_ext as nat), xs, rate as int, (chunk_idx + 1) as nat); lemma_sponge_b_len(zeros::<EF>(width_ext as nat), xs, rate as int, (chunk_idx + 1) as nat);
            assert forall|j: int| 0 <= j < rate_ext implies ((#[trigger] final_outputs@[j]) matches Some(t) && circuit.has(t) && circuit.val(t) == circuit.row@[j]) by {{}}
            if !is_last {{
                let o = last_rate_outputs.unwrap();
                assert(circuit.vals_of(o@) =~= circuit.row@.take(rate_ext as int)) by {{
                    assert forall|j: int| 0 <= j < rate_ext implies circuit.has(#[trigger] o@[j]) && circuit.val(o@[j]) == circuit.row@[j] by {{ assert(final_outputs@[j] == Some(o@[j])); }}
                }}
            }}
        }} }}''')
    b.bind_tail('r_', f'''proof {{
        if {LIVE} {{
            match &r_ {{ Ok(v) => {{
                lemma_sponge_len(zeros::<EF>(width_ext as nat), xs, rate as int, num_chunks as nat); lemma_sponge_b_len(zeros::<EF>(width_ext as nat), xs, rate as int, num_chunks as nat);
                assert forall|j: int| 0 <= j < v@.len() implies circuit.has(#[trigger] v@[j]) && circuit.val(v@[j]) == circuit.row@[j] by {{ assert(final_outputs@[j] == Some(v@[j])); }}
                if lift {{ assert(circuit.vals_of(v@) =~= native_hash(xs, rate_ext as int, width_ext as int)); }}
                else {{ assert(circuit.vals_of(v@) =~= native_hash_b(xs, rate as int, rate_ext as int, width_ext as int)); }}
            }}, Err(_) => {{}} }}
        }}
    }}''')
    u.text('verus! {')
    u.emit(b)
    u.text('}')
    return u
