"""Unit `hashord` (C18): every traversal of a keyed container in the compile / key-generation / verifier-construction code, found mechanically on every run
(vf/hashscan.py: parameters, locals, fields of `self` and unambiguous field names whose declared type is HashMap / HashSet / BTreeMap / BTreeSet; `for .. in &m`,
`.iter()`, `.keys()`, `.values[_mut]()`, `.into_iter()`, `.drain()`, ...).  A traversal whose consumer provably forgets the visiting order (rule list in hashscan.py:
sum / count / any / all / max / min, collected into a keyed container or sorted right away, a loop body of commuting statements) is recorded and generates nothing.
Every other traversal generates the obligation "the visiting order of this container is a function of its contents": it holds for the ordered maps and fails for a
hash map (per-instance hasher seed), i.e. as soon as a hash order can reach emitted order."""
import os
import re

from vf.extract import REPO, ExtractError
from vf.unit import Unit
from vf.hashscan import scan
from units.iterord import PRELUDE

SCOPE = ['circuit/src', 'circuit-prover/src', 'recursion/src', 'poseidon1-circuit-air/src', 'poseidon2-circuit-air/src']
# ordered traversals of hash containers on the pinned tree that are order-free for a reason the rules cannot see (ASSUMED; keyed by file, fn, receiver and the traversal text)
JUSTIFIED = {
    ('circuit/src/builder/compiler/lowerer/connect_dsu.rs', 'connected_exprs', 'self.in_connect', 'self.in_connect.iter().copied()'):
        'returned iterator; its only caller LoweringState::backfill_connect_mappings collects it and inserts each element into a map independently (class_witness is a pure lookup)',
}


def files_in_scope():
    out = []
    for d in SCOPE:
        for dp, _, fs in os.walk(os.path.join(REPO, d)):
            for f in fs:
                if f.endswith('.rs') and f != 'tests.rs' and '/tests' not in dp:
                    out.append(os.path.relpath(os.path.join(dp, f), REPO))
    return sorted(out)


def build():
    u = Unit('hashord', ['C18'])
    u.rlimit = 20
    u.assume('type-level check: container kinds are read from declarations (parameters, annotated or constructor-initialised locals, struct fields); receivers whose type the scan cannot resolve '
             '(results of calls, pattern-bound values such as `if let Some(m) = ..`) are not covered')
    u.assume('order-free consumers are recognised by the rule list of vf/hashscan.py; the traversals listed in evidence as `order-free` are ASSUMED so by those rules')
    u.text(PRELUDE)
    sites = scan(files_in_scope())
    if not sites:
        raise ExtractError('hashord: the scan found no keyed-container traversal at all (scanner lost its anchors)')
    count = {}
    body = []
    for x in sites:
        key = (x['fn'], x['recv'].replace('self.', '').replace('_.', ''))
        k = count.get(key, 0)
        count[key] = k + 1
        tag = re.sub(r'\W', '_', f'{key[0]}_{key[1]}' + (f'_{k}' if k else ''))
        where = f"{x['file']}:{x['line']} fn {x['fn']}: `{x['text'][:100]}`"
        just = JUSTIFIED.get((x['file'], x['fn'], x['recv'], x['text'].split(' --')[0].strip()))
        if x['kind'].startswith('Hash') and (x['free'] or just):
            u.assume(f"order-free traversal of a hash container ({'rule: ' + x['why'] if x['free'] else 'JUSTIFIED: ' + just}): {where}")
            continue
        kind = 'BTreeMap' if x['kind'].startswith('BTree') else 'HashMap'
        body.append(f'''// @@FN:{x['fn']}[{x['recv']} traversal{(' ' + str(k)) if k else ''}]  <- {x['file']}:{x['line']}
pub fn order_{tag}() {{
    let m_: {kind}<usize, Erased> = {kind}::new();   // R13/R11: the container `{x['recv']}` ({x['kind']}; key / value types and contents erased)
    let order_ = m_.iteration_order();               // R5: the traversal {where}
    proof {{ assert(order_is_a_function_of_the_contents(&m_)); }} // @@A:visiting_order_of_{tag}_is_a_function_of_the_contents
}}
// @@ENDFN:{x['fn']}[{x['recv']} traversal]''')
    u.text('verus! {\n' + '\n'.join(body) + '\n}')
    return u
