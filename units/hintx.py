"""unit hintx (C19, C02): how the two decomposition hints store an output into the witness table
Real text: circuit/src/builder/circuit_builder.rs  <BinaryDecompositionHint as HintExecutor>::execute[store] and <ExtDecompositionHint as HintExecutor>::execute[store]
(slice: the tail of the innermost loop body from `let out_idx = out_wid.0 as usize;` on -- bounds check and store of the computed value)

Hint executors get the RAW witness table: the runner's own conflict detection (unit run19) does not see their writes.  A hint output shares its slot, through connect, with whatever
else the program put there; the store is the only place where such a connect is enforced at run time.  Contract: a set slot is never overwritten, a set slot holding another value
is an error, success leaves the value in the slot.
"""
import re

from vf.extract import ExtractError
from vf.unit import Unit

PRELUDE = r'''
#![allow(unused_imports, unused_variables, dead_code, unused_mut, unused_parens)]
use vstd::prelude::*;
verus! {
global size_of usize == 8;
pub trait Field: Sized + Copy { fn feq(&self, o: &Self) -> (r: bool) ensures r == (*self == *o); }
#[derive(Clone, Copy, PartialEq, Eq, Structural)] pub struct WitnessId(pub u32);
pub struct ErrStr { pub _p: () }
#[verifier::external_body] pub fn errstr() -> ErrStr { unimplemented!() }
pub enum CircuitError { WitnessIdOutOfBounds { witness_id: WitnessId }, WitnessConflict { witness_id: WitnessId, existing: ErrStr, new: ErrStr, expr_ids: Vec<u32> }, Other }
} // verus!
'''


def store_slice(u, container, qual, value):
    C = 'circuit/src/builder/circuit_builder.rs'
    f = u.extract(C, container, 'execute', f'{qual}::execute[store]')
    m = re.search(r'let out_idx = out_wid\.0 as usize;', f.body)
    if not m:
        # the store may live in a free helper of the same file called as `NAME(witness, out_wid, VALUE)?;`: the slice then is that helper's whole body (it IS the store)
        mc = re.search(r'\b(\w+)\(witness, out_wid, (\w+)\)\?;', f.body)
        if not mc:
            raise ExtractError(f'lost anchor in {qual}::execute[store]: `let out_idx = out_wid.0 as usize;`')
        h = u.extract(C, '', mc.group(1), f'{qual}::execute[store] = {mc.group(1)}')
        ms = re.search(r'\(\s*witness: &mut \[Option<F>\],\s*out_wid: (?:crate::)?WitnessId,\s*(\w+): F,?\s*\)', h.sig)
        if not ms:
            raise ExtractError(f'{qual}::execute[store]: helper {mc.group(1)} has another signature than (witness, out_wid, value)')
        value = ms.group(1)
        h.set_sig('R11', f'fn store_<F: Field>(witness: &mut Vec<Option<F>>, witness_len: usize, out_wid: WitnessId, {value}: F) -> Result<(), CircuitError>', sliced=True)
        h.rewrite_re('R6', r'let slot = witness\s*\.get_mut\(([^()]+(?:\([^()]*\))?[^()]*)\)\s*\.ok_or\((CircuitError::WitnessIdOutOfBounds \{[^}]*\})\)\?;',
                     r'let out_idx = \1; if out_idx >= witness.len() { return Err(\2); }', min_count=0, flags_dotall=True)
        return finish(h, value)
    i, depth = m.start(), 0
    while i < len(f.body):
        ch = f.body[i]
        if ch in '({[':
            depth += 1
        elif ch in ')}]':
            depth -= 1
            if depth < 0:
                break
        i += 1
    f.rewrites.append(('R13', 'function body := the tail of the innermost loop body from `let out_idx = out_wid.0 as usize;` on, then Ok(())', 'argument checks, reading the input, computing the value, the loops'))
    f.body = '{\n' + f.body[m.start():i] + '\nOk(())\n}'
    f.set_sig('R11', f'fn store_<F: Field>(witness: &mut Vec<Option<F>>, witness_len: usize, out_wid: WitnessId, {value}: F) -> Result<(), CircuitError>', sliced=True)
    return finish(f, value)


def finish(f, value):
    f.rewrite_re('R8', r'format!\("\{\w+:\?\}"\)', 'errstr()', min_count=0)
    f.rewrite_re('R8', r'\bvec!\[\]', 'Vec::new()', min_count=0)
    f.rewrite_re('R2', r'let slot = &mut witness\[out_idx\];', '', min_count=0)
    f.rewrite_re('R2', r'\bslot\.as_ref\(\)', 'witness[out_idx].as_ref()', min_count=0)
    f.rewrite_re('R2', r'\*slot = (Some\(\w+\));', r'witness.set(out_idx, \1);', min_count=0)
    f.rewrite_re('R2', r'\bwitness\[(\w+)\] = (Some\(\w+\));', r'witness.set(\1, \2);', min_count=0)
    f.rewrite_re('R11', r'\*existing != (\w+)', r'!existing.feq(&\1)', min_count=0)
    f.rewrite_re('R11', r'\*existing == (\w+)', r'existing.feq(&\1)', min_count=0)
    f.requires('the_length_read_before_the_loop', 'witness_len == old(witness)@.len()')
    W0 = 'old(witness)@'
    f.ensures('a_set_slot_holding_another_value_is_a_conflict_an_unset_or_agreeing_one_is_not',
              f'(out_wid.0 as int) < {W0}.len() ==> (match {W0}[out_wid.0 as int] {{ Some(e) => (ret is Ok <==> e == {value}), None => ret is Ok }})')
    f.ensures('set_slots_keep_their_values', f'final(witness)@.len() == {W0}.len() && forall|j: int| 0 <= j < {W0}.len() && {W0}[j] is Some ==> final(witness)@[j] == #[trigger] {W0}[j]')
    f.ensures('success_leaves_the_value_in_the_slot', f'ret is Ok ==> (out_wid.0 as int) < {W0}.len() && final(witness)@[out_wid.0 as int] == Some({value})')
    return f


def build():
    u = Unit('hintx', ['C19', 'C02'])
    u.rlimit = 20
    u.assume('type erasure R11: field values compared with == (PartialEq of the field); diagnostic strings dropped (R8); the slice takes the computed value and the table length read before the loop as parameters')
    u.text(PRELUDE)
    b = store_slice(u, r'impl<BF: PrimeField64, EF: ExtensionField<BF>> HintExecutor<EF> for BinaryDecompositionHint<BF>', 'BinaryDecompositionHint', 'bit')
    e = store_slice(u, r'impl<BF: PrimeField64, EF: ExtensionField<BF>> HintExecutor<EF> for ExtDecompositionHint<BF>', 'ExtDecompositionHint', 'embedded_ef')
    u.text('verus! {\npub mod binary_ { use super::*;')
    u.emit(b)
    u.text('}\npub mod ext_ { use super::*;')
    u.emit(e)
    u.text('}\n}')
    return u
