"""Unit `hmerge` (C15): merge_hiding_random_openings (recursion/src/pcs/fri/targets.rs) -- the hiding-FRI (ZK) verifier accepts the random
opened values only when their layout matches the commitments round by round, matrix by matrix, opening point by opening point, and then
every opening point keeps its own values followed by its own random values (nothing is dropped, nothing moves to another matrix)."""
import re

from vf.extract import ExtractError
from vf.unit import Unit, unfor_zip_pairs, uniter_collect, uniter_sum, drop_capacity_hints

PRELUDE = r'''
#![allow(unused_imports, unused_variables, dead_code, unused_mut, unused_parens)]
use vstd::prelude::*;
verus! {
global size_of usize == 8;
#[derive(Clone, Copy, PartialEq, Eq, Structural)] pub struct Target(pub u32);
#[derive(Clone, Copy, PartialEq, Eq, Structural)] pub struct Dom(pub u64);
pub struct ErrStr { pub _p: () }
#[verifier::external_body] pub fn errstr() -> ErrStr { unimplemented!() }
pub enum VerificationError { InvalidProofShape(ErrStr), Other }
/// `Comm: Clone`
pub trait CommClone: Sized { fn clone(&self) -> (r: Self) ensures r == *self; }
/// ASSUMED std specification: cloning a vector of plain ids yields the same sequence
#[verifier::external_body] pub fn clone_targets(v: &Vec<Target>) -> (r: Vec<Target>) ensures r@ == v@ { unimplemented!() }
pub type Pt = (Target, Vec<Target>);
pub type Mat = (Dom, Vec<Pt>);
/// a merged opening point: the point, its opened values, then ITS random values
pub open spec fn pt_ok(mp: Pt, p: Pt, rp: Vec<Target>) -> bool { mp.0 == p.0 && mp.1@ == p.1@ + rp@ }
pub open spec fn mat_shape(m: Mat, rm: Vec<Vec<Target>>) -> bool { m.1@.len() == rm@.len() }
pub open spec fn mat_ok(mm: Mat, m: Mat, rm: Vec<Vec<Target>>) -> bool {
    mm.0 == m.0 && mm.1@.len() == m.1@.len() && mat_shape(m, rm) && forall|p: int| 0 <= p < m.1@.len() ==> pt_ok(#[trigger] mm.1@[p], m.1@[p], rm@[p])
}
pub open spec fn round_shape<C>(r: (C, Vec<Mat>), rr: Vec<Vec<Vec<Target>>>) -> bool {
    r.1@.len() == rr@.len() && forall|k: int| 0 <= k < r.1@.len() ==> mat_shape(#[trigger] r.1@[k], rr@[k])
}
pub open spec fn round_ok<C>(mr: (C, Vec<Mat>), r: (C, Vec<Mat>), rr: Vec<Vec<Vec<Target>>>) -> bool {
    mr.0 == r.0 && mr.1@.len() == r.1@.len() && r.1@.len() == rr@.len() && forall|k: int| 0 <= k < r.1@.len() ==> mat_ok(#[trigger] mr.1@[k], r.1@[k], rr@[k])
}
/// the random opened values have the layout of the commitments: rounds, matrices per round, opening points per matrix
pub open spec fn shape3<C>(cw: Seq<(C, Vec<Mat>)>, rv: Seq<Vec<Vec<Vec<Target>>>>) -> bool {
    cw.len() == rv.len() && forall|r: int| 0 <= r < cw.len() ==> round_shape(#[trigger] cw[r], rv[r])
}
} // verus!
'''


def build():
    u = Unit('hmerge', ['C15'])
    u.rlimit = 80
    u.assume('SC / TwoAdicMultiplicativeCoset<Val<SC>> erased to an opaque Copy domain (R11); `Comm: Clone` clones to an equal value; error strings opaque (R8)')
    u.text(PRELUDE)
    T = 'recursion/src/pcs/fri/targets.rs'
    f = u.extract(T, '', 'merge_hiding_random_openings', 'merge_hiding_random_openings')
    f.set_sig('R11', 'fn merge_hiding_random_openings<Comm: CommClone>(commitments_with_opening_points: &Vec<(Comm, Vec<Mat>)>, random_opened_values: &[Vec<Vec<Vec<Target>>>]) -> Result<Vec<(Comm, Vec<Mat>)>, VerificationError>')
    f.rewrite_re('R8', r'"[^"]*"\s*\.to_string\(\)', 'errstr()', min_count=0)
    drop_capacity_hints(f)
    uniter_sum(f)
    uniter_collect(f)
    unfor_zip_pairs(f)
    f.rewrite_re('R6', r'(\w+)\.clone\(\);', lambda m: (f'clone_targets({m.group(1)});' if m.group(1) == 'vals' else m.group(0)), min_count=0)
    f.rewrite_re('R6', r'(\w+)\.extend\((\w+)\.iter\(\)\.copied\(\)\);', r'for ec_ in 0..\2.len() { \1.push(\2[ec_]); }', min_count=0)
    f.rewrite_re('R7', r'let mut merged = Vec::new\(\);', 'let mut merged: Vec<(Comm, Vec<Mat>)> = Vec::new();', min_count=0)
    f.rewrite_re('R7', r'let mut merged_mats = Vec::new\(\);', 'let mut merged_mats: Vec<Mat> = Vec::new();', min_count=0)
    f.rewrite_re('R7', r'let mut merged_points = Vec::new\(\);', 'let mut merged_points: Vec<Pt> = Vec::new();', min_count=0)
    CW, RV = 'commitments_with_opening_points@', 'random_opened_values@'
    f.ensures('ok_exactly_when_the_random_values_have_the_layout_of_the_commitments', f'ret is Ok <==> shape3({CW}, {RV})')
    f.ensures('every_opening_point_keeps_its_values_followed_by_its_own_random_values',
              f'ret matches Ok(m) ==> m@.len() == {CW}.len() && forall|r: int| 0 <= r < m@.len() ==> round_ok(#[trigger] m@[r], {CW}[r], {RV}[r])')
    L0, L1, L2, LE = 'for z0_ in 0..n_z0_', 'for z1_ in 0..n_z1_', 'for z2_ in 0..n_z2_', 'for ec_ in 0..rand_point.len()'
    if all(h in f.body for h in (L0, L1, L2, LE)) and 'let mut merged_vals' in f.body:
        f.loop(LE, invariants=[('appended', 'merged_vals@ == vals@ + rand_point@.take(ec_ as int)')])
        f.before(LE, 'proof { assert(rand_point@.take(0) =~= Seq::<Target>::empty()); assert(merged_vals@ =~= vals@ + rand_point@.take(0)); }')
        f.at_loop_end(LE, 'proof { assert(rand_point@.take(ec_ + 1) =~= rand_point@.take(ec_ as int).push(rand_point@[ec_ as int])); assert(merged_vals@ =~= vals@ + rand_point@.take(ec_ + 1)); }')
        f.rewrite_re('SPEC', r'(merged_points\.push\(\(\*point, merged_vals\)\);)', r'proof { assert(rand_point@.take(rand_point@.len() as int) =~= rand_point@); } \1')
        f.loop(L2, invariants=[
            ('points_so_far', '''n_z2_ == points@.len() && points@.len() == rand_mat@.len() && merged_points@.len() == z2_
                && forall|p: int| 0 <= p < z2_ ==> pt_ok(#[trigger] merged_points@[p], points@[p], rand_mat@[p])'''),
        ])
        f.loop(L1, invariants=[
            ('matrices_so_far', f'''n_z1_ == mats@.len() && mats@.len() == rand_round@.len() && merged_mats@.len() == z1_ && z0_ < {CW}.len() && {CW}.len() == {RV}.len()
                && *mats == {CW}[z0_ as int].1 && *rand_round == {RV}[z0_ as int]
                && (forall|k: int| 0 <= k < z1_ ==> mat_ok(#[trigger] merged_mats@[k], mats@[k], rand_round@[k]))
                && (forall|k: int| 0 <= k < z1_ ==> mat_shape(#[trigger] mats@[k], rand_round@[k]))'''),
        ])
        f.loop(L0, invariants=[
            ('rounds_so_far', f'''n_z0_ == {CW}.len() && {CW}.len() == {RV}.len() && merged@.len() == z0_
                && (forall|r: int| 0 <= r < z0_ ==> round_ok(#[trigger] merged@[r], {CW}[r], {RV}[r]))
                && (forall|r: int| 0 <= r < z0_ ==> round_shape(#[trigger] {CW}[r], {RV}[r]))'''),
        ])
    u.text('verus! {')
    u.emit(f)
    u.text('}')
    return u
