"""Unit `iterord` (C18): traversals of keyed containers whose order becomes the order of CircuitBuilder calls (= the emitted op list and witness
numbering).  For each listed site the container's DECLARATION is taken from the real code; `for (k, v) in &m` / `m.into_iter()` is iteration in
`m.iteration_order()`, a stub whose contract depends on the container kind (ordered map: THE ascending key sequence; hash map: some duplicate-free
enumeration of the keys), and the obligation is that this order is a function of the map's contents.  It is a type-level fact, decided from the
current source on every run: it holds for the ordered maps the code uses and fails as soon as one of them becomes a hash map."""
import re

from vf.extract import ExtractError
from vf.unit import Unit

PRELUDE = r'''
#![allow(unused_imports, unused_variables, dead_code, unused_mut, unused_parens)]
use vstd::prelude::*;
use std::collections::{HashMap, BTreeMap};
verus! {
global size_of usize == 8;
pub struct Erased { pub _p: () }
pub uninterp spec fn sorted_keys<M>(m: &M) -> Seq<usize>;
pub uninterp spec fn key_set<M>(m: &M) -> Set<usize>;
pub trait IterOrder: Sized {
    /// o may be the order in which `for (k, v) in &self` visits the keys
    spec fn order_ok(&self, o: Seq<usize>) -> bool;
    fn iteration_order(&self) -> (r: Vec<usize>) ensures self.order_ok(r@);
}
/// an ordered map is visited in THE ascending order of its keys
impl<V> IterOrder for BTreeMap<usize, V> {
    open spec fn order_ok(&self, o: Seq<usize>) -> bool { o == sorted_keys(self) }
    #[verifier::external_body] fn iteration_order(&self) -> (r: Vec<usize>) { unimplemented!() }
}
/// a hash map is visited in SOME duplicate-free enumeration of its keys (the hasher's seed decides which)
impl<V> IterOrder for HashMap<usize, V> {
    open spec fn order_ok(&self, o: Seq<usize>) -> bool { o.no_duplicates() && o.to_set() == key_set(self) }
    #[verifier::external_body] fn iteration_order(&self) -> (r: Vec<usize>) { unimplemented!() }
}
pub open spec fn order_is_a_function_of_the_contents<M: IterOrder>(m: &M) -> bool { forall|a: Seq<usize>, b: Seq<usize>| m.order_ok(a) && m.order_ok(b) ==> a == b }
} // verus!
'''

SITES = [
    # (file, fn, qualified name, variable, regex of the traversal that must be there)
    ('recursion/src/pcs/fri/verifier.rs', 'open_input', 'open_input[height_groups traversal]', 'height_groups', r'for \(log_height, matrices\) in &height_groups \{'),
    ('recursion/src/pcs/fri/verifier.rs', 'open_input', 'open_input[reduced_openings traversal]', 'reduced_openings', r'reduced_openings\s*\.\s*into_iter\(\)'),
]


def build():
    u = Unit('iterord', ['C18'])
    u.rlimit = 20
    u.assume('type-level check: only the container kind of each listed declaration is read from the code; the loop bodies at these sites are under contract in unit openin (C07/C15)')
    u.text(PRELUDE)
    fns = []
    for file, fn, qual, var, trav in SITES:
        f = u.extract(file, '', fn, qual)
        if not re.search(trav, f.body):
            raise ExtractError(f'lost anchor in {qual}: the traversal /{trav}/')
        md = re.search(r'let mut ' + var + r'(?:\s*:\s*([\w:]+)<usize,[^=;]*>)?\s*=\s*([\w:]+?)(?:::<[^;]*?>)?::(new|with_capacity|default)\s*\([^;]*\);', f.body)
        if not md:
            raise ExtractError(f'lost anchor in {qual}: declaration of `{var}`')
        kind = (md.group(1) or md.group(2)).split('::')[-1]
        if kind not in ('BTreeMap', 'HashMap'):
            raise ExtractError(f'{qual}: container kind `{kind}` of `{var}` is not one the unit knows')
        f.set_sig('R11', f'fn {fn}_{var}_order()', sliced=True)
        f.body = (f'{{\n    let {var}: {kind}<usize, Erased> = {kind}::new();   // R13/R11: declaration of `{var}` at {file}: kind `{kind}` (value type and capacity erased)\n'
                  f'    let order_ = {var}.iteration_order();   // R5: the traversal /{trav}/\n'
                  f'    proof {{ assert(order_is_a_function_of_the_contents(&{var})); }} // @@A:traversal_order_of_{var}_is_a_function_of_its_contents\n}}')
        f.rewrites.append(('R13', f'function body := declaration of `{var}` (kind {kind}) + its traversal as `iteration_order()`; everything else dropped', ''))
        fns.append(f)
    u.text('verus! {')
    for f in fns:
        u.emit(f)
    u.text('}')
    return u
