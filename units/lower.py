"""Unit `lower` (C02, lowering layer): every arithmetic node of the expression DAG is lowered to primitive ops whose relation
over the witness table forces exactly the value the node denotes.

Real text: circuit/src/builder/compiler/lowerer/state.rs  LoweringState::{resolve_witness, emit_constants, emit_operations,
           emit_add, emit_sub, emit_mul, emit_div, emit_horner_acc, emit_bool_check, emit_mul_add}
           circuit/src/ops/op.rs  Op::{add, mul, mul_add, horner_acc}       circuit/src/expr.rs  ExpressionGraph::{get_expr, nodes}
The op relation (`alu_holds`, `op_done`) is the one unit run19 proves the RUNNER establishes for every executed op, so the two units
compose: runner executes op  ==>  op relation holds  ==>  (this unit) the slot of the node carries the node's value."""
import os
import re

from vf.extract import extract_item, ExtractError, REPO
from vf.unit import Unit, arm_bounds, pull_new_struct_fields, unmatches_macro
from units.run19 import PRELUDE as RUN19_PRELUDE

_a = RUN19_PRELUDE.index('// ---------------------------------------------------------------- specification vocabulary')
_b = RUN19_PRELUDE.index('pub open spec fn wf_op')
OP_SEM = RUN19_PRELUDE[_a:_b]

PRELUDE = r'''
#![allow(unused_imports, unused_variables, dead_code, unused_mut, unused_parens)]
use vstd::prelude::*;
use std::collections::{HashMap, HashSet, BTreeMap, BTreeSet, VecDeque};

verus! {
global size_of usize == 8;
// ---------------------------------------------------------------- abstract field (exec + spec)
pub trait Field: Sized + Copy {
    spec fn fadd(self, o: Self) -> Self;
    spec fn fmul(self, o: Self) -> Self;
    spec fn fsub(self, o: Self) -> Self;
    spec fn fneg(self) -> Self;
    spec fn finv(self) -> Self;
    spec fn fzero() -> Self;
    spec fn fone() -> Self;
    proof fn sub_add(a: Self, b: Self) ensures b.fadd(a.fsub(b)) == a;                       // b + (a-b) = a
    proof fn add_sub(a: Self, b: Self) ensures a.fadd(b).fsub(a) == b;                       // (a+b) - a = b
    proof fn add_neg(a: Self, c: Self) ensures a.fadd(c.fneg()) == a.fsub(c);                // a + (-c) = a - c
    proof fn mul_inv_cancel(a: Self, b: Self) requires a != Self::fzero() ensures a.fmul(b.fmul(a.finv())) == b;   // a*(b*a^-1) = b
    proof fn mul_cancel(a: Self, q: Self) requires a != Self::fzero() ensures a.fmul(q).fmul(a.finv()) == q;       // (a*q)*a^-1 = q
    fn neg(self) -> (r: Self) ensures r == self.fneg();
    /// F::ONE / F::ZERO / == on field values (R11: associated constants and PartialEq of p3_field::Field)
    fn one_() -> (r: Self) ensures r == Self::fone();
    fn zero_() -> (r: Self) ensures r == Self::fzero();
    fn eq_(&self, o: &Self) -> (r: bool) ensures r == (*self == *o);
}
pub trait HintExecutor<F> { fn dummy(&self) -> bool; }
pub trait NonPrimitiveExecutor<F> { fn dummy(&self) -> bool; }

// ---------------------------------------------------------------- types cut from /repo
@@TYPES@@

pub mod ax {
    use super::*;
    pub broadcast axiom fn expr_id_key_model() ensures #[trigger] vstd::std_specs::hash::obeys_key_model::<ExprId>();
    pub broadcast axiom fn witness_id_key_model() ensures #[trigger] vstd::std_specs::hash::obeys_key_model::<WitnessId>();
}
/// error variants used by the lowering functions under contract (message strings dropped: R8)
pub enum CircuitBuilderError { MissingExprMapping { expr_id: ExprId }, Other }

pub struct WitnessAllocator { pub next: u32 }
/// ConnectDsu is under contract in unit `dsu`; here only the trace of its allocations matters
pub struct ConnectDsu { pub log: Ghost<Seq<(ExprId, WitnessId)>> }
impl ConnectDsu {
    #[verifier::external_body]
    pub fn alloc_witness(&mut self, expr_id: ExprId, alloc: &mut WitnessAllocator) -> (r: WitnessId)
        ensures final(self).log@ == old(self).log@.push((expr_id, r))
    { unimplemented!() }
    /// ConnectDsu::class_witness: the slot already allocated for the class of expr_id, if any (path compression only: no allocation)
    #[verifier::external_body]
    pub fn class_witness(&mut self, expr_id: ExprId) -> (r: Option<WitnessId>) ensures final(self).log@ == old(self).log@ { unimplemented!() }
}
pub struct ExpressionGraph<F> { pub nodes: Vec<Expr<F>> }
#[verifier::reject_recursive_types(F)]
pub struct LoweringState<'a, F> {
    pub graph: &'a ExpressionGraph<F>,
    pub dsu: ConnectDsu,
    pub witness_alloc: WitnessAllocator,
    pub ops: Vec<Op<F>>,
    pub expr_to_widx: HashMap<ExprId, WitnessId>,
    pub public_rows: Vec<WitnessId>,
    pub private_input_rows: Vec<WitnessId>,
    pub public_mappings: HashMap<ExprId, WitnessId>,
@@NEWFIELDS@@
}
} // verus!
'''

SPEC = r'''
verus! {
pub type M = Map<ExprId, WitnessId>;
/// every slot of the table is set (a complete execution)
pub open spec fn total<F>(w: Seq<Option<F>>) -> bool { forall|id: WitnessId| (#[trigger] slot(w, id)).is_some() }
pub open spec fn v<F>(m: M, w: Seq<Option<F>>, e: ExprId) -> F { slot(w, m[e]).unwrap() }
/// the value an arithmetic node denotes, from the values in its operands' slots (circuit/src/expr.rs doc comments)
pub open spec fn node_val<F: Field>(e: Expr<F>, m: M, w: Seq<Option<F>>) -> F {
    match e {
        Expr::Const(c) => c,
        Expr::Add { lhs, rhs } => v(m, w, lhs).fadd(v(m, w, rhs)),
        Expr::Sub { lhs, rhs } => v(m, w, lhs).fsub(v(m, w, rhs)),
        Expr::Mul { lhs, rhs } => v(m, w, lhs).fmul(v(m, w, rhs)),
        Expr::Div { lhs, rhs } => v(m, w, lhs).fmul(v(m, w, rhs).finv()),
        Expr::HornerAcc { acc, alpha, p_at_z, p_at_x } => v(m, w, acc).fmul(v(m, w, alpha)).fadd(v(m, w, p_at_z)).fsub(v(m, w, p_at_x)),
        Expr::BoolCheck { val } => v(m, w, val),
        Expr::MulAdd { a, b, c } => v(m, w, a).fmul(v(m, w, b)).fadd(v(m, w, c)),
        _ => arbitrary(),
    }
}
pub open spec fn operands_mapped<F>(e: Expr<F>, m: M) -> bool {
    match e {
        Expr::Add { lhs, rhs } => m.dom().contains(lhs) && m.dom().contains(rhs),
        Expr::Sub { lhs, rhs } => m.dom().contains(lhs) && m.dom().contains(rhs),
        Expr::Mul { lhs, rhs } => m.dom().contains(lhs) && m.dom().contains(rhs),
        Expr::Div { lhs, rhs } => m.dom().contains(lhs) && m.dom().contains(rhs),
        Expr::HornerAcc { acc, alpha, p_at_z, p_at_x } => m.dom().contains(acc) && m.dom().contains(alpha) && m.dom().contains(p_at_z) && m.dom().contains(p_at_x),
        Expr::BoolCheck { val } => m.dom().contains(val),
        Expr::MulAdd { a, b, c } => m.dom().contains(a) && m.dom().contains(b) && m.dom().contains(c),
        _ => true,
    }
}
/// side conditions under which a node has a value at all: a divisor is non-zero
pub open spec fn defined<F: Field>(e: Expr<F>, m: M, w: Seq<Option<F>>) -> bool {
    match e { Expr::Div { lhs, rhs } => v(m, w, rhs) != F::fzero(), _ => true }
}
/// the relation a constraint node asserts about its operands (assert_bool: the value is boolean); true for value nodes
pub open spec fn node_asserts<F: Field>(e: Expr<F>, m: M, w: Seq<Option<F>>) -> bool {
    match e { Expr::BoolCheck { val } => v(m, w, val).fmul(v(m, w, val).fsub(F::fone())) == F::fzero(), _ => true }
}
/// every constant node already lowered sits in a slot holding its value (what emit_constants' ops force)
pub open spec fn consts_hold<F>(nodes: Seq<Expr<F>>, m: M, w: Seq<Option<F>>) -> bool {
    forall|id: ExprId| (id.0 as int) < nodes.len() && m.dom().contains(id) && (#[trigger] nodes[id.0 as int]) is Const
        ==> slot(w, m[id]) == Some(nodes[id.0 as int]->Const_0)
}
pub open spec fn new_ops_done<F: Field>(w: Seq<Option<F>>, ops0: Seq<Op<F>>, ops1: Seq<Op<F>>) -> bool {
    forall|k: int| ops0.len() <= k < ops1.len() ==> op_done(w, #[trigger] ops1[k])
}
pub open spec fn new_consts_done<F: Field>(w: Seq<Option<F>>, ops0: Seq<Op<F>>, ops1: Seq<Op<F>>) -> bool {
    forall|k: int| ops0.len() <= k < ops1.len() && (#[trigger] ops1[k]) is Const ==> op_done(w, ops1[k])
}
/// THE PROPERTY, per node: lowering node `id` (= expression e) extended the op list and the map so that
///  (sound)    any complete witness table satisfying the new ops carries the node's value in the node's slot and satisfies what the node asserts, and
///  (complete) the table carrying that value (and the values of freshly introduced constants) satisfies the new ops.
pub open spec fn step_ok<F: Field>(nodes: Seq<Expr<F>>, m0: M, ops0: Seq<Op<F>>, m1: M, ops1: Seq<Op<F>>, id: ExprId, e: Expr<F>) -> bool {
    &&& m1.dom().contains(id) && m1 == m0.insert(id, m1[id])
    &&& is_prefix(ops0, ops1)
    &&& forall|w: Seq<Option<F>>| #![trigger new_ops_done(w, ops0, ops1)] total(w) && consts_hold(nodes, m0, w) && defined(e, m0, w) && new_ops_done(w, ops0, ops1)
            ==> slot(w, m1[id]) == Some(node_val(e, m0, w)) && node_asserts(e, m0, w)
    &&& forall|w: Seq<Option<F>>| #![trigger new_consts_done(w, ops0, ops1)] total(w) && consts_hold(nodes, m0, w) && defined(e, m0, w) && new_consts_done(w, ops0, ops1)
            && slot(w, m1[id]) == Some(node_val(e, m0, w)) && node_asserts(e, m0, w) ==> new_ops_done(w, ops0, ops1)
}
pub open spec fn frame<F>(s0: LoweringState<'_, F>, s1: LoweringState<'_, F>) -> bool {
    s1.graph == s0.graph && s1.public_rows == s0.public_rows && s1.private_input_rows == s0.private_input_rows && s1.public_mappings == s0.public_mappings
}
/// every constant node has a slot (postcondition of emit_constants, the first lowering phase)
pub open spec fn consts_mapped<F>(nodes: Seq<Expr<F>>, m: M) -> bool {
    forall|i: int| 0 <= i < nodes.len() && (#[trigger] nodes[i]) is Const ==> m.dom().contains(ExprId(i as u32))
}
/// the DAG is stored in creation order: the operands of a subtraction are earlier nodes (get_expr on them is in range)
pub open spec fn graph_wf<F>(nodes: Seq<Expr<F>>) -> bool {
    &&& nodes.len() <= u32::MAX
    &&& forall|i: int| 0 <= i < nodes.len() ==> match #[trigger] nodes[i] { Expr::Sub { lhs, rhs } => (lhs.0 as int) < i && (rhs.0 as int) < i, _ => true }
}
pub open spec fn is_prefix<T>(a: Seq<T>, b: Seq<T>) -> bool { a.len() <= b.len() && b.subrange(0, a.len() as int) =~= a }
pub open spec fn submap(a: M, b: M) -> bool { forall|k: ExprId| #[trigger] a.dom().contains(k) ==> b.dom().contains(k) && b[k] == a[k] }
/// what one iteration of emit_operations must achieve for the node it visits
pub open spec fn visit_ok<F: Field>(nodes: Seq<Expr<F>>, m0: M, ops0: Seq<Op<F>>, m1: M, ops1: Seq<Op<F>>, id: ExprId, e: Expr<F>) -> bool {
    match e {
        Expr::Const(_) => m1 == m0 && ops1 == ops0,
        Expr::Public(_) => m1 == m0 && ops1 == ops0,
        Expr::PrivateInput(_) => m1 == m0 && ops1 == ops0,
        Expr::NonPrimitiveCall { .. } => true,
        Expr::NonPrimitiveOutput { .. } => true,
        _ => step_ok(nodes, m0, ops0, m1, ops1, id, e),
    }
}
pub open spec fn public_op_at<F>(ops: Seq<Op<F>>, k: int, out: WitnessId, pos: usize) -> bool {
    0 <= k < ops.len() && ops[k] == (Op::<F>::Public { out, public_pos: pos })
}
/// declared positions are in range of the positional table and pairwise distinct (the builder hands them out by a counter)
pub open spec fn publics_wf<F>(nodes: Seq<Expr<F>>, n: int) -> bool {
    &&& forall|i: int| 0 <= i < nodes.len() && (#[trigger] nodes[i]) is Public ==> (nodes[i]->Public_0 as int) < n
    &&& forall|i: int, j: int| 0 <= i < j < nodes.len() && (#[trigger] nodes[i]) is Public && (#[trigger] nodes[j]) is Public ==> nodes[i]->Public_0 != nodes[j]->Public_0
}
pub open spec fn privates_wf<F>(nodes: Seq<Expr<F>>, n: int) -> bool {
    &&& forall|i: int| 0 <= i < nodes.len() && (#[trigger] nodes[i]) is PrivateInput ==> (nodes[i]->PrivateInput_0 as int) < n
    &&& forall|i: int, j: int| 0 <= i < j < nodes.len() && (#[trigger] nodes[i]) is PrivateInput && (#[trigger] nodes[j]) is PrivateInput ==> nodes[i]->PrivateInput_0 != nodes[j]->PrivateInput_0
}
pub open spec fn const_op_at<F>(ops: Seq<Op<F>>, k: int, out: WitnessId, c: F) -> bool {
    0 <= k < ops.len() && ops[k] == (Op::<F>::Const { out, val: c })
}
impl<'a, F: Field> LoweringState<'a, F> {
    /// the non-primitive emitters are outside this unit: ASSUMED to extend the op list and the map without touching existing entries
    #[verifier::external_body]
    pub fn emit_npo_call(&mut self, op_id: NonPrimitiveOpId) -> (r: Result<(), CircuitBuilderError>)
        ensures is_prefix(old(self).ops@, final(self).ops@), submap(old(self).expr_to_widx@, final(self).expr_to_widx@), frame(*old(self), *final(self))
    { unimplemented!() }
    #[verifier::external_body]
    pub fn emit_npo_output(&mut self, expr_id: ExprId, call: ExprId) -> (r: Result<(), CircuitBuilderError>)
        ensures is_prefix(old(self).ops@, final(self).ops@), submap(old(self).expr_to_widx@, final(self).expr_to_widx@), frame(*old(self), *final(self))
    { unimplemented!() }
}
} // verus!
'''


def types_from_repo():
    t = []
    D = '#[derive(Clone, Copy, PartialEq, Eq, Hash, Structural)]\n'
    t.append(D + extract_item('circuit/src/types.rs', r'pub struct WitnessId\b'))
    t.append(D + extract_item('circuit/src/types.rs', r'pub struct ExprId\b'))
    t.append(D + extract_item('circuit/src/types.rs', r'pub struct NonPrimitiveOpId\b'))
    t.append(D + extract_item('circuit/src/ops/op.rs', r'pub enum AluOpKind\b'))
    t.append('#[verifier::reject_recursive_types(F)]\n' + extract_item('circuit/src/ops/op.rs', r'pub enum Op<F>'))
    t.append(extract_item('circuit/src/expr.rs', r'pub enum Expr<F>'))
    # the associated constant ExprId::ZERO, cut as a line from `impl ExprId`
    src = open(os.path.join(REPO, 'circuit/src/types.rs')).read()
    m = re.search(r'impl ExprId \{.*?(pub const ZERO: Self = Self\((\d+)\);)', src, re.S)
    if not m:
        raise ExtractError('lost anchor: ExprId::ZERO')
    t.append('impl ExprId { ' + m.group(1) + ' }')
    return '\n\n'.join(t)


def build():
    u = Unit('lower', ['C02'])
    u.rlimit = 60
    u.assume('field laws used: b+(a-b)=a, (a+b)-a=b, a+(-c)=a-c, a*(b*a^-1)=b and (a*q)*a^-1=q for a != 0')
    u.assume('the relation of a primitive op over the witness table is op_done/alu_holds, shared verbatim with unit run19 where the runner is proved to establish it')
    u.assume('ConnectDsu::alloc_witness returns some slot and logs (expr, slot) (its sharing contract is proved in unit dsu); npo emitters are outside this unit')
    u.assume('diagnostic context strings (format!) dropped (R8); hashbrown maps treated as std (R7)')
    newf = pull_new_struct_fields(u, 'circuit/src/builder/compiler/lowerer/state.rs', 'LoweringState',
                                  known=('graph', 'dsu', 'witness_alloc', 'ops', 'expr_to_widx', 'public_rows', 'private_input_rows', 'public_mappings', 'op_id_to_output_exprs', 'emitted_npo_ops'))
    u.text(PRELUDE.replace('@@TYPES@@', types_from_repo()).replace('@@NEWFIELDS@@', newf))
    u.text('verus! {\n' + OP_SEM + '\n}')
    u.text('verus! { broadcast use {ax::expr_id_key_model, ax::witness_id_key_model, vstd::std_specs::hash::group_hash_axioms}; }')
    u.text(SPEC)

    # ---- Op constructors (real text): what each convenience constructor builds
    OPF = 'circuit/src/ops/op.rs'
    ctors = []
    for name, post in (
        ('add', 'ret == (Op::<F>::Alu { kind: AluOpKind::Add, a, b, c: None, out, intermediate_out: None })'),
        ('mul', 'ret == (Op::<F>::Alu { kind: AluOpKind::Mul, a, b, c: None, out, intermediate_out: None })'),
        ('mul_add', 'ret == (Op::<F>::Alu { kind: AluOpKind::MulAdd, a, b, c: Some(c), out, intermediate_out: None })'),
        ('horner_acc', 'ret == (Op::<F>::Alu { kind: AluOpKind::HornerAcc, a, b, c: Some(c), out, intermediate_out: Some(acc) })'),
    ):
        f = u.extract(OPF, r'impl<F> Op<F>', name, f'Op::{name}')
        f.sig_rewrite('R12', '-> Self', '-> Op<F>')
        f.rewrite('R12', 'Self::Alu', 'Op::Alu')
        f.ensures('builds_the_documented_op', post)
        ctors.append(f)
    u.text('verus! {\nimpl<F> Op<F> {')
    for f in ctors:
        u.emit(f, vis='')
    u.text('}\n}')

    # ---- graph accessors (real text)
    G = 'circuit/src/expr.rs'
    ge = u.extract(G, r'impl<F> ExpressionGraph<F>', 'get_expr', 'ExpressionGraph::get_expr')
    ge.requires('in_range', '(id.0 as int) < self.nodes@.len()')
    ge.ensures('the_node', '*ret == self.nodes@[id.0 as int]')
    nd = u.extract(G, r'impl<F> ExpressionGraph<F>', 'nodes', 'ExpressionGraph::nodes')
    nd.rewrite('R6', '&self.nodes', 'self.nodes.as_slice()')
    nd.ensures('all_nodes', 'ret@ == self.nodes@')
    u.text('verus! {\nimpl<F> ExpressionGraph<F> {')
    u.emit(ge, vis='')
    u.emit(nd, vis='')
    u.text('}\n}')

    S = 'circuit/src/builder/compiler/lowerer/state.rs'
    IMPL = r"impl<'a, F: Field> LoweringState<'a, F>"
    fns = []

    def ext(name):
        f = u.extract(S, IMPL, name, f'LoweringState::{name}')
        n = len(re.findall(r'&format!\("[^"]*"\)', f.body))
        if n:
            f.body = re.sub(r'&format!\("[^"]*"\)', '""', f.body)
            f.rewrites.append(('R8', f'{n}x &format!(..) diagnostic context', '""'))
        # field constants and comparisons a lowering shortcut may consult (R11), matches! (R6)
        f.rewrite_re('R11', r'\bF::ONE\b', 'F::one_()', min_count=0)
        f.rewrite_re('R11', r'\bF::ZERO\b', 'F::zero_()', min_count=0)
        f.rewrite_re('R11', r'\*(\w+) == (F::(?:one_|zero_)\(\))', r'\1.eq_(&\2)', min_count=0)
        unmatches_macro(f)
        fns.append(f)
        return f

    rw = ext('resolve_witness')
    rw.rewrite_re('R6', r'self\.expr_to_widx\.get\(&expr_id\)\.copied\(\)\.ok_or_else\(\|\| \{.*?\}\s*\}\)',
                  '(match self.expr_to_widx.get(&expr_id) { Some(w_) => Ok(*w_), None => Err(CircuitBuilderError::MissingExprMapping { expr_id }) })',
                  min_count=1, flags_dotall=True)
    rw.ensures('the_mapped_slot_or_an_error', 'ret is Ok <==> self.expr_to_widx@.dom().contains(expr_id)')
    rw.ensures('value', 'ret matches Ok(w) ==> w == self.expr_to_widx@[expr_id]')

    NODES = 'old(self).graph.nodes@'

    def emit_fn(name, expr_ctor, extra_req=(), also_needs=''):
        f = ext(name)
        f.requires('graph', f'graph_wf({NODES})')
        for lab, t in extra_req:
            f.requires(lab, t)
        f.ensures('node_lowered_to_ops_that_force_its_value',
                  f'ret is Ok ==> step_ok({NODES}, old(self).expr_to_widx@, old(self).ops@, final(self).expr_to_widx@, final(self).ops@, expr_id, {expr_ctor})')
        f.ensures('slot_allocated_for_this_node', 'ret is Ok ==> final(self).dsu.log@.len() > old(self).dsu.log@.len() && final(self).dsu.log@[old(self).dsu.log@.len() as int] == (expr_id, final(self).expr_to_widx@[expr_id])')
        f.ensures('frame', 'frame(*old(self), *final(self))')
        f.ensures('ok_iff_operands_mapped', f'ret is Ok <==> operands_mapped({expr_ctor}, old(self).expr_to_widx@){also_needs}')
        f.at_start('let ghost m0 = self.expr_to_widx@; let ghost ops0 = self.ops@; let ghost nodes = self.graph.nodes@;')
        return f

    def tail_proof(f, proof):
        # the function ends `self.expr_to_widx.insert(expr_id, X); Ok(())`: proof goes between them (structural: before the tail expression)
        f.bind_tail('r_', '', before_text=proof)

    SUB = 'assert(self.ops@.subrange(0, ops0.len() as int) =~= ops0); assert(self.expr_to_widx@ =~= m0.insert(expr_id, self.expr_to_widx@[expr_id]));'

    f = emit_fn('emit_add', 'Expr::<F>::Add { lhs, rhs }')
    tail_proof(f, 'proof { ' + SUB + ' let o = self.ops@[ops0.len() as int]; assert forall|w: Seq<Option<F>>| new_ops_done(w, ops0, self.ops@) implies op_done(w, o) by {} }')

    f = emit_fn('emit_mul', 'Expr::<F>::Mul { lhs, rhs }')
    tail_proof(f, 'proof { ' + SUB + ' let o = self.ops@[ops0.len() as int]; assert forall|w: Seq<Option<F>>| new_ops_done(w, ops0, self.ops@) implies op_done(w, o) by {} }')

    f = emit_fn('emit_mul_add', 'Expr::<F>::MulAdd { a, b, c }')
    tail_proof(f, 'proof { ' + SUB + ' let o = self.ops@[ops0.len() as int]; assert forall|w: Seq<Option<F>>| new_ops_done(w, ops0, self.ops@) implies op_done(w, o) by {} }')

    f = emit_fn('emit_horner_acc', 'Expr::<F>::HornerAcc { acc, alpha, p_at_z, p_at_x }')
    tail_proof(f, 'proof { ' + SUB + ' let o = self.ops@[ops0.len() as int]; assert forall|w: Seq<Option<F>>| new_ops_done(w, ops0, self.ops@) implies op_done(w, o) by {} }')

    f = emit_fn('emit_bool_check', 'Expr::<F>::BoolCheck { val }', also_needs=' && old(self).expr_to_widx@.dom().contains(ExprId(0))')
    tail_proof(f, 'proof { ' + SUB + ' let o = self.ops@[ops0.len() as int]; assert forall|w: Seq<Option<F>>| new_ops_done(w, ops0, self.ops@) implies op_done(w, o) by {} }')

    f = emit_fn('emit_div', 'Expr::<F>::Div { lhs, rhs }')
    tail_proof(f, '''proof { ''' + SUB + ''' let o = self.ops@[ops0.len() as int]; let q = self.expr_to_widx@[expr_id];
            assert forall|w: Seq<Option<F>>| new_ops_done(w, ops0, self.ops@) implies op_done(w, o) by {}
            assert forall|w: Seq<Option<F>>| total(w) && defined(Expr::<F>::Div { lhs, rhs }, m0, w) && op_done(w, o) implies slot(w, q) == Some(node_val(Expr::<F>::Div { lhs, rhs }, m0, w)) by { // @@A:backwards_mul_forces_the_quotient
                F::mul_cancel(v(m0, w, rhs), slot(w, q).unwrap());
            }
            assert forall|w: Seq<Option<F>>| total(w) && defined(Expr::<F>::Div { lhs, rhs }, m0, w) && slot(w, q) == Some(node_val(Expr::<F>::Div { lhs, rhs }, m0, w)) implies op_done(w, o) by { // @@A:quotient_satisfies_the_backwards_mul
                F::mul_inv_cancel(v(m0, w, rhs), v(m0, w, lhs));
            }
        }''')

    f = emit_fn('emit_sub', 'Expr::<F>::Sub { lhs, rhs }', extra_req=[('operands_are_earlier_nodes', f'(lhs.0 as int) < {NODES}.len() && (rhs.0 as int) < {NODES}.len()'),
                                                                     ('constants_already_lowered', f'consts_mapped({NODES}, old(self).expr_to_widx@)')])
    f.rewrite_re('R11', r'-\(\*(\w+)\)', r'(*\1).neg()')
    f.at_start('let ghost mut fast = false;')
    o, c = arm_bounds(f, 'if let (Expr::Mul { .. }, Expr::Const(const_val)) = (lhs_expr, rhs_expr) {')
    f.body = f.body[:c] + ' proof { fast = true; } ' + f.body[c:]
    E = 'Expr::<F>::Sub { lhs, rhs }'
    tail_proof(f, '''proof { ''' + SUB + ''' let res = self.expr_to_widx@[expr_id]; let n0 = ops0.len() as int;
            if fast {
                let oc = self.ops@[n0]; let oa = self.ops@[n0 + 1];
                assert(nodes[rhs.0 as int] is Const);
                let cv = nodes[rhs.0 as int]->Const_0;
                assert forall|w: Seq<Option<F>>| new_ops_done(w, ops0, self.ops@) implies op_done(w, oc) && op_done(w, oa) by {}
                assert forall|w: Seq<Option<F>>| new_consts_done(w, ops0, self.ops@) implies op_done(w, oc) by {}
                assert forall|w: Seq<Option<F>>| total(w) && consts_hold(nodes, m0, w) implies v(m0, w, rhs) == cv by { assert(nodes[rhs.0 as int] is Const); assert(ExprId(rhs.0 as int as u32) == rhs); assert(m0.dom().contains(rhs)); }
                assert forall|w: Seq<Option<F>>| total(w) && consts_hold(nodes, m0, w) && op_done(w, oc) && op_done(w, oa) implies slot(w, res) == Some(node_val(''' + E + ''', m0, w)) by { // @@A:fast_path_add_of_negated_constant_forces_the_difference
                    F::add_neg(v(m0, w, lhs), cv);
                }
                assert forall|w: Seq<Option<F>>| total(w) && consts_hold(nodes, m0, w) && op_done(w, oc) && slot(w, res) == Some(node_val(''' + E + ''', m0, w)) implies op_done(w, oa) by { // @@A:fast_path_difference_satisfies_the_add
                    F::add_neg(v(m0, w, lhs), cv);
                }
            } else {
                let o = self.ops@[n0];
                assert forall|w: Seq<Option<F>>| new_ops_done(w, ops0, self.ops@) implies op_done(w, o) by {}
                assert forall|w: Seq<Option<F>>| total(w) && op_done(w, o) implies slot(w, res) == Some(node_val(''' + E + ''', m0, w)) by { // @@A:backwards_add_forces_the_difference
                    F::add_sub(v(m0, w, rhs), slot(w, res).unwrap());
                }
                assert forall|w: Seq<Option<F>>| total(w) && slot(w, res) == Some(node_val(''' + E + ''', m0, w)) implies op_done(w, o) by { // @@A:difference_satisfies_the_backwards_add
                    F::sub_add(v(m0, w, lhs), v(m0, w, rhs));
                }
            }
        }''')

    HEAD = 'for (expr_idx, expr) in self.graph.nodes().iter().enumerate() {'
    NEWHEAD = 'for expr_idx in 0..nodes_.len()'

    def node_loop(f):
        f.rewrite('R5', HEAD, 'let nodes_ = self.graph.nodes(); ' + NEWHEAD + ' { let expr = &nodes_[expr_idx];')

    HINT_C = 'proof {\n                let cur = ExprId(expr_idx as u32);\n                assert(cur.0 as int == expr_idx);\n                assert forall|id: ExprId| !((id.0 as int) < expr_idx + 1 && nodes[id.0 as int] is Const) implies\n                    ((m0.dom().contains(id) <==> #[trigger] self.expr_to_widx@.dom().contains(id)) && self.expr_to_widx@[id] == m0[id]) by {\n                    assert(!((id.0 as int) < expr_idx && nodes[id.0 as int] is Const));\n                    assert(m0.dom().contains(id) <==> m_b.dom().contains(id));\n                    assert(m_b[id] == m0[id]);\n                    if id == cur { assert(!(nodes[expr_idx as int] is Const)); assert(self.expr_to_widx@ == m_b); } else { assert(id.0 != cur.0); assert(self.expr_to_widx@ == m_b || self.expr_to_widx@ == m_b.insert(cur, self.expr_to_widx@[cur])); }\n                }\n            }'
    HINT_P = 'proof {\n                let cur = ExprId(expr_idx as u32);\n                assert(cur.0 as int == expr_idx);\n                assert forall|id: ExprId| !((id.0 as int) < expr_idx + 1 && nodes[id.0 as int] is Public) implies\n                    ((m0.dom().contains(id) <==> #[trigger] self.expr_to_widx@.dom().contains(id)) && self.expr_to_widx@[id] == m0[id]) by {\n                    assert(!((id.0 as int) < expr_idx && nodes[id.0 as int] is Public));\n                    assert(m0.dom().contains(id) <==> m_b.dom().contains(id));\n                    assert(m_b[id] == m0[id]);\n                    if id == cur { assert(!(nodes[expr_idx as int] is Public)); assert(self.expr_to_widx@ == m_b); } else { assert(id.0 != cur.0); assert(self.expr_to_widx@ == m_b || self.expr_to_widx@ == m_b.insert(cur, self.expr_to_widx@[cur])); }\n                }\n            }'
    HINT_V = 'proof {\n                let cur = ExprId(expr_idx as u32);\n                assert(cur.0 as int == expr_idx);\n                assert forall|id: ExprId| !((id.0 as int) < expr_idx + 1 && nodes[id.0 as int] is PrivateInput) implies\n                    ((m0.dom().contains(id) <==> #[trigger] self.expr_to_widx@.dom().contains(id)) && self.expr_to_widx@[id] == m0[id]) by {\n                    assert(!((id.0 as int) < expr_idx && nodes[id.0 as int] is PrivateInput));\n                    assert(m0.dom().contains(id) <==> m_b.dom().contains(id));\n                    assert(m_b[id] == m0[id]);\n                    if id == cur { assert(!(nodes[expr_idx as int] is PrivateInput)); assert(self.expr_to_widx@ == m_b); } else { assert(id.0 != cur.0); assert(self.expr_to_widx@ == m_b || self.expr_to_widx@ == m_b.insert(cur, self.expr_to_widx@[cur])); }\n                }\n            }'
    ec = ext('emit_constants')
    node_loop(ec)
    def snap(kind):
        return (NEWHEAD + ' { let expr = &nodes_[expr_idx];', ' let ghost m_b = self.expr_to_widx@; proof { assert(forall|id: ExprId| !((id.0 as int) < expr_idx && nodes[id.0 as int] is ' + kind
                + ') ==> (m0.dom().contains(id) <==> #[trigger] m_b.dom().contains(id)) && m_b[id] == m0[id]); }')
    ec.after(*snap('Const'))
    ec.requires('graph', f'graph_wf({NODES})')
    ec.ensures('every_constant_node_gets_a_slot', f'consts_mapped({NODES}, final(self).expr_to_widx@)')
    ec.ensures('one_const_op_per_constant_node_loading_its_value_into_its_slot',
               f'''forall|i: int| 0 <= i < {NODES}.len() && (#[trigger] {NODES}[i]) is Const ==>
                exists|k: int| old(self).ops@.len() <= k && #[trigger] const_op_at(final(self).ops@, k, final(self).expr_to_widx@[ExprId(i as u32)], {NODES}[i]->Const_0)''')
    ec.ensures('nothing_else_emitted_or_mapped', f'''is_prefix(old(self).ops@, final(self).ops@) && frame(*old(self), *final(self))
            && (forall|k: int| old(self).ops@.len() <= k < final(self).ops@.len() ==> (#[trigger] final(self).ops@[k]) is Const)
            && (forall|id: ExprId| !((id.0 as int) < {NODES}.len() && {NODES}[id.0 as int] is Const) ==>
                    (old(self).expr_to_widx@.dom().contains(id) <==> #[trigger] final(self).expr_to_widx@.dom().contains(id)) && final(self).expr_to_widx@[id] == old(self).expr_to_widx@[id])''')
    ec.at_start('let ghost m0 = self.expr_to_widx@; let ghost ops0 = self.ops@; let ghost nodes = self.graph.nodes@; let ghost mut pos: Map<int, int> = Map::empty();')
    ec.at_loop_end(NEWHEAD, HINT_C + ''' proof {
                if nodes[expr_idx as int] is Const {
                    let k = self.ops@.len() - 1;
                    assert(const_op_at(self.ops@, k, self.expr_to_widx@[ExprId(expr_idx as u32)], nodes[expr_idx as int]->Const_0)); // @@A:const_op_loads_this_nodes_value_into_this_nodes_slot
                    pos = pos.insert(expr_idx as int, k);
                }
            }''')
    ec.loop(NEWHEAD, invariants=[
        ('ctx', 'nodes_@ == nodes && nodes == self.graph.nodes@ && graph_wf(nodes) && frame(*old(self), *self) && is_prefix(ops0, self.ops@)'),
        ('done_prefix', '''forall|i: int| 0 <= i < expr_idx && (#[trigger] nodes[i]) is Const ==> self.expr_to_widx@.dom().contains(ExprId(i as u32)) && pos.dom().contains(i) && ops0.len() <= pos[i]
                && const_op_at(self.ops@, pos[i], self.expr_to_widx@[ExprId(i as u32)], nodes[i]->Const_0)'''),
        ('only_consts', 'forall|k: int| ops0.len() <= k < self.ops@.len() ==> (#[trigger] self.ops@[k]) is Const'),
        ('rest_untouched', '''forall|id: ExprId| !((id.0 as int) < expr_idx && nodes[id.0 as int] is Const) ==>
                    (m0.dom().contains(id) <==> #[trigger] self.expr_to_widx@.dom().contains(id)) && self.expr_to_widx@[id] == m0[id]'''),
    ])
    ec.at_end('''proof {
            assert forall|i: int| 0 <= i < nodes.len() && (#[trigger] nodes[i]) is Const implies
                exists|k: int| ops0.len() <= k && #[trigger] const_op_at(self.ops@, k, self.expr_to_widx@[ExprId(i as u32)], nodes[i]->Const_0) by {
                assert(const_op_at(self.ops@, pos[i], self.expr_to_widx@[ExprId(i as u32)], nodes[i]->Const_0));
            }
        }''')

    ep = ext('emit_publics')
    node_loop(ep)
    ep.rewrite_re('R6', r'self\.public_rows\[\*pos\] = (\w+);', r'self.public_rows.set(*pos, \1);', min_count=1)
    ep.after(*snap('Public'))
    ep.requires('graph', f'graph_wf({NODES}) && publics_wf({NODES}, old(self).public_rows@.len() as int)')
    ep.ensures('every_public_node_is_loaded_from_its_declared_position_into_its_slot',
               f'''forall|i: int| 0 <= i < {NODES}.len() && (#[trigger] {NODES}[i]) is Public ==> {{
                    let id = ExprId(i as u32); let p = {NODES}[i]->Public_0;
                    &&& final(self).expr_to_widx@.dom().contains(id)
                    &&& final(self).public_rows@[p as int] == final(self).expr_to_widx@[id]
                    &&& final(self).public_mappings@.dom().contains(id) && final(self).public_mappings@[id] == final(self).expr_to_widx@[id]
                    &&& exists|k: int| old(self).ops@.len() <= k && #[trigger] public_op_at(final(self).ops@, k, final(self).expr_to_widx@[id], p)
                }}''')
    ep.ensures('nothing_else_emitted_or_mapped', f'''is_prefix(old(self).ops@, final(self).ops@) && final(self).graph == old(self).graph && final(self).private_input_rows == old(self).private_input_rows
            && final(self).public_rows@.len() == old(self).public_rows@.len()
            && (forall|k: int| old(self).ops@.len() <= k < final(self).ops@.len() ==> (#[trigger] final(self).ops@[k]) is Public)
            && (forall|id: ExprId| !((id.0 as int) < {NODES}.len() && {NODES}[id.0 as int] is Public) ==>
                    (old(self).expr_to_widx@.dom().contains(id) <==> #[trigger] final(self).expr_to_widx@.dom().contains(id)) && final(self).expr_to_widx@[id] == old(self).expr_to_widx@[id])''')
    ep.at_start('let ghost m0 = self.expr_to_widx@; let ghost ops0 = self.ops@; let ghost nodes = self.graph.nodes@; let ghost mut kpos: Map<int, int> = Map::empty();')
    ep.at_loop_end(NEWHEAD, HINT_P + ''' proof {
                if nodes[expr_idx as int] is Public {
                    let k = self.ops@.len() - 1;
                    assert(public_op_at(self.ops@, k, self.expr_to_widx@[ExprId(expr_idx as u32)], nodes[expr_idx as int]->Public_0)); // @@A:public_op_loads_the_declared_position_into_this_nodes_slot
                    kpos = kpos.insert(expr_idx as int, k);
                }
            }''')
    ep.loop(NEWHEAD, invariants=[
        ('ctx', '''nodes_@ == nodes && nodes == self.graph.nodes@ && graph_wf(nodes) && publics_wf(nodes, self.public_rows@.len() as int) && is_prefix(ops0, self.ops@)
                && self.graph == old(self).graph && self.private_input_rows == old(self).private_input_rows && self.public_rows@.len() == old(self).public_rows@.len()'''),
        ('done_prefix', '''forall|i: int| 0 <= i < expr_idx && (#[trigger] nodes[i]) is Public ==> {
                    let id = ExprId(i as u32); let p = nodes[i]->Public_0;
                    &&& self.expr_to_widx@.dom().contains(id) && kpos.dom().contains(i) && ops0.len() <= kpos[i]
                    &&& self.public_rows@[p as int] == self.expr_to_widx@[id]
                    &&& self.public_mappings@.dom().contains(id) && self.public_mappings@[id] == self.expr_to_widx@[id]
                    &&& public_op_at(self.ops@, kpos[i], self.expr_to_widx@[id], p)
                }'''),
        ('only_publics', 'forall|k: int| ops0.len() <= k < self.ops@.len() ==> (#[trigger] self.ops@[k]) is Public'),
        ('rest_untouched', '''forall|id: ExprId| !((id.0 as int) < expr_idx && nodes[id.0 as int] is Public) ==>
                    (m0.dom().contains(id) <==> #[trigger] self.expr_to_widx@.dom().contains(id)) && self.expr_to_widx@[id] == m0[id]'''),
    ])
    ep.at_end('''proof {
            assert forall|i: int| 0 <= i < nodes.len() && (#[trigger] nodes[i]) is Public implies
                exists|k: int| ops0.len() <= k && #[trigger] public_op_at(self.ops@, k, self.expr_to_widx@[ExprId(i as u32)], nodes[i]->Public_0) by {
                assert(public_op_at(self.ops@, kpos[i], self.expr_to_widx@[ExprId(i as u32)], nodes[i]->Public_0));
            }
        }''')

    ev = ext('emit_privates')
    node_loop(ev)
    ev.rewrite_re('R6', r'self\.private_input_rows\[\*pos\] = (\w+);', r'self.private_input_rows.set(*pos, \1);', min_count=1)
    ev.after(*snap('PrivateInput'))
    ev.requires('graph', f'graph_wf({NODES}) && privates_wf({NODES}, old(self).private_input_rows@.len() as int)')
    ev.ensures('every_private_input_node_gets_the_slot_recorded_at_its_declared_position',
               f'''forall|i: int| 0 <= i < {NODES}.len() && (#[trigger] {NODES}[i]) is PrivateInput ==> {{
                    let id = ExprId(i as u32); let p = {NODES}[i]->PrivateInput_0;
                    &&& final(self).expr_to_widx@.dom().contains(id)
                    &&& final(self).private_input_rows@[p as int] == final(self).expr_to_widx@[id]
                }}''')
    ev.ensures('no_op_emitted_nothing_else_mapped', f'''final(self).ops@ == old(self).ops@ && final(self).graph == old(self).graph && final(self).public_rows == old(self).public_rows
            && final(self).public_mappings == old(self).public_mappings && final(self).private_input_rows@.len() == old(self).private_input_rows@.len()
            && (forall|id: ExprId| !((id.0 as int) < {NODES}.len() && {NODES}[id.0 as int] is PrivateInput) ==>
                    (old(self).expr_to_widx@.dom().contains(id) <==> #[trigger] final(self).expr_to_widx@.dom().contains(id)) && final(self).expr_to_widx@[id] == old(self).expr_to_widx@[id])''')
    ev.at_start('let ghost m0 = self.expr_to_widx@; let ghost nodes = self.graph.nodes@;')
    ev.at_loop_end(NEWHEAD, HINT_V)
    ev.loop(NEWHEAD, invariants=[
        ('ctx', '''nodes_@ == nodes && nodes == self.graph.nodes@ && graph_wf(nodes) && privates_wf(nodes, self.private_input_rows@.len() as int) && self.ops@ == old(self).ops@
                && self.graph == old(self).graph && self.public_rows == old(self).public_rows && self.public_mappings == old(self).public_mappings
                && self.private_input_rows@.len() == old(self).private_input_rows@.len()'''),
        ('done_prefix', '''forall|i: int| 0 <= i < expr_idx && (#[trigger] nodes[i]) is PrivateInput ==> {
                    let id = ExprId(i as u32); let p = nodes[i]->PrivateInput_0;
                    &&& self.expr_to_widx@.dom().contains(id)
                    &&& self.private_input_rows@[p as int] == self.expr_to_widx@[id]
                }'''),
        ('rest_untouched', '''forall|id: ExprId| !((id.0 as int) < expr_idx && nodes[id.0 as int] is PrivateInput) ==>
                    (m0.dom().contains(id) <==> #[trigger] self.expr_to_widx@.dom().contains(id)) && self.expr_to_widx@[id] == m0[id]'''),
    ])

    eo = ext('emit_operations')
    node_loop(eo)
    eo.requires('graph', f'graph_wf({NODES})')
    eo.requires('constants_already_lowered', f'consts_mapped({NODES}, old(self).expr_to_widx@)')
    eo.ensures('only_extends', '(ret is Ok ==> is_prefix(old(self).ops@, final(self).ops@)) && frame(*old(self), *final(self))')
    eo.at_start('let ghost nodes = self.graph.nodes@; let ghost ops00 = self.ops@;')
    eo.after(NEWHEAD + ' { let expr = &nodes_[expr_idx];', ' let ghost m_b = self.expr_to_widx@; let ghost ops_b = self.ops@;')
    eo.at_loop_end(NEWHEAD, '''proof {
                assert(expr_id == ExprId(expr_idx as u32)); // @@A:node_id_is_its_position
                assert(visit_ok(nodes, m_b, ops_b, self.expr_to_widx@, self.ops@, ExprId(expr_idx as u32), nodes[expr_idx as int])); // @@A:node_dispatched_to_the_emitter_of_its_own_kind_with_its_own_operands
                assert(submap(m_b, self.expr_to_widx@) || self.expr_to_widx@ == m_b.insert(expr_id, self.expr_to_widx@[expr_id]));
                assert(is_prefix(ops_b, self.ops@));
                assert(self.ops@.subrange(0, ops00.len() as int) =~= ops_b.subrange(0, ops00.len() as int));
            }''')
    eo.loop(NEWHEAD, invariants=[
        ('ctx', 'nodes_@ == nodes && nodes == self.graph.nodes@ && graph_wf(nodes) && frame(*old(self), *self) && is_prefix(ops00, self.ops@)'),
        ('constants_stay_mapped', 'consts_mapped(nodes, self.expr_to_widx@)'),
    ])

    u.text("verus! {\nimpl<'a, F: Field> LoweringState<'a, F> {")
    for f in fns:
        u.emit(f, vis='')
    u.text('}\n}')
    return u
