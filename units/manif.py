"""Unit `manif` (C16): VerifierManifest::matches (circuit-prover/src/manifest.rs) -- the caller-side gate that compares a proof's declared
metadata with the verifier's expected table set: Ok exactly when extension degree, reduction parameters, ALU variant and the list of
non-primitive tables (types IN ORDER, AIR variants, public-value lengths) all agree."""
import re

from vf.unit import Unit, unfind_let_else

PRELUDE = r'''
#![allow(unused_imports, unused_variables, dead_code, unused_mut, unused_parens)]
use vstd::prelude::*;
verus! {
global size_of usize == 8;
#[derive(Clone, Copy, PartialEq, Eq, Structural)] pub struct NpoTypeId(pub u64);
#[derive(Clone, Copy, PartialEq, Eq, Structural)] pub struct AirVariant(pub u8);
#[derive(Clone, Copy, PartialEq, Eq, Structural)] pub struct BaseVal(pub u64);
/// the manifest's field element type F and its conversion into the proof's base field (`F: Into<Val<SC>>`)
#[derive(Clone, Copy, PartialEq, Eq, Structural)] pub struct MF(pub u64);
pub uninterp spec fn sp_into(w: MF) -> BaseVal;
impl MF { #[verifier::external_body] pub fn into(self) -> (r: BaseVal) ensures r == sp_into(self) { unimplemented!() } }
pub enum AluExtMulKind { Base, Binomial { w: MF }, QuinticTrinomial }
pub struct ExpectedNpoEntry { pub op_type: NpoTypeId, pub air_variant: AirVariant, pub public_values_len: usize }
pub struct VerifierManifest { pub ext_degree: usize, pub reduction: AluExtMulKind, pub alu_variant: AirVariant, pub expected_npo: Vec<ExpectedNpoEntry> }
pub struct NonPrimitiveTableEntry { pub op_type: NpoTypeId, pub air_variant: AirVariant, pub public_values: Vec<BaseVal> }
pub struct BatchStarkProof { pub ext_degree: usize, pub w_binomial: Option<BaseVal>, pub alu_quintic_trinomial: bool, pub alu_variant: AirVariant, pub non_primitives: Vec<NonPrimitiveTableEntry> }
pub enum ProofMetadataError {
    ExtDegreeMismatch { expected: usize, got: usize }, BinomialWMismatch, QuinticReductionMismatch { expected: bool, got: bool },
    AluVariantMismatch { expected: AirVariant, got: AirVariant }, NpoCountMismatch { expected: usize, got: usize },
    NpoOpTypeMismatch { index: usize, expected: NpoTypeId, got: NpoTypeId }, NpoAirVariantMismatch { index: usize, expected: AirVariant, got: AirVariant },
    NpoPublicValueLenMismatch { index: usize, expected: usize, got: usize },
}
pub open spec fn sp_expected_w(r: AluExtMulKind) -> Option<BaseVal> { match r { AluExtMulKind::Binomial { w } => Some(sp_into(w)), _ => None } }
pub open spec fn sp_expected_quintic(r: AluExtMulKind) -> bool { r is QuinticTrinomial }
/// entry i of the proof is the i-th expected table
pub open spec fn npo_matches(e: NonPrimitiveTableEntry, x: ExpectedNpoEntry) -> bool { e.op_type == x.op_type && e.air_variant == x.air_variant && e.public_values@.len() == x.public_values_len }
/// the proof declares exactly the verifier's expected table set: same parameters, same tables in the same order
pub open spec fn manifest_matches(m: &VerifierManifest, p: &BatchStarkProof) -> bool {
    p.ext_degree == m.ext_degree && p.w_binomial == sp_expected_w(m.reduction) && p.alu_quintic_trinomial == sp_expected_quintic(m.reduction) && p.alu_variant == m.alu_variant
    && p.non_primitives@.len() == m.expected_npo@.len()
    && forall|i: int| 0 <= i < p.non_primitives@.len() ==> npo_matches(#[trigger] p.non_primitives@[i], m.expected_npo@[i])
}
} // verus!
'''


def build():
    u = Unit('manif', ['C16'])
    u.rlimit = 50
    u.assume('SC / Val<SC> / F erased to opaque base-value stand-ins (R11); `w.into()` is an uninterpreted function of w; option / enum equality is structural')
    u.text(PRELUDE)
    M = 'circuit-prover/src/manifest.rs'
    f = u.extract(M, r'impl<F: Copy> VerifierManifest<F>', 'matches', 'VerifierManifest::matches')
    f.set_sig('R11', 'fn matches(&self, proof: &BatchStarkProof) -> Result<(), ProofMetadataError>')
    f.rewrite_re('R11', r'let \(expected_w, expected_quintic\): \(Option<Val<SC>>, bool\) =', 'let (expected_w, expected_quintic): (Option<BaseVal>, bool) =', min_count=0)
    # R5: zip/enumerate loops over the two lists -> index loops over the common prefix
    f.rewrite_re('R5', r'for \((\w+), \((\w+), (\w+)\)\) in ([\w.\s]+?)\s*\.\s*iter\(\)\s*\.\s*zip\(&([\w.]+)\)\s*\.\s*enumerate\(\)\s*\{',
                 lambda m: (f'let n_ze_ = if {"".join(m.group(4).split())}.len() <= {m.group(5)}.len() {{ {"".join(m.group(4).split())}.len() }} else {{ {m.group(5)}.len() }}; '
                            f'for {m.group(1)} in 0..n_ze_ {{ let {m.group(2)} = &{"".join(m.group(4).split())}[{m.group(1)}]; let {m.group(3)} = &{m.group(5)}[{m.group(1)}];'), min_count=0)
    f.rewrite_re('R5', r'for \((\w+), (\w+)\) in ([\w.\s]+?)\s*\.\s*iter\(\)\s*\.\s*enumerate\(\)\s*\{',
                 lambda m: f'for {m.group(1)} in 0..{"".join(m.group(3).split())}.len() {{ let {m.group(2)} = &{"".join(m.group(3).split())}[{m.group(1)}];', min_count=0)
    unfind_let_else(f)
    f.ensures('ok_exactly_when_the_declared_metadata_is_the_expected_table_set', 'ret is Ok <==> manifest_matches(self, proof)')
    for head in ('for i in 0..n_ze_', 'for i in 0..proof.non_primitives.len()'):
        if head in f.body:
            extra_ = ' && n_ze_ == proof.non_primitives@.len()' if 'n_ze_' in head else ''
            f.loop(head, invariants=[
                ('entries_checked_so_far_match', '''proof.ext_degree == self.ext_degree && proof.w_binomial == sp_expected_w(self.reduction) && proof.alu_quintic_trinomial == sp_expected_quintic(self.reduction) && proof.alu_variant == self.alu_variant
                    && proof.non_primitives@.len() == self.expected_npo@.len() && (forall|j: int| 0 <= j < i ==> npo_matches(#[trigger] proof.non_primitives@[j], self.expected_npo@[j]))''' + extra_),
            ])
            break
    u.text('verus! {\nimpl VerifierManifest {')
    u.emit(f)
    u.text('}\n}')
    return u
