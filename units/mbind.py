"""Unit `mbind` (C08, soundness side): which values a Merkle-path / leaf-hash permutation row is actually tied to.

Real text: circuit/src/ops/mmcs.rs  CircuitBuilder::add_mmcs_verify[path + tail slice]  (R13: from `let has_tail` through the tail block)
The facts about the table are spec predicates transcribed from the AIR / executor text (poseidon2-circuit-air/src/air.rs
eval_interactions: input-limb bus multiplicity = in_ctl * (1 - merkle_path); executor.rs: a given limb on a Merkle row is
registered `no_read`; the direction bit reaches the bus only through mmcs_index_sum).  The obligations say that every value
add_mmcs_verify hands to a row is tied to that row; they fail on the unchanged tree (known findings, forged proofs in findings/)."""
import os
import re

from vf.unit import Unit
from units.chal import STUBS as CHAL_STUBS
from units.hash import SPEC as HASH_SPEC

HERE = os.path.dirname(os.path.abspath(__file__))

SPEC = r'''
verus! {
/// AIR fact (air.rs eval_interactions): the bus send of a given input limb has multiplicity in_ctl * (1 - merkle_path):
/// on a Merkle-mode row a given limb is NOT read from the witness bus
pub open spec fn given_limbs_tied(call: &PermCall) -> bool { !call.merkle_path }
/// AIR fact: mmcs_bit is only asserted boolean; it is tied to a witness value only through the mmcs_index_sum accumulator
pub open spec fn direction_bit_tied(call: &PermCall) -> bool { call.mmcs_bit is Some ==> call.mmcs_index_sum is Some }
pub open spec fn some_given(call: &PermCall) -> bool { exists|j: int| 0 <= j < call.inputs@.len() && (#[trigger] call.inputs@[j]) is Some }
pub fn min_(a: usize, b: usize) -> (r: usize) ensures r == (if a <= b { a as int } else { b as int }) { if a <= b { a } else { b } }
} // verus!
'''


def build():
    u = Unit('mbind', ['C08'])
    u.rlimit = 60
    u.assume('table facts transcribed from poseidon2-circuit-air/src/air.rs eval_interactions and ops/poseidon_perm/executor.rs: a given input limb is bus-read with multiplicity in_ctl*(1-merkle_path); '
             'mmcs_bit is only boolean-asserted and tied to a witness value only through mmcs_index_sum')
    u.assume('R13 slice: the no-path early return, the final output collection and the root connection of add_mmcs_verify are outside the slice; locals bound before the slice are parameters')
    u.isolate_h = True      # direction_bit_tied(&call_) is plainly FALSE for these calls (mmcs_bit given, no index accumulator): a leaked failed assertion would discharge everything after it vacuously
    u.text(open(os.path.join(HERE, 'gadget_prelude.rs')).read())
    u.text('verus! {\nglobal size_of usize == 8;\n}')
    u.text(CHAL_STUBS)
    u.text(HASH_SPEC)
    u.text(SPEC)
    u.text('''verus! {
/// the levels below i that get an injection row in the native walk: every level after the first whose digest list is not empty (matrices of that height exist)
pub open spec fn count_inj(s: Seq<Vec<ExprId>>, i: int) -> int decreases i { if i <= 0 { 0 } else { count_inj(s, i - 1) + (if i - 1 > 0 && s[i - 1]@.len() > 0 { 1int } else { 0int }) } }
}''')
    M = 'circuit/src/ops/mmcs.rs'
    f = u.extract(M, r'impl<F: Field> CircuitBuilder<F>', 'add_mmcs_verify', 'CircuitBuilder::add_mmcs_verify[path_and_tail]')
    f.drop_prefix_before('let has_tail = openings_expr.len() > directions_expr.len()',
                         'prefix: config conversion, width/rate, op_ids/output/zero locals (parameters here) and the no-path early return (leaf connected to the root directly)')
    # keep through the tail block: truncate after the `if has_tail { .. }` statement
    i = f.body.index('if has_tail {')
    from vf.extract import match_brace
    j = match_brace(f.body, f.body.index('{', i))
    dropped = len(f.body) - j - 1
    f.body = f.body[:j + 1] + '\nOk(op_ids)\n}'
    f.rewrites.append(('R13', f'function body truncated after the `if has_tail` block ({dropped} chars dropped)', 'suffix: collection of the final output limbs and their connection to the claimed root'))
    f.set_sig('R11', 'fn add_mmcs_verify(&mut self, permutation_config: PermConfig, openings_expr: &[Vec<ExprId>], directions_expr: &[ExprId], width_ext: usize, rate_ext: usize, '
                     'mut op_ids: Vec<NonPrimitiveOpId>, mut output: Vec<Option<ExprId>>, zero: ExprId) -> Result<Vec<NonPrimitiveOpId>, CircuitBuilderError>', sliced=True)
    f.rewrite_re('R5', r'for \(i, \(row_digest, direction\)\) in path_openings\.iter\(\)\.zip\(directions_expr\)\.enumerate\(\) \{',
                 'for i in 0..path_openings.len() { let row_digest = &path_openings[i]; let direction = &directions_expr[i];', min_count=1)
    f.rewrite_re('R5', r'for \((\w+), &(\w+)\) in (\w+)\.iter\(\)\.take\((\w+)\)\.enumerate\(\) \{', r'for \1 in 0..min_(\3.len(), \4) { let \2 = \3[\1];', min_count=1)
    f.rewrite_re('R6', r'let _ = (self\.add_perm\()', r'let _u = \1', min_count=0)
    f.requires('geometry', 'directions_expr@.len() > 0 && directions_expr@.len() <= openings_expr@.len() && width_ext == permutation_config.wext && rate_ext == permutation_config.rext '
                           '&& 2 * rate_ext <= width_ext && width_ext < 0x1_0000')
    f.loop('for i in 0..path_openings.len()', invariants=[
        ('shape', 'path_openings@.len() == directions_expr@.len() && width_ext == permutation_config.wext && rate_ext == permutation_config.rext && 2 * rate_ext <= width_ext && width_ext < 0x1_0000 && directions_expr@.len() > 0'),
        # C08 (round 19): native verify_batch folds the matrices of a height in at EVERY level, the last one below the root / cap included
        ('every_level_after_the_first_with_a_digest_got_its_injection_row', 'n_inj == count_inj(path_openings@, i as int)')])
    f.at_start('let ghost mut n_inj: int = 0;')
    # inner copy loops (3 of them: injected digest, first-row digest, tail): inputs keeps its length
    body = f.body
    n = len(re.findall(r'for j in 0\.\.min_\(', body))
    for k in range(n):
        f.loop('for j in 0..min_(', invariants=[('len', 'inputs@.len() == width_ext && 2 * rate_ext <= width_ext')], nth=k)
    # ---- the obligations: every value handed to a row must be tied to it
    calls = [m.start() for m in re.finditer(r'self\.add_perm\(', f.body)]
    labels = ['injected_lower_height_digest_row', 'compression_row', 'tail_digest_row']
    for k in reversed(range(len(calls))):
        st = calls[k]
        # find the `&PermCall { .. }` literal of this call and bind it so that the obligations can talk about it
        lab = labels[k] if k < len(labels) else f'row{k}'
        op = f.body.index('&PermCall {', st)
        cl = match_brace(f.body, f.body.index('{', op))
        lit = f.body[op + 1:cl + 1]
        # statement start: walk back to the preceding `let`
        ls = f.body.rfind('let ', 0, st)
        new_call = f.body[ls:op] + '&call_' + f.body[cl + 1:]
        pre = (f'let call_ = {lit};\nproof {{\n'
               f'    assert(some_given(&call_) ==> given_limbs_tied(&call_)); // @@A:H_{lab}_given_limbs_tied_to_the_row\n'
               f'    assert(direction_bit_tied(&call_)); // @@A:H_{lab}_direction_bit_tied\n' + ('    n_inj = n_inj + 1;\n' if k == 0 else '') + '}\n')
        f.body = f.body[:ls] + pre + new_call
        f.rewrites.append(('SPEC-bind-arg', f'PermCall literal of the {lab} bound to a local before the call', ''))
    u.text('verus! {\nimpl<F: Field> CircuitBuilder<F> {')
    u.emit(f)
    u.text('}\n}')
    return u
