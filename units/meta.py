"""Unit `meta` (C16): proof metadata validators accept exactly the well-formed metadata, and the builder methods
only produce well-formed metadata.  Real text: circuit-prover/src/batch_stark_prover/packing.rs TablePacking::{new,
with_horner_pack_k, with_public_alu_lanes, validate}; circuit-prover/src/batch_stark_prover.rs RowCounts::{new, validate}."""
import re

from vf.extract import ExtractError, extract_item
from vf.unit import Unit

PRELUDE = r'''
#![allow(unused_imports, unused_variables, dead_code, unused_mut, unused_parens)]
use vstd::prelude::*;
verus! {
global size_of usize == 8;
pub struct NpoTypeId { pub _p: () }
impl Clone for NpoTypeId { #[verifier::external_body] fn clone(&self) -> (r: Self) { unimplemented!() } }
pub enum ProofMetadataError { ZeroRowCount, ZeroLanes(&'static str), ZeroNpoLanes(NpoTypeId), BadMinTraceHeight(usize), BadHornerPackedSteps(usize), UnsupportedExtDegree(usize), Other }
pub const NUM_PRIMITIVE_TABLES: usize = 3;   // PrimitiveTable::{Const, Public, Alu}
pub open spec fn is_pow2(n: nat) -> bool decreases n { n == 1 || (n > 1 && n % 2 == 0 && is_pow2(n / 2)) }
#[verifier::external_body]
pub fn usize_is_power_of_two(n: usize) -> (r: bool) ensures r == is_pow2(n as nat) { n.is_power_of_two() }
#[verifier::external_body]
/// usize::next_power_of_two (panics / wraps above 2^63: excluded by the precondition of its caller)
#[verifier::external_body]
pub fn usize_next_power_of_two(n: usize) -> (r: usize) requires n <= 0x8000_0000_0000_0000 ensures is_pow2(r as nat), r >= n, r >= 1 { unimplemented!() }
pub fn usize_max(a: usize, b: usize) -> (r: usize) ensures r == (if a >= b { a } else { b }) { a.max(b) }
@@TYPES@@
impl TablePacking {
    /// well-formed packing metadata (what AIR reconstruction divides by / shifts with)
    pub open spec fn wf(&self) -> bool {
        &&& self.public_lanes > 0 && self.alu_lanes > 0
        &&& forall|i: int| 0 <= i < self.npo_lanes@.len() ==> (#[trigger] self.npo_lanes@[i]).1 > 0
        &&& is_pow2(self.min_trace_height as nat)
        &&& self.horner_packed_steps >= 2
    }
}
// ---- verify_all_tables: the fields of the self-declared metadata it compares against verifier-derived values
#[derive(Clone, Copy, PartialEq, Eq, Structural)]
pub struct BaseVal(pub u64);
pub struct BatchStarkProofMeta { pub ext_degree: usize, pub w_binomial: Option<BaseVal>, pub alu_quintic_trinomial: bool, pub well_formed: bool }
impl BatchStarkProofMeta {
    /// BatchStarkProof::validate (conjunction of the validators above) — callee contract
    #[verifier::external_body]
    pub fn validate(&self) -> (r: Result<(), BatchStarkProverError>) ensures r is Ok <==> self.well_formed { unimplemented!() }
}
pub enum BatchStarkProverError { Metadata(ProofMetadataError), Other }
pub enum MetaErr { ExtDegreeMismatch { expected: usize, got: usize }, BinomialWMismatch, QuinticReductionMismatch { expected: bool, got: bool } }
impl MetaErr { #[verifier::external_body] pub fn into(self) -> BatchStarkProverError { unimplemented!() } }
pub uninterp spec fn sp_dimension() -> nat;
pub uninterp spec fn sp_extract_w() -> Option<BaseVal>;
pub uninterp spec fn sp_is_quintic() -> bool;
pub struct EFStub;
impl EFStub {
    #[verifier::external_body] pub fn dimension() -> (r: usize) ensures r == sp_dimension() { unimplemented!() }
    #[verifier::external_body] pub fn extract_w() -> (r: Option<BaseVal>) ensures r == sp_extract_w() { unimplemented!() }
    #[verifier::external_body] pub fn alu_is_quintic_trinomial() -> (r: bool) ensures r == sp_is_quintic() { unimplemented!() }
}
pub struct ProverStub { pub _p: () }
impl RowCounts {
    pub open spec fn wf(&self) -> bool { forall|i: int| 0 <= i < NUM_PRIMITIVE_TABLES ==> #[trigger] self.0@[i] > 0 }
}
} // verus!
'''


def types():
    tp = extract_item('circuit-prover/src/batch_stark_prover/packing.rs', r'pub struct TablePacking\b')
    tp = re.sub(r'#\[serde[^\]]*\]\s*', '', tp)
    tp = re.sub(r'(\n\s+)(\w+):', r'\1pub \2:', tp)
    rc = extract_item('circuit-prover/src/batch_stark_prover.rs', r'pub struct RowCounts\(')
    rc = rc.replace('RowCounts([usize', 'RowCounts(pub [usize')
    pt = extract_item('circuit/src/ops/op.rs', r'pub enum PrimitiveOpType\b')
    pt = re.sub(r'///[^\n]*\n', '', pt)
    return tp + '\n' + rc + '\n#[derive(Clone, Copy)]\n' + pt + '\npub type PrimitiveTable = PrimitiveOpType;\n'


def build():
    u = Unit('meta', ['C16'])
    u.assume('serde derives, NpoTypeId and error payloads are opaque; usize::is_power_of_two / max have their mathematical specification')
    u.text(PRELUDE.replace('@@TYPES@@', types()))
    P = 'circuit-prover/src/batch_stark_prover/packing.rs'
    n = u.extract(P, r'impl TablePacking', 'new', 'TablePacking::new')
    n.sig_rewrite('R12', '-> Self', '-> TablePacking')
    n.rewrite_re('R12', r'\bSelf\s*\{', 'TablePacking {')
    n.rewrite('R11', 'public_lanes.max(1)', 'usize_max(public_lanes, 1)')
    n.rewrite('R11', 'alu_lanes.max(1)', 'usize_max(alu_lanes, 1)')
    n.ensures('well_formed', 'ret.wf()')
    h = u.extract(P, r'impl TablePacking', 'with_horner_pack_k', 'TablePacking::with_horner_pack_k')
    h.sig_rewrite('R2', 'mut self', 'self')
    h.sig_rewrite('R12', '-> Self', '-> TablePacking')
    h.rewrite_re('R2', r'\bself\b', 'self_', min_count=2)
    h.at_start('let mut self_ = self;')
    h.rewrite('R9', 'assert!(k >= 2, "horner_packed_steps must be at least 2");', 'assert(k >= 2);')
    h.requires('documented_panic', 'k >= 2')
    h.requires('wf', 'self.wf()')
    h.ensures('well_formed', 'ret.wf() && ret.horner_packed_steps == k')
    # with_min_trace_height: whatever height the caller asks for, the packing handed out is one `validate` accepts (C10: a proof made with it verifies; C16: what the prover records is well-formed)
    mh = u.extract(P, r'impl TablePacking', 'with_min_trace_height', 'TablePacking::with_min_trace_height')
    mh.sig_rewrite('R2', 'mut self', 'self')
    mh.sig_rewrite('R12', '-> Self', '-> TablePacking')
    mh.rewrite_re('R2', r'\bself\b', 'self_', min_count=1)
    mh.at_start('let mut self_ = self;')
    mh.rewrite_re('R11', r'(\w+)\.next_power_of_two\(\)', r'usize_next_power_of_two(\1)', min_count=0)
    mh.rewrite_re('R11', r'(usize_next_power_of_two\(\w+\)|\b\w+)\.max\(1\)', r'usize_max(\1, 1)', min_count=0)
    mh.requires('wf', 'self.wf()')
    mh.requires('the_rounded_height_fits', 'min_trace_height <= 0x4000_0000_0000_0000')
    mh.ensures('the_packing_handed_out_is_one_validate_accepts', 'ret.wf()')
    l = u.extract(P, r'impl TablePacking', 'with_public_alu_lanes', 'TablePacking::with_public_alu_lanes')
    l.rewrite_re('R2', r'\bmut self\b', 'self', where='sig', min_count=0)
    l.sig_rewrite('R12', '-> Self', '-> TablePacking')
    l.rewrite_re('R2', r'\bself\b', 'self_', min_count=1)
    l.at_start('let mut self_ = self;')
    l.rewrite_re('R11', r'\b(public_lanes|alu_lanes)\.max\(1\)', r'usize_max(\1, 1)', min_count=0)
    l.rewrite_re('R12', r'\bSelf\b(?=\s*(\{|::))', 'TablePacking', min_count=0)
    l.requires('wf', 'self.wf()')
    l.ensures('well_formed', 'ret.wf()')
    l.ensures('only_the_two_primitive_lane_counts_change', 'ret.horner_packed_steps == self.horner_packed_steps && ret.npo_lanes@ == self.npo_lanes@ && ret.min_trace_height == self.min_trace_height')
    v = u.extract(P, r'impl TablePacking', 'validate', 'TablePacking::validate')
    v.rewrite('R5', 'for (op_type, lanes) in &self.npo_lanes {', 'for q_ in 0..self.npo_lanes.len() { let (op_type, lanes) = (&self.npo_lanes[q_].0, &self.npo_lanes[q_].1);')
    v.rewrite('R11', '!self.min_trace_height.is_power_of_two()', '!usize_is_power_of_two(self.min_trace_height)')
    v.ensures('ok_iff_well_formed', 'ret is Ok <==> self.wf()')
    # the verifier builds its AIRs from these proof-declared numbers: widths = lanes * lane width etc. are computed unchecked (alu_air.rs, public_air.rs, alu_columns.rs)
    v.ensures('H_the_declared_lane_counts_and_packing_are_small_enough_for_the_width_arithmetic', 'ret is Ok ==> self.public_lanes < 0x1_0000_0000 && self.alu_lanes < 0x1_0000_0000 && self.horner_packed_steps < 0x1_0000_0000')
    v.loop('for q_ in 0..self.npo_lanes.len()', invariants=[('checked', 'forall|i: int| 0 <= i < q_ ==> (#[trigger] self.npo_lanes@[i]).1 > 0')])
    # ---------------------------------------------------------------- BatchStarkProver::prove[recorded_packing]: which packing the proof records (C16 / C17 / C10)
    # the proof's table_packing is the ONLY carrier of horner_packed_steps (and of the per-table lane overrides) to the native verifier and to the next layer's in-circuit verifier
    from units.order import _stmt_at
    rp = u.extract('circuit-prover/src/batch_stark_prover.rs', r'impl<SC> BatchStarkProver<SC>', 'prove', 'BatchStarkProver::prove[recorded_packing]')
    st_ = _stmt_at(rp.body, r'let effective_packing\s*=')
    if st_ is None:
        raise ExtractError('lost anchor in BatchStarkProver::prove[recorded_packing]: `let effective_packing = ..;`')
    rp.rewrites.append(('R13', 'function body := the statement `let effective_packing = ..;`, then the local effective_packing', 'everything else of prove (traces, AIRs, the STARK proof, the other metadata fields)'))
    rp.body = '{\n' + st_ + '\neffective_packing\n}'
    rp.set_sig('R11', 'fn prove_recorded_packing(self_table_packing: &TablePacking, public_lanes: usize, alu_lanes: usize, min_height: usize) -> TablePacking', sliced=True)
    rp.rewrite_re('R11', r'self\s*\.table_packing\s*\.clone\(\)', 'clone_packing(self_table_packing)', min_count=0)
    rp.requires('the_provers_packing_is_well_formed', 'self_table_packing.wf() && min_height <= 0x4000_0000_0000_0000')
    rp.ensures('the_proof_records_the_horner_packing_and_lane_overrides_it_was_made_with',
               'ret.horner_packed_steps == self_table_packing.horner_packed_steps && ret.npo_lanes@ == self_table_packing.npo_lanes@')
    u.text('verus! {\nimpl TablePacking {')
    for f in (n, h, mh, l, v):
        u.emit(f)
    u.text('}\n}')
    u.text('verus! {\n#[verifier::external_body] pub fn clone_packing(p: &TablePacking) -> (r: TablePacking) ensures r.public_lanes == p.public_lanes, r.alu_lanes == p.alu_lanes, r.npo_lanes@ == p.npo_lanes@, r.min_trace_height == p.min_trace_height, r.horner_packed_steps == p.horner_packed_steps { unimplemented!() }')
    u.emit(rp)
    u.text('}')

    B = 'circuit-prover/src/batch_stark_prover.rs'
    rn = u.extract(B, r'impl RowCounts', 'new', 'RowCounts::new')
    rn.sig_rewrite('R12', '-> Self', '-> RowCounts')
    rn.rewrite('R12', 'Self(rows)', 'RowCounts(rows)')
    rn.rewrite('R9', 'assert!(rows[i] > 0);', 'assert(rows[i as int] > 0);')
    rn.requires('documented_panic', 'forall|i: int| 0 <= i < NUM_PRIMITIVE_TABLES ==> #[trigger] rows@[i] > 0')
    rn.ensures('well_formed', 'ret.wf() && ret.0 == rows')
    rn.loop('while i < rows.len()', invariants=[('pre', 'i <= rows@.len() && rows@.len() == NUM_PRIMITIVE_TABLES && forall|q: int| 0 <= q < NUM_PRIMITIVE_TABLES ==> #[trigger] rows@[q] > 0')], decreases='rows@.len() - i')
    rv = u.extract(B, r'impl RowCounts', 'validate', 'RowCounts::validate')
    rv.ensures('ok_iff_well_formed', 'ret is Ok <==> self.wf()')
    if 'self.0.contains(&0)' in ' '.join(rv.body.split()):
        rv.rewrite('R6', 'self.0.contains(&0)', '({ let mut any_ = false; for q_ in 0..self.0.len() { if self.0[q_] == 0 { any_ = true; } } any_ })')
        rv.loop('for q_ in 0..self.0.len()', invariants=[('any', 'self.0@.len() == NUM_PRIMITIVE_TABLES && any_ == exists|i: int| 0 <= i < q_ && #[trigger] self.0@[i] == 0')])
    else:
        # another way of walking the counts: no loop contract can be attached to text the unit does not know; the function is judged by its postcondition (a loop without an invariant havocs what it writes)
        rv.attr('#[verifier::exec_allows_no_decreases_clause]')
    u.text('verus! {\nimpl RowCounts {')
    u.emit(rn)
    u.emit(rv)
    u.text('}\n}')


    # ------------------------------------------------------------------ NonPrimitiveTableEntry::validate, BatchStarkProof::validate
    u.text('''verus! {
/// the fields of NonPrimitiveTableEntry / BatchStarkProof that `validate` reads
pub struct NonPrimitiveTableEntry { pub op_type: NpoTypeId, pub lanes: usize, pub rows: usize }
pub struct BatchStarkProof { pub ext_degree: usize, pub rows: RowCounts, pub table_packing: TablePacking, pub non_primitives: Vec<NonPrimitiveTableEntry> }
pub open spec fn supported_ext_degree(d: usize) -> bool { d == 1 || d == 2 || d == 4 || d == 5 || d == 6 || d == 8 }
impl RowCounts { #[verifier::external_body] pub fn validate_(&self) -> (r: Result<(), ProofMetadataError>) ensures r is Ok <==> self.wf() { unimplemented!() } }
impl TablePacking { #[verifier::external_body] pub fn validate_(&self) -> (r: Result<(), ProofMetadataError>) ensures r is Ok <==> self.wf() { unimplemented!() } }
}''')
    ev = u.extract(B, r'impl<SC: StarkGenericConfig> NonPrimitiveTableEntry<SC>', 'validate', 'NonPrimitiveTableEntry::validate')
    ev.ensures('ok_iff_lanes_non_zero', 'ret is Ok <==> self.lanes > 0')
    bv = u.extract(B, r'impl<SC> BatchStarkProof<SC>', 'validate', 'BatchStarkProof::validate')
    bv.rewrite_re('R11', r'self\.rows\.validate\(\)', 'self.rows.validate_()', min_count=0)
    bv.rewrite_re('R11', r'self\.table_packing\.validate\(\)', 'self.table_packing.validate_()', min_count=0)
    bv.rewrite_re('R5', r'for (\w+) in &self\.non_primitives \{', r'for np_ in 0..self.non_primitives.len() { let \1 = &self.non_primitives[np_];', min_count=0)
    bv.ensures('ok_iff_every_structural_invariant_holds', '''ret is Ok <==> (supported_ext_degree(self.ext_degree) && self.rows.wf() && self.table_packing.wf()
            && forall|i: int| 0 <= i < self.non_primitives@.len() ==> (#[trigger] self.non_primitives@[i]).lanes > 0)''')
    if 'for np_ in 0..self.non_primitives.len()' in bv.body:
        bv.loop('for np_ in 0..self.non_primitives.len()', invariants=[('checked', 'forall|i: int| 0 <= i < np_ ==> (#[trigger] self.non_primitives@[i]).lanes > 0')])
    u.text('verus! {\nimpl NonPrimitiveTableEntry {')
    u.emit(ev)
    u.text('}\nimpl BatchStarkProof {')
    u.emit(bv)
    u.text('}\n}')
    va = u.extract(B, r'impl<SC> BatchStarkProver<SC>', 'verify_all_tables', 'BatchStarkProver::verify_all_tables[metadata prefix]')
    va.set_sig('R11', 'fn verify_all_tables(&self, proof: &BatchStarkProofMeta) -> Result<Option<BaseVal>, BatchStarkProverError>')
    va.truncate_after('let common = &proof.stark_common;', 'Ok(expected_w)', 'suffix dispatches to verify::<D>(proof, expected_w, common) with the VERIFIER-derived w')
    va.rewrite('R13', 'let common = &proof.stark_common;', '')
    va.rewrite_re('R11', r'\bEF::DIMENSION\b', 'EFStub::dimension()', min_count=3)
    va.rewrite('R11', 'EF::extract_w()', 'EFStub::extract_w()')
    va.rewrite('R11', 'EF::alu_is_quintic_trinomial()', 'EFStub::alu_is_quintic_trinomial()')
    va.rewrite_re('R11', r'\bProofMetadataError::(ExtDegreeMismatch|BinomialWMismatch|QuinticReductionMismatch)\b', r'MetaErr::\1', min_count=3)
    va.ensures('metadata_must_match_verifier_expectation', '''ret matches Ok(w) ==> proof.well_formed && proof.ext_degree == sp_dimension()
            && proof.w_binomial == (if sp_dimension() > 1 { sp_extract_w() } else { None })
            && proof.alu_quintic_trinomial == (sp_dimension() == 5 && sp_is_quintic())
            && w == proof.w_binomial''')
    u.text('verus! {\nimpl ProverStub {')
    u.emit(va)
    u.text('}\n}')
    return u
