"""Unit `mmcs` (C08 kernel): cap selection by the remaining index bits.  Real text: recursion/src/pcs/mmcs.rs select_cap_entry."""
import os

from vf.unit import Unit

HERE = os.path.dirname(os.path.abspath(__file__))

SPEC = r'''
verus! {
global size_of usize == 8;
pub open spec fn is_bool<F: Field>(v: F) -> bool { v == F::fzero() || v == F::fone() }
pub open spec fn bitv<F: Field>(v: F) -> int { if v == F::fone() { 1 } else { 0 } }
pub open spec fn pow2i(k: int) -> int decreases k { if k <= 0 { 1 } else { 2 * pow2i(k - 1) } }
/// little-endian index formed by the first k bits
pub open spec fn idx_lo<F: Field>(bits: Seq<F>, k: int) -> int decreases k {
    if k <= 0 { 0 } else { idx_lo(bits, k - 1) + bitv(bits[k - 1]) * pow2i(k - 1) }
}
pub proof fn lemma_idx_lo_range<F: Field>(bits: Seq<F>, k: int)
    requires 0 <= k <= bits.len()
    ensures 0 <= idx_lo(bits, k) < pow2i(k)
    decreases k
{ if k > 0 { lemma_idx_lo_range(bits, k - 1); } }
pub proof fn lemma_pow2i_pos(k: int) ensures pow2i(k) >= 1 decreases k { if k > 0 { lemma_pow2i_pos(k - 1); } }

/// l + 0*(r-l) = l   and   l + 1*(r-l) = r
pub proof fn lemma_select<F: Field>(b: F, l: F, r: F)
    requires is_bool(b)
    ensures b.fmul(r.fsub(l)).fadd(l) == (if b == F::fone() { r } else { l })
{
    let d = r.fsub(l);
    F::zero_ne_one();
    if b == F::fone() {
        lemma_one_mul(d); F::sub_def(r, l);
        F::add_assoc(r, l.fneg(), l); F::add_comm(l.fneg(), l); F::add_neg(l); F::add_zero(r);
    } else {
        let z = F::fzero(); let zd = z.fmul(d);
        F::add_zero(z); F::mul_comm(z, d); F::distrib(d, z, z); F::mul_comm(d, z);
        assert(zd == zd.fadd(zd));
        F::add_neg(zd); F::add_assoc(zd, zd, zd.fneg()); F::add_zero(zd);
        lemma_zero_add(l);
    }
}
pub open spec fn rows_ok<F: Field>(cb: &CircuitBuilder<F>, rows: Seq<Vec<ExprId>>, w: int) -> bool {
    forall|i: int| 0 <= i < rows.len() ==> (#[trigger] rows[i])@.len() == w && cb.has_all(rows[i]@)
}
} // verus!
'''


def build():
    u = Unit('mmcs', ['C08'])
    u.rlimit = 150
    u.assume('builder arithmetic contracts as in unit gad (assumed); field laws; 64-bit usize; slice::to_vec returns the same sequence')
    u.text(open(os.path.join(HERE, 'gadget_prelude.rs')).read())
    u.text(SPEC)
    M = 'recursion/src/pcs/mmcs.rs'
    s = u.extract(M, '', 'select_cap_entry', 'select_cap_entry')
    s.set_sig('R11', 'fn select_cap_entry<EF: FieldX>(circuit: &mut CircuitBuilder<EF>, cap: &[Vec<Target>], index_bits: &[Target]) -> Vec<Target>')
    s.rewrite('R9', 'debug_assert_eq!(cap.len(), 1 << index_bits.len());', 'assert(cap.len() == pow2i(index_bits.len() as int));')
    s.rewrite('R9', 'debug_assert_eq!(current.len(), 1);', 'assert(current.len() == 1);')
    s.rewrite('R5', 'for &bit in index_bits {', 'for bk_ in 0..index_bits.len() { let bit = index_bits[bk_];')
    s.rewrite('R6', 'current.into_iter().next().unwrap()', 'current[0].clone()')
    s.requires('cap_is_a_full_layer', 'cap@.len() == pow2i(index_bits@.len() as int) && index_bits@.len() < 40')
    s.requires('rows_same_width_and_allocated', 'rows_ok(old(circuit), cap@, cap@[0]@.len() as int) && old(circuit).has_all(index_bits@)')
    s.requires('boolean_index_bits', 'forall|k: int| 0 <= k < index_bits@.len() ==> is_bool(old(circuit).val(#[trigger] index_bits@[k]))')
    s.ensures('frame', 'final(circuit).extends_pure(old(circuit))')
    s.ensures('selects_cap_entry_at_index', '''({ let c0 = old(circuit); let idx = idx_lo(c0.vals_of(index_bits@), index_bits@.len() as int);
            0 <= idx < cap@.len() && ret@.len() == cap@[idx]@.len() && final(circuit).has_all(ret@)
            && final(circuit).vals_of(ret@) == c0.vals_of(cap@[idx]@) })''')
    s.at_start('''let ghost bv = circuit.vals_of(index_bits@); let ghost nb = index_bits@.len() as int;
        proof { lemma_idx_lo_range(bv, nb); lemma_pow2i_pos(nb); }''')
    s.before('return cap[0].clone();', '''proof {
            // |cap| == 1 == 2^nb forces nb == 0
            if nb > 0 { lemma_pow2i_pos(nb - 1); }
            assert(nb == 0);
            assert(circuit.vals_of(cap@[0]@) =~= old(circuit).vals_of(cap@[0]@));
        }''')
    s.loop('for bk_ in 0..index_bits.len()', invariants=[
        ('frame', 'circuit.extends_pure(old(circuit)) && bv == old(circuit).vals_of(index_bits@) && nb == index_bits@.len() && nb < 40 && cap@.len() == pow2i(nb)'),
        ('pre', 'old(circuit).has_all(index_bits@) && rows_ok(old(circuit), cap@, rate_ext as int) && forall|k: int| 0 <= k < nb ==> is_bool(old(circuit).val(#[trigger] index_bits@[k]))'),
        ('size', 'current@.len() * pow2i(bk_ as int) == cap@.len() && current@.len() >= 1 && rows_ok(circuit, current@, rate_ext as int)'),
        ('sel', '''forall|m: int, j: int| 0 <= m < current@.len() && 0 <= j < rate_ext ==>
                circuit.val(#[trigger] current@[m]@[j]) == old(circuit).val(cap@[m * pow2i(bk_ as int) + idx_lo(bv, bk_ as int)]@[j])'''),
    ])
    s.after('let bit = index_bits[bk_];', '''let ghost p = pow2i(bk_ as int); let ghost lo = idx_lo(bv, bk_ as int); let ghost cur0 = current@; let ghost circ0 = *circuit;
            proof {
                lemma_pow2i_pos(bk_ as int); lemma_idx_lo_range(bv, bk_ as int);
                assert(old(circuit).has(index_bits@[bk_ as int]));
                assert(circuit.val(bit) == bv[bk_ as int] && is_bool(bv[bk_ as int]));
                assert(pow2i(bk_ as int + 1) == 2 * p);
                // an odd-length layer would contradict |cap| = 2^nb with bits left
                assert(cur0.len() % 2 == 0) by {
                    lemma_pow2i_pos(nb - bk_ - 1);
                    lemma_pow2_split(nb, bk_ as int);
                    assert(cur0.len() == pow2i(nb - bk_)) by (nonlinear_arith) requires cur0.len() * p == pow2i(nb), pow2i(nb) == pow2i(nb - bk_) * p, p >= 1;
                }
            }''')
    s.loop('for i in 0..half', invariants=[
        ('frame', 'cur0.len() <= usize::MAX && circuit.extends_pure(old(circuit)) && circuit.extends_pure(&circ0) && current@ == cur0 && half * 2 == cur0.len() && p >= 1 && 0 <= lo < p && cur0.len() * p == cap@.len()'),
        ('pre', 'rows_ok(&circ0, cur0, rate_ext as int) && rows_ok(old(circuit), cap@, rate_ext as int) && circ0.has(bit) && circ0.val(bit) == bv[bk_ as int] && is_bool(bv[bk_ as int]) && bk_ < nb && bv.len() == nb'),
        ('sel0', '''forall|m: int, j: int| 0 <= m < cur0.len() && 0 <= j < rate_ext ==> circ0.val(#[trigger] cur0[m]@[j]) == old(circuit).val(cap@[m * p + lo]@[j])'''),
        ('next', 'next@.len() == i && rows_ok(circuit, next@, rate_ext as int)'),
        ('nsel', '''forall|m: int, j: int| 0 <= m < i && 0 <= j < rate_ext ==>
                circuit.val(#[trigger] next@[m]@[j]) == old(circuit).val(cap@[m * (2 * p) + lo + bitv(bv[bk_ as int]) * p]@[j])'''),
    ])
    s.before('let mut selected = Vec::with_capacity(rate_ext);', 'let ghost circ1 = *circuit; let ghost nxt0 = next@;')
    s.loop('for j in 0..rate_ext', invariants=[
        ('frame', 'circuit.extends_pure(old(circuit)) && circuit.extends_pure(&circ0) && circuit.extends_pure(&circ1) && left@ == cur0[2 * i]@ && right@ == cur0[2 * i + 1]@ && i < half && half * 2 == cur0.len()'),
        ('pre', 'rows_ok(&circ0, cur0, rate_ext as int) && circ0.has(bit) && circ0.val(bit) == bv[bk_ as int] && is_bool(bv[bk_ as int])'),
        ('sel', 'selected@.len() == j && circuit.has_all(selected@) && forall|q: int| 0 <= q < j ==> circuit.val(#[trigger] selected@[q]) == (if bv[bk_ as int] == EF::fone() { circ0.val(right@[q]) } else { circ0.val(left@[q]) })'),
    ])
    s.after('let val = circuit.mul_add(bit, diff, left[j]);', '''proof {
                    assert(circ0.has(cur0[2 * i]@[j as int]) && circ0.has(cur0[2 * i + 1]@[j as int]));
                    lemma_select(bv[bk_ as int], circ0.val(left@[j as int]), circ0.val(right@[j as int]));
                }''')
    s.after('next.push(selected);', '''proof {
                let b = bitv(bv[bk_ as int]);
                assert forall|m: int, jj: int| 0 <= m < i + 1 && 0 <= jj < rate_ext implies
                        circuit.val(#[trigger] next@[m]@[jj]) == old(circuit).val(cap@[m * (2 * p) + lo + b * p]@[jj]) by {
                    if m < i {
                        assert(next@[m] == nxt0[m]);
                        assert(circ1.has(nxt0[m]@[jj]));
                    } else {
                        let src = 2 * i + b;
                        assert(circ0.has(cur0[src]@[jj]));
                        assert(src * p + lo == i * (2 * p) + lo + b * p) by (nonlinear_arith) requires src == 2 * i + b;
                    }
                }
                assert forall|m: int| 0 <= m < i + 1 implies (#[trigger] next@[m])@.len() == rate_ext && circuit.has_all(next@[m]@) by {
                    if m < i { assert(next@[m] == nxt0[m]); assert forall|q: int| 0 <= q < nxt0[m]@.len() implies circuit.has(#[trigger] nxt0[m]@[q]) by { assert(circ1.has(nxt0[m]@[q])); } }
                }
            }''')
    s.before('current = next;', '''proof {
                let b = bitv(bv[bk_ as int]);
                assert(idx_lo(bv, bk_ as int + 1) == lo + b * p);
                assert(half * (2 * p) == cap@.len()) by (nonlinear_arith) requires half * 2 == cur0.len(), cur0.len() * p == cap@.len();
            }''')
    s.before('assert(current.len() == 1);', '''proof {
            lemma_pow2i_pos(nb);
            assert(current@.len() == 1) by (nonlinear_arith) requires current@.len() * pow2i(nb) == cap@.len(), cap@.len() == pow2i(nb), pow2i(nb) >= 1;
            assert(0 * pow2i(nb) + idx_lo(bv, nb) == idx_lo(bv, nb));
            let idx = idx_lo(bv, nb);
            assert(circuit.vals_of(current@[0]@) =~= old(circuit).vals_of(cap@[idx]@)) by {
                assert(cap@[idx]@.len() == rate_ext);
            }
        }''')
    u.text('''verus! {
pub proof fn lemma_pow2_split(n: int, k: int)
    requires 0 <= k <= n
    ensures pow2i(n) == pow2i(n - k) * pow2i(k)
    decreases k
{
    if k > 0 {
        lemma_pow2_split(n, k - 1);
        assert(pow2i(n - k + 1) == 2 * pow2i(n - k));
        assert(pow2i(k) == 2 * pow2i(k - 1));
        assert(pow2i(n - k + 1) * pow2i(k - 1) == pow2i(n - k) * pow2i(k)) by (nonlinear_arith)
            requires pow2i(n - k + 1) == 2 * pow2i(n - k), pow2i(k) == 2 * pow2i(k - 1);
    }
}
''')
    u.emit(s)
    u.text('}')
    return u
