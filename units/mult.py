"""Unit `mult` (C09, multiplicities): how the prover turns the per-operand creator/reader STATES recorded by
Circuit::generate_preprocessed_columns (unit prep) into bus multiplicities.  Real text: circuit-prover/src/common.rs
get_airs_and_degrees_with_prep[alu_row] -- the body of the loop over the 12-value ALU rows.
Contract: every operand column of the 13-value row is determined by THAT operand's own state and THAT operand's own slot:
a reader is sent with multiplicity -1, a creator with + the number of reads recorded for its slot (ext_reads), a skipped operand with 0.
Together with unit prep (ext_reads[slot] = number of reader roles of the slot, one creator role per slot) this is the balance of the bus."""
import re

from vf.unit import Unit, unget_copied_unwrap_or
from units.openin import slice_loop_body

PRELUDE = r'''
#![allow(unused_imports, unused_variables, dead_code, unused_mut, unused_parens)]
use vstd::prelude::*;
verus! {
global size_of usize == 8;
/// a base-field value (Val<SC>): opaque, with its canonical representative
#[derive(Clone, Copy, PartialEq, Eq, Structural)]
pub struct V(pub u64);
pub uninterp spec fn vneg(v: V) -> V;
pub uninterp spec fn vfrom(n: u32) -> V;
impl V {
    pub fn as_canonical_u64(&self) -> (r: u64) ensures r == self.0 { self.0 }
    #[verifier::external_body] pub fn from_u32(n: u32) -> (r: V) ensures r == vfrom(n) { unimplemented!() }
    /// `<Val<SC>>::ZERO - x`
    #[verifier::external_body] pub fn zero_minus(x: V) -> (r: V) ensures r == vneg(x) { unimplemented!() }
    pub fn zero() -> (r: V) ensures r == V(0) { V(0) }
    pub fn one() -> (r: V) ensures r == V(1) { V(1) }
}
pub struct PreprocessedColumns { pub ext_reads: Vec<u32> }
/// number of reads recorded for the witness slot a D-scaled index column points to
pub open spec fn reads(ext_reads: Seq<u32>, idx: V, d: int) -> u32 {
    let w = (idx.0 as usize / (d as usize)) as int;
    if w < ext_reads.len() { ext_reads[w] } else { 0 }
}
/// a/c operand column (multiplied by mult_a = -1 in the AIR): 0 skip, 1 reader (eff -1), -(reads) private creator (eff +reads)
pub open spec fn state_col(state: V, er: Seq<u32>, idx: V, d: int) -> V {
    if state.0 == 1 { V(1) } else if state.0 == 2 { vneg(vfrom(reads(er, idx, d))) } else { V(0) }
}
/// b/out operand multiplicity: creator => + reads of ITS slot, otherwise reader => -1
pub open spec fn role_mult(is_creator: V, er: Seq<u32>, idx: V, d: int, neg_one: V) -> V {
    if is_creator.0 != 0 { vfrom(reads(er, idx, d)) } else { neg_one }
}
pub open spec fn row13(c: Seq<V>, er: Seq<u32>, d: int, neg_one: V) -> Seq<V> {
    seq![neg_one, c[0], c[1], c[2], c[3], c[4], c[5], c[6], c[7],
         role_mult(c[9], er, c[5], d, neg_one), role_mult(c[11], er, c[7], d, neg_one),
         state_col(c[8], er, c[4], d), state_col(c[10], er, c[6], d)]
}
} // verus!
'''


def build():
    u = Unit('mult', ['C09'])
    u.rlimit = 60
    u.assume('Val<SC> is an opaque field value with a canonical u64 representative; `0 - x` and from_u32 are uninterpreted (R11)')
    u.assume('the 12-value row layout [sel x4, a_idx, b_idx, c_idx, out_idx, a_state, b_is_creator, c_state, out_is_creator] is the one generate_preprocessed_columns writes (unit prep)')
    u.text(PRELUDE)
    C = 'circuit-prover/src/common.rs'
    g = u.extract(C, '', 'get_airs_and_degrees_with_prep', 'get_airs_and_degrees_with_prep[alu_row]')
    slice_loop_body(g, r'for chunk in &mut chunks \{', 'everything around the conversion of one 12-value ALU row: base-field conversion, plugin preprocessing, AIR construction for the three primitive tables and the plugins')
    g.set_sig('R11', 'fn get_airs_and_degrees_with_prep<const D: usize>(chunk: &[V], preprocessed: &PreprocessedColumns, prep_13col: &mut Vec<V>, neg_one: V)', sliced=True)
    g.rewrite_re('R11', r'<Val<SC>>::ZERO - (<Val<SC>>::from_u32\(\w+\))', r'V::zero_minus(\1)')
    g.rewrite_re('R11', r'<Val<SC>>::ZERO', 'V::zero()')
    g.rewrite_re('R11', r'<Val<SC>>::ONE', 'V::one()')
    g.rewrite_re('R11', r'<Val<SC>>::from_u32', 'V::from_u32')
    g.rewrite_re('R11', r'Val<SC>', 'V')
    unget_copied_unwrap_or(g)
    g.rewrite_re('R6', r'prep_13col\.extend\(\[', 'prep_13col.extend_from_slice(&[', min_count=1)
    g.requires('a_12_value_row', 'chunk@.len() == 12 && D > 0')
    g.ensures('each_operand_column_follows_its_own_role_and_its_own_slot',
              'final(prep_13col)@ == old(prep_13col)@ + row13(chunk@, preprocessed.ext_reads@, D as int, neg_one)')
    g.at_end('''proof {
            assert(prep_13col@ =~= old(prep_13col)@ + row13(chunk@, preprocessed.ext_reads@, D as int, neg_one)); // @@A:row_columns_follow_each_operands_own_role_and_slot
        }''')
    u.text('verus! {')
    u.emit(g, vis='')
    u.text('}')
    return u
