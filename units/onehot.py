"""Unit `onehot` (C07): one_hot_from_bits (recursion/src/pcs/fri/verifier.rs), the generic one-hot table that reconstruct_evals uses for folds of
arity >= 32 (log_arity >= 5; the 2-/3-bit kernels are under contract in unit fri, the 4-bit kernel is an assumed callee here):
for boolean index bits the table is the indicator vector of the LITTLE-ENDIAN index -- entry j is 1 exactly when j is the integer the bits spell."""
import os
import re

from vf.extract import ExtractError
from vf.unit import Unit, unmap_iter_collect_general, drop_capacity_hints
from units.fri import SPEC as FRI_SPEC

HERE = os.path.dirname(os.path.abspath(__file__))

SPEC = r'''
verus! {
/// (alias of `bit`: the real code has a local named `bit`)
pub open spec fn bitv<F: Field>(v: F) -> int { bit(v) }
/// bit t of the integer j
pub open spec fn bitof(j: int, t: int) -> int { (j / p2(t)) % 2 }
/// j agrees with the index spelled by the 0/1 values v on its k lowest bits
pub open spec fn low_match<F: Field>(j: int, v: Seq<F>, k: int) -> bool { forall|t: int| 0 <= t < k ==> #[trigger] bitof(j, t) == bit(v[t]) }
pub proof fn lemma_p2_pos(k: int) ensures p2(k) >= 1 decreases k { if k > 0 { lemma_p2_pos(k - 1); } }
pub proof fn lemma_bitof_shift(j: int, t: int)
    requires j >= 0, t >= 0
    ensures bitof(j, t + 1) == bitof(j / 2, t)
{
    lemma_p2_pos(t);
    assert(p2(t + 1) == 2 * p2(t));
    assert(j / (2 * p2(t)) == (j / 2) / p2(t)) by (nonlinear_arith) requires j >= 0, p2(t) >= 1;
}
/// all n bits of j < 2^n agree with v  <=>  j is the little-endian index of v
pub proof fn lemma_low_match_full<F: Field>(j: int, v: Seq<F>)
    requires 0 <= j < p2(v.len() as int), all_bool(v)
    ensures low_match(j, v, v.len() as int) <==> j == le_index(v)
    decreases v.len()
{
    let n = v.len() as int;
    if n == 0 { assert(p2(0) == 1); }
    else {
        let tl = v.subrange(1, n);
        assert(p2(n) == 2 * p2(n - 1));
        assert(0 <= j / 2 < p2(n - 1));
        assert forall|i: int| 0 <= i < tl.len() implies is_bool(#[trigger] tl[i]) by { assert(tl[i] == v[i + 1]); assert(is_bool(v[i + 1])); }
        lemma_low_match_full(j / 2, tl);
        assert(p2(0) == 1);
        assert(bitof(j, 0) == j % 2);
        assert(j == (j % 2) + 2 * (j / 2));
        if low_match(j, v, n) {
            assert(bitof(j, 0) == bit(v[0]));
            assert forall|t: int| 0 <= t < n - 1 implies #[trigger] bitof(j / 2, t) == bit(tl[t]) by { lemma_bitof_shift(j, t); assert(bitof(j, t + 1) == bit(v[t + 1])); assert(tl[t] == v[t + 1]); }
            assert(low_match(j / 2, tl, n - 1));
        }
        if j == le_index(v) {
            assert(is_bool(v[0]));
            lemma_le_index_range(tl);
            assert(j % 2 == bit(v[0]) && j / 2 == le_index(tl));
            assert(low_match(j / 2, tl, n - 1));
            assert forall|t: int| 0 <= t < n implies #[trigger] bitof(j, t) == bit(v[t]) by {
                if t > 0 { lemma_bitof_shift(j, t - 1); assert(bitof(j / 2, t - 1) == bit(tl[t - 1])); assert(tl[t - 1] == v[t]); }
            }
        }
    }
}
pub proof fn lemma_p2_lt_2_32(k: int) requires 0 <= k < 32 ensures p2(k) <= 0x8000_0000
{ lemma_shl_p2(k as usize); let kk = k as usize; assert((1usize << kk) <= 0x8000_0000usize) by (bit_vector) requires kk < 32; }
/// the exec test `(j >> k) & 1 == 1` reads bit k of j
pub proof fn lemma_shift_and_is_bitof(j: usize, k: usize)
    requires k < 32, j < 0x1_0000_0000
    ensures ((j >> k) & 1 == 1) == (bitof(j as int, k as int) == 1), bitof(j as int, k as int) == 0 || bitof(j as int, k as int) == 1
{
    lemma_shl_p2(k);
    let d = 1usize << k;
    assert(d >= 1 && ((j >> k) & 1) == ((j / d) % 2)) by (bit_vector) requires k < 32, j < 0x1_0000_0000, d == 1usize << k;
}
/// generic arity kernels that are ASSUMED here (two / three bits: PROVED in unit fri with these contracts; four bits: not under contract)
#[verifier::external_body]
pub fn one_hot_from_two_bits<EF: FieldX>(builder: &mut CircuitBuilder<EF>, b0: Target, b1: Target) -> (ret: [Target; 4])
    requires old(builder).has(b0) && old(builder).has(b1), is_bool(old(builder).val(b0)) && is_bool(old(builder).val(b1))
    ensures final(builder).extends_pure(old(builder)), forall|j: int| 0 <= j < 4 ==> final(builder).has(#[trigger] ret@[j]),
            forall|j: int| 0 <= j < 4 ==> final(builder).val(#[trigger] ret@[j]) == ind::<EF>(j == bit(old(builder).val(b0)) + 2 * bit(old(builder).val(b1)))
{ unimplemented!() }
#[verifier::external_body]
pub fn one_hot_from_three_bits<EF: FieldX>(builder: &mut CircuitBuilder<EF>, b0: Target, b1: Target, b2: Target) -> (ret: [Target; 8])
    requires old(builder).has(b0) && old(builder).has(b1) && old(builder).has(b2), is_bool(old(builder).val(b0)) && is_bool(old(builder).val(b1)) && is_bool(old(builder).val(b2))
    ensures final(builder).extends_pure(old(builder)), forall|j: int| 0 <= j < 8 ==> final(builder).has(#[trigger] ret@[j]),
            forall|j: int| 0 <= j < 8 ==> final(builder).val(#[trigger] ret@[j]) == ind::<EF>(j == bit(old(builder).val(b0)) + 2 * bit(old(builder).val(b1)) + 4 * bit(old(builder).val(b2)))
{ unimplemented!() }
#[verifier::external_body]
pub fn one_hot_from_four_bits<EF: FieldX>(builder: &mut CircuitBuilder<EF>, bits: &[Target]) -> (ret: Vec<Target>)
    requires old(builder).has_all(bits@), all_bool(old(builder).vals_of(bits@)), bits@.len() == 4
    ensures final(builder).extends_pure(old(builder)), ret@.len() == 16, final(builder).has_all(ret@),
            forall|j: int| 0 <= j < 16 ==> final(builder).val(#[trigger] ret@[j]) == ind::<EF>(j == le_index(old(builder).vals_of(bits@)))
{ unimplemented!() }
} // verus!
'''


def build():
    u = Unit('onehot', ['C07'])
    u.rlimit = 200
    u.assume('builder arithmetic contracts (define_const, sub, mul) as in the gadget prelude; one_hot_from_two_bits / one_hot_from_three_bits proved in unit fri (same contracts), one_hot_from_four_bits ASSUMED')
    u.text(open(os.path.join(HERE, 'gadget_prelude.rs')).read())
    u.text(FRI_SPEC)
    u.text(open(os.path.join(HERE, 'fri_rec_spec.rs')).read().replace('pub fn one_hot_from_bits', 'pub fn one_hot_from_bits_assumed_elsewhere'))
    u.text(SPEC)
    V = 'recursion/src/pcs/fri/verifier.rs'
    f = u.extract(V, '', 'one_hot_from_bits', 'one_hot_from_bits')
    f.set_sig('R11', 'fn one_hot_from_bits<EF: FieldX>(builder: &mut CircuitBuilder<EF>, bits: &[Target]) -> Vec<Target>')
    f.rewrite_re('R11', r'\bEF::ONE\b', 'EF::one()', min_count=0)
    drop_capacity_hints(f)
    unmap_iter_collect_general(f)
    f.rewrite_re('R5', r'for \((\w+), &(\w+)\) in bits\.iter\(\)\.enumerate\(\) \{', r'for \1 in 0..bits.len() { let \2 = bits[\1];', min_count=0)
    f.rewrite_re('R5', r'for &(\w+) in bits \{', r'for bq_ in 0..bits.len() { let \1 = bits[bq_];', min_count=0)
    f.rewrite_re('R5', r'for &(\w+) in &(\w+) \{', r'for vq_ in 0..\2.len() { let \1 = \2[vq_];', min_count=0)
    f.rewrite_re('R7', r'let mut one_hot = Vec::new\(\);', 'let mut one_hot: Vec<Target> = Vec::new();', min_count=0)
    f.rewrite_re('R7', r'let mut next = Vec::new\(\);', 'let mut next: Vec<Target> = Vec::new();', min_count=0)
    f.rewrite_re('R1', r'let \[([^\]]+)\] =\s*(one_hot_from_\w+\([^;]*\));', lambda m: 'let arr_ = ' + m.group(2) + '; ' + ' '.join(f'let {x.strip()} = arr_[{i}];' for i, x in enumerate(m.group(1).split(','))), min_count=0)
    f.attr('#[verifier::loop_isolation(false)]')
    f.requires('boolean_index_bits', 'old(builder).has_all(bits@) && all_bool(old(builder).vals_of(bits@)) && bits@.len() < 32')
    f.ensures('frame', 'final(builder).extends_pure(old(builder)) && ret@.len() == p2(bits@.len() as int) && final(builder).has_all(ret@)')
    f.ensures('indicator_vector_of_the_little_endian_index', 'forall|j: int| 0 <= j < ret@.len() ==> final(builder).val(#[trigger] ret@[j]) == ind::<EF>(j == le_index(old(builder).vals_of(bits@)))')
    f.at_start('''let ghost vb = builder.vals_of(bits@); let ghost nb = bits@.len() as int;
        proof { lemma_bool_arith::<EF>(); lemma_simp::<EF>(); lemma_shl_p2(bits.len()); lemma_le_index_range(vb); reveal_with_fuel(p2, 6); reveal_with_fuel(le_index, 5);
            assert forall|i: int| 0 <= i < nb implies is_bool(#[trigger] builder.val(bits@[i])) by { assert(is_bool(vb[i])); } }''')
    LJ, LK, LN = 'for j in 0..arity', 'for k in 0..bits.len()', 'for m0_ in 0..bits.len()'
    if all(h in f.body for h in (LJ, LK, LN)):
        G = 'builder.extends_pure(old(builder)) && vb == old(builder).vals_of(bits@) && nb == bits@.len() && nb < 32 && arity == p2(nb) && all_bool(vb) && builder.has(one) && builder.val(one) == EF::fone() && old(builder).has_all(bits@)'
        NB = 'v_m0_@.len() == bits@.len() && builder.has_all(v_m0_@) && (forall|t: int| 0 <= t < bits@.len() ==> builder.val(#[trigger] v_m0_@[t]) == EF::fone().fsub(vb[t]))'
        f.loop(LN, invariants=[('negated_bits_so_far', G.replace(' && arity == p2(nb)', ' && arity == p2(nb)') + ' && v_m0_@.len() == m0_ && builder.has_all(v_m0_@) && (forall|t: int| 0 <= t < m0_ ==> builder.val(#[trigger] v_m0_@[t]) == EF::fone().fsub(vb[t]))')])
        lo = f._loop_open(LN)
        f.body = f.body[:lo + 1] + ' let ghost nv0 = v_m0_@; let ghost bn0 = *builder;' + f.body[lo + 1:]
        f.at_loop_end(LN, 'proof { assert(old(builder).has(bits@[m0_ as int])); assert(bn0.val(bits@[m0_ as int]) == vb[m0_ as int]); assert forall|t: int| 0 <= t < m0_ + 1 implies builder.has(#[trigger] v_m0_@[t]) && builder.val(v_m0_@[t]) == EF::fone().fsub(vb[t]) by { if t < m0_ { assert(v_m0_@[t] == nv0[t]); assert(bn0.has(nv0[t])); } } }')
        f.loop(LK, invariants=[
            ('product_is_the_indicator_of_the_low_bits', G + ' && not_bits@.len() == nb && builder.has_all(not_bits@) && (forall|t: int| 0 <= t < nb ==> builder.val(#[trigger] not_bits@[t]) == EF::fone().fsub(vb[t]))'
             ' && 0 <= j < arity && builder.has(product) && builder.val(product) == ind::<EF>(low_match(j as int, vb, k as int)) && builder.extends_pure(&bj0)'),
        ])
        lo = f._loop_open(LK)
        f.body = f.body[:lo + 1] + ' let ghost bk0 = *builder; let ghost pk0 = product;' + f.body[lo + 1:]
        f.at_loop_end(LK, '''proof {
                    lemma_p2_lt_2_32(nb); lemma_shift_and_is_bitof(j, k); CircuitBuilder::lemma_extends_pure_trans(&bj0, &bk0, builder);
                    assert(old(builder).has(bits@[k as int])); assert(bk0.val(bits@[k as int]) == vb[k as int]); assert(is_bool(vb[k as int]));
                    assert(bk0.has(not_bits@[k as int]));
                    let lm0 = low_match(j as int, vb, k as int); let lm1 = low_match(j as int, vb, k + 1);
                    assert(lm1 == (lm0 && bitof(j as int, k as int) == bitv(vb[k as int]))) by {
                        if lm0 && bitof(j as int, k as int) == bitv(vb[k as int]) { assert forall|t: int| 0 <= t < k + 1 implies #[trigger] bitof(j as int, t) == bitv(vb[t]) by { if t < k { } } }
                    }
                    assert forall|t: int| 0 <= t < nb implies builder.has(#[trigger] not_bits@[t]) && builder.val(not_bits@[t]) == EF::fone().fsub(vb[t]) by { assert(bk0.has(not_bits@[t])); }
                }''')
        f.loop(LJ, invariants=[
            ('entries_so_far_are_indicators', G + ' && not_bits@.len() == nb && builder.has_all(not_bits@) && (forall|t: int| 0 <= t < nb ==> builder.val(#[trigger] not_bits@[t]) == EF::fone().fsub(vb[t]))'
             ' && one_hot@.len() == j && builder.has_all(one_hot@) && (forall|i: int| 0 <= i < j ==> builder.val(#[trigger] one_hot@[i]) == ind::<EF>(i == le_index(vb)))'),
        ])
        lo = f._loop_open(LJ)
        f.body = f.body[:lo + 1] + ' let ghost oh0 = one_hot@; let ghost bj0 = *builder;' + f.body[lo + 1:]
        f.before(LK, 'proof { assert(low_match(j as int, vb, 0)); }')
        f.at_loop_end(LJ, '''proof {
                    lemma_low_match_full(j as int, vb);
                    assert(one_hot@ =~= oh0.push(product)); assert(builder.val(product) == ind::<EF>(low_match(j as int, vb, nb)));
                    assert forall|i: int| 0 <= i < j + 1 implies builder.has(#[trigger] one_hot@[i]) && builder.val(one_hot@[i]) == ind::<EF>(i == le_index(vb)) by { if i < j { assert(one_hot@[i] == oh0[i]); assert(bj0.has(oh0[i])); } }
                    assert forall|t: int| 0 <= t < nb implies builder.has(#[trigger] not_bits@[t]) && builder.val(not_bits@[t]) == EF::fone().fsub(vb[t]) by { assert(bj0.has(not_bits@[t])); }
                }''')
    u.text('verus! {')
    u.emit(f)
    u.text('}')
    return u
