"""Unit `openin` (C07 reduced openings, C15 per-point shape): real text of recursion/src/pcs/fri/verifier.rs
  compute_single_reduced_opening (whole),
  open_input[per_matrix_shape_and_grouping]  -- the loop that checks every opening point's column count and groups matrices by height,
  open_input[height_group]                   -- the body of the loop over height groups (single-chain fast path AND per-matrix fallback).
The height-group slice is proved to leave, for its height, exactly the pair (alpha power, reduced opening) that the native fold over
(matrix, point) pairs produces (spec group_fold, openin_spec.rs) -- the fast path through lemma_unified_chain."""
import os
import re

from vf.extract import match_brace, ExtractError
from vf.unit import Unit, _find_all, arm_bounds, project_on, uniter_max, unchecked_sub_filter, unok_or_else_q

HERE = os.path.dirname(os.path.abspath(__file__))

PRELUDE = r'''
verus! {
global size_of usize == 8;
use std::collections::{HashMap, HashSet, BTreeMap, BTreeSet, VecDeque};
/// proved in unit fri (same text, same contract)
#[verifier::external_body]
pub fn circuit_exp_by_constant<EF: FieldX>(builder: &mut CircuitBuilder<EF>, base: Target, n: usize) -> (ret: Target)
    requires n > 0, old(builder).has(base)
    ensures final(builder).extends_pure(old(builder)) && final(builder).has(ret), final(builder).val(ret) == fpow(old(builder).val(base), n as nat)
{ unimplemented!() }

/// alpha^n cache: every entry is the power it is filed under
pub open spec fn pow_cache_ok<F: Field>(b: &CircuitBuilder<F>, c: Map<usize, Target>, a: F) -> bool {
    forall|k: usize| #[trigger] c.dom().contains(k) ==> b.has(c[k]) && b.val(c[k]) == fpow(a, k as nat)
}
pub open spec fn vals<F: Field>(b: &CircuitBuilder<F>, s: Seq<Target>) -> Seq<F> { b.vals_of(s) }

pub type MatT<'a> = (&'a [Target], &'a [(Target, Vec<Target>)]);
pub open spec fn mat_v<F: Field>(b: &CircuitBuilder<F>, m: MatT<'_>) -> MatV<F> {
    (vals(b, m.0@), Seq::new(m.1@.len(), |p: int| (b.val(m.1@[p].0), vals(b, m.1@[p].1@))))
}
pub open spec fn mats_v<F: Field>(b: &CircuitBuilder<F>, ms: Seq<MatT<'_>>) -> Seq<MatV<F>> { Seq::new(ms.len(), |i: int| mat_v(b, ms[i])) }
pub open spec fn mat_alloc<F: Field>(b: &CircuitBuilder<F>, m: MatT<'_>) -> bool {
    b.has_all(m.0@) && forall|p: int| 0 <= p < m.1@.len() ==> b.has((#[trigger] m.1@[p]).0) && b.has_all(m.1@[p].1@)
}
pub open spec fn mats_alloc<F: Field>(b: &CircuitBuilder<F>, ms: Seq<MatT<'_>>) -> bool { forall|i: int| 0 <= i < ms.len() ==> mat_alloc(b, #[trigger] ms[i]) }
/// every opening point of every matrix carries exactly one value per opened column (C15: what the shape loop must have established)
pub open spec fn mats_shape(ms: Seq<MatT<'_>>) -> bool {
    forall|i: int, p: int| 0 <= i < ms.len() && 0 <= p < ms[i].1@.len() ==> (#[trigger] ms[i].1@[p]).1@.len() == ms[i].0@.len()
}
pub open spec fn cur<F: Field>(b: &CircuitBuilder<F>, ro: Map<usize, (Target, Target)>, h: usize) -> (F, F) {
    if ro.dom().contains(h) { (b.val(ro[h].0), b.val(ro[h].1)) } else { (F::fone(), F::fzero()) }
}
pub open spec fn ro_alloc<F: Field>(b: &CircuitBuilder<F>, ro: Map<usize, (Target, Target)>) -> bool { forall|h: usize| #[trigger] ro.dom().contains(h) ==> b.has(ro[h].0) && b.has(ro[h].1) }
pub open spec fn inv_cache_ok<F: Field>(b: &CircuitBuilder<F>, c: Map<(usize, Target), Target>, h: usize, xv: F) -> bool {
    forall|z: Target| #[trigger] c.dom().contains((h, z)) ==> b.has(z) && b.has(c[(h, z)]) && b.val(c[(h, z)]) == inv_zx(b.val(z), xv)
}
pub open spec fn points_off_x<F: Field>(msv: Seq<MatV<F>>, xv: F) -> bool {
    forall|i: int, p: int| 0 <= i < msv.len() && 0 <= p < msv[i].1.len() ==> (#[trigger] msv[i].1[p]).0.fsub(xv) != F::fzero()
}
pub proof fn lemma_vals_stable<F: Field>(b1: &CircuitBuilder<F>, b2: &CircuitBuilder<F>, s: Seq<Target>)
    requires b2.extends(b1), b1.has_all(s) ensures vals(b2, s) == vals(b1, s), b2.has_all(s)
{
    assert forall|i: int| 0 <= i < s.len() implies b2.has(#[trigger] s[i]) && b2.val(s[i]) == b1.val(s[i]) by { assert(b1.has(s[i])); }
    assert(vals(b2, s) =~= vals(b1, s));
}
pub proof fn lemma_mats_stable<F: Field>(b1: &CircuitBuilder<F>, b2: &CircuitBuilder<F>, ms: Seq<MatT<'_>>)
    requires b2.extends(b1), mats_alloc(b1, ms) ensures mats_v(b2, ms) == mats_v(b1, ms), mats_alloc(b2, ms)
{
    assert forall|i: int| 0 <= i < ms.len() implies mat_v(b2, #[trigger] ms[i]) == mat_v(b1, ms[i]) && mat_alloc(b2, ms[i]) by {
        let m = ms[i];
        assert(mat_alloc(b1, m));
        lemma_vals_stable(b1, b2, m.0@);
        assert forall|p: int| 0 <= p < m.1@.len() implies b2.has((#[trigger] m.1@[p]).0) && b2.has_all(m.1@[p].1@) && b2.val(m.1@[p].0) == b1.val(m.1@[p].0) && vals(b2, m.1@[p].1@) == vals(b1, m.1@[p].1@) by {
            assert(b1.has(m.1@[p].0) && b1.has_all(m.1@[p].1@));
            lemma_vals_stable(b1, b2, m.1@[p].1@);
        }
        assert(mat_v(b2, m).1 =~= mat_v(b1, m).1);
    }
    assert(mats_v(b2, ms) =~= mats_v(b1, ms));
}
pub proof fn lemma_width_mono<F>(ms: Seq<MatV<F>>, k: int)
    requires 0 <= k <= ms.len() ensures total_width(ms, k) <= total_width(ms, 0)
    decreases k
{ if k > 0 { lemma_width_mono(ms, k - 1); } }

// ---- the shape / grouping loop of open_input
pub struct ErrMsg { pub _p: () }
#[verifier::external_body] pub fn errmsg() -> ErrMsg { unimplemented!() }
pub enum VerificationError { InvalidProofShape(ErrMsg), Other }
pub struct Domain { pub log_n: usize }
impl Domain { pub fn log_size(&self) -> (r: usize) ensures r == self.log_n { self.log_n } }
pub type MatIn = (Domain, Vec<(Target, Vec<Target>)>);
/// a matrix reference by its view: (opened row, [(point, values at the point)])
pub type MatTV = (Seq<Target>, Seq<(Target, Vec<Target>)>);
pub open spec fn group_get(m: Map<usize, Seq<MatTV>>, h: usize) -> Seq<MatTV> { if m.dom().contains(h) { m[h] } else { Seq::empty() } }
/// BTreeMap<usize, Vec<MatRef>> by its view
pub struct HeightGroups<'a> { pub m: Ghost<Map<usize, Seq<MatTV>>>, pub _p: core::marker::PhantomData<&'a ()> }
impl<'a> HeightGroups<'a> {
    #[verifier::external_body] pub fn new() -> (r: Self) ensures r.m@ == Map::<usize, Seq<MatTV>>::empty() { unimplemented!() }
    /// `self.entry(h).or_default().push(item)`
    #[verifier::external_body] pub fn push_at(&mut self, h: usize, item: MatT<'a>) ensures final(self).m@ == old(self).m@.insert(h, group_get(old(self).m@, h).push((item.0@, item.1@))) { unimplemented!() }
}
/// matrices 0..n filed under their log height, in order
pub open spec fn grouped(mats: Seq<MatIn>, ops: Seq<Vec<Target>>, log_blowup: usize, n: int) -> Map<usize, Seq<MatTV>>
    decreases n
{
    if n <= 0 { Map::empty() } else {
        let g = grouped(mats, ops, log_blowup, n - 1);
        let h = (mats[n - 1].0.log_n + log_blowup) as usize;
        g.insert(h, group_get(g, h).push((ops[n - 1]@, mats[n - 1].1@)))
    }
}
/// C15: every opening point of matrix i lists exactly one value per opened column
pub open spec fn point_counts_ok(mats: Seq<MatIn>, ops: Seq<Vec<Target>>, n: int) -> bool {
    forall|i: int, p: int| 0 <= i < n && 0 <= p < mats[i].1@.len() ==> (#[trigger] mats[i].1@[p]).1@.len() == ops[i]@.len()
}
/// C15 / C07: every committed matrix is opened at one point at least (native: MatrixWithoutOpeningPoints)
pub open spec fn points_present(mats: Seq<MatIn>, n: int) -> bool { forall|i: int| 0 <= i < n ==> (#[trigger] mats[i]).1@.len() > 0 }
pub open spec fn groups_from(g: Map<usize, Seq<MatTV>>, mats: Seq<MatIn>, ops: Seq<Vec<Target>>, n: int) -> bool {
    forall|h: usize, j: int| g.dom().contains(h) && 0 <= j < g[h].len() ==> exists|i: int| 0 <= i < n && (#[trigger] g[h][j]) == (ops[i]@, mats[i].1@)
}

// ---- ordered / tuple-keyed maps of open_input, by their views (BTreeMap<usize, Target>, HashMap<(usize, Target), Target>, BTreeMap<usize, (Target, Target)>)
pub struct EvalPoints { pub m: Ghost<Map<usize, Target>> }
impl EvalPoints {
    /// `eval_points[log_height]` (Index on the BTreeMap: panics on a missing key)
    #[verifier::external_body] pub fn at(&self, k: &usize) -> (r: Target) requires self.m@.dom().contains(*k) ensures r == self.m@[*k] { unimplemented!() }
}
pub struct InvCache { pub m: Ghost<Map<(usize, Target), Target>> }
impl InvCache {
    #[verifier::external_body] pub fn get(&self, k: &(usize, Target)) -> (r: Option<&Target>)
        ensures r is Some <==> self.m@.dom().contains(*k), r is Some ==> *r.unwrap() == self.m@[*k] { unimplemented!() }
    #[verifier::external_body] pub fn insert(&mut self, k: (usize, Target), v: Target) ensures final(self).m@ == old(self).m@.insert(k, v) { unimplemented!() }
}
pub struct RoMap { pub m: Ghost<Map<usize, (Target, Target)>> }
impl RoMap {
    #[verifier::external_body] pub fn contains_key(&self, k: &usize) -> (r: bool) ensures r == self.m@.dom().contains(*k) { unimplemented!() }
    #[verifier::external_body] pub fn insert(&mut self, k: usize, v: (Target, Target)) ensures final(self).m@ == old(self).m@.insert(k, v) { unimplemented!() }
    #[verifier::external_body] pub fn get0(&self, k: &usize) -> (r: Target) requires self.m@.dom().contains(*k) ensures r == self.m@[*k].0 { unimplemented!() }
    #[verifier::external_body] pub fn get1(&self, k: &usize) -> (r: Target) requires self.m@.dom().contains(*k) ensures r == self.m@[*k].1 { unimplemented!() }
    #[verifier::external_body] pub fn set0(&mut self, k: &usize, v: Target) requires old(self).m@.dom().contains(*k) ensures final(self).m@ == old(self).m@.insert(*k, (v, old(self).m@[*k].1)) { unimplemented!() }
    #[verifier::external_body] pub fn set1(&mut self, k: &usize, v: Target) requires old(self).m@.dom().contains(*k) ensures final(self).m@ == old(self).m@.insert(*k, (old(self).m@[*k].0, v)) { unimplemented!() }
}
} // verus!
'''


def rev_range(f, var, hi_expr_re=r'[\w.()]+'):
    """R5: `for V in (0..N).rev() {` -> `for r_V in 0..N { let V = N - 1 - r_V;`"""
    n = 0
    while True:
        m = re.search(r'for (\w+) in \(0\.\.(' + hi_expr_re + r')\)\.rev\(\) \{', f.body)
        if not m:
            break
        v, hi = m.group(1), m.group(2)
        f.body = f.body[:m.start()] + f'for r_{v} in 0..{hi} {{ let {v} = {hi} - 1 - r_{v};' + f.body[m.end():]
        n += 1
    if n:
        f.rewrites.append(('R5', f'{n}x `for i in (0..N).rev()` -> ascending counter with i = N-1-r', ''))
    return f


def build():
    u = Unit('openin', ['C07', 'C15'])
    u.rlimit = 100
    u.assume('builder arithmetic contracts as in unit gad (assumed); circuit_exp_by_constant as proved in unit fri; field laws')
    u.assume('p3_util::zip_eq::zip_eq(a, b, err) fails with err exactly when the lengths differ, else yields the pairs in order (external crate)')
    u.text(open(os.path.join(HERE, 'gadget_prelude.rs')).read())
    u.text(PRELUDE)
    u.text(open(os.path.join(HERE, 'openin_spec.rs')).read())
    V = 'recursion/src/pcs/fri/verifier.rs'

    # ------------------------------------------------------------------ compute_single_reduced_opening
    c = u.extract(V, '', 'compute_single_reduced_opening', 'compute_single_reduced_opening')
    c.set_sig('R11', 'fn compute_single_reduced_opening<EF: FieldX>(builder: &mut CircuitBuilder<EF>, opened_values: &[Target], point_values: &[Target], alpha_pow: Target, '
                     'alpha: Target, alpha_powers_set: &mut HashMap<usize, Target>, inv_z_minus_x: Target) -> (Target, Target)')
    c.rewrite_re('R11', r'\bEF::ZERO\b', 'EF::zero()')
    c.rewrite_re('R8', r'builder\.push_scope\("[^"]*"\);', '')
    c.rewrite_re('R8', r'builder\.pop_scope\(\);', '')
    rev_range(c, 'i')
    PX, PZ = 'vals(old(builder), opened_values@)', 'vals(old(builder), point_values@)'
    A, AP, INV = 'old(builder).val(alpha)', 'old(builder).val(alpha_pow)', 'old(builder).val(inv_z_minus_x)'
    c.requires('one_value_at_the_point_per_opened_column', 'point_values@.len() >= opened_values@.len()')
    c.requires('allocated', 'old(builder).has_all(opened_values@) && old(builder).has_all(point_values@) && old(builder).has(alpha_pow) && old(builder).has(alpha) && old(builder).has(inv_z_minus_x)')
    c.requires('cache', f'pow_cache_ok(old(builder), old(alpha_powers_set)@, {A})')
    c.ensures('frame', f'final(builder).extends_pure(old(builder)) && final(builder).has(ret.0) && final(builder).has(ret.1) && pow_cache_ok(final(builder), final(alpha_powers_set)@, {A})')
    c.ensures('alpha_power_advanced_by_the_matrix_width', f'final(builder).val(ret.0) == {AP}.fmul(fpow({A}, opened_values@.len()))')
    c.ensures('contribution_is_alpha_pow_times_horner_of_differences_over_z_minus_x', f'final(builder).val(ret.1) == {AP}.fmul(hs({PZ}, {PX}, {A}, 0, EF::fzero())).fmul({INV})')
    c.at_start(f'''let ghost pz = {PZ.replace('old(builder)', 'builder')}; let ghost px = {PX.replace('old(builder)', 'builder')}; let ghost a = builder.val(alpha); let ghost ap = builder.val(alpha_pow);
        proof {{ EF::mul_one(ap); lemma_mul_zero(ap); lemma_mul_zero(builder.val(inv_z_minus_x)); }}''')
    c.loop('for r_i in 0..n', invariants=[
        ('frame', 'builder.extends_pure(old(builder)) && builder.has(inner) && n == opened_values@.len() && n <= point_values@.len()'),
        ('ctx', 'old(builder).has_all(opened_values@) && old(builder).has_all(point_values@) && old(builder).has(alpha) && pz == vals(old(builder), point_values@) && px == vals(old(builder), opened_values@) && a == old(builder).val(alpha)'),
        ('horner_suffix', 'builder.val(inner) == hs(pz, px, a, n - r_i, EF::fzero())'),
    ])
    c.at_loop_end('for r_i in 0..n', '''proof {
            assert(old(builder).has(point_values@[i as int]) && old(builder).has(opened_values@[i as int]));
            assert(pz[i as int] == old(builder).val(point_values@[i as int]) && px[i as int] == old(builder).val(opened_values@[i as int]));
        }''')
    u.text('verus! {')
    u.emit(c, vis='')
    u.text('}')

    # ------------------------------------------------------------------ open_input[per_matrix_shape_and_grouping]
    sh = u.extract(V, '', 'open_input', 'open_input[per_matrix_shape_and_grouping]')
    slice_from_through_loop(sh, 'let mut height_groups:', r'for \(mat_idx, \(\(mat_domain, mat_points_and_values\), mat_opening\)\) in zip_eq\(.*?\.enumerate\(\)\s*\{', 'Ok(height_groups)',
                            'prefix: index-bit checks, evaluation points, MMCS batch verification; suffix: the loop over height groups (slice height_group), height-1 check, descending list')
    sh.set_sig('R11', "fn open_input<'a>(mats: &'a Vec<MatIn>, batch_openings: &'a Vec<Vec<Target>>, log_blowup: usize, batch_idx: usize) -> Result<HeightGroups<'a>, VerificationError>", sliced=True)
    sh.rewrite_re('R11', r"let mut height_groups: BTreeMap<usize, Vec<MatRef<'_>>> = BTreeMap::new\(\);", "let mut height_groups: HeightGroups<'a> = HeightGroups::new();", min_count=1)
    sh.erase_error_messages('VerificationError::InvalidProofShape')
    unzip_eq_enumerate(sh)
    from vf.unit import normalize_let_chains
    normalize_let_chains(sh)
    unfor_pairs(sh)
    sh.rewrite_re('R6', r'height_groups\s*\.entry\(log_height\)\s*\.or_default\(\)\s*\.push\(', 'height_groups.push_at(log_height, ', min_count=1)
    sh.requires('heights_fit', 'forall|i: int| 0 <= i < mats@.len() ==> (#[trigger] mats@[i]).0.log_n + log_blowup < 0x1_0000_0000')
    sh.ensures('ok_iff_one_opened_row_per_matrix_and_one_value_per_column_at_EVERY_opening_point',
               'ret is Ok <==> (mats@.len() == batch_openings@.len() && point_counts_ok(mats@, batch_openings@, mats@.len() as int) && points_present(mats@, mats@.len() as int))')
    sh.ensures('matrices_filed_under_their_height_in_order', "ret matches Ok(g) ==> g.m@ == grouped(mats@, batch_openings@, log_blowup, mats@.len() as int) && groups_from(g.m@, mats@, batch_openings@, mats@.len() as int)")
    LOOP = 'for mat_idx in 0..mats.len()'
    sh.at_loop_end(LOOP, '''proof {
                let i = mat_idx as int; let g0 = g_b; let hh = log_height;
                assert(height_groups.m@ == grouped(mats@, batch_openings@, log_blowup, i + 1)); // @@A:matrix_filed_under_its_own_height_with_its_own_rows_and_points
                assert forall|h: usize, j: int| height_groups.m@.dom().contains(h) && 0 <= j < height_groups.m@[h].len() implies
                    exists|k: int| 0 <= k < i + 1 && (#[trigger] height_groups.m@[h][j]) == (batch_openings@[k]@, mats@[k].1@) by {
                    if h == hh && j == group_get(g0, hh).len() { assert(height_groups.m@[h][j] == (batch_openings@[i]@, mats@[i].1@)); }
                    else { assert(g0.dom().contains(h) && height_groups.m@[h][j] == g0[h][j]); let k = choose|k: int| 0 <= k < i && g0[h][j] == (batch_openings@[k]@, mats@[k].1@); assert(0 <= k < i + 1); }
                }
            }''')
    after_loop_binding(sh, LOOP, ' let ghost g_b = height_groups.m@;')
    INNER = 'for p0_ in 0..mat_points_and_values.len()'
    if _find_all(INNER, sh.body):
        sh.loop(INNER, invariants=[
            ('ctx', '0 <= mat_idx < mats@.len() && mats@.len() == batch_openings@.len() && *mat_points_and_values == mats@[mat_idx as int].1 && *mat_opening == batch_openings@[mat_idx as int]'),
            ('points_checked_so_far', 'forall|p: int| 0 <= p < p0_ ==> (#[trigger] mats@[mat_idx as int].1@[p]).1@.len() == batch_openings@[mat_idx as int]@.len()'),
        ])
    sh.loop(LOOP, invariants=[
        ('ctx', 'mats@.len() == batch_openings@.len() && forall|i: int| 0 <= i < mats@.len() ==> (#[trigger] mats@[i]).0.log_n + log_blowup < 0x1_0000_0000'),
        ('checked_prefix', 'point_counts_ok(mats@, batch_openings@, mat_idx as int) && points_present(mats@, mat_idx as int)'),
        ('grouped_prefix', "height_groups.m@ == grouped(mats@, batch_openings@, log_blowup, mat_idx as int) && groups_from(height_groups.m@, mats@, batch_openings@, mat_idx as int)"),
    ])
    u.text('verus! { mod shape_slice { use super::*;')
    u.emit(sh, vis='')
    u.text('} }')

    # ------------------------------------------------------------------ open_input[batch_mmcs_index]: which index bits the in-circuit MMCS opening of a batch gets (F13)
    bm = u.extract(V, '', 'open_input', 'open_input[batch_mmcs_index]')
    slice_loop_body(bm, r'for \(batch_idx, \(\(batch_commit, mats\), batch_openings\)\) in zip_eq\(', 'the per-batch loop of open_input; the projection keeps what decides the index bits of the MMCS opening')
    project_on(bm, r'if let Some\(perm_config\)', {'log_batch_max_height', 'bits_reduced', 'batch_index_bits', 'verify_batch_circuit', 'verify_batch_circuit_arity4'},
               'commitment cap packing, dimensions, salts, the arithmetic part of the batch (slices per_matrix_shape_and_grouping / height_group)')
    # the projected text ends with the (emptied) statements after the MMCS block: cut after the block that holds the MMCS call
    mo = re.search(r'if let Some\(perm_config\) = permutation_config \{', bm.body)
    if not mo:
        raise ExtractError('lost anchor in open_input[batch_mmcs_index]: the MMCS block')
    o_ = bm.body.index('{', mo.end() - 1)
    bm.body = '{\n' + bm.body[o_ + 1:match_brace(bm.body, o_)] + '\nOk(op_ids)\n}'
    bm.rewrites.append(('R13', 'function body := the projected body of `if let Some(perm_config) = permutation_config { .. }`; the slice returns the local `op_ids`', ''))
    bm.erase_error_messages('VerificationError::InvalidProofShape')
    bm.rewrite_re('R8', r'\.map_err\(\|e\| \{\s*VerificationError::InvalidProofShape\(errmsg\(\)\)\s*\}\)\?', '?', min_count=0)
    bm.rewrite_re('R11', r'::<F, EF>\(', '(', min_count=0)
    uniter_max(bm)
    unchecked_sub_filter(bm)
    unok_or_else_q(bm)
    bm.set_sig('R11', 'fn open_input_batch_mmcs(builder: &mut MmcsBuilder, perm_config: PermCfg, commitment_cap: &CapT, dimensions: &DimsT, mats: &Vec<MatIn>, batch_openings: &Vec<Vec<Target>>, salts_for_batch: Option<&SaltsT>, '
                      'index_bits: &[Target], log_global_max_height: usize, log_blowup: usize, batch_idx: usize) -> Result<OpIds, VerificationError>', sliced=True)
    bm.requires('heights_fit', 'forall|k: int| 0 <= k < mats@.len() ==> (#[trigger] mats@[k]).0.log_n + log_blowup < 0x1_0000_0000')
    bm.ensures('the_batch_is_opened_at_the_index_reduced_to_its_own_height',
               '''ret matches Ok(ids) ==> mats@.len() > 0 && max_log_height(mats@, log_blowup, mats@.len() as int) <= log_global_max_height
                    && log_global_max_height - max_log_height(mats@, log_blowup, mats@.len() as int) <= index_bits@.len()
                    && mmcs_opened_with(ids, index_bits@.subrange(log_global_max_height - max_log_height(mats@, log_blowup, mats@.len() as int), index_bits@.len() as int))''')
    for mm in re.finditer(r'for (\w+) in 0\.\.mats\.len\(\)', bm.body):
        k = mm.group(1)
        acc = re.search(r'let mut (mx\d+_): Option<usize> = None;', bm.body)
        if acc:
            a = acc.group(1)
            bm.loop(mm.group(0), invariants=[
                ('largest_height_so_far', f'''(forall|j: int| 0 <= j < mats@.len() ==> (#[trigger] mats@[j]).0.log_n + log_blowup < 0x1_0000_0000)
                    && ({k} == 0 ==> {a} is None) && ({k} > 0 ==> {a} == Some(max_log_height(mats@, log_blowup, {k} as int) as usize))
                    && 0 <= max_log_height(mats@, log_blowup, {k} as int) < 0x1_0000_0000'''),
            ])
            bm.at_loop_end(mm.group(0), f'proof {{ reveal_with_fuel(max_log_height, 2); assert(max_log_height(mats@, log_blowup, {k} + 1) == (if {k} + 1 == 1 || mats@[{k} as int].0.log_n + log_blowup > max_log_height(mats@, log_blowup, {k} as int) {{ mats@[{k} as int].0.log_n + log_blowup }} else {{ max_log_height(mats@, log_blowup, {k} as int) }})); }}')
        break
    u.text('''verus! { mod batch_mmcs_index { use super::*;
pub struct MmcsBuilder { pub _p: () }
#[derive(Clone, Copy)] pub struct PermCfg { pub arity4: bool }
impl PermCfg { pub fn is_arity4_shape(&self) -> (r: bool) ensures r == self.arity4 { self.arity4 } }
pub struct CapT { pub _p: () }
pub struct DimsT { pub _p: () }
pub struct SaltsT { pub _p: () }
pub struct OpIds { pub _p: () }
/// the largest `log_size + log_blowup` among the first n matrices of the batch
pub open spec fn max_log_height(mats: Seq<MatIn>, log_blowup: usize, n: int) -> int decreases n {
    if n <= 0 { 0 } else { let h = mats[n - 1].0.log_n + log_blowup; let m = max_log_height(mats, log_blowup, n - 1); if n == 1 || h > m { h } else { m } }
}
/// witness predicate: these op ids were produced by an in-circuit MMCS opening that was handed exactly these index bits
pub uninterp spec fn mmcs_opened_with(ids: OpIds, bits: Seq<Target>) -> bool;
#[verifier::external_body]
pub fn verify_batch_circuit(builder: &mut MmcsBuilder, perm_config: PermCfg, cap: &CapT, dims: &DimsT, index_bits: &[Target], openings: &Vec<Vec<Target>>, salts: Option<&SaltsT>) -> (r: Result<OpIds, VerificationError>)
    ensures r matches Ok(ids) ==> mmcs_opened_with(ids, index_bits@)
{ unimplemented!() }
#[verifier::external_body]
pub fn verify_batch_circuit_arity4(builder: &mut MmcsBuilder, perm_config: PermCfg, cap: &CapT, dims: &DimsT, index_bits: &[Target], openings: &Vec<Vec<Target>>) -> (r: Result<OpIds, VerificationError>)
    ensures r matches Ok(ids) ==> mmcs_opened_with(ids, index_bits@)
{ unimplemented!() }
''')
    u.emit(bm, vis='')
    u.text('} }')

    # ------------------------------------------------------------------ open_input[height_group]
    g = u.extract(V, '', 'open_input', 'open_input[height_group]')
    slice_loop_body(g, r'for \(log_height, matrices\) in &height_groups \{', 'prefix: index-bit checks, evaluation points, MMCS batch verification, shape loop (slice per_matrix_shape_and_grouping); suffix: height-1 check and the descending list')
    g.set_sig('R11', 'fn open_input<EF: FieldX>(builder: &mut CircuitBuilder<EF>, log_height: &usize, matrices: &Vec<(&[Target], &[(Target, Vec<Target>)])>, eval_points: &EvalPoints, alpha: Target, '
                     'inv_z_minus_x_cache: &mut InvCache, alpha_powers_set: &mut HashMap<usize, Target>, reduced_openings: &mut RoMap)', sliced=True)
    g.rewrite_re('R11', r'\bEF::ZERO\b', 'EF::zero()')
    g.rewrite_re('R11', r'\bEF::ONE\b', 'EF::one()')
    g.rewrite_re('R6', r'eval_points\[log_height\]', 'eval_points.at(log_height)', min_count=1)
    g.rewrite_re('R4', r'Some\(&v\) => v,', 'Some(v) => *v,')
    g.rewrite_re('R13', r'&mut alpha_powers_set\b', 'alpha_powers_set')   # a local of the dropped prefix is a `&mut` parameter of the slice
    unall(g)
    unthen(g)
    unentry_deref(g)
    unentry_cells(g)
    unget_mut_cells(g)
    unfor_pairs(g)
    rev_range(g, 'i')
    H = '*log_height'
    XV = 'old(builder).val(eval_points.m@[*log_height])'
    AV = 'old(builder).val(alpha)'
    MSV = 'mats_v(old(builder), matrices@)'
    g.requires('group_not_empty', 'matrices@.len() > 0')
    g.requires('allocated', f'old(builder).has(alpha) && eval_points.m@.dom().contains({H}) && old(builder).has(eval_points.m@[{H}]) && mats_alloc(old(builder), matrices@) && ro_alloc(old(builder), old(reduced_openings).m@)')
    g.requires('every_point_has_one_value_per_column', 'mats_shape(matrices@)')
    g.requires('columns', f'(forall|i: int| 0 <= i < matrices@.len() ==> (#[trigger] matrices@[i]).0@.len() > 0) && total_width({MSV}, 0) < 0x1_0000_0000_0000')
    g.requires('opening_points_off_the_domain_point', f'points_off_x({MSV}, {XV})')
    g.requires('caches', f'pow_cache_ok(old(builder), old(alpha_powers_set)@, {AV}) && inv_cache_ok(old(builder), old(inv_z_minus_x_cache).m@, {H}, {XV})')
    g.ensures('frame', f'''final(builder).extends_pure(old(builder)) && ro_alloc(final(builder), final(reduced_openings).m@)
            && pow_cache_ok(final(builder), final(alpha_powers_set)@, {AV}) && inv_cache_ok(final(builder), final(inv_z_minus_x_cache).m@, {H}, {XV})''')
    g.ensures('only_this_height_touched', f'''(final(reduced_openings).m@.dom() == old(reduced_openings).m@.dom() || final(reduced_openings).m@.dom() == old(reduced_openings).m@.dom().insert({H}))
            && forall|k: usize| k != {H} && old(reduced_openings).m@.dom().contains(k) ==> #[trigger] final(reduced_openings).m@[k] == old(reduced_openings).m@[k]''')
    g.ensures('reduced_opening_and_alpha_power_of_this_height_advance_by_the_native_fold_over_matrices_and_points',
              f'''cur(final(builder), final(reduced_openings).m@, {H}) == group_fold(cur(old(builder), old(reduced_openings).m@, {H}).0, cur(old(builder), old(reduced_openings).m@, {H}).1,
                    {AV}, {XV}, {MSV}, matrices@.len() as int)''')
    g.at_start(f'''let ghost msv = mats_v(builder, matrices@); let ghost a = builder.val(alpha); let ghost xv = builder.val(eval_points.m@[*log_height]); let ghost h = *log_height;
        let ghost ro00 = reduced_openings.m@; let ghost (ap0, ro0) = cur(builder, reduced_openings.m@, *log_height); let ghost nm = matrices@.len() as int;
        proof {{ assert forall|i: int| 0 <= i < nm implies (#[trigger] msv[i]).0.len() == matrices@[i].0@.len() && msv[i].1.len() == matrices@[i].1@.len() by {{}} }}''')
    CTX = ('builder.extends_pure(old(builder)) && msv == mats_v(old(builder), matrices@) && mats_alloc(old(builder), matrices@) && mats_shape(matrices@) && nm == matrices@.len() && nm > 0 '
           '&& old(builder).has(alpha) && a == old(builder).val(alpha) && xv == old(builder).val(x) && old(builder).has(x) && h == *log_height')
    # ---- detection loops
    # ---- fast path
    INV_OK = 'builder.has(inv_z_minus_x) && builder.val(inv_z_minus_x) == inv_zx(old(builder).val(z), xv)'
    g.before('let zero = builder.define_const(EF::zero());', f'''proof {{
                    assert(unified(msv, old(builder).val(z))) by {{
                        assert forall|m: int| 0 <= m < msv.len() implies (#[trigger] msv[m]).1.len() == 1 && msv[m].1[0].0 == old(builder).val(z) by {{ assert(matrices@[m].1@.len() == 1 && matrices@[m].1@[0].0 == z); }} // @@A:single_chain_only_when_every_matrix_shares_the_one_opening_point
                    }}
                    assert(mat_alloc(old(builder), matrices@[0])); assert(old(builder).has(matrices@[0].1@[0].0));
                    assert(msv[0].1[0].0.fsub(xv) != EF::fzero());
                    assert({INV_OK}); // @@A:inverse_of_z_minus_x_fresh_or_cached
                }}
                let ghost b1 = *builder;''')
    after_loop_binding(g, 'for p0_ in 0..matrices.len()', '''
                    let ghost mi = nm - 1 - p0_; let ghost acc0 = builder.val(inner);
                    proof {
                            assert(*mat_opening == matrices@[mi].0 && *points_and_values == matrices@[mi].1); // @@A:chain_runs_over_the_matrices_last_to_first
                            assert(matrices@[mi].1@.len() == 1); assert(mat_alloc(old(builder), matrices@[mi]));
                            assert(matrices@[mi].1@[0].1@.len() == matrices@[mi].0@.len());
                            lemma_width_mono(msv, mi); assert(total_width(msv, mi) == msv[mi].0.len() + total_width(msv, mi + 1)); }''')
    g.at_loop_end('for r_i in 0..mat_opening.len()', '''proof {
                        assert(old(builder).has(ps_at_z@[i as int]) && old(builder).has(mat_opening@[i as int]));
                        assert(msv[mi].1[0].1[i as int] == old(builder).val(ps_at_z@[i as int]) && msv[mi].0[i as int] == old(builder).val(mat_opening@[i as int]));
                    }''')
    g.at_loop_end('for p0_ in 0..matrices.len()', '''proof {
                    assert(chain(msv, a, mi) == hs(msv[mi].1[0].1, msv[mi].0, a, 0, chain(msv, a, mi + 1)));
                    assert(total_width(msv, mi) == msv[mi].0.len() + total_width(msv, mi + 1));
                    lemma_width_mono(msv, mi);
                }''')
    g.before('let alpha_total_n = match alpha_powers_set.get(&total_n) {', '''let ghost b_l = *builder; proof { assert(total_width(msv, 0) == msv[0].0.len() + total_width(msv, 1)); assert(matrices@[0].0@.len() > 0); assert(total_n > 0); }''')
    g.before('if !reduced_openings.contains_key(&*log_height) {', '''proof { assert(builder.has(alpha_total_n) && builder.val(alpha_total_n) == fpow(a, total_n as nat)); } // @@A:alpha_to_the_total_width_fresh_or_cached
                let ghost b2 = *builder;''', nth=0)
    g.before('let alpha_pow_old = reduced_openings.get0(&*log_height);', '''proof { assert(cur(builder, reduced_openings.m@, h) == (ap0, ro0)); assert(ro_alloc(builder, reduced_openings.m@)); }''')
    # ---- end of the fast path: the single chain IS the native fold
    o_, c_ = arm_bounds(g, 'if let Some(z) = unified_z {')
    g.body = g.body[:c_] + '''
                proof {
                    let cv = chain(msv, a, 0); let inv = inv_zx(old(builder).val(z), xv);
                    assert(b_l.extends_pure(&b1) && b2.extends_pure(&b_l) && b1.has(inv_z_minus_x) && b_l.has(inner));
                    assert(b2.val(inner) == cv && b2.val(inv_z_minus_x) == inv && b2.val(alpha_total_n) == fpow(a, total_width(msv, 0)));
                    lemma_unified_chain(ap0, ro0, a, xv, msv, old(builder).val(z));
                    assert(reduced_openings.m@.dom() =~= ro00.dom().insert(h));
                    assert(cur(builder, reduced_openings.m@, h) == (ap0.fmul(fpow(a, total_width(msv, 0))), ap0.fmul(inv).fmul(cv).fadd(ro0))); // @@A:single_chain_update_of_this_height
                }
            ''' + g.body[c_:]
    # ---- fallback path: one native (matrix, point) step per inner iteration
    P1 = 'for p1_ in 0..matrices.len() { let (mat_opening, points_and_values) = &matrices[p1_];'
    P2 = 'for p2_ in 0..points_and_values.len() { let (z, ps_at_z) = &points_and_values[p2_];'
    after_loop_binding(g, 'for p1_ in 0..matrices.len()', ''' let ghost gf = group_fold(ap0, ro0, a, xv, msv, p1_ as int);
                    proof { assert(*mat_opening == matrices@[p1_ as int].0 && *points_and_values == matrices@[p1_ as int].1); assert(mat_alloc(old(builder), matrices@[p1_ as int])); }''')
    after_loop_binding(g, 'for p2_ in 0..points_and_values.len()', ''' let ghost b_s = *builder; let ghost (ap_s, ro_s) = cur(builder, reduced_openings.m@, h);
                        proof {
                            assert(*z == matrices@[p1_ as int].1@[p2_ as int].0 && ps_at_z@ == matrices@[p1_ as int].1@[p2_ as int].1@);
                            assert(old(builder).has(*z) && old(builder).has_all(ps_at_z@) && old(builder).has_all(mat_opening@));
                            assert(msv[p1_ as int].1[p2_ as int].0 == old(builder).val(*z));
                            assert(msv[p1_ as int].1[p2_ as int].0.fsub(xv) != EF::fzero());
                            assert(ps_at_z@.len() == mat_opening@.len());
                        }''')
    g.before('let alpha_pow_value = {', '''proof { assert(builder.has(inv_z_minus_x) && builder.val(inv_z_minus_x) == inv_zx(old(builder).val(*z), xv)); } // @@A:fallback_inverse_of_z_minus_x_fresh_or_cached
                        let ghost b_i = *builder;''')
    g.before('let (new_alpha_pow_h, ro_contrib) = compute_single_reduced_opening(', '''let ghost b_c = *builder;
                        proof {
                            assert(b_c.extends_pure(&b_i) && b_i.extends_pure(&b_s) && b_s.extends_pure(old(builder)));
                            lemma_vals_stable(old(builder), &b_c, mat_opening@); lemma_vals_stable(old(builder), &b_c, ps_at_z@);
                            assert(cur(&b_c, reduced_openings.m@, h) == (ap_s, ro_s)); assert(b_c.val(alpha_pow_value) == ap_s);
                            assert(ro_alloc(&b_c, reduced_openings.m@));
                            assert(vals(&b_c, mat_opening@) == msv[p1_ as int].0 && vals(&b_c, ps_at_z@) == msv[p1_ as int].1[p2_ as int].1);
                        }''')
    g.at_loop_end('for p2_ in 0..points_and_values.len()', '''proof {
                            let px = msv[p1_ as int].0; let pz = msv[p1_ as int].1[p2_ as int].1; let inv = inv_zx(msv[p1_ as int].1[p2_ as int].0, xv);
                            assert(cur(builder, reduced_openings.m@, h) == point_step(ap_s, ro_s, a, px, pz, inv)); // @@A:one_native_matrix_point_step_added_to_this_height
                            assert(mat_fold(gf.0, gf.1, a, xv, msv[p1_ as int], p2_ + 1) == point_step(ap_s, ro_s, a, px, pz, inv));
                        }''')
    g.at_loop_end('for p1_ in 0..matrices.len()', '''proof {
                    assert(msv[p1_ as int].1.len() == points_and_values@.len());
                    assert(group_fold(ap0, ro0, a, xv, msv, p1_ + 1) == mat_fold(gf.0, gf.1, a, xv, msv[p1_ as int], msv[p1_ as int].1.len() as int));
                }''')
    RO_FRAME = ('(reduced_openings.m@.dom() == ro00.dom() || reduced_openings.m@.dom() == ro00.dom().insert(h)) && ro_alloc(builder, reduced_openings.m@) '
                '&& (forall|k: usize| k != h && ro00.dom().contains(k) ==> #[trigger] reduced_openings.m@[k] == ro00[k]) '
                '&& pow_cache_ok(builder, alpha_powers_set@, a) && inv_cache_ok(builder, inv_z_minus_x_cache.m@, h, xv) && points_off_x(msv, xv) && (ap0, ro0) == cur(old(builder), ro00, h)')
    # ---- loop contracts (added last: insertions above anchor on the bare loop heads)
    loop_if_present(g, 'for q0_ in 0..matrices.len()', invariants=[('flag', 'all0_ == (forall|j: int| 0 <= j < q0_ ==> (#[trigger] matrices@[j]).1@.len() == 1)')])
    loop_if_present(g, 'for q1_ in 0..matrices.len()', invariants=[
        ('ctx', 'forall|j: int| 0 <= j < matrices@.len() ==> (#[trigger] matrices@[j]).1@.len() == 1'),
        ('flag', 'all1_ == (forall|j: int| 0 <= j < q1_ ==> (#[trigger] matrices@[j]).1@[0].0 == z0)')])
    g.loop('for p0_ in 0..matrices.len()', invariants=[
        ('ctx', CTX + ' && builder.extends_pure(&b1) && builder.has(inner) && unified(msv, old(builder).val(z)) && total_width(msv, 0) < 0x1_0000_0000_0000 && (forall|j: int| 0 <= j < nm ==> (#[trigger] matrices@[j]).1@.len() == 1)'),
        ('one_chain_over_the_processed_suffix', 'builder.val(inner) == chain(msv, a, nm - p0_) && total_n == total_width(msv, nm - p0_)'),
    ])
    g.loop('for r_i in 0..mat_opening.len()', invariants=[
        ('ctx', CTX + ' && builder.extends_pure(&b1) && builder.has(inner) && 0 <= mi < nm && *mat_opening == matrices@[mi].0 && ps_at_z@ == matrices@[mi].1@[0].1@ && ps_at_z@.len() == mat_opening@.len() && mat_alloc(old(builder), matrices@[mi]) && matrices@[mi].1@.len() == 1'),
        ('horner_suffix_on_top_of_the_later_matrices', 'builder.val(inner) == hs(msv[mi].1[0].1, msv[mi].0, a, mat_opening@.len() - r_i, acc0)'),
    ])
    g.loop('for p1_ in 0..matrices.len()', invariants=[
        ('ctx', CTX + ' && ' + RO_FRAME),
        ('native_fold_over_the_processed_matrices', 'cur(builder, reduced_openings.m@, h) == group_fold(ap0, ro0, a, xv, msv, p1_ as int)'),
    ])
    g.loop('for p2_ in 0..points_and_values.len()', invariants=[
        ('ctx', CTX + ' && ' + RO_FRAME + ' && 0 <= p1_ < nm && *mat_opening == matrices@[p1_ as int].0 && *points_and_values == matrices@[p1_ as int].1 && mat_alloc(old(builder), matrices@[p1_ as int]) && gf == group_fold(ap0, ro0, a, xv, msv, p1_ as int)'),
        ('native_fold_over_the_processed_points', 'cur(builder, reduced_openings.m@, h) == mat_fold(gf.0, gf.1, a, xv, msv[p1_ as int], p2_ as int)'),
    ])
    u.text('verus! {')
    u.emit(g, vis='')
    u.text('}')
    return u


# ====================================================================================================================
# generic normalisers used by the open_input slices (each keeps the closure / loop BODY text verbatim)
# ====================================================================================================================
def after_loop_binding(f, loop_head, text):
    """spec-only: insert `text` after the first statement of the body of the loop with head `loop_head` (the generated `let PAT = &X[..];`), whatever its text"""
    ms = _find_all(loop_head, f.body)
    if len(ms) != 1:
        raise ExtractError(f"lost anchor in {f.qual}: loop header `{loop_head[:60]}` matched {len(ms)}x")
    open_ = f.body.index('{', ms[0].end() - 1)
    semi = f.body.index(';', open_)
    f.body = f.body[:semi + 1] + text + f.body[semi + 1:]
    f.spec_inserts += 1
    return f


def loop_if_present(f, head, **kw):
    if _find_all(head, f.body):
        f.loop(head, **kw)
    return f


def slice_from_through_loop(f, start_anchor, loop_head_re, tail, why):
    """R13: the function body becomes the statements from `start_anchor` through the end of the loop whose head matches `loop_head_re`, then `tail`"""
    ms = _find_all(start_anchor, f.body)
    ls = list(re.finditer(loop_head_re, f.body, flags=re.S))
    if len(ms) != 1 or len(ls) != 1:
        raise ExtractError(f"lost anchor in {f.qual}: slice start matched {len(ms)}x, loop head matched {len(ls)}x")
    open_ = f.body.index('{', ls[0].end() - 1)
    close = match_brace(f.body, open_)
    dropped = len(f.body) - (close + 1 - ms[0].start())
    f.body = '{\n' + f.body[ms[0].start():close + 1] + '\n' + tail + '\n}'
    f.rewrites.append(('R13', f'function body := from `{" ".join(start_anchor.split())}` through the loop `{" ".join(ls[0].group(0).split())[:80]}` ({dropped} chars around dropped)', why))
    return f


def unzip_eq_enumerate(f):
    """R5: `for (I, ((P, Q), R)) in zip_eq(A.iter(), B.iter(), ERR)?.enumerate() {` -> `if A.len() != B.len() { return Err(ERR); } for I in 0..A.len() { let (P, Q) = &A[I]; let R = &B[I];`"""
    m = re.search(r'for \((\w+), \(\((\w+), (\w+)\), (\w+)\)\) in zip_eq\(\s*(\w+)\.iter\(\),\s*(\w+)\.iter\(\),\s*', f.body)
    if not m:
        return f
    zopen = f.body.rfind('zip_eq(', 0, m.end()) + len('zip_eq')
    zclose = match_brace(f.body, zopen)
    err = f.body[m.end():zclose].strip().rstrip(',').strip()
    m2 = re.match(r'\s*\?\s*\.enumerate\(\)\s*\{', f.body[zclose + 1:])
    if not m2:
        raise ExtractError(f'{f.qual}: zip_eq(..) not followed by ?.enumerate()')
    i, p_, q_, r_, a, b = m.groups()
    new = f'if {a}.len() != {b}.len() {{ return Err({err}); }} for {i} in 0..{a}.len() {{ let ({p_}, {q_}) = &{a}[{i}]; let {r_} = &{b}[{i}];'
    f.body = f.body[:m.start()] + new + f.body[zclose + 1 + m2.end():]
    f.rewrites.append(('R5', '`for (i, ((p, q), r)) in zip_eq(A.iter(), B.iter(), ERR)?.enumerate()` -> length check returning ERR + index loop', ''))
    return f


def slice_loop_body(f, head_re, why, nth=None, of=None):
    """R13: the function body becomes the BODY of the one loop whose head matches `head_re` (or of the nth of exactly `of` matches); loop variables and the locals the body reads become parameters"""
    ms = list(re.finditer(head_re, f.body))
    if nth is None:
        if len(ms) != 1:
            raise ExtractError(f"lost anchor in {f.qual}: loop head `{head_re[:60]}` matched {len(ms)}x")
    else:
        if len(ms) != of:
            raise ExtractError(f"lost anchor in {f.qual}: loop head `{head_re[:60]}` matched {len(ms)}x, expected {of}")
        ms = [ms[nth]]
    open_ = f.body.index('{', ms[0].end() - 1)
    close = match_brace(f.body, open_)
    dropped = len(f.body) - (close - open_)
    f.body = f.body[open_:close + 1]
    f.rewrites.append(('R13', f'function body := body of the loop `{" ".join(ms[0].group(0).split())}` ({dropped} chars around it dropped)', why))
    return f


def unall(f):
    """R6: `VEC.iter().all(|PAT| COND)` -> `({ let mut all_k = true; for qk_ in 0..VEC.len() { let PAT = &VEC[qk_]; if all_k { all_k = COND; } } all_k })`"""
    k = 0
    while True:
        m = re.search(r'([\w.]+)\s*\.iter\(\)\s*\.all(\()\|([^|]+)\|\s*', f.body)
        if not m:
            break
        open_ = m.start(2)
        close = match_brace(f.body, open_)
        cond = f.body[m.end():close].strip()
        vec, pat = m.group(1), m.group(3).strip()
        new = f'({{ let mut all{k}_ = true; for q{k}_ in 0..{vec}.len() {{ let {pat} = &{vec}[q{k}_]; if all{k}_ {{ all{k}_ = {cond}; }} }} all{k}_ }})'
        f.body = f.body[:m.start()] + new + f.body[close + 1:]
        k += 1
    if k:
        f.rewrites.append(('R6', f'{k}x `VEC.iter().all(|PAT| COND)` -> flag loop (COND verbatim, evaluated while the flag holds)', ''))
    return f


def unthen(f):
    """R6: `(X).then(|| E)` -> `(if (X) { Some(E) } else { None })`"""
    k = 0
    while True:
        m = re.search(r'\)\s*\.then\(\|\|\s*', f.body)
        if not m:
            break
        # matching '(' of the ')' that precedes `.then`
        depth, i = 0, m.start()
        while i >= 0:
            ch = f.body[i]
            if ch in ')}]':
                depth += 1
            elif ch in '({[':
                depth -= 1
                if depth == 0:
                    break
            i -= 1
        if i < 0:
            raise ExtractError(f'{f.qual}: unbalanced receiver of .then')
        x = f.body[i:m.start() + 1]
        open_ = f.body.rfind('(', 0, m.end())
        close = match_brace(f.body, open_)
        e = f.body[m.end():close].strip()
        f.body = f.body[:i] + f'(if {x} {{ Some({e}) }} else {{ None }})' + f.body[close + 1:]
        k += 1
    if k:
        f.rewrites.append(('R6', f'{k}x `(X).then(|| E)` -> if/else', ''))
    return f


def unentry_deref(f):
    """R6: `*MAP.entry(KEY).or_insert_with(|| { BODY })` -> `(match MAP.get(&KEY) { Some(v_) => *v_, None => { let v_ = { BODY }; MAP.insert(KEY, v_); v_ } })`"""
    k = 0
    while True:
        m = re.search(r'\*\s*(\w+)\s*\.entry\(', f.body)
        if not m:
            break
        kopen = m.end() - 1
        kclose = match_brace(f.body, kopen)
        key = f.body[kopen + 1:kclose].strip()
        m2 = re.match(r'\s*\.or_insert_with\(\|\|\s*', f.body[kclose + 1:])
        if not m2:
            raise ExtractError(f'{f.qual}: `*MAP.entry(K)` not followed by or_insert_with')
        copen = kclose + 1 + f.body[kclose + 1:].index('(', m2.start())
        cclose = match_brace(f.body, copen)
        body = f.body[kclose + 1 + m2.end():cclose].strip()
        mp = m.group(1)
        new = f'(match {mp}.get(&{key}) {{ Some(v_) => *v_, None => {{ let v_ = {body}; {mp}.insert({key}, v_); v_ }} }})'
        f.body = f.body[:m.start()] + new + f.body[cclose + 1:]
        k += 1
    if k:
        f.rewrites.append(('R6', f'{k}x `*MAP.entry(K).or_insert_with(|| BODY)` -> get / insert (BODY verbatim, run only when the key is absent)', ''))
    return f


def _enclosing_block_end(body, pos):
    depth = 0
    for i in range(pos, len(body)):
        if body[i] == '{':
            depth += 1
        elif body[i] == '}':
            if depth == 0:
                return i
            depth -= 1
    raise ExtractError('unbalanced block')


def unentry_cells(f):
    """R6: `let (P, Q) = MAP.entry(K).or_insert_with(|| { (A, B) });` followed in the same block by reads `*P` / `*Q` and writes `*P = E;` / `*Q = E;`
    -> `if !MAP.contains_key(&K) { let a_ = A; let b_ = B; MAP.insert(K, (a_, b_)); }`, reads -> MAP.get0(&K) / MAP.get1(&K), writes -> `{ let e_ = E; MAP.set0(&K, e_); }`"""
    k = 0
    while True:
        m = re.search(r'let \((\w+), (\w+)\) =\s*(\w+)\s*\.entry\(', f.body)
        if not m:
            break
        P, Q, mp = m.group(1), m.group(2), m.group(3)
        kopen = m.end() - 1
        kclose = match_brace(f.body, kopen)
        key = f.body[kopen + 1:kclose].strip()
        m2 = re.match(r'\s*\.or_insert_with\(\|\|\s*\{\s*\(', f.body[kclose + 1:])
        if not m2:
            raise ExtractError(f'{f.qual}: entry cell pattern not followed by or_insert_with(|| {{ (A, B) }})')
        topen = kclose + 1 + m2.end() - 1
        tclose = match_brace(f.body, topen)
        parts = [x.strip() for x in f.body[topen + 1:tclose].split(',') if x.strip()]
        if len(parts) != 2:
            raise ExtractError(f'{f.qual}: entry cell initialiser is not a pair')
        copen = f.body.rindex('(', kclose, topen - 1)   # the '(' of or_insert_with(
        cclose = match_brace(f.body, copen)
        semi = f.body.index(';', cclose)
        end = _enclosing_block_end(f.body, semi + 1)
        scope = f.body[semi + 1:end]
        for name, idx in ((P, 0), (Q, 1)):
            scope = re.sub(r'\*' + name + r' = (.*?);', lambda mm: f'{{ let e_ = {mm.group(1)}; {mp}.set{idx}(&{key}, e_); }}', scope, flags=re.S)
        for name, idx in ((P, 0), (Q, 1)):
            scope = re.sub(r'\*' + name + r'\b', f'{mp}.get{idx}(&{key})', scope)
        new = f'if !{mp}.contains_key(&{key}) {{ let a_ = {parts[0]}; let b_ = {parts[1]}; {mp}.insert({key}, (a_, b_)); }}'
        f.body = f.body[:m.start()] + new + scope + f.body[end:]
        k += 1
    if k:
        f.rewrites.append(('R6', f'{k}x `let (P, Q) = MAP.entry(K).or_insert_with(|| (A, B)); .. *P .. *Q = E;` -> contains_key/insert + get0/get1/set0/set1 on the same key', ''))
    return f


def unget_mut_cells(f):
    """R6: `let N = MAP.get_mut(K).expect("..");  N.1 = E1;  N.0 = E0;` -> `{ let e_ = E1[N.i := MAP.get_i(K)]; MAP.set1(K, e_); }` ..."""
    k = 0
    while True:
        m = re.search(r'let (\w+) = (\w+)\.get_mut\(([^)]*)\)\.expect\("[^"]*"\);', f.body)
        if not m:
            break
        N, mp, key = m.group(1), m.group(2), m.group(3).strip()
        end = _enclosing_block_end(f.body, m.end())
        scope = f.body[m.end():end]
        for idx in (0, 1):
            scope = re.sub(r'\b' + N + r'\.' + str(idx) + r' = (.*?);', lambda mm: f'{{ let e_ = {mm.group(1)}; {mp}.set{idx}({key}, e_); }}', scope, flags=re.S)
        for idx in (0, 1):
            scope = re.sub(r'\b' + N + r'\.' + str(idx) + r'\b', f'{mp}.get{idx}({key})', scope)
        f.body = f.body[:m.start()] + scope + f.body[end:]
        k += 1
    if k:
        f.rewrites.append(('R6', f'{k}x `let N = MAP.get_mut(K).expect(..); N.i = E;` -> set_i / get_i on the same key (a missing key is a precondition failure instead of a panic)', ''))
    return f


def unfor_pairs(f):
    """R5: `for (A, B) in X.iter().rev() {` / `for (A, B) in X.iter() {` / `for (A, B) in X {`  ->  index loop, `let (A, B) = &X[..];`"""
    k = 0
    while True:
        m = re.search(r'for \((\w+), (\w+)\) in ([\w.]+?)(\.iter\(\)(\.rev\(\))?)? \{', f.body)
        if not m:
            break
        a, b, x, rev = m.group(1), m.group(2), m.group(3), bool(m.group(5))
        idx = f'{x}.len() - 1 - p{k}_' if rev else f'p{k}_'
        f.body = f.body[:m.start()] + f'for p{k}_ in 0..{x}.len() {{ let ({a}, {b}) = &{x}[{idx}];' + f.body[m.end():]
        k += 1
    if k:
        f.rewrites.append(('R5', f'{k}x `for (A, B) in X[.iter()[.rev()]]` -> index loop with `let (A, B) = &X[i]`', ''))
    return f
