verus! {
// =====================================================================================================
// Native reduced openings (p3_fri::verifier::open_input), per height:
//   for each matrix (in order), for each opening point (z, p(z)) (in order):
//       ro        += alpha_pow * ( sum_i alpha^i (p_i(z) - p_i(x)) ) / (z - x)
//       alpha_pow *= alpha^width
// written below in exactly the Horner / multiplication shapes the circuit gadget emits, plus the lemma
// that ONE Horner chain over all matrices of a group computes the same pair when they share one point.
// =====================================================================================================

/// Horner suffix with an incoming accumulator: h(k) = h(k+1) * a + pz[k] - px[k],  h(n) = acc
pub open spec fn hs<F: Field>(pz: Seq<F>, px: Seq<F>, a: F, k: int, acc: F) -> F
    decreases px.len() - k
{
    if k >= px.len() || k < 0 { acc } else { hs(pz, px, a, k + 1, acc).fmul(a).fadd(pz[k]).fsub(px[k]) }
}
/// one (matrix, point) contribution
pub open spec fn point_step<F: Field>(ap: F, ro: F, a: F, px: Seq<F>, pz: Seq<F>, inv: F) -> (F, F) {
    (ap.fmul(fpow(a, px.len())), ro.fadd(ap.fmul(hs(pz, px, a, 0, F::fzero())).fmul(inv)))
}
/// 1 / (z - x)
pub open spec fn inv_zx<F: Field>(z: F, x: F) -> F { F::fone().fdiv(z.fsub(x)) }

pub type MatV<F> = (Seq<F>, Seq<(F, Seq<F>)>);      // (p(x) per column, [(z, p(z) per column)])
/// fold over the first `n` opening points of one matrix
pub open spec fn mat_fold<F: Field>(ap: F, ro: F, a: F, x: F, m: MatV<F>, n: int) -> (F, F)
    decreases n
{
    if n <= 0 { (ap, ro) } else {
        let (ap1, ro1) = mat_fold(ap, ro, a, x, m, n - 1);
        point_step(ap1, ro1, a, m.0, m.1[n - 1].1, inv_zx(m.1[n - 1].0, x))
    }
}
/// fold over the first `n` matrices of a height group
pub open spec fn group_fold<F: Field>(ap: F, ro: F, a: F, x: F, ms: Seq<MatV<F>>, n: int) -> (F, F)
    decreases n
{
    if n <= 0 { (ap, ro) } else {
        let (ap1, ro1) = group_fold(ap, ro, a, x, ms, n - 1);
        mat_fold(ap1, ro1, a, x, ms[n - 1], ms[n - 1].1.len() as int)
    }
}

// ---------------------------------------------------------------- ring facts
pub proof fn lemma_mul_zero<F: Field>(a: F) ensures a.fmul(F::fzero()) == F::fzero(), F::fzero().fmul(a) == F::fzero() {
    let z = F::fzero(); let az = a.fmul(z);
    F::add_zero(z); F::distrib(a, z, z);
    assert(az == az.fadd(az));
    F::add_neg(az); F::add_assoc(az, az, az.fneg()); F::add_zero(az);
    F::mul_comm(a, z);
}
pub proof fn lemma_distrib_r<F: Field>(a: F, b: F, c: F) ensures a.fadd(b).fmul(c) == a.fmul(c).fadd(b.fmul(c)) {
    F::mul_comm(a.fadd(b), c); F::distrib(c, a, b); F::mul_comm(c, a); F::mul_comm(c, b);
}
/// (u + p) - q == u + (p - q)
pub proof fn lemma_add_sub_assoc<F: Field>(u: F, p: F, q: F) ensures u.fadd(p).fsub(q) == u.fadd(p.fsub(q)) {
    F::sub_def(u.fadd(p), q); F::sub_def(p, q); F::add_assoc(u, p, q.fneg());
}
/// Horner with an incoming accumulator splits:  hs(k, acc) == hs(k, 0) + a^(n-k) * acc
pub proof fn lemma_hs_split<F: Field>(pz: Seq<F>, px: Seq<F>, a: F, k: int, acc: F)
    requires 0 <= k <= px.len()
    ensures hs(pz, px, a, k, acc) == hs(pz, px, a, k, F::fzero()).fadd(fpow(a, (px.len() - k) as nat).fmul(acc))
    decreases px.len() - k
{
    let z = F::fzero();
    if k == px.len() {
        lemma_one_mul(acc); lemma_zero_add(acc);
    } else {
        lemma_hs_split(pz, px, a, k + 1, acc);
        let h0 = hs(pz, px, a, k + 1, z); let e = fpow(a, (px.len() - k - 1) as nat); let t = e.fmul(acc);
        // (h0 + t) * a + pz - px == (h0 * a + pz - px) + (a * e) * acc
        lemma_distrib_r(h0, t, a);
        F::mul_comm(t, a); F::mul_assoc(a, e, acc);
        assert(fpow(a, (px.len() - k) as nat) == a.fmul(e));
        let u = h0.fmul(a); let w = a.fmul(e).fmul(acc);
        assert(h0.fadd(t).fmul(a) == u.fadd(w));
        // (u + w) + pz - px == ((u + pz) - px) + w
        F::add_assoc(u, w, pz[k]); F::add_comm(w, pz[k]); F::add_assoc(u, pz[k], w);
        assert(u.fadd(w).fadd(pz[k]) == u.fadd(pz[k]).fadd(w));
        F::sub_def(u.fadd(pz[k]).fadd(w), px[k]); F::sub_def(u.fadd(pz[k]), px[k]);
        F::add_assoc(u.fadd(pz[k]), w, px[k].fneg()); F::add_comm(w, px[k].fneg()); F::add_assoc(u.fadd(pz[k]), px[k].fneg(), w);
    }
}

/// the single Horner chain across the matrices n-1, n-2, .., k of a group (each matrix's single point), as the fast path runs it
pub open spec fn chain<F: Field>(ms: Seq<MatV<F>>, a: F, k: int) -> F
    decreases ms.len() - k
{
    if k >= ms.len() || k < 0 { F::fzero() } else { hs(ms[k].1[0].1, ms[k].0, a, 0, chain(ms, a, k + 1)) }
}
pub open spec fn total_width<F>(ms: Seq<MatV<F>>, k: int) -> nat
    decreases ms.len() - k
{
    if k >= ms.len() || k < 0 { 0 } else { ms[k].0.len() + total_width(ms, k + 1) }
}
pub open spec fn unified<F: Field>(ms: Seq<MatV<F>>, z: F) -> bool {
    forall|m: int| 0 <= m < ms.len() ==> (#[trigger] ms[m]).1.len() == 1 && ms[m].1[0].0 == z
}
/// group_fold unrolled from the FRONT for single-point matrices
pub proof fn lemma_group_fold_front<F: Field>(ap: F, ro: F, a: F, x: F, ms: Seq<MatV<F>>, z: F, n: int)
    requires unified(ms, z), 1 <= n <= ms.len()
    ensures ({
        let (ap1, ro1) = point_step(ap, ro, a, ms[0].0, ms[0].1[0].1, inv_zx(z, x));
        group_fold(ap, ro, a, x, ms, n) == group_fold(ap1, ro1, a, x, ms.subrange(1, ms.len() as int), n - 1)
    })
    decreases n
{
    let tail = ms.subrange(1, ms.len() as int);
    let (ap1, ro1) = point_step(ap, ro, a, ms[0].0, ms[0].1[0].1, inv_zx(z, x));
    reveal_with_fuel(mat_fold, 3);
    if n == 1 {
        reveal_with_fuel(group_fold, 3);
        assert(ms[0].1.len() == 1);
        assert(group_fold(ap, ro, a, x, ms, 0) == (ap, ro));
        assert(mat_fold(ap, ro, a, x, ms[0], 1) == point_step(ap, ro, a, ms[0].0, ms[0].1[0].1, inv_zx(ms[0].1[0].0, x)));
    } else {
        lemma_group_fold_front(ap, ro, a, x, ms, z, n - 1);
        assert(tail[n - 2] == ms[n - 1]);
        assert(group_fold(ap1, ro1, a, x, tail, n - 1)
            == mat_fold(group_fold(ap1, ro1, a, x, tail, n - 2).0, group_fold(ap1, ro1, a, x, tail, n - 2).1, a, x, tail[n - 2], tail[n - 2].1.len() as int));
    }
}
/// THE FAST PATH IS THE NATIVE FOLD: when every matrix of the group is opened at the one shared point z,
///   group_fold == ( ap * a^N ,  (ap * inv) * chain + ro )        with N the total width
pub proof fn lemma_unified_chain<F: Field>(ap: F, ro: F, a: F, x: F, ms: Seq<MatV<F>>, z: F)
    requires unified(ms, z)
    ensures group_fold(ap, ro, a, x, ms, ms.len() as int)
        == (ap.fmul(fpow(a, total_width(ms, 0))), ap.fmul(inv_zx(z, x)).fmul(chain(ms, a, 0)).fadd(ro))
    decreases ms.len()
{
    let inv = inv_zx(z, x); let zero = F::fzero();
    if ms.len() == 0 {
        F::mul_one(ap); lemma_mul_zero(ap.fmul(inv)); lemma_zero_add(ro);
    } else {
        let tail = ms.subrange(1, ms.len() as int);
        let px = ms[0].0; let pz = ms[0].1[0].1; let n0 = px.len();
        let (ap1, ro1) = point_step(ap, ro, a, px, pz, inv);
        lemma_group_fold_front(ap, ro, a, x, ms, z, ms.len() as int);
        assert(unified(tail, z)) by { assert forall|m: int| 0 <= m < tail.len() implies (#[trigger] tail[m]).1.len() == 1 && tail[m].1[0].0 == z by { assert(tail[m] == ms[m + 1]); } }
        lemma_unified_chain(ap1, ro1, a, x, tail, z);
        lemma_chain_shift(ms, a, 1); lemma_width_shift(ms, 1);
        let ct = chain(tail, a, 0); let nt = total_width(tail, 0);
        assert(chain(ms, a, 1) == ct && total_width(ms, 1) == nt);
        assert(chain(ms, a, 0) == hs(pz, px, a, 0, ct));
        assert(total_width(ms, 0) == n0 + nt);
        // alpha power: (ap * a^n0) * a^nt == ap * a^(n0+nt)
        lemma_fpow_add(a, n0, nt); F::mul_assoc(ap, fpow(a, n0), fpow(a, nt));
        // ro: ((ap*a^n0)*inv)*ct + (ro + (ap*h0)*inv) == (ap*inv)*(h0 + a^n0*ct) + ro
        let h0 = hs(pz, px, a, 0, zero); let e = fpow(a, n0);
        lemma_hs_split(pz, px, a, 0, ct);
        assert(hs(pz, px, a, 0, ct) == h0.fadd(e.fmul(ct)));
        let c = ap.fmul(inv);
        F::distrib(c, h0, e.fmul(ct));
        // c*h0 == (ap*h0)*inv
        F::mul_assoc(ap, inv, h0); F::mul_comm(inv, h0); F::mul_assoc(ap, h0, inv);
        assert(c.fmul(h0) == ap.fmul(h0).fmul(inv));
        // c*(e*ct) == ((ap*e)*inv)*ct
        F::mul_assoc(c, e, ct); F::mul_assoc(ap, inv, e); F::mul_comm(inv, e); F::mul_assoc(ap, e, inv);
        assert(c.fmul(e.fmul(ct)) == ap.fmul(e).fmul(inv).fmul(ct));
        let p = ap.fmul(h0).fmul(inv); let q = ap.fmul(e).fmul(inv).fmul(ct);
        // q + (ro + p) == (p + q) + ro
        F::add_comm(ro, p); F::add_assoc(q, p, ro); F::add_comm(q, p);
        assert(q.fadd(ro.fadd(p)) == p.fadd(q).fadd(ro));
    }
}
pub proof fn lemma_chain_shift<F: Field>(ms: Seq<MatV<F>>, a: F, k: int)
    requires 1 <= k <= ms.len()
    ensures chain(ms, a, k) == chain(ms.subrange(1, ms.len() as int), a, k - 1)
    decreases ms.len() - k
{
    let tail = ms.subrange(1, ms.len() as int);
    if k < ms.len() { lemma_chain_shift(ms, a, k + 1); assert(tail[k - 1] == ms[k]); }
}
pub proof fn lemma_width_shift<F>(ms: Seq<MatV<F>>, k: int)
    requires 1 <= k <= ms.len()
    ensures total_width(ms, k) == total_width(ms.subrange(1, ms.len() as int), k - 1)
    decreases ms.len() - k
{
    let tail = ms.subrange(1, ms.len() as int);
    if k < ms.len() { lemma_width_shift(ms, k + 1); assert(tail[k - 1] == ms[k]); }
}
} // verus!
