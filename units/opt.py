"""Unit `opt` (C02, C03): WitnessId::resolve, Op::apply_witness_rewrite, AluKey::{new,with_acc},
Deduplicator::{new,detect_duplicate,run} — real text from /repo, contracts spliced in.

Top-level obligations (taken from the property statements):
  C03  run.ensures[no_relation_dropped]   every input op is `covered` by a kept op under the final rewrite
       + lemma_covered_sat                covered  ==>  (kept op satisfied by w  ==>  input op satisfied by w . root)
       + lemma_same_key_same_relation     equal dedup keys ==> equal ALU relation (this is where F1 lived)
  C02  resolve.ensures[root], apply_witness_rewrite.ensures[mapped], run.ensures[acyclic]
"""
import re

from vf.extract import extract_item, extract_fn, ExtractError
from vf.unit import Unit, _find_all, unextend_iter

PRELUDE = r'''
#![allow(unused_imports, unused_variables, dead_code, unused_mut, unused_parens)]
use vstd::prelude::*;
use std::collections::{HashMap, HashSet, BTreeMap, BTreeSet, VecDeque};

verus! {

// ---------------------------------------------------------------- opaque environment
/// Abstract field: only the laws the proofs use are required of an implementor.
pub trait Field: Sized {
    spec fn fadd(self, o: Self) -> Self;
    spec fn fmul(self, o: Self) -> Self;
    spec fn fsub(self, o: Self) -> Self;
    spec fn fzero() -> Self;
    spec fn fone() -> Self;
    proof fn add_comm(a: Self, b: Self) ensures a.fadd(b) == b.fadd(a);
    proof fn mul_comm(a: Self, b: Self) ensures a.fmul(b) == b.fmul(a);
}
pub trait HintExecutor<F> {}
pub trait NonPrimitiveExecutor<F> {}
#[derive(Clone, Copy, PartialEq, Eq, Hash)]
pub struct NonPrimitiveOpId(pub u32);

// ---------------------------------------------------------------- types cut from /repo
@@TYPES@@

// ASSUMPTION (listed in evidence): the derived Hash/Eq of these newtypes obey vstd's key model.
pub mod ax {
    use super::*;
    pub broadcast axiom fn witness_id_key_model()
        ensures #[trigger] vstd::std_specs::hash::obeys_key_model::<WitnessId>();
    pub broadcast axiom fn alu_key_key_model()
        ensures #[trigger] vstd::std_specs::hash::obeys_key_model::<AluKey>();
}

} // verus!
'''

SPEC = open(__file__.replace('opt.py', 'rw_spec.rs')).read() + open(__file__.replace('opt.py', 'opt_spec.rs')).read()


def types_from_repo():
    t = []
    wid = extract_item('circuit/src/types.rs', r'pub struct WitnessId\b')
    t.append('#[derive(Clone, Copy, PartialEq, Eq, Hash, Structural)]\n' + wid)
    t.append('#[derive(Clone, Copy, PartialEq, Eq, Hash, Structural)]\n' + extract_item('circuit/src/ops/op.rs', r'pub enum AluOpKind\b'))
    op = extract_item('circuit/src/ops/op.rs', r'pub enum Op<F>')
    t.append('#[verifier::reject_recursive_types(F)]\n' + op)
    ak = extract_item('circuit/src/builder/compiler/optimizer/analysis.rs', r'pub\(super\) struct AluKey\b')
    ak = ak.replace('pub(super) ', 'pub ')
    ak = re.sub(r'(\n\s+)(\w+):', r'\1pub \2:', ak)
    t.append('#[derive(Clone, Copy, PartialEq, Eq, Hash)]\n' + ak)
    dd = extract_item('circuit/src/builder/compiler/optimizer/dedup.rs', r'pub\(super\) struct Deduplicator\b')
    dd = dd.replace('pub(super) ', 'pub ')
    dd = re.sub(r'(\n\s+)(\w+):', r'\1pub \2:', dd)
    t.append(dd)
    return '\n\n'.join(t)


def spec_twin_of_alukey_new():
    """spec fn body = the real body of AluKey::new with exec-only calls replaced by their spec names"""
    ex = extract_fn('circuit/src/builder/compiler/optimizer/analysis.rs', r'impl AluKey', 'new')
    b = ex.body
    b = re.sub(r'\bSelf\s*\{', 'AluKey {', b)
    b = re.sub(r'([\w.]+)\.min\(([\w.]+)\)', r'smin(\1, \2)', b)
    b = re.sub(r'([\w.]+)\.max\(([\w.]+)\)', r'smax(\1, \2)', b)
    b = re.sub(r'(\w+)\.unwrap_or\(WitnessId\(0\)\)', r'(match \1 { Some(x) => x, None => WitnessId(0) })', b)
    return b


def build():
    u = Unit('opt', ['C02', 'C03'])
    u.rlimit = 60
    u.assume('derived Hash/Eq of WitnessId and AluKey obey vstd::std_specs::hash::obeys_key_model (axioms ax::witness_id_key_model, ax::alu_key_key_model)')
    u.assume('hashbrown::HashMap is treated as std::collections::HashMap (R7)')
    u.assume('HintExecutor / NonPrimitiveExecutor objects are opaque; the relation of a non-primitive row is an uninterpreted function of the values on its slots (npo_rel)')
    u.assume('field laws used: commutativity of + and * (trait Field proof obligations on any implementor)')
    u.assume('ops entering the optimizer have the shape produced by Op::add/mul/bool_check/mul_add/horner_acc (wf_op): c is Some exactly for MulAdd/HornerAcc, HornerAcc carries its accumulator')
    u.text(PRELUDE.replace('@@TYPES@@', types_from_repo()))
    spec_ = SPEC.replace('@@SPEC_NEW_BODY@@', spec_twin_of_alukey_new())
    # key_of = the key the code builds for an op.  A key TYPE without the accumulator component cannot carry it: key_of then is the key the type can hold, and
    # lemma_same_key_same_relation (equal keys, same relation: where F1 lived) is the obligation that notices
    ak_ = extract_item('circuit/src/builder/compiler/optimizer/analysis.rs', r'pub\(super\) struct AluKey\b')
    if not re.search(r'\bacc\s*:', ak_):
        spec_ = spec_.replace('AluKey { acc: oid(io), ..AluKey::spec_new(kind, a, b, c) }', 'AluKey::spec_new(kind, a, b, c)')
    u.text(spec_)

    # ------------------------------------------------------------ WitnessId::resolve
    f = u.extract('circuit/src/types.rs', r'impl WitnessId', 'resolve', 'WitnessId::resolve')
    f.sig_rewrite('R7', 'hashbrown::HashMap<Self, Self>', 'HashMap<WitnessId, WitnessId>')
    f.sig_rewrite('R12', '-> Self', '-> WitnessId')
    f.rewrite('R4', 'while let Some(&next) = rewrite.get(&cur) { cur = next; }',
              'loop { match rewrite.get(&cur) { Some(next) => { cur = *next; } None => { break; } } }')
    f.requires('acyclic', 'acyclic(rewrite@)')
    f.ensures('root', 'root_of(rewrite@, self, ret)')
    f.ensures('root_fn', 'ret == root(rewrite@, self)')
    f.ensures('identity_outside_domain', '!rewrite@.dom().contains(self) ==> ret == self')
    f.at_start('''
        let ghost (stamp, bound) = choose|stamp: Map<WitnessId, nat>, bound: nat| stamped(rewrite@, stamp, bound);
        let ghost mut steps: nat = 0;
    ''')
    f.loop('loop {', invariant_except_break=[
        ('stamped', 'stamped(rewrite@, stamp, bound)'),
        ('on_chain', 'iter(rewrite@, self, steps) == cur'),
        ('first_step', 'steps == 0 ==> cur == self'),
    ], ensures=[
        ('exit_root', '!rewrite@.dom().contains(cur)'),
        ('exit_chain', 'iter(rewrite@, self, steps) == cur'),
        ('exit_first', 'steps == 0 ==> cur == self'),
    ], decreases='if rewrite@.dom().contains(cur) { bound - stamp[cur] } else { 0 }')
    f.before('cur = *next;', '''proof {
        lemma_iter_step(rewrite@, self, steps); steps = steps + 1;
        assert(rewrite@.dom().contains(cur) && rewrite@[cur] == *next);
        assert(stamp[cur] < bound);
        if rewrite@.dom().contains(*next) { assert(stamp[cur] < stamp[rewrite@[cur]]); }
    }''')
    f.at_end_expr('cur', 'proof { lemma_root(rewrite@, self, cur); }')
    u.text('verus! {\nimpl WitnessId {')
    u.emit(f)
    u.text('}\n}')

    # ------------------------------------------------------------ AluKey::new / with_acc
    A = 'circuit/src/builder/compiler/optimizer/analysis.rs'
    g = u.extract(A, r'impl AluKey', 'new', 'AluKey::new')
    g.sig_rewrite('R12', '-> Self', '-> AluKey')
    g.rewrite_re('R12', r'\bSelf\s*\{', 'AluKey {')
    g.ensures('matches_spec_twin', 'ret == AluKey::spec_new(kind, a, b, c)')
    # with_acc is under contract where it exists; a key type without it (and without the field) is judged through the contract of detect_duplicate: equal keys, same relation
    try:
        h = u.extract(A, r'impl AluKey', 'with_acc', 'AluKey::with_acc')
    except ExtractError:
        h = None
    if h is not None:
        h.sig_rewrite('R2', 'mut self', 'self')
        h.sig_rewrite('R12', '-> Self', '-> AluKey')
        h.rewrite('R2', 'self.acc = acc.map(|id| id.0); self', 'let mut self_ = self; self_.acc = acc.map(|id| id.0); self_')
        h.annotate_closure('|id| id.0', 'id: WitnessId', 'r: u32', 'ensures r == id.0')
        h.ensures('acc_recorded', 'ret == (AluKey { acc: oid(acc), ..self })')
    u.text('verus! {\nimpl AluKey {')
    u.emit(g)
    if h is not None:
        u.emit(h)
    u.text('}\n}')

    # ------------------------------------------------------------ Op::apply_witness_rewrite
    O = 'circuit/src/ops/op.rs'
    a = u.extract(O, r'impl<F> Op<F>', 'apply_witness_rewrite', 'Op::apply_witness_rewrite')
    a.rewrite_re('R12', r'\bSelf::', 'Op::', min_count=5)
    cl = 'requires acyclic(rewrite@) ensures r == root(rewrite@, id)'
    for nth_ in reversed(range(len(_find_all('|id| id.resolve(rewrite)', a.body)))):      # every occurrence present (a missing one is for the postcondition to notice)
        a.annotate_closure('|id| id.resolve(rewrite)', 'id: WitnessId', 'r: WitnessId', cl, nth=nth_)
    # R5: iter_mut loops -> index loops (2 flat + 2 nested)
    a.iter_mut_to_index('w', 'inputs', 'hi')
    a.iter_mut_to_index('w', 'outputs', 'ho')
    a.iter_mut_to_index('g', 'inputs', 'gi')
    a.iter_mut_to_index('w', 'g', 'wi', nth=0)
    a.iter_mut_to_index('g', 'outputs', 'go')
    a.iter_mut_to_index('w', 'g', 'wo', nth=0)
    a.requires('acyclic', 'acyclic(rewrite@)')
    a.ensures('mapped', 'op_mapped(*old(self), *final(self), rootf(rewrite@))')
    a.before('return;', '''proof {
            assert forall|x: WitnessId| root(rewrite@, x) == x by { lemma_root_outside(rewrite@, x); }
        }''')

    def flat_inv(v, idx):
        return [
            ('len', f'{v}@.len() == old_{v}.len()'), ('end', f'{idx}_it.iter.end == old_{v}.len()'), ('acyclic', 'acyclic(rewrite@)'),
            ('done', f'forall|k: int| 0 <= k < {idx} ==> {v}@[k] == root(rewrite@, #[trigger] old_{v}[k])'),
            ('todo', f'forall|k: int| {idx} <= k < old_{v}.len() ==> {v}@[k] == old_{v}[k]'),
        ]

    def nest_inv(v, idx):
        return [
            ('len', f'{v}@.len() == old_{v}.len()'), ('end', f'{idx}_it.iter.end == old_{v}.len()'), ('acyclic', 'acyclic(rewrite@)'),
            ('done', f'forall|k: int| 0 <= k < {idx} ==> seq_mapped(#[trigger] old_{v}[k]@, {v}@[k]@, rootf(rewrite@))'),
            ('todo', f'forall|k: int| {idx} <= k < old_{v}.len() ==> {v}@[k] == old_{v}[k]'),
        ]

    def inner_inv(idx):
        return [
            ('len', 'g@.len() == g0.len()'), ('end', f'{idx}_it.iter.end == g0.len()'), ('acyclic', 'acyclic(rewrite@)'),
            ('done', f'forall|k: int| 0 <= k < {idx} ==> g@[k] == root(rewrite@, #[trigger] g0[k])'),
            ('todo', f'forall|k: int| {idx} <= k < g0.len() ==> g@[k] == g0[k]'),
        ]
    a.before('for hi in', 'let ghost old_inputs = inputs@; let ghost old_outputs = outputs@;')
    a.loop('for hi in hi_it: 0..inputs.len()', invariants=flat_inv('inputs', 'hi'))
    a.loop('for ho in ho_it: 0..outputs.len()', invariants=flat_inv('outputs', 'ho'))
    a.before('for gi in', 'let ghost old_inputs = inputs@; let ghost old_outputs = outputs@;')
    a.loop('for gi in gi_it: 0..inputs.len()', invariants=nest_inv('inputs', 'gi'))
    a.before('for wi in', 'let ghost g0 = g@;')
    a.loop('for wi in wi_it: 0..g.len()', invariants=inner_inv('wi'))
    a.loop('for go in go_it: 0..outputs.len()', invariants=nest_inv('outputs', 'go'))
    a.before('for wo in', 'let ghost g0 = g@;')
    a.loop('for wo in wo_it: 0..g.len()', invariants=inner_inv('wo'))
    u.text('verus! {\nimpl<F> Op<F> {')
    u.emit(a)
    u.text('}\n}')

    # ------------------------------------------------------------ Deduplicator
    D = 'circuit/src/builder/compiler/optimizer/dedup.rs'
    n = u.extract(D, r'impl Deduplicator', 'new', 'Deduplicator::new')
    n.sig_rewrite('R12', '-> Self', '-> Deduplicator')
    n.rewrite_re('R12', r'\bSelf\s*\{', 'Deduplicator {')
    n.ensures('fresh', 'ret.rewrite@ == Map::<WitnessId, WitnessId>::empty() && ret.seen@ == Map::<AluKey, WitnessId>::empty() && ret.mentioned@ == Set::<WitnessId>::empty()')

    d = u.extract(D, r'impl Deduplicator', 'detect_duplicate', 'Deduplicator::detect_duplicate')
    d.sig_rewrite('R11', '<F: Field>', '<F>')
    cl = 'requires acyclic(self.rewrite@) ensures r == root(self.rewrite@, id)'
    for nth_ in reversed(range(len(_find_all('|id| id.resolve(&self.rewrite)', d.body)))):      # every occurrence present
        d.annotate_closure('|id| id.resolve(&self.rewrite)', 'id: WitnessId', 'r: WitnessId', cl, nth=nth_)
    d.rewrite('R1', 'if let Some(&canonical) = self.seen.get(&key) { Some((*out, canonical)) }',
              'if let Some(canonical) = self.seen.get(&key) { Some((*out, *canonical)) }')
    d.requires('acyclic', 'acyclic(old(self).rewrite@)')
    d.ensures('rewrite_untouched', 'final(self).rewrite@ == old(self).rewrite@ && final(self).mentioned@ == old(self).mentioned@')
    d.ensures('non_alu_passes', '!is_alu(*op) ==> ret.is_none() && final(self).seen@ == old(self).seen@')
    d.ensures('alu_lookup', '''*op matches Op::Alu { kind, a, b, c, out, intermediate_out } ==> ({
            let rw = old(self).rewrite@;
            let key = key_of(kind, root(rw, a), root(rw, b), omap(c, rootf(rw)), omap(intermediate_out, rootf(rw)));
            if old(self).seen@.contains_key(key) {
                ret == Some((out, old(self).seen@[key])) && final(self).seen@ == old(self).seen@
            } else {
                ret.is_none() && final(self).seen@ == old(self).seen@.insert(key, out)
            }
        })''')

    mm = u.extract(D, r'impl Deduplicator', 'mark_mentioned', 'Deduplicator::mark_mentioned')
    mm.sig_rewrite('R11', '<F: Field>', '<F>')
    mm.rewrite_re('R5', r'for (\w+) in (inputs|outputs|group) \{', r'for q_\2 in 0..\2.len() { let \1 = &\2[q_\2];', min_count=0)
    unextend_iter(mm)
    mm.attr('#[verifier::loop_isolation(false)]')
    mm.ensures('records_exactly_the_slots_the_op_mentions', 'forall|x: WitnessId| #[trigger] final(self).mentioned@.contains(x) <==> (old(self).mentioned@.contains(x) || mentions(*op, x))')
    mm.ensures('tables_untouched', 'final(self).rewrite@ == old(self).rewrite@ && final(self).seen@ == old(self).seen@')
    FR = 'self.rewrite@ == old(self).rewrite@ && self.seen@ == old(self).seen@'
    M = '#[trigger] self.mentioned@.contains(x)'
    M0 = 'old(self).mentioned@.contains(x)'
    def mloop(head, nth, inv_rhs, end_hint):
        if len(_find_all(head, mm.body)) <= nth:
            return
        mm.at_loop_end(head, end_hint, nth=nth)
        mm.loop(head, invariants=[('recorded_so_far', f'{FR} && forall|x: WitnessId| {M} <==> ({inv_rhs})')], nth=nth)
    # textual order: Hint.inputs, Hint.outputs, NPO.inputs{group}, NPO.outputs{group}; later ones first so ordinals stay valid
    mloop('for q_group in 0..group.len()', 1, f'{M0} || in_seq2(inputs@, x) || pref2(outputs@, q_outputs as int, x) || pref(group@, q_group as int, x)',
          'proof { assert forall|x: WitnessId| pref(group@, q_group + 1, x) <==> (pref(group@, q_group as int, x) || group@[q_group as int] == x) by { lemma_pref_step(group@, q_group as int, x); } }')
    mloop('for q_outputs in 0..outputs.len()', 1, f'{M0} || in_seq2(inputs@, x) || pref2(outputs@, q_outputs as int, x)',
          'proof { assert forall|x: WitnessId| pref2(outputs@, q_outputs + 1, x) <==> (pref2(outputs@, q_outputs as int, x) || pref(outputs@[q_outputs as int]@, outputs@[q_outputs as int]@.len() as int, x)) by { lemma_pref2_step(outputs@, q_outputs as int, x); } }')
    mloop('for q_group in 0..group.len()', 0, f'{M0} || pref2(inputs@, q_inputs as int, x) || pref(group@, q_group as int, x)',
          'proof { assert forall|x: WitnessId| pref(group@, q_group + 1, x) <==> (pref(group@, q_group as int, x) || group@[q_group as int] == x) by { lemma_pref_step(group@, q_group as int, x); } }')
    mloop('for q_inputs in 0..inputs.len()', 1, f'{M0} || pref2(inputs@, q_inputs as int, x)',
          'proof { assert forall|x: WitnessId| pref2(inputs@, q_inputs + 1, x) <==> (pref2(inputs@, q_inputs as int, x) || pref(inputs@[q_inputs as int]@, inputs@[q_inputs as int]@.len() as int, x)) by { lemma_pref2_step(inputs@, q_inputs as int, x); } }')
    mloop('for q_outputs in 0..outputs.len()', 0, f'{M0} || inputs@.contains(x) || pref(outputs@, q_outputs as int, x)',
          'proof { assert forall|x: WitnessId| pref(outputs@, q_outputs + 1, x) <==> (pref(outputs@, q_outputs as int, x) || outputs@[q_outputs as int] == x) by { lemma_pref_step(outputs@, q_outputs as int, x); } }')
    mloop('for q_inputs in 0..inputs.len()', 0, f'{M0} || pref(inputs@, q_inputs as int, x)',
          'proof { assert forall|x: WitnessId| pref(inputs@, q_inputs + 1, x) <==> (pref(inputs@, q_inputs as int, x) || inputs@[q_inputs as int] == x) by { lemma_pref_step(inputs@, q_inputs as int, x); } }')
    if len(_find_all('for q_outputs in 0..outputs.len()', mm.body)) == 2:
        mm.before('for q_outputs in 0..outputs.len()', 'proof { assert forall|x: WitnessId| pref2(inputs@, inputs@.len() as int, x) <==> in_seq2(inputs@, x) by { lemma_pref2_all(inputs@, x); } }', nth=1)
        mm.before('for q_outputs in 0..outputs.len()', 'proof { assert forall|x: WitnessId| pref(inputs@, inputs@.len() as int, x) <==> inputs@.contains(x) by { lemma_pref_all(inputs@, x); } }', nth=0)
    mm.at_end('''proof {
            assert forall|x: WitnessId| self.mentioned@.contains(x) <==> (old(self).mentioned@.contains(x) || mentions(*op, x)) by {
                match *op {
                    Op::Hint { inputs, outputs, .. } => { lemma_pref_all(inputs@, x); lemma_pref_all(outputs@, x); }
                    Op::NonPrimitiveOpWithExecutor { inputs, outputs, .. } => { lemma_pref2_all(inputs@, x); lemma_pref2_all(outputs@, x); }
                    _ => {}
                }
            }
        }''')
    u.text('''verus! {
pub open spec fn pref(s: Seq<WitnessId>, n: int, x: WitnessId) -> bool { exists|j: int| 0 <= j < n && j < s.len() && #[trigger] s[j] == x }
pub open spec fn pref2(s: Seq<Vec<WitnessId>>, n: int, x: WitnessId) -> bool { exists|g: int| 0 <= g < n && g < s.len() && (#[trigger] s[g])@.contains(x) }
pub proof fn lemma_pref_step(s: Seq<WitnessId>, n: int, x: WitnessId) requires 0 <= n < s.len() ensures pref(s, n + 1, x) <==> (pref(s, n, x) || s[n] == x) {
    if pref(s, n + 1, x) { let j = choose|j: int| 0 <= j < n + 1 && j < s.len() && #[trigger] s[j] == x; if j < n { assert(pref(s, n, x)); } }
    if s[n] == x { assert(pref(s, n + 1, x)); }
    if pref(s, n, x) { let j = choose|j: int| 0 <= j < n && j < s.len() && #[trigger] s[j] == x; assert(s[j] == x); assert(pref(s, n + 1, x)); }
}
pub proof fn lemma_pref_all(s: Seq<WitnessId>, x: WitnessId) ensures pref(s, s.len() as int, x) <==> s.contains(x) {
    if s.contains(x) { let j = choose|j: int| 0 <= j < s.len() && s[j] == x; assert(s[j] == x); assert(pref(s, s.len() as int, x)); }
}
pub proof fn lemma_pref2_step(s: Seq<Vec<WitnessId>>, n: int, x: WitnessId) requires 0 <= n < s.len() ensures pref2(s, n + 1, x) <==> (pref2(s, n, x) || pref(s[n]@, s[n]@.len() as int, x)) {
    lemma_pref_all(s[n]@, x);
    if pref2(s, n + 1, x) { let g = choose|g: int| 0 <= g < n + 1 && g < s.len() && (#[trigger] s[g])@.contains(x); if g < n { assert(pref2(s, n, x)); } }
    if s[n]@.contains(x) { assert(pref2(s, n + 1, x)); }
    if pref2(s, n, x) { let g = choose|g: int| 0 <= g < n && g < s.len() && (#[trigger] s[g])@.contains(x); assert(s[g]@.contains(x)); assert(pref2(s, n + 1, x)); }
}
pub proof fn lemma_pref2_all(s: Seq<Vec<WitnessId>>, x: WitnessId) ensures pref2(s, s.len() as int, x) <==> in_seq2(s, x) {
    if in_seq2(s, x) { let g = choose|g: int| 0 <= g < s.len() && (#[trigger] s[g])@.contains(x); assert(s[g]@.contains(x)); assert(pref2(s, s.len() as int, x)); }
}
}''')
    r = u.extract(D, r'impl Deduplicator', 'run', 'Deduplicator::run')
    r.sig_rewrite('R11', '<F: Field>', '<F>')
    r.sig_rewrite('R2', 'mut self', 'self')
    r.rewrite_re('R2', r'\bself\.', 'self_.', min_count=4)
    r.at_start('let mut self_ = self;')
    r.requires('fresh', 'self.rewrite@ == Map::<WitnessId, WitnessId>::empty() && self.seen@ == Map::<AluKey, WitnessId>::empty() && self.mentioned@ == Set::<WitnessId>::empty()')
    r.requires('wf_ops', 'forall|k: int| 0 <= k < ops@.len() ==> wf_op(#[trigger] ops@[k])')
    r.ensures('acyclic', 'acyclic(ret.1@)')
    r.ensures('no_relation_dropped', 'all_covered(ops@, ret.0@, ret.1@)')
    r.ensures('kept_slots_are_roots', 'forall|x: WitnessId| list_mentions(ret.0@, x) ==> !ret.1@.dom().contains(x)')
    r.after('let mut result = Vec::with_capacity(ops.len());', '''
        let ghost ops0 = ops@;
        let ghost mut seen_idx: Map<AluKey, int> = Map::empty();
        let ghost mut cover: Seq<int> = Seq::empty();
        proof { lemma_acyclic_empty(); }
    ''')
    r.rewrite('SPEC-iter-name', 'for mut op in ops {', 'for mut op in it: ops {')
    r.loop('for mut op in it: ops', invariants=[
        ('seq', 'it.seq() == ops0'),
        ('inv', 'inv(ops0, it.index@ as int, result@, self_.rewrite@, self_.seen@, seen_idx, cover)'),
        ('mentioned_is_what_the_kept_ops_mention', 'forall|x: WitnessId| #[trigger] self_.mentioned@.contains(x) <==> list_mentions(result@, x)'),
    ])
    r.after('op.apply_witness_rewrite(&self_.rewrite);', 'let ghost op1 = op; let ghost i = it.index@ as int; let ghost rw = self_.rewrite@; let ghost seen0 = self_.seen@; let ghost res0 = result@;')
    r.before('let root = canonical.resolve(&self_.rewrite);', '''proof {
                lemma_key_of_rewritten(rw, ops0[i], op1);
                lemma_dup_facts(ops0, i, result@, rw, seen0, seen_idx, cover, op1);
            }''')
    r.before('self_.rewrite.insert(dup_out, root);', '''proof {
                    // the duplicate's out slot is mentioned by no kept op: since fix ba1bfe9 the code checks it (`mentioned`); before, this was the open finding C03-alias
                    assert(dup_out != root ==> !list_mentions(result@, dup_out)); // @@A:dup_out_unmentioned_by_any_kept_op
                }''')
    r.before('skip_ = true;', '''proof {
                lemma_inv_dup_same(ops0, i, result@, rw, seen0, seen_idx, cover, op1);
                cover = cover.push(seen_idx[alu_key(op1)]);
            }''', nth=0)
    r.before('skip_ = true;', '''proof {
                lemma_inv_dup_insert(ops0, i, result@, rw, seen0, seen_idx, cover, op1);
                cover = cover.push(seen_idx[alu_key(op1)]);
            }''', nth=1)
    r.after('result.push(op);', '''proof {
                if is_alu(op1) { lemma_key_of_rewritten(rw, ops0[i], op1); }
                lemma_inv_push(ops0, i, res0, rw, seen0, seen_idx, cover, op1, self_.seen@);
                assert(res0.push(op1) =~= result@);
                if self_.seen@ != seen0 { seen_idx = seen_idx.insert(alu_key(op1), result@.len() - 1); }
                cover = cover.push(result@.len() - 1);
                assert forall|x: WitnessId| self_.mentioned@.contains(x) <==> list_mentions(result@, x) by { lemma_list_mentions_push(res0, op1, x); }
            }''')
    r.at_end_expr('(result, self_.rewrite)', '''proof {
            assert(cover.len() == ops0.len());
            assert forall|k: int| 0 <= k < ops0.len() implies covered_by_some(#[trigger] ops0[k], result@, self_.rewrite@) by {
                assert(covered(ops0[k], result@[cover[k]], rootf(self_.rewrite@)));
            }
            assert(all_covered(ops0, result@, self_.rewrite@));
        }''')
    u.text('verus! {\nimpl Deduplicator {')
    u.emit(n)
    u.emit(d)
    u.emit(mm)
    u.emit(r)
    u.text('}\n}')
    return u
