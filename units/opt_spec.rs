verus! {
broadcast use {ax::witness_id_key_model, ax::alu_key_key_model, vstd::std_specs::hash::group_hash_axioms};

// ================================================================ relations denoted by ops
pub type Asg<F> = spec_fn(WitnessId) -> F;

pub open spec fn sat_alu<F: Field>(kind: AluOpKind, va: F, vb: F, vc: F, vacc: F, vout: F) -> bool {
    match kind {
        AluOpKind::Add => va.fadd(vb) == vout,
        AluOpKind::Mul => va.fmul(vb) == vout,
        AluOpKind::BoolCheck => va.fmul(va.fsub(F::fone())) == F::fzero() && vout == va,
        AluOpKind::MulAdd => va.fmul(vb).fadd(vc) == vout,
        AluOpKind::HornerAcc => vacc.fmul(vb).fadd(vc).fsub(va) == vout,
    }
}
pub open spec fn oval<F: Field>(w: Asg<F>, o: Option<WitnessId>) -> F {
    match o { Some(x) => w(x), None => F::fzero() }
}
pub open spec fn vals<F>(w: Asg<F>, s: Seq<WitnessId>) -> Seq<F> { Seq::new(s.len(), |i: int| w(s[i])) }
pub open spec fn vals2<F>(w: Asg<F>, s: Seq<Vec<WitnessId>>) -> Seq<Seq<F>> { Seq::new(s.len(), |i: int| vals(w, s[i]@)) }

/// relation enforced by a non-primitive table row: opaque, but a function of the values on its slots only
pub uninterp spec fn npo_rel<F>(executor: Box<dyn NonPrimitiveExecutor<F>>, op_id: NonPrimitiveOpId, ins: Seq<Seq<F>>, outs: Seq<Seq<F>>) -> bool;

pub open spec fn sat_op<F: Field>(op: Op<F>, w: Asg<F>, pubs: spec_fn(usize) -> F) -> bool {
    match op {
        Op::Const { out, val } => w(out) == val,
        Op::Public { out, public_pos } => w(out) == pubs(public_pos),
        Op::Alu { kind, a, b, c, out, intermediate_out } => sat_alu(kind, w(a), w(b), oval(w, c), oval(w, intermediate_out), w(out)),
        Op::Hint { .. } => true,
        Op::NonPrimitiveOpWithExecutor { inputs, outputs, executor, op_id } => npo_rel(executor, op_id, vals2(w, inputs@), vals2(w, outputs@)),
    }
}

/// shape produced by the lowering constructors (Op::add/mul/bool_check/mul_add/horner_acc)
pub open spec fn wf_op<F>(op: Op<F>) -> bool {
    match op {
        Op::Alu { kind, c, intermediate_out, .. } => match kind {
            AluOpKind::Add | AluOpKind::Mul | AluOpKind::BoolCheck => c.is_none(),
            AluOpKind::MulAdd => c.is_some(),
            AluOpKind::HornerAcc => c.is_some() && intermediate_out.is_some(),
        },
        _ => true,
    }
}

pub open spec fn omap(o: Option<WitnessId>, f: spec_fn(WitnessId) -> WitnessId) -> Option<WitnessId> {
    match o { Some(x) => Some(f(x)), None => None }
}
pub open spec fn seq_mapped(s: Seq<WitnessId>, t: Seq<WitnessId>, f: spec_fn(WitnessId) -> WitnessId) -> bool {
    t.len() == s.len() && forall|i: int| 0 <= i < s.len() ==> t[i] == f(#[trigger] s[i])
}
pub open spec fn seq2_mapped(s: Seq<Vec<WitnessId>>, t: Seq<Vec<WitnessId>>, f: spec_fn(WitnessId) -> WitnessId) -> bool {
    t.len() == s.len() && forall|i: int| 0 <= i < s.len() ==> seq_mapped(#[trigger] s[i]@, t[i]@, f)
}

/// `n` is `o` with every witness id replaced by its image under f (executors, constants, positions untouched)
pub open spec fn op_mapped<F>(o: Op<F>, n: Op<F>, f: spec_fn(WitnessId) -> WitnessId) -> bool {
    match o {
        Op::Const { out, val } => n matches Op::Const { out: out2, val: val2 } && out2 == f(out) && val2 == val,
        Op::Public { out, public_pos } => n matches Op::Public { out: out2, public_pos: p2 } && out2 == f(out) && p2 == public_pos,
        Op::Alu { kind, a, b, c, out, intermediate_out } =>
            n matches Op::Alu { kind: kind2, a: a2, b: b2, c: c2, out: out2, intermediate_out: io2 }
            && kind2 == kind && a2 == f(a) && b2 == f(b) && c2 == omap(c, f) && out2 == f(out) && io2 == omap(intermediate_out, f),
        Op::Hint { inputs, outputs, executor } =>
            n matches Op::Hint { inputs: i2, outputs: o2, executor: e2 }
            && seq_mapped(inputs@, i2@, f) && seq_mapped(outputs@, o2@, f) && e2 == executor,
        Op::NonPrimitiveOpWithExecutor { inputs, outputs, executor, op_id } =>
            n matches Op::NonPrimitiveOpWithExecutor { inputs: i2, outputs: o2, executor: e2, op_id: id2 }
            && seq2_mapped(inputs@, i2@, f) && seq2_mapped(outputs@, o2@, f) && e2 == executor && id2 == op_id,
    }
}

pub open spec fn in_opt(o: Option<WitnessId>, x: WitnessId) -> bool { o == Some(x) }
pub open spec fn in_seq2(s: Seq<Vec<WitnessId>>, x: WitnessId) -> bool {
    exists|i: int| 0 <= i < s.len() && (#[trigger] s[i])@.contains(x)
}
/// x occurs in some witness-id field of op
pub open spec fn mentions<F>(op: Op<F>, x: WitnessId) -> bool {
    match op {
        Op::Const { out, .. } => out == x,
        Op::Public { out, .. } => out == x,
        Op::Alu { a, b, c, out, intermediate_out, .. } => a == x || b == x || in_opt(c, x) || out == x || in_opt(intermediate_out, x),
        Op::Hint { inputs, outputs, .. } => inputs@.contains(x) || outputs@.contains(x),
        Op::NonPrimitiveOpWithExecutor { inputs, outputs, .. } => in_seq2(inputs@, x) || in_seq2(outputs@, x),
    }
}
pub open spec fn list_mentions<F>(ops: Seq<Op<F>>, x: WitnessId) -> bool {
    exists|j: int| 0 <= j < ops.len() && mentions(#[trigger] ops[j], x)
}

// ---------------------------------------------------------------- dedup keys
pub open spec fn smin(a: u32, b: u32) -> u32 { if a <= b { a } else { b } }
pub open spec fn smax(a: u32, b: u32) -> u32 { if a >= b { a } else { b } }
pub open spec fn oid(o: Option<WitnessId>) -> Option<u32> { match o { Some(x) => Some(x.0), None => None } }

impl AluKey {
    /// SPEC TWIN of AluKey::new — its body is generated from the real body on every run (see units/opt.py)
    pub open spec fn spec_new(kind: AluOpKind, a: WitnessId, b: WitnessId, c: Option<WitnessId>) -> AluKey
    @@SPEC_NEW_BODY@@
}
pub open spec fn key_of(kind: AluOpKind, a: WitnessId, b: WitnessId, c: Option<WitnessId>, io: Option<WitnessId>) -> AluKey {
    AluKey { acc: oid(io), ..AluKey::spec_new(kind, a, b, c) }
}

/// C02/C03 core: two ALU ops that the optimizer identifies denote the same relation between their
/// operand values and a common output value.  (The HornerAcc accumulator defect F1 broke exactly this.)
pub proof fn lemma_same_key_same_relation<F: Field>(
    k1: AluOpKind, a1: WitnessId, b1: WitnessId, c1: Option<WitnessId>, io1: Option<WitnessId>,
    k2: AluOpKind, a2: WitnessId, b2: WitnessId, c2: Option<WitnessId>, io2: Option<WitnessId>,
    w: Asg<F>, vout: F)
    requires
        key_of(k1, a1, b1, c1, io1) == key_of(k2, a2, b2, c2, io2),
        (k1 is MulAdd || k1 is HornerAcc) ==> c1.is_some(),
        (k2 is MulAdd || k2 is HornerAcc) ==> c2.is_some(),
        (k1 is HornerAcc) ==> io1.is_some(),
        (k2 is HornerAcc) ==> io2.is_some(),
    ensures
        sat_alu(k1, w(a1), w(b1), oval(w, c1), oval(w, io1), vout) == sat_alu(k2, w(a2), w(b2), oval(w, c2), oval(w, io2), vout),
{
    F::add_comm(w(a1), w(b1));
    F::mul_comm(w(a1), w(b1));
    F::add_comm(w(a2), w(b2));
    F::mul_comm(w(a2), w(b2));
}

/// key equality also pins down which slots the two ops mention (used for the `mentions` bookkeeping)
pub proof fn lemma_same_key_same_slots(
    k1: AluOpKind, a1: WitnessId, b1: WitnessId, c1: Option<WitnessId>, io1: Option<WitnessId>,
    k2: AluOpKind, a2: WitnessId, b2: WitnessId, c2: Option<WitnessId>, io2: Option<WitnessId>)
    requires
        key_of(k1, a1, b1, c1, io1) == key_of(k2, a2, b2, c2, io2),
        (k1 is MulAdd || k1 is HornerAcc) <==> c1.is_some(),
        (k2 is MulAdd || k2 is HornerAcc) <==> c2.is_some(),
    ensures
        k1 == k2, io1 == io2, c1 == c2,
        (a1 == a2 && b1 == b2) || (a1 == b2 && b1 == a2),
{}

// ---------------------------------------------------------------- "covered": the syntactic form of "relation kept"
/// input op `o`, read through the rewrite f, states the same relation as kept op `n`
pub open spec fn covered<F>(o: Op<F>, n: Op<F>, f: spec_fn(WitnessId) -> WitnessId) -> bool {
    op_mapped(o, n, f)
    || (o matches Op::Alu { kind, a, b, c, out, intermediate_out }
        && n matches Op::Alu { kind: kind2, a: a2, b: b2, c: c2, out: out2, intermediate_out: io2 }
        && out2 == f(out)
        && key_of(kind, f(a), f(b), omap(c, f), omap(intermediate_out, f)) == key_of(kind2, a2, b2, c2, io2)
        && wf_op(o) && wf_op(n))
}

pub open spec fn comp<F>(w: Asg<F>, f: spec_fn(WitnessId) -> WitnessId) -> Asg<F> { |x: WitnessId| w(f(x)) }

proof fn lemma_vals_mapped<F>(w: Asg<F>, f: spec_fn(WitnessId) -> WitnessId, s: Seq<WitnessId>, t: Seq<WitnessId>)
    requires seq_mapped(s, t, f)
    ensures vals(w, t) == vals(comp(w, f), s)
{
    assert(vals(w, t) =~= vals(comp(w, f), s));
}
proof fn lemma_vals2_mapped<F>(w: Asg<F>, f: spec_fn(WitnessId) -> WitnessId, s: Seq<Vec<WitnessId>>, t: Seq<Vec<WitnessId>>)
    requires seq2_mapped(s, t, f)
    ensures vals2(w, t) == vals2(comp(w, f), s)
{
    assert forall|i: int| 0 <= i < s.len() implies vals(w, t[i]@) == vals(comp(w, f), s[i]@) by {
        lemma_vals_mapped(w, f, s[i]@, t[i]@);
    }
    assert(vals2(w, t) =~= vals2(comp(w, f), s));
}

/// C03, semantic step: a kept op that holds under w makes every input op it covers hold under w∘f
pub proof fn lemma_covered_sat<F: Field>(o: Op<F>, n: Op<F>, f: spec_fn(WitnessId) -> WitnessId, w: Asg<F>, pubs: spec_fn(usize) -> F)
    requires covered(o, n, f)
    ensures sat_op(n, w, pubs) == sat_op(o, comp(w, f), pubs)
{
    let wf = comp(w, f);
    if op_mapped(o, n, f) {
        match o {
            Op::NonPrimitiveOpWithExecutor { inputs, outputs, executor, op_id } => {
                match n {
                    Op::NonPrimitiveOpWithExecutor { inputs: i2, outputs: o2, executor: e2, op_id: id2 } => {
                        lemma_vals2_mapped(w, f, inputs@, i2@);
                        lemma_vals2_mapped(w, f, outputs@, o2@);
                    }
                    _ => {}
                }
            }
            _ => {}
        }
    } else {
        match o {
            Op::Alu { kind, a, b, c, out, intermediate_out } => {
                match n {
                    Op::Alu { kind: kind2, a: a2, b: b2, c: c2, out: out2, intermediate_out: io2 } => {
                        lemma_same_key_same_relation::<F>(kind, f(a), f(b), omap(c, f), omap(intermediate_out, f),
                            kind2, a2, b2, c2, io2, w, w(out2));
                    }
                    _ => {}
                }
            }
            _ => {}
        }
    }
}

/// `covered` looks at f only on the slots `o` mentions
pub proof fn lemma_covered_cong<F>(o: Op<F>, n: Op<F>, f: spec_fn(WitnessId) -> WitnessId, g: spec_fn(WitnessId) -> WitnessId)
    requires covered(o, n, f), forall|x: WitnessId| mentions(o, x) ==> f(x) == g(x)
    ensures covered(o, n, g)
{
    match o {
        Op::Hint { inputs, outputs, executor } => {
            assert forall|i: int| 0 <= i < inputs@.len() implies f(#[trigger] inputs@[i]) == g(inputs@[i]) by { assert(inputs@.contains(inputs@[i])); assert(mentions(o, inputs@[i])); }
            assert forall|i: int| 0 <= i < outputs@.len() implies f(#[trigger] outputs@[i]) == g(outputs@[i]) by { assert(outputs@.contains(outputs@[i])); assert(mentions(o, outputs@[i])); }
        }
        Op::NonPrimitiveOpWithExecutor { inputs, outputs, executor, op_id } => {
            assert forall|i: int, j: int| 0 <= i < inputs@.len() && 0 <= j < inputs@[i]@.len() implies f(#[trigger] inputs@[i]@[j]) == g(inputs@[i]@[j]) by {
                assert(inputs@[i]@.contains(inputs@[i]@[j]));
                assert(in_seq2(inputs@, inputs@[i]@[j]));
                assert(mentions(o, inputs@[i]@[j]));
            }
            assert forall|i: int, j: int| 0 <= i < outputs@.len() && 0 <= j < outputs@[i]@.len() implies f(#[trigger] outputs@[i]@[j]) == g(outputs@[i]@[j]) by {
                assert(outputs@[i]@.contains(outputs@[i]@[j]));
                assert(in_seq2(outputs@, outputs@[i]@[j]));
                assert(mentions(o, outputs@[i]@[j]));
            }
            match n {
                Op::NonPrimitiveOpWithExecutor { inputs: i2, outputs: o2, .. } => {
                    assert forall|i: int| 0 <= i < inputs@.len() implies seq_mapped(#[trigger] inputs@[i]@, i2@[i]@, g) by {
                        assert(seq_mapped(inputs@[i]@, i2@[i]@, f));
                    }
                    assert forall|i: int| 0 <= i < outputs@.len() implies seq_mapped(#[trigger] outputs@[i]@, o2@[i]@, g) by {
                        assert(seq_mapped(outputs@[i]@, o2@[i]@, f));
                    }
                }
                _ => {}
            }
        }
        Op::Const { out, .. } => { assert(mentions(o, out)); }
        Op::Public { out, .. } => { assert(mentions(o, out)); }
        Op::Alu { a, b, c, out, intermediate_out, .. } => {
            assert(mentions(o, a)); assert(mentions(o, b)); assert(mentions(o, out));
            if c.is_some() { assert(mentions(o, c.unwrap())); }
            if intermediate_out.is_some() { assert(mentions(o, intermediate_out.unwrap())); }
        }
    }
}

/// every slot of a mapped op is the image of a slot of the original
pub proof fn lemma_mapped_mentions<F>(o: Op<F>, n: Op<F>, f: spec_fn(WitnessId) -> WitnessId, y: WitnessId)
    requires op_mapped(o, n, f), mentions(n, y)
    ensures exists|x: WitnessId| mentions(o, x) && f(x) == y
{
    match o {
        Op::Const { out, .. } => { assert(mentions(o, out)); }
        Op::Public { out, .. } => { assert(mentions(o, out)); }
        Op::Alu { a, b, c, out, intermediate_out, .. } => {
            match n {
                Op::Alu { a: a2, b: b2, c: c2, out: out2, intermediate_out: io2, .. } => {
                    if a2 == y { assert(mentions(o, a)); }
                    else if b2 == y { assert(mentions(o, b)); }
                    else if out2 == y { assert(mentions(o, out)); }
                    else if in_opt(c2, y) { assert(mentions(o, c.unwrap())); }
                    else { assert(mentions(o, intermediate_out.unwrap())); }
                }
                _ => {}
            }
        }
        Op::Hint { inputs, outputs, .. } => {
            match n {
                Op::Hint { inputs: i2, outputs: o2, .. } => {
                    if i2@.contains(y) {
                        let i = choose|i: int| 0 <= i < i2@.len() && i2@[i] == y;
                        assert(inputs@.contains(inputs@[i]));
                        assert(mentions(o, inputs@[i]));
                    } else {
                        let i = choose|i: int| 0 <= i < o2@.len() && o2@[i] == y;
                        assert(outputs@.contains(outputs@[i]));
                        assert(mentions(o, outputs@[i]));
                    }
                }
                _ => {}
            }
        }
        Op::NonPrimitiveOpWithExecutor { inputs, outputs, .. } => {
            match n {
                Op::NonPrimitiveOpWithExecutor { inputs: i2, outputs: o2, .. } => {
                    if in_seq2(i2@, y) {
                        let i = choose|i: int| 0 <= i < i2@.len() && (#[trigger] i2@[i])@.contains(y);
                        let j = choose|j: int| 0 <= j < i2@[i]@.len() && i2@[i]@[j] == y;
                        assert(seq_mapped(inputs@[i]@, i2@[i]@, f));
                        assert(inputs@[i]@.contains(inputs@[i]@[j]));
                        assert(in_seq2(inputs@, inputs@[i]@[j]));
                        assert(mentions(o, inputs@[i]@[j]));
                    } else {
                        let i = choose|i: int| 0 <= i < o2@.len() && (#[trigger] o2@[i])@.contains(y);
                        let j = choose|j: int| 0 <= j < o2@[i]@.len() && o2@[i]@[j] == y;
                        assert(seq_mapped(outputs@[i]@, o2@[i]@, f));
                        assert(outputs@[i]@.contains(outputs@[i]@[j]));
                        assert(in_seq2(outputs@, outputs@[i]@[j]));
                        assert(mentions(o, outputs@[i]@[j]));
                    }
                }
                _ => {}
            }
        }
    }
}

/// and conversely
pub proof fn lemma_mapped_mentions_fwd<F>(o: Op<F>, n: Op<F>, f: spec_fn(WitnessId) -> WitnessId, x: WitnessId)
    requires op_mapped(o, n, f), mentions(o, x)
    ensures mentions(n, f(x))
{
    match o {
        Op::Hint { inputs, outputs, .. } => {
            match n {
                Op::Hint { inputs: i2, outputs: o2, .. } => {
                    if inputs@.contains(x) {
                        let i = choose|i: int| 0 <= i < inputs@.len() && inputs@[i] == x;
                        assert(i2@[i] == f(x));
                        assert(i2@.contains(f(x)));
                    } else {
                        let i = choose|i: int| 0 <= i < outputs@.len() && outputs@[i] == x;
                        assert(o2@[i] == f(x));
                        assert(o2@.contains(f(x)));
                    }
                }
                _ => {}
            }
        }
        Op::NonPrimitiveOpWithExecutor { inputs, outputs, .. } => {
            match n {
                Op::NonPrimitiveOpWithExecutor { inputs: i2, outputs: o2, .. } => {
                    if in_seq2(inputs@, x) {
                        let i = choose|i: int| 0 <= i < inputs@.len() && (#[trigger] inputs@[i])@.contains(x);
                        let j = choose|j: int| 0 <= j < inputs@[i]@.len() && inputs@[i]@[j] == x;
                        assert(seq_mapped(inputs@[i]@, i2@[i]@, f));
                        assert(i2@[i]@[j] == f(x));
                        assert(i2@[i]@.contains(f(x)));
                        assert(in_seq2(i2@, f(x)));
                    } else {
                        let i = choose|i: int| 0 <= i < outputs@.len() && (#[trigger] outputs@[i])@.contains(x);
                        let j = choose|j: int| 0 <= j < outputs@[i]@.len() && outputs@[i]@[j] == x;
                        assert(seq_mapped(outputs@[i]@, o2@[i]@, f));
                        assert(o2@[i]@[j] == f(x));
                        assert(o2@[i]@.contains(f(x)));
                        assert(in_seq2(o2@, f(x)));
                    }
                }
                _ => {}
            }
        }
        _ => {}
    }
}

pub open spec fn rootf(rw: RW) -> spec_fn(WitnessId) -> WitnessId { |x: WitnessId| root(rw, x) }

/// every input op is covered by some kept op under the rewrite rw
pub open spec fn covered_by_some<F>(o: Op<F>, res: Seq<Op<F>>, rw: RW) -> bool {
    exists|j: int| 0 <= j < res.len() && #[trigger] covered(o, res[j], rootf(rw))
}
pub open spec fn all_covered<F>(ops0: Seq<Op<F>>, res: Seq<Op<F>>, rw: RW) -> bool {
    forall|k: int| 0 <= k < ops0.len() ==> covered_by_some(#[trigger] ops0[k], res, rw)
}

/// C03 as one statement: the kept list, satisfied by an ARBITRARY assignment w, forces every input op
/// (read through the final rewrite).  Nothing here refers to the honest runner.
pub proof fn theorem_dedup_no_relation_dropped<F: Field>(ops0: Seq<Op<F>>, res: Seq<Op<F>>, rw: RW, w: Asg<F>, pubs: spec_fn(usize) -> F)
    requires
        all_covered(ops0, res, rw),
        forall|j: int| 0 <= j < res.len() ==> sat_op(#[trigger] res[j], w, pubs),
    ensures
        forall|k: int| 0 <= k < ops0.len() ==> sat_op(#[trigger] ops0[k], comp(w, rootf(rw)), pubs),
{
    assert forall|k: int| 0 <= k < ops0.len() implies sat_op(#[trigger] ops0[k], comp(w, rootf(rw)), pubs) by {
        assert(covered_by_some(ops0[k], res, rw));
        let j = choose|j: int| 0 <= j < res.len() && #[trigger] covered(ops0[k], res[j], rootf(rw));
        lemma_covered_sat(ops0[k], res[j], rootf(rw), w, pubs);
    }
}

} // verus!

verus! {
// ================================================================ Deduplicator::run — loop invariant and its three steps

pub open spec fn alu_key<F>(op: Op<F>) -> AluKey {
    match op {
        Op::Alu { kind, a, b, c, out, intermediate_out } => key_of(kind, a, b, c, intermediate_out),
        _ => arbitrary(),
    }
}
pub open spec fn alu_out<F>(op: Op<F>) -> WitnessId {
    match op { Op::Alu { out, .. } => out, _ => arbitrary() }
}
pub open spec fn is_alu<F>(op: Op<F>) -> bool { op is Alu }

/// the invariant of the dedup scan after `i` input ops
pub open spec fn inv<F>(ops0: Seq<Op<F>>, i: int, res: Seq<Op<F>>, rw: RW, seen: Map<AluKey, WitnessId>,
                        seen_idx: Map<AluKey, int>, cover: Seq<int>) -> bool {
    &&& 0 <= i <= ops0.len()
    &&& acyclic(rw)
    // (B) no slot that a kept op mentions is ever rewritten
    &&& forall|x: WitnessId| #[trigger] list_mentions(res, x) ==> !rw.dom().contains(x)
    // (C) every slot of a processed input op resolves to a slot of some kept op
    &&& forall|k: int, x: WitnessId| 0 <= k < i && #[trigger] mentions(ops0[k], x) ==> list_mentions(res, root(rw, x))
    // (D) the `seen` table points at kept ALU ops with that key
    &&& forall|key: AluKey| #[trigger] seen.contains_key(key) ==> seen_idx.contains_key(key) && 0 <= seen_idx[key] < res.len()
            && is_alu(res[seen_idx[key]]) && alu_key(res[seen_idx[key]]) == key && alu_out(res[seen_idx[key]]) == seen[key]
    // (E) every processed input op is covered by a kept op
    &&& cover.len() == i
    &&& forall|k: int| 0 <= k < i ==> 0 <= #[trigger] cover[k] < res.len() && covered(ops0[k], res[cover[k]], rootf(rw))
    &&& forall|k: int| 0 <= k < ops0.len() ==> wf_op(#[trigger] ops0[k])
    &&& forall|j: int| 0 <= j < res.len() ==> wf_op(#[trigger] res[j])
}

proof fn lemma_list_mentions_push<F>(res: Seq<Op<F>>, op: Op<F>, x: WitnessId)
    ensures list_mentions(res.push(op), x) == (list_mentions(res, x) || mentions(op, x))
{
    let r2 = res.push(op);
    if list_mentions(res, x) {
        let j = choose|j: int| 0 <= j < res.len() && mentions(#[trigger] res[j], x);
        assert(r2[j] == res[j]);
    }
    if mentions(op, x) { assert(r2[res.len() as int] == op); }
    if list_mentions(r2, x) {
        let j = choose|j: int| 0 <= j < r2.len() && mentions(#[trigger] r2[j], x);
        if j < res.len() { assert(r2[j] == res[j]); } else { assert(r2[j] == op); }
    }
}

proof fn lemma_mapped_wf<F>(o: Op<F>, n: Op<F>, f: spec_fn(WitnessId) -> WitnessId)
    requires op_mapped(o, n, f), wf_op(o)
    ensures wf_op(n)
{}

/// the slots of an op rewritten by rootf(rw) are roots, so resolving them again is the identity
proof fn lemma_mapped_roots<F>(rw: RW, o: Op<F>, n: Op<F>, y: WitnessId)
    requires acyclic(rw), op_mapped(o, n, rootf(rw)), mentions(n, y)
    ensures !rw.dom().contains(y), root(rw, y) == y
{
    lemma_mapped_mentions(o, n, rootf(rw), y);
    let x = choose|x: WitnessId| mentions(o, x) && rootf(rw)(x) == y;
    lemma_root_total(rw, x);
    lemma_root_outside(rw, y);
}

/// key computed by detect_duplicate on an already-rewritten ALU op is the op's own key
proof fn lemma_key_of_rewritten<F>(rw: RW, o: Op<F>, n: Op<F>)
    requires acyclic(rw), op_mapped(o, n, rootf(rw)), is_alu(n)
    ensures n matches Op::Alu { kind, a, b, c, out, intermediate_out }
        && key_of(kind, root(rw, a), root(rw, b), omap(c, rootf(rw)), omap(intermediate_out, rootf(rw))) == alu_key(n)
{
    match n {
        Op::Alu { kind, a, b, c, out, intermediate_out } => {
            lemma_mapped_roots(rw, o, n, a);
            lemma_mapped_roots(rw, o, n, b);
            if c.is_some() { lemma_mapped_roots(rw, o, n, c.unwrap()); }
            if intermediate_out.is_some() { lemma_mapped_roots(rw, o, n, intermediate_out.unwrap()); }
        }
        _ => {}
    }
}

/// step 1: the op is kept
pub proof fn lemma_inv_push<F>(ops0: Seq<Op<F>>, i: int, res: Seq<Op<F>>, rw: RW, seen: Map<AluKey, WitnessId>,
                               seen_idx: Map<AluKey, int>, cover: Seq<int>, op1: Op<F>, seen2: Map<AluKey, WitnessId>)
    requires
        inv(ops0, i, res, rw, seen, seen_idx, cover), i < ops0.len(),
        op_mapped(ops0[i], op1, rootf(rw)),
        seen2 == seen || (is_alu(op1) && seen2 == seen.insert(alu_key(op1), alu_out(op1))),
    ensures
        inv(ops0, i + 1, res.push(op1), rw, seen2,
            if seen2 == seen { seen_idx } else { seen_idx.insert(alu_key(op1), res.len() as int) }, cover.push(res.len() as int)),
{
    let res2 = res.push(op1);
    let idx2 = if seen2 == seen { seen_idx } else { seen_idx.insert(alu_key(op1), res.len() as int) };
    let cover2 = cover.push(res.len() as int);
    let f = rootf(rw);
    assert forall|x: WitnessId| #[trigger] list_mentions(res2, x) implies !rw.dom().contains(x) by {
        lemma_list_mentions_push(res, op1, x);
        if !list_mentions(res, x) { lemma_mapped_roots(rw, ops0[i], op1, x); }
    }
    assert forall|k: int, x: WitnessId| 0 <= k < i + 1 && #[trigger] mentions(ops0[k], x) implies list_mentions(res2, root(rw, x)) by {
        lemma_list_mentions_push(res, op1, root(rw, x));
        if k == i { lemma_mapped_mentions_fwd(ops0[i], op1, f, x); }
    }
    assert forall|key: AluKey| #[trigger] seen2.contains_key(key) implies idx2.contains_key(key) && 0 <= idx2[key] < res2.len()
            && is_alu(res2[idx2[key]]) && alu_key(res2[idx2[key]]) == key && alu_out(res2[idx2[key]]) == seen2[key] by {
        if seen2 != seen && key == alu_key(op1) {
            assert(res2[res.len() as int] == op1);
        } else {
            assert(seen.contains_key(key));
            assert(res2[seen_idx[key]] == res[seen_idx[key]]);
        }
    }
    assert forall|k: int| 0 <= k < i + 1 implies 0 <= #[trigger] cover2[k] < res2.len() && covered(ops0[k], res2[cover2[k]], f) by {
        if k == i { assert(res2[res.len() as int] == op1); } else { assert(cover2[k] == cover[k]); assert(res2[cover[k]] == res[cover[k]]); }
    }
    assert forall|j: int| 0 <= j < res2.len() implies wf_op(#[trigger] res2[j]) by {
        if j == res.len() { lemma_mapped_wf(ops0[i], op1, f); } else { assert(res2[j] == res[j]); }
    }
}

/// facts shared by the two duplicate steps
proof fn lemma_dup_facts<F>(ops0: Seq<Op<F>>, i: int, res: Seq<Op<F>>, rw: RW, seen: Map<AluKey, WitnessId>,
                            seen_idx: Map<AluKey, int>, cover: Seq<int>, op1: Op<F>)
    requires
        inv(ops0, i, res, rw, seen, seen_idx, cover), i < ops0.len(),
        op_mapped(ops0[i], op1, rootf(rw)), is_alu(op1), seen.contains_key(alu_key(op1)),
    ensures
        ({ let j = seen_idx[alu_key(op1)];
           &&& 0 <= j < res.len() && is_alu(res[j]) && alu_key(res[j]) == alu_key(op1) && alu_out(res[j]) == seen[alu_key(op1)]
           &&& !rw.dom().contains(seen[alu_key(op1)]) && root(rw, seen[alu_key(op1)]) == seen[alu_key(op1)]
           &&& !rw.dom().contains(alu_out(op1))
           &&& wf_op(op1) && wf_op(res[j])
           // every slot of op1 other than its out is a slot of the kept twin
           &&& forall|y: WitnessId| mentions(op1, y) ==> y == alu_out(op1) || mentions(res[j], y)
        }),
{
    let key = alu_key(op1);
    let j = seen_idx[key];
    let canonical = seen[key];
    assert(mentions(res[j], canonical));
    assert(list_mentions(res, canonical));
    lemma_root_outside(rw, canonical);
    assert(mentions(op1, alu_out(op1)));
    lemma_mapped_roots(rw, ops0[i], op1, alu_out(op1));
    lemma_mapped_wf(ops0[i], op1, rootf(rw));
    match op1 {
        Op::Alu { kind, a, b, c, out, intermediate_out } => {
            match res[j] {
                Op::Alu { kind: k2, a: a2, b: b2, c: c2, out: o2, intermediate_out: io2 } => {
                    lemma_same_key_same_slots(kind, a, b, c, intermediate_out, k2, a2, b2, c2, io2);
                }
                _ => {}
            }
        }
        _ => {}
    }
}

/// step 2: duplicate whose out already is the canonical slot — the op is dropped, nothing is rewritten
pub proof fn lemma_inv_dup_same<F>(ops0: Seq<Op<F>>, i: int, res: Seq<Op<F>>, rw: RW, seen: Map<AluKey, WitnessId>,
                                   seen_idx: Map<AluKey, int>, cover: Seq<int>, op1: Op<F>)
    requires
        inv(ops0, i, res, rw, seen, seen_idx, cover), i < ops0.len(),
        op_mapped(ops0[i], op1, rootf(rw)), is_alu(op1), seen.contains_key(alu_key(op1)),
        alu_out(op1) == seen[alu_key(op1)],
    ensures
        inv(ops0, i + 1, res, rw, seen, seen_idx, cover.push(seen_idx[alu_key(op1)])),
{
    lemma_dup_facts(ops0, i, res, rw, seen, seen_idx, cover, op1);
    let f = rootf(rw);
    let j = seen_idx[alu_key(op1)];
    let cover2 = cover.push(j);
    lemma_key_of_rewritten(rw, ops0[i], op1);
    assert forall|k: int, x: WitnessId| 0 <= k < i + 1 && #[trigger] mentions(ops0[k], x) implies list_mentions(res, root(rw, x)) by {
        if k == i {
            lemma_mapped_mentions_fwd(ops0[i], op1, f, x);
            if root(rw, x) == alu_out(op1) { assert(mentions(res[j], alu_out(res[j]))); }
        }
    }
    assert(covered(ops0[i], res[j], f));
    assert forall|k: int| 0 <= k < i + 1 implies 0 <= #[trigger] cover2[k] < res.len() && covered(ops0[k], res[cover2[k]], f) by {
        if k < i { assert(cover2[k] == cover[k]); }
    }
}

/// step 3: duplicate with a different out — its out is rewritten to the canonical slot.
/// HYPOTHESIS H (named, see known_findings.json C03-alias): the duplicate's out is mentioned by no kept op.
pub proof fn lemma_inv_dup_insert<F>(ops0: Seq<Op<F>>, i: int, res: Seq<Op<F>>, rw: RW, seen: Map<AluKey, WitnessId>,
                                     seen_idx: Map<AluKey, int>, cover: Seq<int>, op1: Op<F>)
    requires
        inv(ops0, i, res, rw, seen, seen_idx, cover), i < ops0.len(),
        op_mapped(ops0[i], op1, rootf(rw)), is_alu(op1), seen.contains_key(alu_key(op1)),
        alu_out(op1) != seen[alu_key(op1)],
        !list_mentions(res, alu_out(op1)),          // H
    ensures
        inv(ops0, i + 1, res, rw.insert(alu_out(op1), seen[alu_key(op1)]), seen, seen_idx, cover.push(seen_idx[alu_key(op1)])),
{
    lemma_dup_facts(ops0, i, res, rw, seen, seen_idx, cover, op1);
    let f = rootf(rw);
    let d = alu_out(op1);
    let c = seen[alu_key(op1)];
    let rw2 = rw.insert(d, c);
    let g = rootf(rw2);
    let j = seen_idx[alu_key(op1)];
    let cover2 = cover.push(j);
    lemma_acyclic_insert(rw, d, c);
    lemma_key_of_rewritten(rw, ops0[i], op1);
    // roots after the insertion
    assert forall|x: WitnessId| root(rw2, x) == (if root(rw, x) == d { c } else { root(rw, x) }) by {
        lemma_root_total(rw, x);
        lemma_root_insert(rw, d, c, x, root(rw, x));
    }
    assert(mentions(res[j], c));
    assert(list_mentions(res, c));
    assert forall|k: int, x: WitnessId| 0 <= k < i + 1 && #[trigger] mentions(ops0[k], x) implies list_mentions(res, root(rw2, x)) by {
        if k == i { lemma_mapped_mentions_fwd(ops0[i], op1, f, x); }
    }
    // f and g agree on every slot of an earlier op, and on every non-out slot of this one
    assert forall|k: int| 0 <= k < i + 1 implies 0 <= #[trigger] cover2[k] < res.len() && covered(ops0[k], res[cover2[k]], g) by {
        if k < i {
            assert(cover2[k] == cover[k]);
            assert forall|x: WitnessId| mentions(ops0[k], x) implies f(x) == g(x) by {
                assert(list_mentions(res, root(rw, x)));
            }
            lemma_covered_cong(ops0[k], res[cover[k]], f, g);
        } else {
            match ops0[i] {
                Op::Alu { kind, a, b, c: c0, out, intermediate_out } => {
                    assert(mentions(ops0[i], a)); assert(mentions(ops0[i], b)); assert(mentions(ops0[i], out));
                    lemma_mapped_mentions_fwd(ops0[i], op1, f, a);
                    lemma_mapped_mentions_fwd(ops0[i], op1, f, b);
                    if c0.is_some() { assert(mentions(ops0[i], c0.unwrap())); lemma_mapped_mentions_fwd(ops0[i], op1, f, c0.unwrap()); }
                    if intermediate_out.is_some() { assert(mentions(ops0[i], intermediate_out.unwrap())); lemma_mapped_mentions_fwd(ops0[i], op1, f, intermediate_out.unwrap()); }
                    // operands of op1 that equal d would be mentioned by res[j] — excluded by H
                    assert(forall|y: WitnessId| mentions(res[j], y) ==> y != d) by {
                        assert forall|y: WitnessId| mentions(res[j], y) implies y != d by { assert(list_mentions(res, y)); }
                    }
                    match op1 {
                        Op::Alu { kind: k1, a: a1, b: b1, c: c1, out: o1, intermediate_out: io1 } => {
                            assert(a1 != d || a1 == o1);
                            assert(omap(c0, g) == omap(c0, f)) by {
                                if c0.is_some() { assert(mentions(op1, f(c0.unwrap()))); }
                            }
                            assert(omap(intermediate_out, g) == omap(intermediate_out, f)) by {
                                if intermediate_out.is_some() { assert(mentions(op1, f(intermediate_out.unwrap()))); }
                            }
                            // a1 / b1 are mentioned by res[j] (same slots), hence != d
                            assert(mentions(op1, a1) && mentions(op1, b1));
                            assert(g(a) == f(a) && g(b) == f(b)) by {
                                lemma_opnd_not_out(op1, res[j], d);
                            }
                        }
                        _ => {}
                    }
                }
                _ => {}
            }
        }
    }
    assert forall|x: WitnessId| #[trigger] list_mentions(res, x) implies !rw2.dom().contains(x) by {}
}

/// under H the operands of the duplicate differ from its out (they are slots of the kept twin)
proof fn lemma_opnd_not_out<F>(op1: Op<F>, twin: Op<F>, d: WitnessId)
    requires
        is_alu(op1), is_alu(twin), alu_key(op1) == alu_key(twin), wf_op(op1), wf_op(twin),
        forall|y: WitnessId| mentions(twin, y) ==> y != d,
    ensures
        op1 matches Op::Alu { a, b, c, intermediate_out, .. } && a != d && b != d && !in_opt(c, d) && !in_opt(intermediate_out, d),
{
    match op1 {
        Op::Alu { kind, a, b, c, out, intermediate_out } => {
            match twin {
                Op::Alu { kind: k2, a: a2, b: b2, c: c2, out: o2, intermediate_out: io2 } => {
                    lemma_same_key_same_slots(kind, a, b, c, intermediate_out, k2, a2, b2, c2, io2);
                    assert(mentions(twin, a2) && mentions(twin, b2));
                    if c2.is_some() { assert(mentions(twin, c2.unwrap())); }
                    if io2.is_some() { assert(mentions(twin, io2.unwrap())); }
                }
                _ => {}
            }
        }
        _ => {}
    }
}
} // verus!
