"""Unit `optm` (C03, C02): the hand-over between the optimizer passes -- Optimizer::{optimize, optimize_with_input_slots}
(circuit/src/builder/compiler/optimizer/mod.rs) and MulAddFusion::{new, with_input_slots} (fuse_mul_add.rs).

The passes themselves are under contract in units `opt` (de-duplication), `fuse` (analysis scans, identify_candidates) and `fvalid`
(filter_valid, apply, run); here their contracts are ASSUMED (same text where the vocabulary is shared) and what is proved is that
the orchestration meets their preconditions: in particular that the fusion pass is told every private-input slot OF THE LIST IT
SCANS, i.e. the de-duplicated list, whose slots are the roots of the source slots under the de-duplication rewrite."""
import re

from vf.extract import ExtractError
from vf.unit import Unit, unmap_iter_collect_general, drop_capacity_hints
from units.fuse import PRELUDE, types_from_repo, SU_REQ, SU_ENS, SD_REQ, SD_ENS, IDC_REQ, CAND_OK
from units.fvalid import SPEC as FV_SPEC, RN_ENS


def clauses(cs):
    return ', '.join(c for _, c in cs)


def build():
    u = Unit('optm', ['C03', 'C02'])
    u.rlimit = 100
    u.assume('contracts of Deduplicator::run (unit opt: acyclic rewrite; here also: the private-input slots of the de-duplicated list are the roots of the source private-input slots), '
             'MulAddFusion::{scan_use_counts, scan_defs} (unit fuse) and MulAddFusion::run (unit fvalid) are assumed here with the text those units prove')
    u.text(PRELUDE.replace('@@TYPES@@', types_from_repo()))
    u.text(open(__file__.replace('optm.py', 'fuse_defs.rs')).read())
    u.text(FV_SPEC)
    u.text(CAND_OK)
    u.text('''verus! {
pub uninterp spec fn acyclic(rw: Map<WitnessId, WitnessId>) -> bool;
/// the canonical slot of w under the de-duplication rewrite (unit opt: `root`)
pub uninterp spec fn root(rw: Map<WitnessId, WitnessId>, w: WitnessId) -> WitnessId;
/// slots of the SOURCE op list that set_private_inputs fills (`is_private_input_slot` is the same notion for the list the fusion pass scans)
pub uninterp spec fn is_source_private_input_slot(w: WitnessId) -> bool;
pub uninterp spec fn dedup_pre<F>(ops: Seq<Op<F>>) -> bool;
pub uninterp spec fn dedup_post<F>(ops: Seq<Op<F>>, out: Seq<Op<F>>, rw: Map<WitnessId, WitnessId>) -> bool;
pub open spec fn realistic<F>(ops: Seq<Op<F>>) -> bool { ops.len() < 0x1000_0000 && forall|k: int| 0 <= k < ops.len() ==> npo_in_elems(#[trigger] ops[k]) < 0x10_0000 }
impl WitnessId {
    /// contract PROVED in unit `opt` (root_fn); assumed here
    #[verifier::external_body]
    pub fn resolve(self, rewrite: &HashMap<WitnessId, WitnessId>) -> (ret: WitnessId) requires acyclic(rewrite@) ensures ret == root(rewrite@, self) { unimplemented!() }
}
pub struct Deduplicator<F> { pub _p: core::marker::PhantomData<F> }
impl<F: Field> Deduplicator<F> {
    #[verifier::external_body] pub fn new() -> (r: Self) { unimplemented!() }
    /// ASSUMED (unit opt proves acyclicity and that no relation is dropped; that slots keep their role under the rewrite is the meaning of the rewrite map):
    /// de-duplication does not grow the list, and a private-input slot of the result is the root of a source private-input slot
    #[verifier::external_body]
    pub fn run(self, ops: Vec<Op<F>>) -> (ret: (Vec<Op<F>>, HashMap<WitnessId, WitnessId>))
        requires dedup_pre(ops@)
        ensures acyclic(ret.1@), dedup_post(ops@, ret.0@, ret.1@), realistic(ops@) ==> realistic(ret.0@),
                forall|w: WitnessId| #[trigger] is_private_input_slot(w) ==> exists|w0: WitnessId| is_source_private_input_slot(w0) && #[trigger] root(ret.1@, w0) == w
    { unimplemented!() }
}
impl<F: Field> MulAddFusion<F> {
    /// contract PROVED in unit `fuse` (same text); assumed here
    #[verifier::external_body]
    pub fn scan_use_counts(&mut self, ops: &[Op<F>]) requires ''' + clauses(SU_REQ) + ''' ensures ''' + clauses(SU_ENS) + ''' { unimplemented!() }
    /// contract PROVED in unit `fuse` (same text); assumed here
    #[verifier::external_body]
    pub fn scan_defs(&mut self, ops: &[Op<F>]) requires ''' + clauses(SD_REQ) + ''' ensures ''' + clauses(SD_ENS) + ''' { unimplemented!() }
    /// contract PROVED in unit `fvalid` (same text); assumed here
    #[verifier::external_body]
    pub fn run(self, ops: Vec<Op<F>>) -> (ret: Vec<Op<F>>) requires ''' + IDC_REQ[1] + ''', ops@.len() < usize::MAX ensures ''' + RN_ENS + ''' { unimplemented!() }
}
/// `slice.iter().copied().collect()` into a hash set
#[verifier::external_body]
pub fn slice_to_set(s: &[WitnessId]) -> (r: HashSet<WitnessId>) ensures r@ == s@.to_set() { unimplemented!() }
pub struct Optimizer<F> { pub _p: core::marker::PhantomData<F> }
}''')
    FM = 'circuit/src/builder/compiler/optimizer/fuse_mul_add.rs'
    IMPL = r'impl<F: Field> MulAddFusion<F>'
    TOLD = 'forall|w: WitnessId| #[trigger] is_private_input_slot(w) ==> {s}.contains(w)'
    wi = u.extract(FM, IMPL, 'with_input_slots', 'MulAddFusion::with_input_slots')
    wi.sig_rewrite('R12', '-> Self', '-> MulAddFusion<F>')
    wi.rewrite_re('R12', r'\bSelf\s*\{', 'MulAddFusion {')
    drop_capacity_hints(wi, ctors=('HashMap', 'HashSet', 'Vec'))
    wi.rewrite_re('R6', r'(\w+)\.iter\(\)\.copied\(\)\.collect\(\)', r'slice_to_set(\1)', min_count=0)
    wi.requires('realistic_sizes', 'realistic(ops@)')
    wi.requires('told_every_private_input_slot_of_this_list', TOLD.format(s='input_slots@'))
    wi.ensures('tables_describe_the_op_list', 'ret.describes(ops@)')
    wi.ensures('input_slots_recorded', 'ret.input_slots@ == input_slots@.to_set()')
    nw = u.extract(FM, IMPL, 'new', 'MulAddFusion::new')
    nw.sig_rewrite('R12', '-> Self', '-> MulAddFusion<F>')
    nw.rewrite_re('R12', r'\bSelf::', 'MulAddFusion::')
    nw.requires('realistic_sizes', 'realistic(ops@)')
    nw.requires('no_private_input_slots', 'forall|w: WitnessId| !is_private_input_slot(w)')
    nw.ensures('tables_describe_the_op_list', 'ret.describes(ops@)')
    OM = 'circuit/src/builder/compiler/optimizer/mod.rs'
    OI = r'impl<F: Field> Optimizer<F>'
    ow = u.extract(OM, OI, 'optimize_with_input_slots', 'Optimizer::optimize_with_input_slots')
    ow.rewrite_re('R12', r'\bSelf::', 'Optimizer::')
    unmap_iter_collect_general(ow)
    ow.requires('well_formed_source', 'dedup_pre(ops@) && realistic(ops@)')
    ow.requires('told_every_source_private_input_slot', 'forall|w: WitnessId| #[trigger] is_source_private_input_slot(w) ==> input_slots@.contains(w)')
    ow.ensures('deduplicated_then_fused_with_the_fusion_pass_told_the_private_slots_of_the_list_it_scans',
               'acyclic(ret.1@) && exists|mid: Seq<Op<F>>| #[trigger] dedup_post(ops@, mid, ret.1@)')
    ow.at_start('let ghost in0 = input_slots@; let ghost ops0 = ops@;')
    DR = r'(let \(ops, rewrite\) = Deduplicator::new\(\)\.run\(ops\);)'
    has_mid = bool(re.search(DR, ow.body))
    if has_mid:
        ow.rewrite_re('SPEC', DR, r'\1 let ghost mid_ = ops@;')
        ow.bind_tail('res_', 'proof { assert(dedup_post(ops0, mid_, res_.1@)); }')
    # the generated loop that resolves the slots (if the code still builds that list)
    m = re.search(r'for (\w+) in 0\.\.input_slots\.len\(\)', ow.body)
    v = None
    if m:
        k = m.group(1)
        vm = re.search(r'let mut (\w+)(?::[^=]+)? = Vec::new\(\);\s*for ' + k, ow.body)
        v = vm.group(1) if vm else None
        if v:
            ow.loop(m.group(0), invariants=[
                ('resolved_so_far', f'acyclic(rewrite@) && input_slots@ == in0 && {v}@.len() == {k} && forall|j: int| 0 <= j < {k} ==> #[trigger] {v}@[j] == root(rewrite@, in0[j])'),
            ])
    if re.search(r'let ops = MulAddFusion::with_input_slots\(', ow.body):
        ow.rewrite_re('SPEC', r'(let ops = MulAddFusion::with_input_slots\()', r'''proof {
            assert forall|w: WitnessId| #[trigger] is_private_input_slot(w) implies told_(w) by {
                let w0 = choose|w0: WitnessId| is_source_private_input_slot(w0) && #[trigger] root(rewrite@, w0) == w;
                assert(in0.contains(w0)); let j = choose|j: int| 0 <= j < in0.len() && in0[j] == w0;
                assert(root(rewrite@, in0[j]) == w);
                WITNESS_
            }
        }
        \1''')
        am = re.search(r'MulAddFusion::with_input_slots\(&ops, &?(\w+)\)', ow.body)
        arg = am.group(1) if am else 'input_slots'
        ow.body = ow.body.replace('told_(w)', f'{arg}@.contains(w)')
        ow.body = ow.body.replace('WITNESS_', f'assert({arg}@[j] == w);' if v else '')
    op = u.extract(OM, OI, 'optimize', 'Optimizer::optimize')
    op.rewrite_re('R12', r'\bSelf::', 'Optimizer::')
    op.requires('well_formed_source', 'dedup_pre(ops@) && realistic(ops@)')
    op.requires('no_private_input_slots', 'forall|w: WitnessId| !is_source_private_input_slot(w)')
    op.ensures('deduplicated_then_fused', 'acyclic(ret.1@) && exists|mid: Seq<Op<F>>| #[trigger] dedup_post(ops@, mid, ret.1@)')
    u.text('verus! {\nimpl<F: Field> MulAddFusion<F> {')
    u.emit(wi)
    u.emit(nw)
    u.text('}\nimpl<F: Field> Optimizer<F> {')
    u.emit(ow)
    u.emit(op)
    u.text('}\n}')
    return u
