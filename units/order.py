"""Unit `order` (C18, table order): the order of the non-primitive AIRs in the keys is the registration order of the AIR builders and
does not depend on the iteration order of the hash map of per-type preprocessed data.
Real text: circuit-prover/src/common.rs  get_airs_and_degrees_with_prep[npo_air_order] -- the loop over the registered builders (R13 slice),
           circuit-prover/src/batch_stark_prover.rs  poseidon2_air_builders_for_configs (whole).
The hash map is iterated through a stub that returns its entries in an ARBITRARY order (every key exactly once): the contract is proved
since fix 51e634f the op types are listed in ascending key order and each builder takes its first match: no uniqueness hypothesis is needed any more
(the unit had carried "a builder accepts at most one of the op types present" as a PRECONDITION, which hid the defect repaired by that fix)."""
import re

from vf.unit import Unit, unmap_iter_collect_general, unhashset_collect, HASH_SET_ORDER_STUB
from units.openin import slice_loop_body, slice_from_through_loop

PRELUDE = r'''
#![allow(unused_imports, unused_variables, dead_code, unused_mut, unused_parens)]
use vstd::prelude::*;
verus! {
global size_of usize == 8;
#[derive(Clone, Copy, PartialEq, Eq, Structural)] pub struct NpoTypeId(pub u32);
#[derive(Clone, Copy, PartialEq, Eq, Structural)] pub struct Poseidon2Config(pub u32);
#[derive(Clone, Copy, PartialEq, Eq, Structural)] pub struct PrepBase(pub int);
#[derive(Clone, Copy, PartialEq, Eq, Structural)] pub struct ConstraintProfile(pub u8);
#[derive(PartialEq, Eq, Structural)] pub struct Air { pub id: int }
/// a registered AIR builder (Box<dyn NpoAirBuilder>), opaque; which op type it accepts and what it builds are uninterpreted functions of it
#[derive(PartialEq, Eq, Structural)] pub struct AirBuilder { pub id: int, pub config: Option<Poseidon2Config> }
pub uninterp spec fn accepts(b: AirBuilder, t: NpoTypeId) -> bool;
pub uninterp spec fn built(b: AirBuilder, t: NpoTypeId, prep: PrepBase, min_height: usize, lanes: usize, profile: ConstraintProfile) -> (Air, usize);
pub uninterp spec fn default_lanes(b: AirBuilder) -> usize;
impl AirBuilder {
    #[verifier::external_body] pub fn lanes(&self) -> (r: usize) ensures r == default_lanes(*self) { unimplemented!() }
    #[verifier::external_body]
    pub fn try_build(&self, op_type: &NpoTypeId, prep: &PrepBase, min_height: usize, lanes: usize, profile: ConstraintProfile) -> (r: Option<(Air, usize)>)
        ensures r is Some <==> accepts(*self, *op_type), r matches Some(x) ==> x == built(*self, *op_type, *prep, min_height, lanes, profile)
    { unimplemented!() }
}
pub struct TablePacking { pub overrides: Ghost<Map<NpoTypeId, usize>> }
impl TablePacking {
    #[verifier::external_body] pub fn npo_lanes(&self, t: &NpoTypeId) -> (r: Option<usize>)
        ensures r is Some <==> self.overrides@.dom().contains(*t), r matches Some(l) ==> l == self.overrides@[*t] { unimplemented!() }
}
pub open spec fn lanes_for(p: &TablePacking, b: AirBuilder, t: NpoTypeId) -> usize { if p.overrides@.dom().contains(t) { p.overrides@[t] } else { default_lanes(b) } }
/// HashMap<NpoTypeId, Vec<Val>> by its view; `entries()` is its iteration: every key exactly once, in an order the hash function chooses
pub struct PrepMap { pub m: Ghost<Map<NpoTypeId, PrepBase>> }
impl PrepMap {
    #[verifier::external_body]
    pub fn entries(&self) -> (r: Vec<(NpoTypeId, PrepBase)>)
        ensures r@.map_values(|e: (NpoTypeId, PrepBase)| e.0).no_duplicates(),
                forall|k: int| 0 <= k < r@.len() ==> self.m@.dom().contains((#[trigger] r@[k]).0) && self.m@[r@[k].0] == r@[k].1,
                forall|t: NpoTypeId| self.m@.dom().contains(t) ==> exists|k: int| 0 <= k < r@.len() && (#[trigger] r@[k]).0 == t
    { unimplemented!() }
}
/// THE ascending listing of the keys of the map (`keys().collect()` + `sort()`): a function of the map's contents, every key exactly once
pub uninterp spec fn sorted_keys(m: Map<NpoTypeId, PrepBase>) -> Seq<NpoTypeId>;
impl PrepMap {
    #[verifier::external_body]
    pub fn sorted_keys(&self) -> (r: Vec<NpoTypeId>)
        ensures r@ == sorted_keys(self.m@), forall|k: int| 0 <= k < r@.len() ==> self.m@.dom().contains(#[trigger] r@[k])
    { unimplemented!() }
    /// `&map[key]` (panics on a missing key)
    #[verifier::external_body]
    pub fn at(&self, k: &NpoTypeId) -> (r: &PrepBase) requires self.m@.dom().contains(*k) ensures *r == self.m@[*k] { unimplemented!() }
}
/// index of the first key among ks[0..n] the builder accepts
pub open spec fn first_acc(b: AirBuilder, ks: Seq<NpoTypeId>, n: int) -> Option<int> decreases n {
    if n <= 0 { None } else { match first_acc(b, ks, n - 1) { Some(k) => Some(k), None => if accepts(b, ks[n - 1]) { Some(n - 1) } else { None } } }
}
pub proof fn lemma_first_acc_found(b: AirBuilder, ks: Seq<NpoTypeId>, e: int, n: int)
    requires 0 <= e < n <= ks.len(), first_acc(b, ks, e) is None, accepts(b, ks[e])
    ensures first_acc(b, ks, n) == Some(e)
    decreases n - e
{ if n > e + 1 { lemma_first_acc_found(b, ks, e, n - 1); } }
/// the AIRs contributed by builders[0..n], in builder order: each builder builds for the first op type, in ascending key order, that it accepts
pub open spec fn airs_of(bs: Seq<AirBuilder>, n: int, m: Map<NpoTypeId, PrepBase>, p: &TablePacking, min_height: usize, profile: ConstraintProfile) -> Seq<(Air, usize)>
    decreases n
{
    if n <= 0 { Seq::empty() } else {
        let b = bs[n - 1]; let prev = airs_of(bs, n - 1, m, p, min_height, profile); let ks = sorted_keys(m);
        match first_acc(b, ks, ks.len() as int) { Some(k) => prev.push(built(b, ks[k], m[ks[k]], min_height, lanes_for(p, b, ks[k]), profile)), None => prev }
    }
}
pub struct Poseidon2AirBuilderForConfig<const D: usize> { pub config: Poseidon2Config }
impl<const D: usize> Poseidon2AirBuilderForConfig<D> {
    pub fn new(config: Poseidon2Config) -> (r: Self) ensures r.config == config { Poseidon2AirBuilderForConfig { config } }
}
/// `Box::new(x) as Box<dyn NpoAirBuilder<SC, D>>`
#[verifier::external_body]
pub fn boxed<const D: usize>(x: Poseidon2AirBuilderForConfig<D>) -> (r: AirBuilder) ensures r.config == Some(x.config) { unimplemented!() }
} // verus!
'''


def build():
    u = Unit('order', ['C18'])
    u.rlimit = 80
    u.assume('iterating the hash map of per-type preprocessed data yields every key exactly once in an unspecified order (PrepMap::entries): the nondeterminism quantified over')
    u.assume('a registered AIR builder is opaque: which op type it accepts and what it builds are uninterpreted functions of the builder and its arguments; SC / Val generics erased (R11)')
    u.text(PRELUDE)
    u.text(HASH_SET_ORDER_STUB)
    B = 'circuit-prover/src/batch_stark_prover.rs'
    pb = u.extract(B, '', 'poseidon2_air_builders_for_configs', 'poseidon2_air_builders_for_configs')
    pb.set_sig('R11', 'fn poseidon2_air_builders_for_configs<const D: usize>(configs: Vec<Poseidon2Config>) -> Vec<AirBuilder>')
    pb.rewrite_re('R11', r'Box::new\((Poseidon2AirBuilderForConfig::<D>::new\(config\))\)\s*as Box<dyn NpoAirBuilder<SC, D>>', r'boxed(\1)')
    unhashset_collect(pb)
    pb.rewrite_re('R5', r'configs\s*\.into_iter\(\)', 'configs.iter()')
    pb.rewrite_re('R5', r'\.map\(\|config\| \{', '.map(|&config| {')
    unmap_iter_collect_general(pb)
    pb.ensures('one_builder_per_listed_config_in_the_listed_order', 'ret@.len() == configs@.len() && forall|i: int| 0 <= i < ret@.len() ==> (#[trigger] ret@[i]).config == Some(configs@[i])')
    HP = 'for m0_ in 0..configs.len()'
    if HP in ' '.join(pb.body.split()):
        pb.rewrite_re('SPEC-type', r'let mut v_m0_ = Vec::new\(\);', 'let mut v_m0_: Vec<AirBuilder> = Vec::new();')
        pb.loop(HP, invariants=[('builders_so_far', 'v_m0_@.len() == m0_ && forall|i: int| 0 <= i < m0_ ==> (#[trigger] v_m0_@[i]).config == Some(configs@[i])')])
    C = 'circuit-prover/src/common.rs'
    g = u.extract(C, '', 'get_airs_and_degrees_with_prep', 'get_airs_and_degrees_with_prep[npo_air_order]')
    # R13: from the sorted listing of the op types (fix 51e634f) -- or, on a tree without it, from the loop over the builders -- through that loop
    start = 'let mut op_types' if re.search(r'let mut op_types\b', g.body) else 'for builder in non_primitive_air_builders {'
    slice_from_through_loop(g, start, r'for builder in non_primitive_air_builders \{', '', 'everything before the listing of the op types / the loop over the registered AIR builders (primitive tables, plugin preprocessing) and the final Ok(..)')
    g.set_sig('R11', 'fn get_airs_and_degrees_with_prep(non_primitive_air_builders: &Vec<AirBuilder>, non_primitive_base: &PrepMap, packing: &TablePacking, min_height: usize, constraint_profile: ConstraintProfile, table_preps: &mut Vec<(Air, usize)>)', sliced=True)
    g.rewrite_re('R5', r'for builder in non_primitive_air_builders \{', 'for bi_ in 0..non_primitive_air_builders.len() { let builder = &non_primitive_air_builders[bi_];', min_count=1)
    # R6: `let mut ks: Vec<&K> = m.keys().collect(); ks.sort();` -> the ascending key listing (a function of the map's contents)
    g.rewrite_re('R6', r'let mut (\w+): Vec<&NpoTypeId> = non_primitive_base\.keys\(\)\.collect\(\);\s*\1\.sort\(\);', r'let \1 = non_primitive_base.sorted_keys();', min_count=0)
    g.rewrite_re('R5', r'for &(\w+) in &op_types \{', r'for e_ in 0..op_types.len() { let \1 = &op_types[e_];', min_count=0)
    g.rewrite_re('R11', r'let prep_base = &non_primitive_base\[op_type\];', 'let prep_base = non_primitive_base.at(op_type);', min_count=0)
    # the hash-ordered scan of a tree without the fix
    g.rewrite_re('R5', r'for \(op_type, prep_base\) in non_primitive_base\.iter\(\) \{', 'let entries_ = non_primitive_base.entries(); for e_ in 0..entries_.len() { let (op_type, prep_base) = (&entries_[e_].0, &entries_[e_].1);', min_count=0)
    g.rewrite_re('R6', r'packing\s*\.npo_lanes\(op_type\)\s*\.unwrap_or_else\(\|\| builder\.lanes\(\)\)', '(match packing.npo_lanes(op_type) { Some(l_) => l_, None => builder.lanes() })', min_count=0)
    M_ = 'non_primitive_base.m@'
    ARGS = f'{M_}, packing, min_height, constraint_profile'
    g.ensures('air_order_is_the_builder_registration_order_and_each_builder_takes_its_first_type_in_key_order',
              f'final(table_preps)@ == old(table_preps)@ + airs_of(non_primitive_air_builders@, non_primitive_air_builders@.len() as int, {ARGS})')
    g.at_start('let ghost tp0 = table_preps@; let ghost m = non_primitive_base.m@; let ghost bs = non_primitive_air_builders@;')
    from units.openin import after_loop_binding
    SORTED = 'for e_ in 0..op_types.len()' in g.body
    if SORTED:
        after_loop_binding(g, 'for bi_ in 0..non_primitive_air_builders.len()', ' let ghost tp_b = table_preps@; let ghost b = *builder; let ghost ks = op_types@;')
        g.at_loop_end('for bi_ in 0..non_primitive_air_builders.len()', f'''proof {{
            assert(b == bs[bi_ as int]);
            assert(table_preps@ =~= tp0 + airs_of(bs, bi_ + 1, {ARGS})); // @@A:this_builders_air_is_appended_in_registration_order
        }}''')
        g.loop('for e_ in 0..op_types.len()', invariant_except_break=[
            ('no_accepted_type_among_the_keys_seen', 'table_preps@ == tp_b && first_acc(b, ks, e_ as int) is None'),
        ], ensures=[
            ('the_first_accepted_type_in_key_order',
             'table_preps@ == (match first_acc(b, ks, ks.len() as int) { Some(k) => tp_b.push(built(b, ks[k], m[ks[k]], min_height, lanes_for(packing, b, ks[k]), constraint_profile)), None => tp_b })'),
        ], invariants=[
            ('ctx', 'm == non_primitive_base.m@ && b == *builder && ks == op_types@ && ks == sorted_keys(m) && forall|k: int| 0 <= k < ks.len() ==> m.dom().contains(#[trigger] ks[k])'),
        ])
        g.before('break;', '''proof {
                    assert(accepts(b, ks[e_ as int]));
                    lemma_first_acc_found(b, ks, e_ as int, ks.len() as int);
                }''')
        g.loop('for bi_ in 0..non_primitive_air_builders.len()', invariants=[
            ('ctx', f'm == {M_} && bs == non_primitive_air_builders@ && tp0 == old(table_preps)@ && op_types@ == sorted_keys(m) && forall|k: int| 0 <= k < op_types@.len() ==> m.dom().contains(#[trigger] op_types@[k])'),
            ('airs_of_the_builders_so_far_in_registration_order', f'table_preps@ == tp0 + airs_of(bs, bi_ as int, {ARGS})'),
        ])
    u.text('verus! {')
    u.emit(pb, vis='pub')
    u.emit(g, vis='pub')
    u.text('}')
    return u
