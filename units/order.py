"""Unit `order` (C18, table order): the order of the non-primitive AIRs in the keys is the registration order of the AIR builders and
does not depend on the iteration order of the hash map of per-type preprocessed data.
Real text: circuit-prover/src/common.rs  get_airs_and_degrees_with_prep[npo_air_order] -- the loop over the registered builders (R13 slice),
           circuit-prover/src/batch_stark_prover.rs  poseidon2_air_builders_for_configs (whole).
The hash map is iterated through a stub that returns its entries in an ARBITRARY order (every key exactly once): the contract is proved
since fix 51e634f the op types are listed in ascending key order and each builder takes its first match: no uniqueness hypothesis is needed any more
(the unit had carried "a builder accepts at most one of the op types present" as a PRECONDITION, which hid the defect repaired by that fix)."""
import re

from vf.unit import Unit, unmap_iter_collect_general, unhashset_collect, HASH_SET_ORDER_STUB, unoption_or_chain
from vf.extract import ExtractError
from units.openin import slice_loop_body, slice_from_through_loop

PRELUDE = r'''
#![allow(unused_imports, unused_variables, dead_code, unused_mut, unused_parens)]
use vstd::prelude::*;
verus! {
global size_of usize == 8;
#[derive(Clone, Copy, PartialEq, Eq, Structural)] pub struct NpoTypeId(pub u32);
#[derive(Clone, Copy, PartialEq, Eq, Structural)] pub struct Poseidon2Config(pub u32);
#[derive(Clone, Copy, PartialEq, Eq, Structural)] pub struct PrepBase(pub int);
#[derive(Clone, Copy, PartialEq, Eq, Structural)] pub struct ConstraintProfile(pub u8);
#[derive(PartialEq, Eq, Structural)] pub struct Air { pub id: int }
/// a registered AIR builder (Box<dyn NpoAirBuilder>), opaque; which op type it accepts and what it builds are uninterpreted functions of it
#[derive(PartialEq, Eq, Structural)] pub struct AirBuilder { pub id: int, pub config: Option<Poseidon2Config> }
pub uninterp spec fn accepts(b: AirBuilder, t: NpoTypeId) -> bool;
pub uninterp spec fn built(b: AirBuilder, t: NpoTypeId, prep: PrepBase, min_height: usize, lanes: usize, profile: ConstraintProfile) -> (Air, usize);
pub uninterp spec fn default_lanes(b: AirBuilder) -> usize;
impl AirBuilder {
    #[verifier::external_body] pub fn lanes(&self) -> (r: usize) ensures r == default_lanes(*self) { unimplemented!() }
    #[verifier::external_body]
    pub fn try_build(&self, op_type: &NpoTypeId, prep: &PrepBase, min_height: usize, lanes: usize, profile: ConstraintProfile) -> (r: Option<(Air, usize)>)
        ensures r is Some <==> accepts(*self, *op_type), r matches Some(x) ==> x == built(*self, *op_type, *prep, min_height, lanes, profile)
    { unimplemented!() }
}
pub struct TablePacking { pub overrides: Ghost<Map<NpoTypeId, usize>> }
impl TablePacking {
    #[verifier::external_body] pub fn npo_lanes(&self, t: &NpoTypeId) -> (r: Option<usize>)
        ensures r is Some <==> self.overrides@.dom().contains(*t), r matches Some(l) ==> l == self.overrides@[*t] { unimplemented!() }
}
/// the lane count the keys resolve for a table: some function of (packing, builder, op type). WHICH function is the business of the slice
/// `lane_resolution[keys_vs_prover]` below, where the statement that computes it is checked against the prover's own resolution.
pub uninterp spec fn lanes_for(p: &TablePacking, b: AirBuilder, t: NpoTypeId) -> usize;
/// stands for the statement `let lanes = <expr over packing, op_type, builder>;` of the loop (the statement itself is the first half of the slice `lane_resolution[keys_vs_prover]`)
#[verifier::external_body]
pub fn resolve_lanes_keys_(packing: &TablePacking, op_type: &NpoTypeId, builder: &AirBuilder) -> (r: usize) ensures r == lanes_for(packing, *builder, *op_type) { unimplemented!() }
pub uninterp spec fn recompose_type() -> NpoTypeId;
pub uninterp spec fn coeff_type() -> NpoTypeId;
impl NpoTypeId {
    #[verifier::external_body] pub fn recompose() -> (r: NpoTypeId) ensures r == recompose_type() { unimplemented!() }
    #[verifier::external_body] pub fn recompose_with_coeff_lookups() -> (r: NpoTypeId) ensures r == coeff_type() { unimplemented!() }
}
/// RecomposeProver<D>: the table prover of the recompose tables (its `lanes` is its own default, "kept in sync with the corresponding RecomposeAirBuilder")
pub struct RecomposeProver { pub lanes: usize, pub coeff_lookups: bool }
/// HashMap<NpoTypeId, Vec<Val>> by its view; `entries()` is its iteration: every key exactly once, in an order the hash function chooses
pub struct PrepMap { pub m: Ghost<Map<NpoTypeId, PrepBase>> }
impl PrepMap {
    #[verifier::external_body]
    pub fn entries(&self) -> (r: Vec<(NpoTypeId, PrepBase)>)
        ensures r@.map_values(|e: (NpoTypeId, PrepBase)| e.0).no_duplicates(),
                forall|k: int| 0 <= k < r@.len() ==> self.m@.dom().contains((#[trigger] r@[k]).0) && self.m@[r@[k].0] == r@[k].1,
                forall|t: NpoTypeId| self.m@.dom().contains(t) ==> exists|k: int| 0 <= k < r@.len() && (#[trigger] r@[k]).0 == t
    { unimplemented!() }
}
/// THE ascending listing of the keys of the map (`keys().collect()` + `sort()`): a function of the map's contents, every key exactly once
pub uninterp spec fn sorted_keys(m: Map<NpoTypeId, PrepBase>) -> Seq<NpoTypeId>;
impl PrepMap {
    #[verifier::external_body]
    pub fn sorted_keys(&self) -> (r: Vec<NpoTypeId>)
        ensures r@ == sorted_keys(self.m@), forall|k: int| 0 <= k < r@.len() ==> self.m@.dom().contains(#[trigger] r@[k])
    { unimplemented!() }
    /// `&map[key]` (panics on a missing key)
    #[verifier::external_body]
    pub fn at(&self, k: &NpoTypeId) -> (r: &PrepBase) requires self.m@.dom().contains(*k) ensures *r == self.m@[*k] { unimplemented!() }
}
/// index of the first key among ks[0..n] the builder accepts
pub open spec fn first_acc(b: AirBuilder, ks: Seq<NpoTypeId>, n: int) -> Option<int> decreases n {
    if n <= 0 { None } else { match first_acc(b, ks, n - 1) { Some(k) => Some(k), None => if accepts(b, ks[n - 1]) { Some(n - 1) } else { None } } }
}
pub proof fn lemma_first_acc_found(b: AirBuilder, ks: Seq<NpoTypeId>, e: int, n: int)
    requires 0 <= e < n <= ks.len(), first_acc(b, ks, e) is None, accepts(b, ks[e])
    ensures first_acc(b, ks, n) == Some(e)
    decreases n - e
{ if n > e + 1 { lemma_first_acc_found(b, ks, e, n - 1); } }
/// the AIRs contributed by builders[0..n], in builder order: each builder builds for the first op type, in ascending key order, that it accepts
pub open spec fn airs_of(bs: Seq<AirBuilder>, n: int, m: Map<NpoTypeId, PrepBase>, p: &TablePacking, min_height: usize, profile: ConstraintProfile) -> Seq<(Air, usize)>
    decreases n
{
    if n <= 0 { Seq::empty() } else {
        let b = bs[n - 1]; let prev = airs_of(bs, n - 1, m, p, min_height, profile); let ks = sorted_keys(m);
        match first_acc(b, ks, ks.len() as int) { Some(k) => prev.push(built(b, ks[k], m[ks[k]], min_height, lanes_for(p, b, ks[k]), profile)), None => prev }
    }
}
pub struct Poseidon2AirBuilderForConfig<const D: usize> { pub config: Poseidon2Config }
impl<const D: usize> Poseidon2AirBuilderForConfig<D> {
    pub fn new(config: Poseidon2Config) -> (r: Self) ensures r.config == config { Poseidon2AirBuilderForConfig { config } }
}
/// `Box::new(x) as Box<dyn NpoAirBuilder<SC, D>>`
#[verifier::external_body]
pub fn boxed<const D: usize>(x: Poseidon2AirBuilderForConfig<D>) -> (r: AirBuilder) ensures r.config == Some(x.config) { unimplemented!() }
} // verus!
'''


def _stmt_at(text, start_re):
    """the statement starting at the (single) match of start_re, through its `;` at nesting depth 0"""
    ms = list(re.finditer(start_re, text))
    if not ms:
        return None
    i, depth = ms[0].start(), 0
    while i < len(text):
        ch = text[i]
        if ch in '({[':
            depth += 1
        elif ch in ')}]':
            depth -= 1
        elif ch == ';' and depth == 0:
            return text[ms[0].start():i + 1]
        i += 1
    return None


def build():
    u = Unit('order', ['C18'])
    u.rlimit = 80
    u.assume('iterating the hash map of per-type preprocessed data yields every key exactly once in an unspecified order (PrepMap::entries): the nondeterminism quantified over')
    u.assume('a registered AIR builder is opaque: which op type it accepts and what it builds are uninterpreted functions of the builder and its arguments; SC / Val generics erased (R11)')
    u.text(PRELUDE)
    u.text(HASH_SET_ORDER_STUB)
    B = 'circuit-prover/src/batch_stark_prover.rs'
    pb = u.extract(B, '', 'poseidon2_air_builders_for_configs', 'poseidon2_air_builders_for_configs')
    pb.set_sig('R11', 'fn poseidon2_air_builders_for_configs<const D: usize>(configs: Vec<Poseidon2Config>) -> Vec<AirBuilder>')
    pb.rewrite_re('R11', r'Box::new\((Poseidon2AirBuilderForConfig::<D>::new\(config\))\)\s*as Box<dyn NpoAirBuilder<SC, D>>', r'boxed(\1)')
    unhashset_collect(pb)
    pb.rewrite_re('R5', r'configs\s*\.into_iter\(\)', 'configs.iter()')
    pb.rewrite_re('R5', r'\.map\(\|config\| \{', '.map(|&config| {')
    unmap_iter_collect_general(pb)
    pb.ensures('one_builder_per_listed_config_in_the_listed_order', 'ret@.len() == configs@.len() && forall|i: int| 0 <= i < ret@.len() ==> (#[trigger] ret@[i]).config == Some(configs@[i])')
    HP = 'for m0_ in 0..configs.len()'
    if HP in ' '.join(pb.body.split()):
        pb.rewrite_re('SPEC-type', r'let mut v_m0_ = Vec::new\(\);', 'let mut v_m0_: Vec<AirBuilder> = Vec::new();')
        pb.loop(HP, invariants=[('builders_so_far', 'v_m0_@.len() == m0_ && forall|i: int| 0 <= i < m0_ ==> (#[trigger] v_m0_@[i]).config == Some(configs@[i])')])
    C = 'circuit-prover/src/common.rs'
    g = u.extract(C, '', 'get_airs_and_degrees_with_prep', 'get_airs_and_degrees_with_prep[npo_air_order]')
    # R13: from the sorted listing of the op types (fix 51e634f) -- or, on a tree without it, from the loop over the builders -- through that loop
    start = 'let mut op_types' if re.search(r'let mut op_types\b', g.body) else 'for builder in non_primitive_air_builders {'
    slice_from_through_loop(g, start, r'for builder in non_primitive_air_builders \{', '', 'everything before the listing of the op types / the loop over the registered AIR builders (primitive tables, plugin preprocessing) and the final Ok(..)')
    g.set_sig('R11', 'fn get_airs_and_degrees_with_prep(non_primitive_air_builders: &Vec<AirBuilder>, non_primitive_base: &PrepMap, packing: &TablePacking, min_height: usize, constraint_profile: ConstraintProfile, table_preps: &mut Vec<(Air, usize)>)', sliced=True)
    g.rewrite_re('R5', r'for builder in non_primitive_air_builders \{', 'for bi_ in 0..non_primitive_air_builders.len() { let builder = &non_primitive_air_builders[bi_];', min_count=1)
    # R6: `let mut ks: Vec<&K> = m.keys().collect(); ks.sort();` -> the ascending key listing (a function of the map's contents)
    g.rewrite_re('R6', r'let mut (\w+): Vec<&NpoTypeId> = non_primitive_base\.keys\(\)\.collect\(\);\s*\1\.sort\(\);', r'let \1 = non_primitive_base.sorted_keys();', min_count=0)
    g.rewrite_re('R5', r'for &(\w+) in &op_types \{', r'for e_ in 0..op_types.len() { let \1 = &op_types[e_];', min_count=0)
    g.rewrite_re('R11', r'let prep_base = &non_primitive_base\[op_type\];', 'let prep_base = non_primitive_base.at(op_type);', min_count=0)
    # the hash-ordered scan of a tree without the fix
    g.rewrite_re('R5', r'for \(op_type, prep_base\) in non_primitive_base\.iter\(\) \{', 'let entries_ = non_primitive_base.entries(); for e_ in 0..entries_.len() { let (op_type, prep_base) = (&entries_[e_].0, &entries_[e_].1);', min_count=0)
    # R14-style lifting: the statement `let lanes = EXPR;` is checked on its own (slice lane_resolution[keys_vs_prover]); here it is a call of a function of (packing, op_type, builder)
    lanes_stmt = _stmt_at(g.body, r'let lanes = packing')
    if lanes_stmt is None:
        raise ExtractError('lost anchor in get_airs_and_degrees_with_prep[npo_air_order]: `let lanes = packing ...;`')
    g.body = g.body.replace(lanes_stmt, 'let lanes = resolve_lanes_keys_(packing, op_type, builder);', 1)
    g.rewrites.append(('R14', 'statement `let lanes = <expr>;` -> `let lanes = resolve_lanes_keys_(packing, op_type, builder);`', 'the statement is verified in the slice lane_resolution[keys_vs_prover]; here only that it is a function of (packing, op type, builder)'))
    M_ = 'non_primitive_base.m@'
    ARGS = f'{M_}, packing, min_height, constraint_profile'
    g.ensures('air_order_is_the_builder_registration_order_and_each_builder_takes_its_first_type_in_key_order',
              f'final(table_preps)@ == old(table_preps)@ + airs_of(non_primitive_air_builders@, non_primitive_air_builders@.len() as int, {ARGS})')
    g.at_start('let ghost tp0 = table_preps@; let ghost m = non_primitive_base.m@; let ghost bs = non_primitive_air_builders@;')
    from units.openin import after_loop_binding
    SORTED = 'for e_ in 0..op_types.len()' in g.body
    if SORTED:
        after_loop_binding(g, 'for bi_ in 0..non_primitive_air_builders.len()', ' let ghost tp_b = table_preps@; let ghost b = *builder; let ghost ks = op_types@;')
        g.at_loop_end('for bi_ in 0..non_primitive_air_builders.len()', f'''proof {{
            assert(b == bs[bi_ as int]);
            assert(table_preps@ =~= tp0 + airs_of(bs, bi_ + 1, {ARGS})); // @@A:this_builders_air_is_appended_in_registration_order
        }}''')
        g.loop('for e_ in 0..op_types.len()', invariant_except_break=[
            ('no_accepted_type_among_the_keys_seen', 'table_preps@ == tp_b && first_acc(b, ks, e_ as int) is None'),
        ], ensures=[
            ('the_first_accepted_type_in_key_order',
             'table_preps@ == (match first_acc(b, ks, ks.len() as int) { Some(k) => tp_b.push(built(b, ks[k], m[ks[k]], min_height, lanes_for(packing, b, ks[k]), constraint_profile)), None => tp_b })'),
        ], invariants=[
            ('ctx', 'm == non_primitive_base.m@ && b == *builder && ks == op_types@ && ks == sorted_keys(m) && forall|k: int| 0 <= k < ks.len() ==> m.dom().contains(#[trigger] ks[k])'),
        ])
        g.before('break;', '''proof {
                    assert(accepts(b, ks[e_ as int]));
                    lemma_first_acc_found(b, ks, e_ as int, ks.len() as int);
                }''')
        g.loop('for bi_ in 0..non_primitive_air_builders.len()', invariants=[
            ('ctx', f'm == {M_} && bs == non_primitive_air_builders@ && tp0 == old(table_preps)@ && op_types@ == sorted_keys(m) && forall|k: int| 0 <= k < op_types@.len() ==> m.dom().contains(#[trigger] op_types@[k])'),
            ('airs_of_the_builders_so_far_in_registration_order', f'table_preps@ == tp0 + airs_of(bs, bi_ as int, {ARGS})'),
        ])
    # ---- lane_resolution[keys_vs_prover]: the two statements that resolve a table's lane count, one from the key generation, one from the prover, side by side (verbatim, R6 only)
    lr = u.extract(C, '', 'get_airs_and_degrees_with_prep', 'lane_resolution[keys_vs_prover]')
    import os
    from vf.extract import REPO
    pr_src = open(os.path.join(REPO, 'circuit-prover/src/batch_stark_prover/recompose.rs')).read()
    mfn = re.search(r'fn batch_instance_base<SC>\(', pr_src)
    if not mfn:
        raise ExtractError('lost anchor: RecomposeProver::batch_instance_base')
    pbody = pr_src[mfn.start():]
    p_type = _stmt_at(pbody, r'let op_type = if self\.coeff_lookups')
    p_lanes = _stmt_at(pbody, r'let lanes = packing')
    if p_type is None or p_lanes is None:
        raise ExtractError('lost anchor in RecomposeProver::batch_instance_base: `let op_type = if self.coeff_lookups ..;` / `let lanes = packing ..;`')
    p_type = re.sub(r'\bop_type\b', 'op_type_p', p_type)
    p_lanes = re.sub(r'\bop_type\b', 'op_type_p', re.sub(r'let lanes\b', 'let lanes_p', p_lanes))
    lr.body = '{\n' + lanes_stmt + '\n' + p_type + '\n' + p_lanes + '\n(lanes, lanes_p)\n}'
    lr.rewrites.append(('R13', 'function body := the statement `let lanes = ..;` of get_airs_and_degrees_with_prep, then the statements `let op_type = ..;` and `let lanes = ..;` of RecomposeProver::batch_instance_base (circuit-prover/src/batch_stark_prover/recompose.rs) with its locals renamed op_type_p / lanes_p, then the pair of both results',
                        'everything else of both functions; the slice relates the two lane counts for one recompose table'))
    lr.set_sig('R11', 'fn lane_resolution(packing: &TablePacking, op_type: &NpoTypeId, builder: &AirBuilder, self_: &RecomposeProver) -> (usize, usize)', sliced=True)
    lr.rewrite_re('R11', r'\bself\.', 'self_.')
    unoption_or_chain(lr)
    lr.requires('the_builder_and_the_prover_of_one_recompose_table', 'default_lanes(*builder) == self_.lanes && *op_type == (if self_.coeff_lookups { coeff_type() } else { recompose_type() })')
    lr.ensures('the_keys_and_the_prover_resolve_the_same_lane_count_for_the_table', 'ret.0 == ret.1')
    u.assume('lane_resolution: the AIR builder and the table prover of a recompose table carry the same own default lane count (both are constructed from the backend\'s recompose_lanes; "must be kept in sync" in the source) -- a precondition of the slice')
    u.text('verus! {')
    u.emit(lr, vis='pub')
    u.emit(pb, vis='pub')
    u.emit(g, vis='pub')
    u.text('}')
    return u
