"""Unit `p4chain` (C11): the chaining block of the ARITY-4 Poseidon2 table (width 32, D = 4: KOALA_BEAR_D4_W32 / BABY_BEAR_D4_W32).
Real text: poseidon2-circuit-air/src/air.rs  eval_arity4[chaining] -- from the booleanity of the direction bits up to the delegation to the inner permutation AIR
(R13 slice; the prefix only borrows the two rows and names the bits / the permutation input and output columns).

Proved: the constraints asserted for one window are EXACTLY
  * booleanity of the two direction bits and the product column bit_x_bit2 = bit * bit2,
  * SPONGE chaining  next_in[limb] = local_out[limb]  under the preprocessed per-limb selector normal_chain_sel (this very table also carries the multi-chunk leaf
    sponge of add_hash_base_coeffs_overwrite: its continuation rows are plain sponge rows),
  * running-hash placement  next_in[chunk k, slot] = local_out[slot]  under  merkle_chain_sel * h_k  (h_k the one-hot of the position b0 + 2 b1),
  * the base-four index accumulator on Merkle continuation rows,
each as  gates * residual = 0  over the integers (an integral domain, as every field)."""
import re

from vf.extract import match_brace, ExtractError, extract_item
from vf.unit import Unit
from units.air import PRELUDE as AIR_PRELUDE
from units.pchain import ungate_chains

SPEC = r'''
verus! {
impl R {
    pub fn one() -> (r: R) ensures r.v@ == 1 { R { v: Ghost(1) } }
    pub fn two() -> (r: R) ensures r.v@ == 2 { R { v: Ghost(2) } }
    pub fn from_u64(n: u64) -> (r: R) ensures r.v@ == n { R { v: Ghost(n as int) } }
}
pub struct AB { pub ok: Ghost<bool>, pub trans: Ghost<int> }
impl AB {
    #[verifier::external_body]
    pub fn gated_assert_zero(&mut self, transition: bool, g1: R, g2: R, e: R)
        ensures final(self).trans == old(self).trans,
                final(self).ok@ == (old(self).ok@ && (if transition { old(self).trans@ } else { 1int }) * g1.v@ * g2.v@ * e.v@ == 0)
    {}
    #[verifier::external_body]
    pub fn assert_bool(&mut self, x: R) ensures final(self).trans == old(self).trans, final(self).ok@ == (old(self).ok@ && x.v@ * (x.v@ - 1) == 0) {}
    #[verifier::external_body]
    pub fn assert_zero(&mut self, e: R) ensures final(self).trans == old(self).trans, final(self).ok@ == (old(self).ok@ && e.v@ == 0) {}
}
pub struct Cols { pub mmcs_index_sum: R, pub mmcs_bit: R, pub mmcs_extra: Vec<R> }
pub struct LimbSel { pub normal_chain_sel: R, pub merkle_chain_sel: R }
pub struct PrepRow { pub input_limbs: Vec<LimbSel>, pub new_start: R, pub merkle_path: R }

pub struct W4 { pub lo: Seq<int>, pub ni: Seq<int>, pub ncs: Seq<int>, pub mcs: Seq<int>, pub ns: int, pub mk: int,
                pub b0: int, pub b1: int, pub bx: int, pub lb0: int, pub lb1: int, pub lbx: int, pub lsum: int, pub nsum: int, pub trans: int, pub d: int, pub cap: int, pub width: int }
impl W4 {
    pub open spec fn h(self, k: int) -> int { if k == 0 { 1 - self.b0 - self.b1 + self.bx } else if k == 1 { self.b0 - self.bx } else if k == 2 { self.b1 - self.bx } else { self.bx } }
    pub open spec fn c_bits(self) -> bool { self.lb0 * (self.lb0 - 1) == 0 && self.lb1 * (self.lb1 - 1) == 0 && self.lbx - self.lb0 * self.lb1 == 0 }
    pub open spec fn c_sponge(self, limb: int, dd: int) -> bool { self.trans * self.ncs[limb] * 1 * (self.ni[limb * self.d + dd] - self.lo[limb * self.d + dd]) == 0 }
    pub open spec fn sponge_ok(self, n: int) -> bool { forall|limb: int, dd: int| 0 <= limb < n && 0 <= dd < self.d ==> #[trigger] self.c_sponge(limb, dd) }
    pub open spec fn c_place(self, k: int, slot: int, dd: int) -> bool {
        self.trans * (self.mcs[k * self.cap + slot] * self.h(k)) * 1 * (self.ni[(k * self.cap + slot) * self.d + dd] - self.lo[slot * self.d + dd]) == 0
    }
    pub open spec fn place_slots(self, k: int, n: int) -> bool { forall|slot: int, dd: int| 0 <= slot < n && 0 <= dd < self.d ==> #[trigger] self.c_place(k, slot, dd) }
    pub open spec fn place_ok(self, n: int) -> bool { forall|k: int| 0 <= k < n ==> #[trigger] self.place_slots(k, self.cap) }
    pub open spec fn c_sum(self) -> bool { self.trans * (1 - self.ns) * self.mk * (self.nsum - (self.lsum * 4 + self.b0 + 2 * self.b1)) == 0 }
    /// THE constraint set of the arity-4 chaining block
    pub open spec fn chain4_ok(self) -> bool { self.c_bits() && self.sponge_ok(self.width) && self.place_ok(4) && self.c_sum() }
    pub open spec fn wf(self) -> bool {
        &&& 0 < self.d < 0x100 && 0 < self.cap < 0x400 && self.width == 4 * self.cap
        &&& self.lo.len() >= self.width * self.d && self.ni.len() >= self.width * self.d && self.ncs.len() == self.width && self.mcs.len() == self.width
    }
}
pub open spec fn ncs_of(s: Seq<LimbSel>) -> Seq<int> { Seq::new(s.len(), |i: int| s[i].normal_chain_sel.v@) }
pub open spec fn mcs_of(s: Seq<LimbSel>) -> Seq<int> { Seq::new(s.len(), |i: int| s[i].merkle_chain_sel.v@) }
} // verus!
'''


def build():
    u = Unit('p4chain', ['C11'])
    u.rlimit = 150
    u.assume('ring elements modelled as integers (integral domain); AB::Var / AB::Expr erased to R, `.into()` / `.clone()` / `AB::Expr::from(x)` identities (R11); '
             'builder.when_transition().when(g).assert_zero(e) asserts transition_selector * g * e = 0 (p3-air FilteredAirBuilder)')
    u.assume('the row structs are modelled by the fields the block reads: Poseidon2CircuitCols {mmcs_index_sum, mmcs_bit, mmcs_extra}, Poseidon2PreprocessedRow {input_limbs[].{normal_chain_sel, merkle_chain_sel}, new_start, merkle_path}; '
             'the statement `let next_prep = next_preprocessed.borrow();` becomes the parameter next_prep (R11)')
    u.text(AIR_PRELUDE[:AIR_PRELUDE.index('// ------------------------------------------------------------------ polynomial multiplication')] + '\n} // verus!\n')
    u.text(SPEC)
    A = 'poseidon2-circuit-air/src/air.rs'
    consts = []
    for nm in ('ARITY4_BIT2_IDX', 'ARITY4_BIT_X_BIT2_IDX'):
        src = None
        for path in ('poseidon-circuit-cols/src/cols.rs', 'poseidon2-circuit-air/src/columns.rs', 'poseidon-circuit-cols/src/lib.rs'):
            try:
                src = extract_item(path, r'pub const ' + nm + r'\b')
                break
            except ExtractError:
                continue
        if src is None:
            raise ExtractError(f'lost anchor: const {nm}')
        consts.append(src if src.rstrip().endswith(';') else src + ';')
    u.text('verus! {\n' + '\n'.join(consts) + '\n}')
    e = u.extract(A, '', 'eval_arity4', 'poseidon2::eval_arity4[chaining]')
    ms = re.search(r'builder\.assert_bool\(local\.mmcs_bit\);', e.body)
    me = re.search(r'let p3_poseidon2_num_cols\b', e.body)
    if not ms or not me:
        raise ExtractError('lost anchor in eval_arity4: `builder.assert_bool(local.mmcs_bit);` .. `let p3_poseidon2_num_cols`')
    e.rewrites.append(('R13', f'function body := from `builder.assert_bool(local.mmcs_bit);` up to `let p3_poseidon2_num_cols` ({ms.start()} chars of prefix, {len(e.body) - me.start()} chars of suffix dropped)',
                       'prefix: row borrows and the bindings of the bits / permutation input and output columns (parameters of the slice); suffix: the inner Poseidon2 permutation AIR'))
    e.body = '{\n' + e.body[ms.start():me.start()] + '\n}'
    e.set_sig('R11', 'fn eval_arity4<const D: usize, const WIDTH_EXT: usize, const CAPACITY_EXT: usize>(builder: &mut AB, local: &Cols, next: &Cols, next_bit: R, next_bit2: R, next_bit_x_bit2: R, '
                     'local_out: &[R], next_in: &[R], next_prep: &PrepRow)', sliced=True)
    e.rewrite_re('R11', r'let next_prep: &Poseidon2PreprocessedRow<[^>]*> =\s*next_preprocessed\.borrow\(\);', '', min_count=0, flags_dotall=True)
    e.rewrite_re('R11', r'AB::Expr::ONE', 'R::one()')
    e.rewrite_re('R11', r'AB::Expr::ZERO', 'R::zero()')
    e.rewrite_re('R11', r'AB::Expr::TWO', 'R::two()')
    e.rewrite_re('R11', r'AB::Expr::from_u64\(', 'R::from_u64(')
    e.rewrite_re('R11', r'AB::Expr::from\((\w+)\)', r'\1')
    e.rewrite_re('R11', r': AB::Expr\b', ': R')
    e.rewrite_re('R11', r'AB::(Expr|Var)\b(?!::)', 'R')
    e.rewrite_re('R11', r'\.into\(\)', '')
    e.rewrite_re('R11', r'\.clone\(\)', '')
    ungate_chains(e)
    W = ('W4 { lo: iv(local_out@), ni: iv(next_in@), ncs: ncs_of(next_prep.input_limbs@), mcs: mcs_of(next_prep.input_limbs@), ns: next_prep.new_start.v@, mk: next_prep.merkle_path.v@, '
         'b0: next_bit.v@, b1: next_bit2.v@, bx: next_bit_x_bit2.v@, lb0: local.mmcs_bit.v@, lb1: local.mmcs_extra@[ARITY4_BIT2_IDX as int].v@, lbx: local.mmcs_extra@[ARITY4_BIT_X_BIT2_IDX as int].v@, '
         'lsum: local.mmcs_index_sum.v@, nsum: next.mmcs_index_sum.v@, trans: old(builder).trans@, d: D as int, cap: CAPACITY_EXT as int, width: WIDTH_EXT as int }')
    e.requires('window', f'({W}).wf() && local.mmcs_extra@.len() > ARITY4_BIT2_IDX && local.mmcs_extra@.len() > ARITY4_BIT_X_BIT2_IDX')
    e.ensures('exactly_the_chaining_constraints_of_the_arity4_table', f'final(builder).ok@ == (old(builder).ok@ && ({W}).chain4_ok()) && final(builder).trans == old(builder).trans')
    e.attr('#[verifier::loop_isolation(false)]')
    e.at_start('let ghost w = ' + W.replace('old(builder)', 'builder') + '; let ghost ok0 = builder.ok@;'
               ' proof { assert(w.width * w.d < 0x10_0000) by (nonlinear_arith) requires 0 < w.d < 0x100, 0 < w.width < 0x1000; }')
    CTX = 'w == (' + W + ') && w.wf() && builder.trans == old(builder).trans && ok0 == old(builder).ok@ && w.width * w.d < 0x10_0000'
    IDX = lambda v: (f'proof {{ assert({v} * D + d < WIDTH_EXT * D) by (nonlinear_arith) requires 0 <= {v} < WIDTH_EXT, 0 <= d < D; '
                     f'assert({v} * D + d >= 0) by (nonlinear_arith) requires {v} >= 0, d >= 0, D >= 0; }}')
    B1 = 'ok0 && w.c_bits()'
    # ---- sponge chaining nest
    SP_OUT = 'for limb in 0..WIDTH_EXT'
    if SP_OUT in e.body:
        e.loop('for d in 0..D', nth=0, invariants=[
            ('ctx', CTX + ' && limb < WIDTH_EXT'),
            ('this_limb', f'builder.ok@ == ({B1} && w.sponge_ok(limb as int) && forall|dd: int| 0 <= dd < d ==> #[trigger] w.c_sponge(limb as int, dd))')])
        e.rewrite_re('SPEC', r'(let gate = next_prep\.input_limbs\[limb\]\.normal_chain_sel;)', IDX('limb') + r' \1 proof { assert(gate.v@ == w.ncs[limb as int]); }', min_count=0)
        e.at_loop_end('for d in 0..D', '''proof {
                assert(w.ni[limb * D + d] == next_in@[limb * D + d].v@ && w.lo[limb * D + d] == local_out@[limb * D + d].v@);
                assert(w.c_sponge(limb as int, d as int) == (w.trans * gate.v@ * 1 * (next_in@[limb * D + d].v@ - local_out@[limb * D + d].v@) == 0));
            }''', nth=0)
        e.loop(SP_OUT, invariants=[('ctx', CTX), ('limbs_done', f'builder.ok@ == ({B1} && w.sponge_ok(limb as int))')])
    B2 = B1 + ' && w.sponge_ok(w.width)'
    # ---- placement nest
    PL_OUT = 'for chunk_k in 0..4'
    n_sp = 1 if SP_OUT in e.body else 0   # the placement nest's inner loop is the first `for d in 0..D` when the sponge nest is absent
    if PL_OUT in e.body:
        HK = 'h_k.v@ == w.h(chunk_k as int) && chunk_k < 4'
        e.loop('for d in 0..D', nth=n_sp, invariants=[
            ('ctx', CTX + f' && {HK} && slot_in_chunk < CAPACITY_EXT && global_slot == chunk_k * CAPACITY_EXT + slot_in_chunk && global_slot < WIDTH_EXT && place_gate.v@ == w.mcs[global_slot as int] * w.h(chunk_k as int)'),
            ('this_slot', f'builder.ok@ == ({B2} && w.place_ok(chunk_k as int) && w.place_slots(chunk_k as int, slot_in_chunk as int) && forall|dd: int| 0 <= dd < d ==> #[trigger] w.c_place(chunk_k as int, slot_in_chunk as int, dd))')])
        e.rewrite_re('SPEC', r'(let global_slot = chunk_k \* CAPACITY_EXT \+ slot_in_chunk;)',
                     r'proof { assert(chunk_k * CAPACITY_EXT + slot_in_chunk < 4 * CAPACITY_EXT) by (nonlinear_arith) requires chunk_k < 4, slot_in_chunk < CAPACITY_EXT; } \1', min_count=0)
        e.rewrite_re('SPEC', r'(builder\.gated_assert_zero\(true, place_gate, )', IDX('global_slot') + ' ' + IDX('slot_in_chunk') + r' \1', min_count=0)
        e.at_loop_end('for d in 0..D', '''proof {
                    assert(w.ni[global_slot * D + d] == next_in@[global_slot * D + d].v@ && w.lo[slot_in_chunk * D + d] == local_out@[slot_in_chunk * D + d].v@);
                    assert(w.c_place(chunk_k as int, slot_in_chunk as int, d as int) == (w.trans * place_gate.v@ * 1 * (next_in@[global_slot * D + d].v@ - local_out@[slot_in_chunk * D + d].v@) == 0));
                }''', nth=n_sp)
        e.loop('for slot_in_chunk in 0..CAPACITY_EXT', invariants=[
            ('ctx', CTX + f' && {HK}'),
            ('slots_done', f'builder.ok@ == ({B2} && w.place_ok(chunk_k as int) && w.place_slots(chunk_k as int, slot_in_chunk as int))')])
        e.loop(PL_OUT, invariants=[('ctx', CTX + ' && h_chunks@.len() == 4 && h_chunks@[0].v@ == w.h(0) && h_chunks@[1].v@ == w.h(1) && h_chunks@[2].v@ == w.h(2) && h_chunks@[3].v@ == w.h(3)'),
                                   ('chunks_done', f'builder.ok@ == ({B2} && w.place_ok(chunk_k as int))')])
    u.text('verus! {')
    u.emit(e)
    u.text('}')
    return u
