"""Unit `pack` (C14 kernel): proof data is packed in allocation order.

Real text: recursion/src/types/proof.rs  `impl Recursive for OpenedValuesTargets` {new, get_private_values, get_values}.
The builder stub records the ALLOCATION ORDER of private inputs in a ghost sequence.  `new` must extend that sequence by exactly the
canonical flattening of the target structure it returns (and give every field the length of the proof field), `get_private_values`
must return the same canonical flattening of the proof values: position k of the packed vector then lands on the k-th allocated
target, which is the target of the same field element."""
import re

from vf.extract import match_brace
from vf.unit import Unit

PRELUDE = r'''
#![allow(unused_imports, unused_variables, dead_code, unused_mut, unused_parens)]
use vstd::prelude::*;
use core::marker::PhantomData;
verus! {
global size_of usize == 8;
#[derive(Clone, Copy, PartialEq, Eq, Structural)]
pub struct ExprId(pub u32);
pub type Target = ExprId;
/// a challenge-field value (opaque, copyable)
#[derive(Clone, Copy, PartialEq, Eq, Structural)]
pub struct Fv(pub u64);
pub struct CircuitBuilder { pub privs: Ghost<Seq<ExprId>>, pub pubs: Ghost<Seq<ExprId>> }
/// `<SC::Challenge as BasedVectorSpace<Val<SC>>>::DIMENSION`
#[verifier::external_body] pub fn challenge_dimension_() -> usize { unimplemented!() }
impl CircuitBuilder {
    /// `(0..count).map(|_| self.alloc_private_input(label)).collect()`: count fresh private inputs, in order (ASSUMED)
    #[verifier::external_body]
    pub fn alloc_private_inputs(&mut self, count: usize, label: &'static str) -> (r: Vec<ExprId>)
        ensures r@.len() == count, final(self).privs@ == old(self).privs@ + r@, final(self).pubs@ == old(self).pubs@
    { unimplemented!() }
}
/// p3-uni-stark OpenedValues (fields as in p3-uni-stark 0.6 proof.rs)
pub struct OpenedValues { pub trace_local: Vec<Fv>, pub trace_next: Option<Vec<Fv>>, pub preprocessed_local: Option<Vec<Fv>>, pub preprocessed_next: Option<Vec<Fv>>,
    pub quotient_chunks: Vec<Vec<Fv>>, pub random: Option<Vec<Fv>> }

pub struct OpenedValuesWithLookups { pub base_opened_values: OpenedValues, pub permutation_local: Vec<Fv>, pub permutation_next: Vec<Fv> }
pub struct BatchOpenedValues { pub instances: Vec<OpenedValuesWithLookups> }
/// p3 MerkleCap of digests (native commitment): `roots()` / `num_roots()`
pub struct MerkleCap<const N: usize> { pub cap: Vec<[Fv; N]> }
impl<const N: usize> MerkleCap<N> {
    pub fn num_roots(&self) -> (r: usize) ensures r == self.cap@.len() { self.cap.len() }
    pub fn roots(&self) -> (r: &[[Fv; N]]) ensures r@ == self.cap@ { self.cap.as_slice() }
}
impl CircuitBuilder {
    /// `core::array::from_fn(|_| self.alloc_public_input(label))`: N fresh public inputs, in order (ASSUMED)
    #[verifier::external_body]
    pub fn alloc_public_input_array<const N: usize>(&mut self, label: &'static str) -> (r: [ExprId; N])
        ensures final(self).pubs@ == old(self).pubs@ + r@, final(self).privs@ == old(self).privs@
    { unimplemented!() }
    /// `(0..count).map(|_| self.alloc_public_input(label)).collect()` (ASSUMED)
    #[verifier::external_body]
    pub fn alloc_public_inputs(&mut self, count: usize, label: &'static str) -> (r: Vec<ExprId>)
        ensures r@.len() == count, final(self).pubs@ == old(self).pubs@ + r@, final(self).privs@ == old(self).privs@
    { unimplemented!() }
}
/// row-major flattening of a list of fixed-size arrays
pub open spec fn flat_arr<T, const N: usize>(vv: Seq<[T; N]>) -> Seq<T> decreases vv.len() { if vv.len() == 0 { Seq::empty() } else { flat_arr(vv.drop_last()) + vv.last()@ } }
pub proof fn lemma_flat_arr_push<T, const N: usize>(vv: Seq<[T; N]>, v: [T; N]) ensures flat_arr(vv.push(v)) == flat_arr(vv) + v@ { assert(vv.push(v).drop_last() =~= vv); }
pub proof fn lemma_flat_arr_take<T, const N: usize>(vv: Seq<[T; N]>, k: int) requires 0 <= k < vv.len() ensures flat_arr(vv.take(k + 1)) == flat_arr(vv.take(k)) + vv[k]@ { assert(vv.take(k + 1).drop_last() =~= vv.take(k)); }
pub open spec fn flat_opt<T>(o: Option<Vec<T>>) -> Seq<T> { match o { Some(v) => v@, None => Seq::empty() } }
pub open spec fn flat_vv<T>(vv: Seq<Vec<T>>) -> Seq<T> decreases vv.len() { if vv.len() == 0 { Seq::empty() } else { flat_vv(vv.drop_last()) + vv.last()@ } }
pub proof fn lemma_flat_vv_push<T>(vv: Seq<Vec<T>>, v: Vec<T>) ensures flat_vv(vv.push(v)) == flat_vv(vv) + v@ { assert(vv.push(v).drop_last() =~= vv); }
pub proof fn lemma_flat_vv_take<T>(vv: Seq<Vec<T>>, k: int) requires 0 <= k < vv.len() ensures flat_vv(vv.take(k + 1)) == flat_vv(vv.take(k)) + vv[k]@ { assert(vv.take(k + 1).drop_last() =~= vv.take(k)); }
/// `dst.extend(x.iter().flatten())` for an optional vector / a vector of vectors: the elements in order
pub trait Flat2 { spec fn flat2(&self) -> Seq<Fv>; fn flat_into(&self, dst: &mut Vec<Fv>) ensures final(dst)@ == old(dst)@ + self.flat2(); }
impl Flat2 for Option<Vec<Fv>> { open spec fn flat2(&self) -> Seq<Fv> { flat_opt(*self) } #[verifier::external_body] fn flat_into(&self, dst: &mut Vec<Fv>) { unimplemented!() } }
impl Flat2 for Vec<Vec<Fv>> { open spec fn flat2(&self) -> Seq<Fv> { flat_vv(self@) } #[verifier::external_body] fn flat_into(&self, dst: &mut Vec<Fv>) { unimplemented!() } }
#[verifier::external_body] pub fn total_len_of(v: &Vec<Vec<Fv>>) -> usize { unimplemented!() }
} // verus!
'''

SPEC = r'''
verus! {
/// THE traversal order of the opened values (the order the verifier circuit's private inputs are laid out in)
pub open spec fn targets_flat(t: &OpenedValuesTargets) -> Seq<ExprId> {
    t.trace_local_targets@ + t.trace_next_targets@ + flat_opt(t.preprocessed_local_targets) + flat_opt(t.preprocessed_next_targets) + flat_vv(t.quotient_chunks_targets@) + flat_opt(t.random_targets)
}
pub open spec fn values_flat(i: &OpenedValues) -> Seq<Fv> {
    i.trace_local@ + flat_opt(i.trace_next) + flat_opt(i.preprocessed_local) + flat_opt(i.preprocessed_next) + flat_vv(i.quotient_chunks@) + flat_opt(i.random)
}
pub open spec fn opt_shape<A, B>(t: Option<Vec<A>>, i: Option<Vec<B>>) -> bool { (t is Some <==> i is Some) && (t matches Some(tv) ==> (i matches Some(iv) ==> tv@.len() == iv@.len())) }
/// every target vector has the length of the proof field it carries
pub open spec fn same_shape(t: &OpenedValuesTargets, i: &OpenedValues) -> bool {
    &&& t.trace_local_targets@.len() == i.trace_local@.len()
    &&& t.trace_next_targets@.len() == flat_opt(i.trace_next).len()
    &&& opt_shape(t.preprocessed_local_targets, i.preprocessed_local) && opt_shape(t.preprocessed_next_targets, i.preprocessed_next) && opt_shape(t.random_targets, i.random)
    &&& t.quotient_chunks_targets@.len() == i.quotient_chunks@.len()
    &&& forall|q: int| 0 <= q < i.quotient_chunks@.len() ==> (#[trigger] t.quotient_chunks_targets@[q])@.len() == i.quotient_chunks@[q]@.len()
}
pub open spec fn targets_flat_wl(t: &OpenedValuesTargetsWithLookups) -> Seq<ExprId> { targets_flat(&t.opened_values_no_lookups) + t.permutation_local_targets@ + t.permutation_next_targets@ }
pub open spec fn values_flat_wl(i: &OpenedValuesWithLookups) -> Seq<Fv> { values_flat(&i.base_opened_values) + i.permutation_local@ + i.permutation_next@ }
pub open spec fn same_shape_wl(t: &OpenedValuesTargetsWithLookups, i: &OpenedValuesWithLookups) -> bool {
    same_shape(&t.opened_values_no_lookups, &i.base_opened_values) && t.permutation_local_targets@.len() == i.permutation_local@.len() && t.permutation_next_targets@.len() == i.permutation_next@.len()
}
pub open spec fn targets_flat_b(ts: Seq<OpenedValuesTargetsWithLookups>) -> Seq<ExprId> decreases ts.len() { if ts.len() == 0 { Seq::empty() } else { targets_flat_b(ts.drop_last()) + targets_flat_wl(&ts.last()) } }
pub open spec fn values_flat_b(is_: Seq<OpenedValuesWithLookups>) -> Seq<Fv> decreases is_.len() { if is_.len() == 0 { Seq::empty() } else { values_flat_b(is_.drop_last()) + values_flat_wl(&is_.last()) } }
} // verus!
'''


def unmap_option(f):
    """R6 (general): `E.as_ref().map(|v| BODY)` -> `(match &E { Some(v) => Some(BODY), None => None })`;  `E.as_ref().map_or(D, |v| BODY)` -> `(match &E { Some(v) => BODY, None => D })`"""
    n = 0
    while True:
        m = re.search(r'([\w.]+(?:\s*\.\s*\w+)*?)\s*\.as_ref\(\)\s*\.(map_or|map)\(', f.body)
        if not m:
            break
        open_ = m.end() - 1
        close = match_brace(f.body, open_)
        inner = f.body[open_ + 1:close]
        if m.group(2) == 'map':
            mm = re.match(r'\s*\|(\w+)\|\s*(.*)$', inner, flags=re.S)
            new = f'(match &{m.group(1).strip()} {{ Some({mm.group(1)}) => Some({mm.group(2).strip()}), None => None }})'
        else:
            mm = re.match(r'\s*([^,]+),\s*\|(\w+)\|\s*(.*)$', inner, flags=re.S)
            new = f'(match &{m.group(1).strip()} {{ Some({mm.group(2)}) => {mm.group(3).strip()}, None => {mm.group(1).strip()} }})'
        f.body = f.body[:m.start()] + new + f.body[close + 1:]
        n += 1
    if n:
        f.rewrites.append(('R6', f'{n} Option combinators `.as_ref().map(..)` / `.map_or(..)` -> match (closure body verbatim)', ''))
    return f


def build():
    u = Unit('pack', ['C14'])
    u.rlimit = 80
    u.assume('alloc_private_inputs(count, label) allocates `count` fresh private inputs in order (its body is an iterator chain over alloc_private_input); the ghost sequence `privs` is the allocation order')
    u.assume('R11: SC erased; challenge values are opaque copyable Fv; OpenedValues mirrors p3-uni-stark 0.6 proof.rs; `values.extend(x)` over a borrowed vector = extend_from_slice')
    u.text(PRELUDE)
    P = 'recursion/src/types/proof.rs'
    from vf.extract import extract_item
    st = extract_item(P, r'pub struct OpenedValuesTargets<SC: StarkGenericConfig>')
    st = st.replace('OpenedValuesTargets<SC: StarkGenericConfig>', 'OpenedValuesTargets').replace('PhantomData<SC>', 'PhantomData<()>')
    st2 = extract_item(P, r'pub struct OpenedValuesTargetsWithLookups<SC: StarkGenericConfig>').replace('OpenedValuesTargetsWithLookups<SC: StarkGenericConfig>', 'OpenedValuesTargetsWithLookups').replace('OpenedValuesTargets<SC>', 'OpenedValuesTargets')
    st3 = extract_item(P, r'pub\(crate\) struct BatchOpenedValuesTargets<SC: StarkGenericConfig>').replace('BatchOpenedValuesTargets<SC: StarkGenericConfig>', 'BatchOpenedValuesTargets').replace('OpenedValuesTargetsWithLookups<SC>', 'OpenedValuesTargetsWithLookups').replace('pub(crate) ', 'pub ')
    st4 = extract_item('recursion/src/pcs/fri/targets.rs', r'pub struct MerkleCapTargets<F, const DIGEST_ELEMS: usize>').replace('MerkleCapTargets<F, const DIGEST_ELEMS: usize>', 'MerkleCapTargets<const DIGEST_ELEMS: usize>').replace('PhantomData<F>', 'PhantomData<()>').replace('    _phantom', '    pub _phantom')
    u.text('verus! {\n' + st + '\n' + st2 + '\n' + st3 + '\n' + st4 + '\n}')
    from vf.unit import CHUNKS_STUBS
    u.text(CHUNKS_STUBS)
    u.text(SPEC)
    IMPL = r'impl<SC: StarkGenericConfig> Recursive<SC::Challenge> for OpenedValuesTargets<SC>'

    n = u.extract(P, IMPL, 'new', 'OpenedValuesTargets::new')
    n.set_sig('R11', 'fn new(circuit: &mut CircuitBuilder, input: &OpenedValues) -> OpenedValuesTargets')
    unmap_option(n)
    n.rewrite_re('R5', r'for (\w+) in ([\w.]+)\.iter\(\) \{', r'for q_ in 0..\2.len() { let \1 = &\2[q_];', min_count=0)
    n.rewrite_re('R12', r'\bSelf \{', 'OpenedValuesTargets {', min_count=1)
    n.rewrite_re('R11', r'<SC::Challenge as BasedVectorSpace<Val<SC>>>::DIMENSION', 'challenge_dimension_()', min_count=0)
    from vf.unit import unmap_iter_collect_general
    from vf.unit import unchunks_to_vec_collect
    n.body = re.sub(r'circuit\s+\.alloc_private_inputs', 'circuit.alloc_private_inputs', n.body)
    unchunks_to_vec_collect(n)
    n.body = re.sub(r'\binput\s+\.\s*(\w+)', r'input.\1', n.body)
    unmap_iter_collect_general(n)
    n.rewrite_re('SPEC-type', r'let mut (v_m\d+_) = Vec::new\(\);', r'let mut \1: Vec<Vec<ExprId>> = Vec::new();', min_count=0)
    n.ensures('allocation_order_is_the_traversal_order', 'final(circuit).privs@ == old(circuit).privs@ + targets_flat(&ret)')
    n.ensures('every_field_has_the_proof_length', 'same_shape(&ret, input)')
    n.ensures('no_public_inputs', 'final(circuit).pubs@ == old(circuit).pubs@')
    n.at_start('let ghost p0 = circuit.privs@;')
    if 'for q_ in 0..' in n.body:
        lo = n._loop_open('for q_ in 0..')
        n.body = n.body[:lo + 1] + ' let ghost qt_b = quotient_chunks_targets@; let ghost pv_b = circuit.privs@; ' + n.body[lo + 1:]
        n.at_loop_end('for q_ in 0..', '''proof {
                    lemma_flat_vv_push(qt_b, quotient_chunks_targets@[q_ as int]);
                    assert(quotient_chunks_targets@ =~= qt_b.push(quotient_chunks_targets@[q_ as int]));
                    assert(circuit.privs@ =~= pv_b + quotient_chunks_targets@[q_ as int]@);
                    assert((p_q + flat_vv(qt_b)) + quotient_chunks_targets@[q_ as int]@ =~= p_q + (flat_vv(qt_b) + quotient_chunks_targets@[q_ as int]@));
                }''')
        n.before('for q_ in 0..', 'let ghost p_q = circuit.privs@; proof { assert(p_q + flat_vv(quotient_chunks_targets@) =~= p_q); }')
        n.loop('for q_ in 0..', invariants=[
            ('chunks', 'quotient_chunks_targets@.len() == q_ && circuit.privs@ == p_q + flat_vv(quotient_chunks_targets@) && circuit.pubs@ == old(circuit).pubs@'),
            ('lens', 'forall|q: int| 0 <= q < q_ ==> (#[trigger] quotient_chunks_targets@[q])@.len() == input.quotient_chunks@[q]@.len()'),
        ])
    n.bind_tail('r_', '''proof {
            assert(circuit.privs@ =~= p0 + targets_flat(&r_));
        }''')

    g = u.extract(P, IMPL, 'get_private_values', 'OpenedValuesTargets::get_private_values')
    g.set_sig('R11', 'fn get_private_values(input: &OpenedValues) -> Vec<Fv>')
    # R1: destructuring of a borrowed struct -> one borrow per field
    m = re.search(r'let OpenedValues \{([^}]*)\} = input;', g.body)
    if m:
        names = [x.strip() for x in m.group(1).split(',') if x.strip()]
        g.body = g.body[:m.start()] + ' '.join(f'let {x} = &input.{x};' for x in names) + g.body[m.end():]
        g.rewrites.append(('R1', 'destructuring `let OpenedValues { .. } = input;` -> one borrow per field', ''))
    g.rewrite_re('R6', r'let mut values = vec!\[\];', 'let mut values: Vec<Fv> = Vec::new();', min_count=1)
    g.rewrite_re('R6', r'values\.extend\((\w+)\);', r'values.extend_from_slice(\1.as_slice());', min_count=1)
    g.rewrite_re('R5', r'for (\w+) in (\w+) \{', r'for q_ in 0..\2.len() { let \1 = &\2[q_];', min_count=0)
    g.ensures('values_in_the_traversal_order', 'ret@ == values_flat(input)')
    g.before('for q_ in 0..', 'let ghost v_q = values@; proof { assert(input.quotient_chunks@.take(0) =~= Seq::<Vec<Fv>>::empty()); assert(v_q + flat_vv(input.quotient_chunks@.take(0)) =~= v_q); }')
    g.at_loop_end('for q_ in 0..', 'proof { lemma_flat_vv_take(input.quotient_chunks@, q_ as int); assert(values@ =~= v_q + flat_vv(input.quotient_chunks@.take(q_ + 1))); }')
    g.loop('for q_ in 0..', invariants=[('chunks', 'values@ == v_q + flat_vv(input.quotient_chunks@.take(q_ as int)) && quotient_chunks@ == input.quotient_chunks@')])
    g.bind_tail('r_', 'proof { assert(input.quotient_chunks@.take(input.quotient_chunks@.len() as int) =~= input.quotient_chunks@); assert(r_@ =~= values_flat(input)); }')

    gv = u.extract(P, IMPL, 'get_values', 'OpenedValuesTargets::get_values')
    gv.set_sig('R11', 'fn get_values(_input: &OpenedValues) -> Vec<Fv>')
    gv.ensures('no_public_values', 'ret@.len() == 0')

    def common(f):
        f.rewrite_re('R11', r'::<SC>', '', min_count=0)
        f.rewrite_re('R12', r'\bSelf \{', f.typename + ' {', min_count=0)
        f.rewrite_re('R6', r'let mut values = vec!\[\];', 'let mut values: Vec<Fv> = Vec::new();', min_count=0)
        # values.extend(<call>) with an owned vector
        f.rewrite_re('R6', r'values\.extend\((\w+(?:::\w+)*\(\s*[^;]*?\))\);', r'let tmp_ = \1; values.extend_from_slice(tmp_.as_slice());', min_count=0, flags_dotall=True)
        f.rewrite_re('R6', r'values\.extend\((\w+)\);', r'values.extend_from_slice(\1.as_slice());', min_count=0)
        # R6 (general forms): `values.extend(X.iter().flatten());` for X an Option<Vec<_>> or a Vec<Vec<_>> -> X.flat_into(&mut values) (trait Flat2: the elements in order);
        # `X.as_ref().map_or(D, Vec::len)` -> match; `X.iter().map(Vec::len).sum::<usize>()` -> total_len_of(X); destructuring of a borrowed local -> one borrow per field
        f.rewrite_re('R6', r'values\.extend\((\w+)\.iter\(\)\.flatten\(\)\);', r'\1.flat_into(&mut values);', min_count=0)
        f.rewrite_re('R6', r'(\w+)\.as_ref\(\)\.map_or\((\w+), Vec::len\)', r'(match \1 { Some(v_) => v_.len(), None => \2 })', min_count=0)
        f.rewrite_re('R6', r'(\w+)\.iter\(\)\.map\(Vec::len\)\.sum::<usize>\(\)', r'total_len_of(\1)', min_count=0)
        # a capacity is an allocation hint: `Vec::with_capacity(n)` -> `Vec::new()`, and a local used for nothing else is dropped with it (its length sum is not part of the result)
        mc = re.search(r'let mut values = Vec::with_capacity\((\w+)\);', f.body)
        if mc:
            nm = mc.group(1)
            f.body = f.body[:mc.start()] + 'let mut values: Vec<Fv> = Vec::new();' + f.body[mc.end():]
            ml = re.search(r'let ' + nm + r'\b[^;]*;', f.body)
            if ml and len(re.findall(r'(?<![.\w])' + nm + r'\b', f.body)) == 1:
                f.body = f.body[:ml.start()] + f.body[ml.end():]
            f.rewrites.append(('R6', f'`Vec::with_capacity({nm})` -> `Vec::new()`; the hint-only local `{nm}` dropped', ''))
        md = re.search(r'let (\w+) \{([^}]*)\} = (\w+);', f.body)
        while md and md.group(3) != 'input':
            names = [x.strip() for x in md.group(2).split(',') if x.strip()]
            f.body = f.body[:md.start()] + ' '.join(f'let {x} = &{md.group(3)}.{x};' for x in names) + f.body[md.end():]
            f.rewrites.append(('R1', f'destructuring `let {md.group(1)} {{ .. }} = {md.group(3)};` -> one borrow per field', ''))
            md = re.search(r'let (\w+) \{([^}]*)\} = (\w+);', f.body)
        return f

    IMPL2 = r'impl<SC: StarkGenericConfig> Recursive<SC::Challenge> for OpenedValuesTargetsWithLookups<SC>'
    n2 = u.extract(P, IMPL2, 'new', 'OpenedValuesTargetsWithLookups::new')
    n2.typename = 'OpenedValuesTargetsWithLookups'
    n2.set_sig('R11', 'fn new(circuit: &mut CircuitBuilder, input: &OpenedValuesWithLookups) -> OpenedValuesTargetsWithLookups')
    common(n2)
    n2.ensures('allocation_order_is_the_traversal_order', 'final(circuit).privs@ == old(circuit).privs@ + targets_flat_wl(&ret)')
    n2.ensures('every_field_has_the_proof_length', 'same_shape_wl(&ret, input)')
    n2.bind_tail('r_', 'proof { assert(circuit.privs@ =~= old(circuit).privs@ + targets_flat_wl(&r_)); }')
    g2 = u.extract(P, IMPL2, 'get_private_values', 'OpenedValuesTargetsWithLookups::get_private_values')
    g2.typename = 'OpenedValuesTargetsWithLookups'
    g2.set_sig('R11', 'fn get_private_values(input: &OpenedValuesWithLookups) -> Vec<Fv>')
    m = re.search(r'let OpenedValuesWithLookups \{([^}]*)\} = input;', g2.body)
    if m:
        names = [x.strip() for x in m.group(1).split(',') if x.strip()]
        g2.body = g2.body[:m.start()] + ' '.join(f'let {x} = &input.{x};' for x in names) + g2.body[m.end():]
        g2.rewrites.append(('R1', 'destructuring of the borrowed input -> one borrow per field', ''))
    common(g2)
    g2.ensures('values_in_the_traversal_order', 'ret@ == values_flat_wl(input)')
    g2.bind_tail('r_', 'proof { assert(r_@ =~= values_flat_wl(input)); }')

    IMPL3 = r'impl<SC: StarkGenericConfig> Recursive<SC::Challenge> for BatchOpenedValuesTargets<SC>'
    n3 = u.extract(P, IMPL3, 'new', 'BatchOpenedValuesTargets::new')
    n3.typename = 'BatchOpenedValuesTargets'
    n3.set_sig('R11', 'fn new(circuit: &mut CircuitBuilder, input: &BatchOpenedValues) -> BatchOpenedValuesTargets')
    common(n3)
    n3.rewrite_re('R6', r'let instances = input\s*\.instances\s*\.iter\(\)\s*\.map\(\|(\w+)\| ([^;]*?)\)\s*\.collect\(\);',
                  r'let mut instances: Vec<OpenedValuesTargetsWithLookups> = Vec::new(); for b_ in 0..input.instances.len() { let \1 = &input.instances[b_]; let t_ = \2; instances.push(t_); }', min_count=1, flags_dotall=True)
    n3.ensures('allocation_order_is_the_traversal_order', 'final(circuit).privs@ == old(circuit).privs@ + targets_flat_b(ret.instances@)')
    n3.ensures('every_instance_has_the_proof_shape', 'ret.instances@.len() == input.instances@.len() && forall|b: int| 0 <= b < ret.instances@.len() ==> same_shape_wl(#[trigger] &ret.instances@[b], &input.instances@[b])')
    lo = n3._loop_open('for b_ in 0..')
    n3.body = n3.body[:lo + 1] + ' let ghost ins_b = instances@; let ghost pv_b = circuit.privs@; ' + n3.body[lo + 1:]
    n3.at_loop_end('for b_ in 0..', """proof {
                assert(instances@ =~= ins_b.push(t_)); assert(instances@.drop_last() =~= ins_b);
                assert(circuit.privs@ =~= old(circuit).privs@ + targets_flat_b(instances@));
                assert forall|b: int| 0 <= b < instances@.len() implies same_shape_wl(#[trigger] &instances@[b], &input.instances@[b]) by { if b < b_ { assert(instances@[b] == ins_b[b]); } }
            }""")
    n3.before('for b_ in 0..', 'proof { assert(circuit.privs@ =~= old(circuit).privs@ + targets_flat_b(instances@)); }')
    n3.loop('for b_ in 0..', invariants=[
        ('done', 'instances@.len() == b_ && circuit.privs@ == old(circuit).privs@ + targets_flat_b(instances@)'),
        ('shapes', 'forall|b: int| 0 <= b < b_ ==> same_shape_wl(#[trigger] &instances@[b], &input.instances@[b])'),
    ])
    g3 = u.extract(P, IMPL3, 'get_private_values', 'BatchOpenedValuesTargets::get_private_values')
    g3.typename = 'BatchOpenedValuesTargets'
    g3.set_sig('R11', 'fn get_private_values(input: &BatchOpenedValues) -> Vec<Fv>')
    common(g3)
    g3.rewrite_re('R5', r'for (\w+) in &([\w.]+) \{', r'for b_ in 0..\2.len() { let \1 = &\2[b_];', min_count=1)
    g3.ensures('values_in_the_traversal_order', 'ret@ == values_flat_b(input.instances@)')
    g3.before('for b_ in 0..', 'proof { assert(input.instances@.take(0) =~= Seq::<OpenedValuesWithLookups>::empty()); }')
    g3.at_loop_end('for b_ in 0..', 'proof { assert(input.instances@.take(b_ + 1).drop_last() =~= input.instances@.take(b_ as int)); assert(input.instances@.take(b_ + 1).last() == input.instances@[b_ as int]); }')
    g3.loop('for b_ in 0..', invariants=[('done', 'values@ == values_flat_b(input.instances@.take(b_ as int))')])
    g3.bind_tail('r_', 'proof { assert(input.instances@.take(input.instances@.len() as int) =~= input.instances@); }')

    # ---------------------------------------------------------------- Merkle cap commitment targets (public inputs)
    from units.sched import unmap_collect as _umc
    T = 'recursion/src/pcs/fri/targets.rs'
    IMPLM = r'impl<F: Field, EF: ExtensionField<F>, const DIGEST_ELEMS: usize> Recursive<EF>\s*for MerkleCapTargets<F, DIGEST_ELEMS>'
    mn = u.extract(T, IMPLM, 'new', 'MerkleCapTargets::new')
    mn.typename = 'MerkleCapTargets'
    mn.set_sig('R11', 'fn new(circuit: &mut CircuitBuilder, input: &MerkleCap<DIGEST_ELEMS>) -> MerkleCapTargets<DIGEST_ELEMS>')
    common(mn)
    # R6 (general): `(0..N).map(|v| EXPR).collect()` (no block) -> loop pushing EXPR
    m0 = re.search(r'\(0\.\.', mn.body)
    if m0:
        rclose = match_brace(mn.body, m0.start())
        upper = mn.body[m0.end():rclose]
        m = re.match(r'\s*\.map\(\|(\w+)\|\s*', mn.body[rclose + 1:])
        st_ = rclose + 1 + m.end(); i = st_
        while True:
            ch = mn.body[i]
            if ch in '([{':
                i = match_brace(mn.body, i)
            elif ch == ')':
                break
            i += 1
        expr = mn.body[st_:i]
        rest = mn.body[i + 1:]
        m2 = re.match(r'\s*\.collect\(\)', rest)
        var = m.group(1) if m.group(1) != '_' else 'r_'
        mn.body = mn.body[:m0.start()] + f'{{ let mut v_: Vec<[Target; DIGEST_ELEMS]> = Vec::new(); for {var} in 0..{upper} {{ let x_ = {expr}; v_.push(x_); }} v_ }}' + rest[m2.end():]
        mn.rewrites.append(('R6', '`(0..N).map(|i| EXPR).collect()` -> loop pushing EXPR (EXPR verbatim)', ''))
    # R6 (general): `core::array::from_fn(|j| EXPR)` -> indexed loop over a fresh array; the loop invariant is generated from EXPR
    def _ff(mm):
        jv, ex = mm.group(1), mm.group(2).strip()
        sp = re.sub(r'\b' + jv + r'\b', 'q_', ex).replace('flat[', 'flat@[')
        return (f'{{ let mut a_: [Target; DIGEST_ELEMS] = [ExprId(0); DIGEST_ELEMS]; for {jv} in 0..DIGEST_ELEMS '
                f'invariant forall|q_: int| 0 <= q_ < {jv} ==> a_@[q_] == ({sp}), '
                f'{{ a_[{jv}] = {ex}; }} a_ }}')
    mn.rewrite_re('R6', r'core::array::from_fn\(\|(\w+)\| ([^)]+)\)', _ff, min_count=0)
    mn.ensures('allocation_order_is_row_major', 'final(circuit).pubs@ == old(circuit).pubs@ + flat_arr(ret.cap_targets@)')
    mn.ensures('one_entry_per_root', 'ret.cap_targets@.len() == input.cap@.len() && final(circuit).privs@ == old(circuit).privs@')
    lo = mn._loop_open('for r_ in 0..') if 'for r_ in 0..' in mn.body else mn._loop_open('for i in 0..')
    hdr = 'for r_ in 0..' if 'for r_ in 0..' in mn.body else 'for i in 0..'
    mn.body = mn.body[:lo + 1] + ' let ghost v_b = v_@; let ghost pb_b = circuit.pubs@; ' + mn.body[lo + 1:]
    mn.at_loop_end(hdr, """proof {
                lemma_flat_arr_push(v_b, v_@[v_@.len() - 1]);
                assert(v_@ =~= v_b.push(v_@[v_@.len() - 1]));
                assert(circuit.pubs@ =~= p0 + flat_arr(v_@)); // @@A:cap_entry_allocated_contiguously_in_order
            }""")
    mn.at_start('let ghost p0 = circuit.pubs@;')
    mn.before(hdr, 'proof { assert(p0 + flat_arr(Seq::<[Target; DIGEST_ELEMS]>::empty()) =~= p0); }')
    mn.loop(hdr, invariants=[('done', f"v_@.len() == {'r_' if hdr.startswith('for r_') else 'i'} && circuit.pubs@ == p0 + flat_arr(v_@) && circuit.privs@ == old(circuit).privs@")])

    mg = u.extract(T, IMPLM, 'get_values', 'MerkleCapTargets::get_values')
    mg.typename = 'MerkleCapTargets'
    mg.set_sig('R11', 'fn get_values(input: &MerkleCap<DIGEST_ELEMS>) -> Vec<Fv>')
    mg.rewrite_re('R6', r'input\s*\.roots\(\)\s*\.iter\(\)\s*\.flat_map\(\|entry: &\[<F as PackedValue>::Value; DIGEST_ELEMS\]\| \{\s*entry\.iter\(\)\.map\(\|v\| EF::from\(\*v\)\)\s*\}\)\s*\.collect\(\)',
                  '{ let rs_ = input.roots(); let mut out_: Vec<Fv> = Vec::new(); for e_ in 0..rs_.len() { let entry = &rs_[e_]; for k_ in 0..DIGEST_ELEMS { let v = &entry[k_]; out_.push(*v); } } out_ }', min_count=1, flags_dotall=True)
    mg.ensures('values_row_major', 'ret@ == flat_arr(input.cap@)')
    mg.loop('for e_ in 0..rs_.len()', invariants=[('done', 'rs_@ == input.cap@ && out_@ == flat_arr(input.cap@.take(e_ as int))')])
    mg.loop('for k_ in 0..DIGEST_ELEMS', invariants=[('row', 'rs_@ == input.cap@ && e_ < rs_@.len() && entry == &rs_@[e_ as int] && out_@ == flat_arr(input.cap@.take(e_ as int)) + entry@.take(k_ as int)')])
    mg.before('for e_ in 0..rs_.len()', 'proof { assert(input.cap@.take(0) =~= Seq::<[Fv; DIGEST_ELEMS]>::empty()); }')
    mg.before('for k_ in 0..DIGEST_ELEMS', 'proof { assert(entry@.take(0) =~= Seq::<Fv>::empty()); assert(out_@ + Seq::<Fv>::empty() =~= out_@); }')
    lo = mg._loop_open('for k_ in 0..DIGEST_ELEMS')
    mg.at_loop_end('for k_ in 0..DIGEST_ELEMS', 'proof { assert(entry@.take(k_ + 1) =~= entry@.take(k_ as int).push(entry@[k_ as int])); assert((flat_arr(input.cap@.take(e_ as int)) + entry@.take(k_ as int)).push(*v) =~= flat_arr(input.cap@.take(e_ as int)) + entry@.take(k_ + 1)); }')
    mg.at_loop_end('for e_ in 0..rs_.len()', 'proof { lemma_flat_arr_take(input.cap@, e_ as int); assert(entry@.take(DIGEST_ELEMS as int) =~= entry@); }')
    mg.bind_tail('r_', 'proof { assert(input.cap@.take(input.cap@.len() as int) =~= input.cap@); }')
    u.text('verus! {\nimpl<const DIGEST_ELEMS: usize> MerkleCapTargets<DIGEST_ELEMS> {')
    u.emit(mn)
    u.emit(mg)
    u.text('}\n}')

    u.text('verus! {\nimpl OpenedValuesTargets {')
    for f in (n, g, gv):
        u.emit(f)
    u.text('}\nimpl OpenedValuesTargetsWithLookups {')
    for f in (n2, g2):
        u.emit(f)
    u.text('}\nimpl BatchOpenedValuesTargets {')
    for f in (n3, g3):
        u.emit(f)
    u.text('}')
    u.text('''/// consequence: position k of the packed private vector belongs to the k-th allocated target, and both flattenings have one length
pub proof fn theorem_packed_in_allocation_order(t: &OpenedValuesTargets, i: &OpenedValues)
    requires same_shape(t, i)
    ensures targets_flat(t).len() == values_flat(i).len()
{
    lemma_vv_len(t.quotient_chunks_targets@, i.quotient_chunks@);
}
pub proof fn lemma_vv_len<A, B>(a: Seq<Vec<A>>, b: Seq<Vec<B>>)
    requires a.len() == b.len(), forall|q: int| 0 <= q < a.len() ==> (#[trigger] a[q])@.len() == b[q]@.len()
    ensures flat_vv(a).len() == flat_vv(b).len()
    decreases a.len()
{
    if a.len() > 0 { lemma_vv_len(a.drop_last(), b.drop_last()); }
}
}''')
    return u
