"""Unit `pack2` (C14, composite proof structures): allocation order = packing order, modularly.
Real text: recursion/src/pcs/fri/targets.rs  `impl Recursive for` FriProofTargets, QueryProofTargets, BatchOpeningTargets, InputProofTargets,
HidingFriProofTargets, HidingHashProofTargets, HidingOpenedValuesTargets, Witness, HashProofTargets  ({new, get_values, get_private_values}).

Contract of the `Recursive` trait (trait Rec below): `new` extends the builder's PUBLIC allocation order by exactly `pubs()` and the PRIVATE
one by exactly `privs()` of the structure it returns, with as many targets as `get_values` / `get_private_values` return values
(`pub_vals` / `priv_vals`).  Each composite impl is proved to satisfy this contract for EVERY child type that satisfies it, with
pubs/privs/pub_vals/priv_vals of the composite defined as the concatenation, in one fixed traversal order, of the children's.
Position k of the packed vector therefore lands on the k-th allocated target of the same field, at every nesting depth."""
import re

from vf.extract import extract_item, match_brace, ExtractError
from vf.unit import Unit, uniter_collect, unmap_iter_collect_general, uniter_first
from units.pack import PRELUDE as PACK_PRELUDE

SPEC = r'''
verus! {
/// the contract of `Recursive<EF>` (recursion/src/traits): what C14 needs of every implementor
pub trait Rec: Sized {
    type Input;
    spec fn pubs(&self) -> Seq<ExprId>;
    spec fn privs(&self) -> Seq<ExprId>;
    spec fn pub_vals(i: &Self::Input) -> Seq<Fv>;
    spec fn priv_vals(i: &Self::Input) -> Seq<Fv>;
    fn new(circuit: &mut CircuitBuilder, input: &Self::Input) -> (r: Self)
        ensures final(circuit).pubs@ == old(circuit).pubs@ + r.pubs(), final(circuit).privs@ == old(circuit).privs@ + r.privs(),
                r.pubs().len() == Self::pub_vals(input).len(), r.privs().len() == Self::priv_vals(input).len();
    fn get_values(input: &Self::Input) -> (r: Vec<Fv>) ensures r@ == Self::pub_vals(input);
    fn get_private_values(input: &Self::Input) -> (r: Vec<Fv>) ensures r@ == Self::priv_vals(input);
}
pub open spec fn fl_pubs<T: Rec>(s: Seq<T>, n: int) -> Seq<ExprId> decreases n { if n <= 0 { Seq::empty() } else { fl_pubs(s, n - 1) + s[n - 1].pubs() } }
pub open spec fn fl_privs<T: Rec>(s: Seq<T>, n: int) -> Seq<ExprId> decreases n { if n <= 0 { Seq::empty() } else { fl_privs(s, n - 1) + s[n - 1].privs() } }
pub open spec fn fl_pub_vals<T: Rec>(s: Seq<T::Input>, n: int) -> Seq<Fv> decreases n { if n <= 0 { Seq::empty() } else { fl_pub_vals::<T>(s, n - 1) + T::pub_vals(&s[n - 1]) } }
pub open spec fn fl_priv_vals<T: Rec>(s: Seq<T::Input>, n: int) -> Seq<Fv> decreases n { if n <= 0 { Seq::empty() } else { fl_priv_vals::<T>(s, n - 1) + T::priv_vals(&s[n - 1]) } }
/// per-element length agreement sums up
/// the flattenings only look at the first n elements
pub proof fn lemma_fl_prefix<T: Rec>(a: Seq<T>, b: Seq<T>, n: int)
    requires 0 <= n <= a.len(), n <= b.len(), forall|k: int| 0 <= k < n ==> #[trigger] a[k] == b[k]
    ensures fl_pubs(a, n) == fl_pubs(b, n), fl_privs(a, n) == fl_privs(b, n)
    decreases n
{ if n > 0 { lemma_fl_prefix(a, b, n - 1); } }
pub proof fn lemma_fl_lens<T: Rec>(t: Seq<T>, i: Seq<T::Input>, n: int)
    requires 0 <= n <= t.len(), n <= i.len(), forall|k: int| 0 <= k < n ==> (#[trigger] t[k]).pubs().len() == T::pub_vals(&i[k]).len() && t[k].privs().len() == T::priv_vals(&i[k]).len()
    ensures fl_pubs(t, n).len() == fl_pub_vals::<T>(i, n).len(), fl_privs(t, n).len() == fl_priv_vals::<T>(i, n).len()
    decreases n
{ if n > 0 { lemma_fl_lens(t, i, n - 1); } }

// ---- native proof structures (p3-fri FriProof / QueryProof / CommitPhaseProofStep, p3-commit BatchOpening), generic in their children's inputs
pub struct FriProof<CI, WI, QI> { pub commit_phase_commits: Vec<CI>, pub commit_pow_witnesses: Vec<WI>, pub query_proofs: Vec<QI>, pub final_poly: Vec<Fv>, pub query_pow_witness: WI }
pub struct QueryProof<II, SI> { pub input_proof: II, pub commit_phase_openings: Vec<SI> }
pub struct BatchOpening<PI> { pub opened_values: Vec<Vec<Fv>>, pub opening_proof: PI }
/// `input.query_proofs.first().map(|qp| qp.commit_phase_openings.iter().map(|o| o.log_arity as usize).collect()).unwrap_or_default()`: not part of the packing
#[verifier::external_body]
pub fn log_arities_of<CI, WI, QI>(input: &FriProof<CI, WI, QI>) -> Vec<usize> { unimplemented!() }
/// EF::from(base value): the embedding, value by value (opaque values: identity on the representation)
pub fn ef_from(v: Fv) -> (r: Fv) ensures r == v { v }
pub open spec fn flat_vvv(s: Seq<Vec<Vec<Fv>>>, n: int) -> Seq<Fv> decreases n { if n <= 0 { Seq::empty() } else { flat_vvv(s, n - 1) + flat_vv(s[n - 1]@) } }
pub open spec fn flat_vvvv(s: Seq<Vec<Vec<Vec<Fv>>>>, n: int) -> Seq<Fv> decreases n { if n <= 0 { Seq::empty() } else { flat_vvvv(s, n - 1) + flat_vvv(s[n - 1]@, s[n - 1]@.len() as int) } }
pub open spec fn flat_tvvv(s: Seq<Vec<Vec<Target>>>, n: int) -> Seq<ExprId> decreases n { if n <= 0 { Seq::empty() } else { flat_tvvv(s, n - 1) + flat_vv(s[n - 1]@) } }
pub open spec fn flat_tvvvv(s: Seq<Vec<Vec<Vec<Target>>>>, n: int) -> Seq<ExprId> decreases n { if n <= 0 { Seq::empty() } else { flat_tvvvv(s, n - 1) + flat_tvvv(s[n - 1]@, s[n - 1]@.len() as int) } }
} // verus!
'''


def build():
    u = Unit('pack2', ['C14'])
    u.rlimit = 100
    u.assume('alloc_private_inputs / alloc_public_inputs(count) allocate `count` fresh inputs in order (ghost allocation orders privs / pubs); challenge and base values are opaque copyable Fv, EF::from is the embedding')
    u.assume('every child type is only known through the Recursive contract (trait Rec); generic parameters F / EF / RecMmcs are erased (R11); PhantomData fields dropped')
    u.text(PACK_PRELUDE)
    u.text(SPEC)
    T = 'recursion/src/pcs/fri/targets.rs'

    def new_children_loop(f, k, src, child, p0, q0):
        """contract of the generated loop `for K in 0..SRC.len() { let c = &SRC[K]; let x_K = CHILD::new(circuit, c); v_K.push(x_K); }`"""
        head = f'for {k} in 0..{src}.len()'
        if head not in f.body:
            f.rewrites.append(('SPEC', f'loop over `{src}` absent: its invariant is not attached', ''))
            return
        f.rewrite_re('SPEC-type', r'let mut v_' + k + r' = Vec::new\(\);', f'let mut v_{k}: Vec<{child}> = Vec::new();', min_count=1)
        f.at_loop_end(head, f'''proof {{
                let vb = vb_{k}; assert(v_{k}@ =~= vb.push(x_{k}));
                lemma_fl_prefix(v_{k}@, vb, {k} as int);
                assert(circuit.pubs@ =~= {p0} + fl_pubs(v_{k}@, {k} + 1)); assert(circuit.privs@ =~= {q0} + fl_privs(v_{k}@, {k} + 1));
                assert forall|j: int| 0 <= j < {k} + 1 implies (#[trigger] v_{k}@[j]).pubs().len() == {child}::pub_vals(&{src}@[j]).len() && v_{k}@[j].privs().len() == {child}::priv_vals(&{src}@[j]).len() by {{ if j < {k} {{ assert(v_{k}@[j] == vb[j]); }} }}
            }}''')
        from units.openin import after_loop_binding
        after_loop_binding(f, head, f' let ghost vb_{k} = v_{k}@;')
        f.before(head, f'proof {{ assert(circuit.pubs@ =~= {p0} + fl_pubs(v_{k}@, 0)); assert(circuit.privs@ =~= {q0} + fl_privs(v_{k}@, 0)); }}')
        f.loop(head, invariants=[
            ('children_allocated_in_order', f'v_{k}@.len() == {k} && circuit.pubs@ == {p0} + fl_pubs(v_{k}@, {k} as int) && circuit.privs@ == {q0} + fl_privs(v_{k}@, {k} as int)'),
            ('as_many_targets_as_values', f'forall|j: int| 0 <= j < {k} ==> (#[trigger] v_{k}@[j]).pubs().len() == {child}::pub_vals(&{src}@[j]).len() && v_{k}@[j].privs().len() == {child}::priv_vals(&{src}@[j]).len()'),
        ])

    def vals_loop(f, i, src, child, kind, prefix, vec='v0_', spec_src=None):
        """contract of the generated loop `for I in 0..SRC.len() { .. let mut a = CHILD::get_[private_]values(c); V.append(&mut a); }`"""
        head = f'for {i} in 0..{src}.len()'
        if head not in f.body:
            # the traversal no longer visits this field: no invariant to attach; the function's postcondition decides
            f.rewrites.append(('SPEC', f'loop over `{src}` absent: its invariant is not attached', ''))
            return
        fl = 'fl_pub_vals' if kind == 'pub' else 'fl_priv_vals'
        ss = spec_src or src        # the spec names the INPUT field, never a local of the real code
        f.at_loop_end(head, f'proof {{ assert({vec}@ =~= ({prefix}) + {fl}::<{child}>({ss}@, {i} + 1)); }}')
        f.before(head, f'proof {{ assert({vec}@ =~= ({prefix}) + {fl}::<{child}>({ss}@, 0)); }}')
        tie = f' && {src}@ == {ss}@' if ss != src else ''      # the loop head names this local, so it exists whenever this runs
        f.loop(head, invariants=[('values_of_the_children_so_far', f'{vec}@ == ({prefix}) + {fl}::<{child}>({ss}@, {i} as int){tie}')])

    def erase(f, typename, subs):
        for a, b in subs:
            f.rewrite_re('R11', a, b)
        f.rewrite_re('R12', r'\bSelf \{', typename + ' {')
        f.rewrite_re('R11', r',?\s*_phantom: PhantomData,?', '')
        unmap_iter_collect_general(f)
        uniter_collect(f)
        f.body = re.sub(r'\binput\s+\.\s*(\w+)', r'input.\1', f.body)
        return f

    # ------------------------------------------------------------------ QueryProofTargets
    u.text('''verus! {
pub struct QueryProofTargets<IP, ST> { pub input_proof: IP, pub commit_phase_openings: Vec<ST> }
impl<IP: Rec, ST: Rec> QueryProofTargets<IP, ST> {
    pub open spec fn pubs_(&self) -> Seq<ExprId> { self.input_proof.pubs() + fl_pubs(self.commit_phase_openings@, self.commit_phase_openings@.len() as int) }
    pub open spec fn privs_(&self) -> Seq<ExprId> { self.input_proof.privs() + fl_privs(self.commit_phase_openings@, self.commit_phase_openings@.len() as int) }
    pub open spec fn pub_vals_(i: &QueryProof<IP::Input, ST::Input>) -> Seq<Fv> { IP::pub_vals(&i.input_proof) + fl_pub_vals::<ST>(i.commit_phase_openings@, i.commit_phase_openings@.len() as int) }
    pub open spec fn priv_vals_(i: &QueryProof<IP::Input, ST::Input>) -> Seq<Fv> { IP::priv_vals(&i.input_proof) + fl_priv_vals::<ST>(i.commit_phase_openings@, i.commit_phase_openings@.len() as int) }
}
}''')
    QI = r'Recursive<EF> for QueryProofTargets<F, EF, InputProof, RecMmcs>'
    QS = [(r'InputProof::', 'IP::'), (r'CommitPhaseProofStepTargets::<_, _, RecMmcs>::', 'ST::'), (r'CommitPhaseProofStepTargets::', 'ST::')]
    qn = erase(u.extract(T, QI, 'new', 'QueryProofTargets::new'), 'QueryProofTargets', QS)
    qn.set_sig('R11', 'fn new<IP: Rec, ST: Rec>(circuit: &mut CircuitBuilder, input: &QueryProof<IP::Input, ST::Input>) -> QueryProofTargets<IP, ST>')
    qn.ensures('allocation_order_is_the_traversal_order', 'final(circuit).pubs@ == old(circuit).pubs@ + ret.pubs_() && final(circuit).privs@ == old(circuit).privs@ + ret.privs_()')
    qn.ensures('as_many_targets_as_values', 'ret.pubs_().len() == QueryProofTargets::<IP, ST>::pub_vals_(input).len() && ret.privs_().len() == QueryProofTargets::<IP, ST>::priv_vals_(input).len()')
    qv = erase(u.extract(T, QI, 'get_values', 'QueryProofTargets::get_values'), 'QueryProofTargets', QS)
    qv.set_sig('R11', 'fn get_values<IP: Rec, ST: Rec>(input: &QueryProof<IP::Input, ST::Input>) -> Vec<Fv>')
    qv.ensures('values_in_the_traversal_order', 'ret@ == QueryProofTargets::<IP, ST>::pub_vals_(input)')
    qp = erase(u.extract(T, QI, 'get_private_values', 'QueryProofTargets::get_private_values'), 'QueryProofTargets', QS)
    qp.set_sig('R11', 'fn get_private_values<IP: Rec, ST: Rec>(input: &QueryProof<IP::Input, ST::Input>) -> Vec<Fv>')
    qp.ensures('values_in_the_traversal_order', 'ret@ == QueryProofTargets::<IP, ST>::priv_vals_(input)')
    qn.after('let input_proof = IP::new(circuit, &input.input_proof);', ' let ghost p1 = circuit.pubs@; let ghost q1 = circuit.privs@;')
    new_children_loop(qn, 'm0_', 'input.commit_phase_openings', 'ST', 'p1', 'q1')
    qn.bind_tail('r_', '', before_text='''proof {
            let n = commit_phase_openings@.len() as int;
            assert(circuit.pubs@ =~= old(circuit).pubs@ + (input_proof.pubs() + fl_pubs(commit_phase_openings@, n)));
            assert(circuit.privs@ =~= old(circuit).privs@ + (input_proof.privs() + fl_privs(commit_phase_openings@, n)));
            lemma_fl_lens::<ST>(commit_phase_openings@, input.commit_phase_openings@, n);
        }''')
    vals_loop(qv, 'i_input_commit_phase_openings', 'input.commit_phase_openings', 'ST', 'pub', 'IP::pub_vals(&input.input_proof)')
    vals_loop(qp, 'i_input_commit_phase_openings', 'input.commit_phase_openings', 'ST', 'priv', 'IP::priv_vals(&input.input_proof)')
    for g_ in (qv, qp):
        g_.body = re.sub(r'input\s+\.commit_phase_openings', 'input.commit_phase_openings', g_.body)
    # ------------------------------------------------------------------ FriProofTargets
    u.text('''verus! {
pub struct FriProofTargets<CM, W, QP> { pub commit_phase_commits: Vec<CM>, pub commit_pow_witnesses: Vec<W>, pub query_proofs: Vec<QP>, pub final_poly: Vec<Target>, pub pow_witness: W, pub log_arities: Vec<usize> }
/// a child type that allocates no private inputs (commitments, proof-of-work witnesses): FriProofTargets::get_private_values only visits the query proofs
pub open spec fn no_privs<T: Rec>() -> bool { forall|i: T::Input| (#[trigger] T::priv_vals(&i)).len() == 0 }
impl<CM: Rec, W: Rec, QP: Rec> FriProofTargets<CM, W, QP> {
    pub open spec fn pubs_(&self) -> Seq<ExprId> {
        fl_pubs(self.commit_phase_commits@, self.commit_phase_commits@.len() as int) + fl_pubs(self.commit_pow_witnesses@, self.commit_pow_witnesses@.len() as int)
            + fl_pubs(self.query_proofs@, self.query_proofs@.len() as int) + self.final_poly@ + self.pow_witness.pubs()
    }
    pub open spec fn privs_(&self) -> Seq<ExprId> {
        fl_privs(self.commit_phase_commits@, self.commit_phase_commits@.len() as int) + fl_privs(self.commit_pow_witnesses@, self.commit_pow_witnesses@.len() as int)
            + fl_privs(self.query_proofs@, self.query_proofs@.len() as int) + self.pow_witness.privs()
    }
    pub open spec fn pub_vals_(i: &FriProof<CM::Input, W::Input, QP::Input>) -> Seq<Fv> {
        fl_pub_vals::<CM>(i.commit_phase_commits@, i.commit_phase_commits@.len() as int) + fl_pub_vals::<W>(i.commit_pow_witnesses@, i.commit_pow_witnesses@.len() as int)
            + fl_pub_vals::<QP>(i.query_proofs@, i.query_proofs@.len() as int) + i.final_poly@ + W::pub_vals(&i.query_pow_witness)
    }
    pub open spec fn priv_vals_(i: &FriProof<CM::Input, W::Input, QP::Input>) -> Seq<Fv> { fl_priv_vals::<QP>(i.query_proofs@, i.query_proofs@.len() as int) }
}
pub proof fn lemma_no_privs_flat<T: Rec>(t: Seq<T>, i: Seq<T::Input>, n: int)
    requires no_privs::<T>(), 0 <= n <= t.len(), n <= i.len(), forall|k: int| 0 <= k < n ==> (#[trigger] t[k]).privs().len() == T::priv_vals(&i[k]).len()
    ensures fl_privs(t, n) == Seq::<ExprId>::empty()
    decreases n
{ if n > 0 { lemma_no_privs_flat(t, i, n - 1); assert(T::priv_vals(&i[n - 1]).len() == 0); assert(t[n - 1].privs() =~= Seq::<ExprId>::empty()); } }
}''')
    FI = r'Recursive<EF> for FriProofTargets<F, EF, RecMmcs, InputProof, Witness>'
    FS = [(r'RecMmcs::Commitment::', 'CM::'), (r'QueryProofTargets::<F, EF, InputProof, RecMmcs>::', 'QP::'), (r'QueryProofTargets::', 'QP::'), (r'\bWitness::', 'W::')]
    fn_ = u.extract(T, FI, 'new', 'FriProofTargets::new')
    fn_.rewrite_re('R6', r'let log_arities = input\s*\.query_proofs\s*\.first\(\)\s*\.map\(.*?\)\s*\.unwrap_or_default\(\);', 'let log_arities = log_arities_of(input);', min_count=1, flags_dotall=True)
    erase(fn_, 'FriProofTargets', FS)
    fn_.set_sig('R11', 'fn new<CM: Rec, W: Rec, QP: Rec>(circuit: &mut CircuitBuilder, input: &FriProof<CM::Input, W::Input, QP::Input>) -> FriProofTargets<CM, W, QP>')
    fn_.requires('commitments_and_pow_witnesses_allocate_no_private_inputs', 'no_privs::<CM>() && no_privs::<W>()')
    fn_.ensures('allocation_order_is_the_traversal_order', 'final(circuit).pubs@ == old(circuit).pubs@ + ret.pubs_() && final(circuit).privs@ == old(circuit).privs@ + ret.privs_()')
    fn_.ensures('as_many_targets_as_values', 'ret.pubs_().len() == FriProofTargets::<CM, W, QP>::pub_vals_(input).len() && ret.privs_().len() == FriProofTargets::<CM, W, QP>::priv_vals_(input).len()')
    fn_.at_start('let ghost p0 = circuit.pubs@; let ghost q0 = circuit.privs@;')
    fn_.before('let commit_pow_witnesses =', 'let ghost p1 = circuit.pubs@; let ghost q1 = circuit.privs@;')
    fn_.before('let query_proofs =', 'let ghost p2 = circuit.pubs@; let ghost q2 = circuit.privs@;')
    fn_.before('let final_poly =', 'let ghost p3 = circuit.pubs@; let ghost q3 = circuit.privs@;')
    new_children_loop(fn_, 'm0_', 'input.commit_phase_commits', 'CM', 'p0', 'q0')
    new_children_loop(fn_, 'm1_', 'input.commit_pow_witnesses', 'W', 'p1', 'q1')
    new_children_loop(fn_, 'm2_', 'input.query_proofs', 'QP', 'p2', 'q2')
    fn_.bind_tail('r_', '', before_text='')
    fn_.at_end_expr('r_', '''proof {
            let (a, b, c) = (r_.commit_phase_commits@, r_.commit_pow_witnesses@, r_.query_proofs@);
            let (na, nb, nc) = (a.len() as int, b.len() as int, c.len() as int);
            lemma_fl_lens::<CM>(a, input.commit_phase_commits@, na); lemma_fl_lens::<W>(b, input.commit_pow_witnesses@, nb); lemma_fl_lens::<QP>(c, input.query_proofs@, nc);
            lemma_no_privs_flat::<CM>(a, input.commit_phase_commits@, na); lemma_no_privs_flat::<W>(b, input.commit_pow_witnesses@, nb);
            assert(W::priv_vals(&input.query_pow_witness).len() == 0); assert(r_.pow_witness.privs() =~= Seq::<ExprId>::empty());
            assert(circuit.pubs@ =~= old(circuit).pubs@ + r_.pubs_());
            assert(circuit.privs@ =~= old(circuit).privs@ + r_.privs_());
            assert(r_.privs_() =~= fl_privs(c, nc));
        }''')
    fv = u.extract(T, FI, 'get_values', 'FriProofTargets::get_values')
    fp = u.extract(T, FI, 'get_private_values', 'FriProofTargets::get_private_values')
    for g_ in (fv, fp):
        m = re.search(r'let FriProof \{([^}]*)\} = input;', g_.body)
        if m:
            names = [x.strip() for x in m.group(1).split(',') if x.strip() and not re.search(r':\s*_$', x.strip()) and x.strip() != '..']
            g_.body = g_.body[:m.start()] + ' '.join(f'let {x} = &input.{x};' for x in names) + g_.body[m.end():]
            g_.rewrites.append(('R1', 'destructuring of the borrowed input -> one borrow per field', ''))
        erase(g_, 'FriProofTargets', FS)
        g_.body = re.sub(r'input\s+\.query_proofs', 'input.query_proofs', g_.body)
    fv.set_sig('R11', 'fn get_values<CM: Rec, W: Rec, QP: Rec>(input: &FriProof<CM::Input, W::Input, QP::Input>) -> Vec<Fv>')
    fv.ensures('values_in_the_traversal_order', 'ret@ == FriProofTargets::<CM, W, QP>::pub_vals_(input)')
    fp.set_sig('R11', 'fn get_private_values<CM: Rec, W: Rec, QP: Rec>(input: &FriProof<CM::Input, W::Input, QP::Input>) -> Vec<Fv>')
    fp.ensures('values_in_the_traversal_order', 'ret@ == FriProofTargets::<CM, W, QP>::priv_vals_(input)')
    A_ = 'Seq::<Fv>::empty() + fl_pub_vals::<CM>(input.commit_phase_commits@, input.commit_phase_commits@.len() as int)'
    B_ = f'({A_}) + fl_pub_vals::<W>(input.commit_pow_witnesses@, input.commit_pow_witnesses@.len() as int)'
    C_ = f'({B_}) + fl_pub_vals::<QP>(input.query_proofs@, input.query_proofs@.len() as int)'
    vals_loop(fv, 'i_commit_phase_commits', 'commit_phase_commits', 'CM', 'pub', 'Seq::<Fv>::empty()', spec_src='input.commit_phase_commits')
    vals_loop(fv, 'i_commit_pow_witnesses', 'commit_pow_witnesses', 'W', 'pub', A_, spec_src='input.commit_pow_witnesses')
    vals_loop(fv, 'i_query_proofs', 'query_proofs', 'QP', 'pub', B_, spec_src='input.query_proofs')
    H6 = 'for i_final_poly in 0..final_poly.len()'
    FP = 'input.final_poly@'
    if H6 in fv.body:
        fv.at_loop_end(H6, f'proof {{ assert({FP}.take(i_final_poly + 1) =~= {FP}.take(i_final_poly as int).push({FP}[i_final_poly as int])); assert(v0_@ =~= ({C_}) + {FP}.take(i_final_poly + 1)); }}')
        fv.before(H6, f'proof {{ assert(v0_@ =~= ({C_}) + {FP}.take(0)); }}')
        fv.loop(H6, invariants=[('final_polynomial_coefficients_so_far', f'v0_@ == ({C_}) + {FP}.take(i_final_poly as int) && final_poly@ == {FP}')])
    fv.bind_tail('r_', '', before_text='')
    fv.at_end_expr('r_', 'proof { assert(input.final_poly@.take(input.final_poly@.len() as int) =~= input.final_poly@); assert(r_@ =~= FriProofTargets::<CM, W, QP>::pub_vals_(input)); }')
    vals_loop(fp, 'i_input_query_proofs', 'input.query_proofs', 'QP', 'priv', 'Seq::<Fv>::empty()')
    fp.bind_tail('r_', '', before_text='')
    fp.at_end_expr('r_', 'proof { assert(r_@ =~= FriProofTargets::<CM, W, QP>::priv_vals_(input)); }')
    u.text('verus! { pub mod fri_proof { use super::*;')
    for f in (fn_, fv, fp):
        u.emit(f, vis='pub')
    u.text('} }')

    # ------------------------------------------------------------------ BatchOpeningTargets
    u.text('''verus! {
pub struct BatchOpeningTargets<PF> { pub opened_values: Vec<Vec<Target>>, pub opening_proof: PF }
impl<PF: Rec> BatchOpeningTargets<PF> {
    pub open spec fn pubs_(&self) -> Seq<ExprId> { self.opening_proof.pubs() }
    pub open spec fn privs_(&self) -> Seq<ExprId> { flat_vv(self.opened_values@) + self.opening_proof.privs() }
    pub open spec fn pub_vals_(i: &BatchOpening<PF::Input>) -> Seq<Fv> { PF::pub_vals(&i.opening_proof) }
    pub open spec fn priv_vals_(i: &BatchOpening<PF::Input>) -> Seq<Fv> { flat_vv(i.opened_values@) + PF::priv_vals(&i.opening_proof) }
}
pub proof fn lemma_flat_vv_len<A, B>(a: Seq<Vec<A>>, b: Seq<Vec<B>>)
    requires a.len() == b.len(), forall|k: int| 0 <= k < a.len() ==> (#[trigger] a[k])@.len() == b[k]@.len()
    ensures flat_vv(a).len() == flat_vv(b).len()
    decreases a.len()
{ if a.len() > 0 { assert forall|k: int| 0 <= k < a.drop_last().len() implies (#[trigger] a.drop_last()[k])@.len() == b.drop_last()[k]@.len() by { assert(a.drop_last()[k] == a[k]); assert(b.drop_last()[k] == b[k]); } lemma_flat_vv_len(a.drop_last(), b.drop_last()); } }
}''')
    BI = r'Recursive<EF>\s*for BatchOpeningTargets<F, EF, Inner>'
    BS = [(r'Inner::Proof::', 'PF::'), (r'EF::from\(', 'ef_from(')]
    bn = erase(u.extract(T, BI, 'new', 'BatchOpeningTargets::new'), 'BatchOpeningTargets', BS)
    bn.set_sig('R11', 'fn new<PF: Rec>(circuit: &mut CircuitBuilder, input: &BatchOpening<PF::Input>) -> BatchOpeningTargets<PF>')
    bn.ensures('allocation_order_is_the_traversal_order', 'final(circuit).pubs@ == old(circuit).pubs@ + ret.pubs_() && final(circuit).privs@ == old(circuit).privs@ + ret.privs_()')
    bn.ensures('as_many_targets_as_values', 'ret.pubs_().len() == BatchOpeningTargets::<PF>::pub_vals_(input).len() && ret.privs_().len() == BatchOpeningTargets::<PF>::priv_vals_(input).len()')
    HB = 'for m0_ in 0..input.opened_values.len()'
    bn.rewrite_re('SPEC-type', r'let mut v_m0_ = Vec::new\(\);', 'let mut v_m0_: Vec<Vec<Target>> = Vec::new();', min_count=1)
    bn.at_loop_end(HB, 'proof { lemma_flat_vv_push(vb_, x_m0_); assert(v_m0_@ =~= vb_.push(x_m0_)); assert(circuit.privs@ =~= old(circuit).privs@ + flat_vv(v_m0_@)); assert forall|k: int| 0 <= k < m0_ + 1 implies (#[trigger] v_m0_@[k])@.len() == input.opened_values@[k]@.len() by { if k < m0_ { assert(v_m0_@[k] == vb_[k]); } } }')
    from units.openin import after_loop_binding
    after_loop_binding(bn, HB, ' let ghost vb_ = v_m0_@;')
    bn.before(HB, 'proof { assert(circuit.privs@ =~= old(circuit).privs@ + flat_vv(v_m0_@)); }')
    bn.loop(HB, invariants=[
        ('rows_allocated_in_order', 'v_m0_@.len() == m0_ && circuit.privs@ == old(circuit).privs@ + flat_vv(v_m0_@) && circuit.pubs@ == old(circuit).pubs@'),
        ('one_target_per_value', 'forall|k: int| 0 <= k < m0_ ==> (#[trigger] v_m0_@[k])@.len() == input.opened_values@[k]@.len()'),
    ])
    bn.bind_tail('r_', '', before_text='')
    bn.at_end_expr('r_', '''proof {
            lemma_flat_vv_len(r_.opened_values@, input.opened_values@);
            assert(circuit.privs@ =~= old(circuit).privs@ + r_.privs_());
        }''')
    bv = erase(u.extract(T, BI, 'get_values', 'BatchOpeningTargets::get_values'), 'BatchOpeningTargets', BS)
    bv.set_sig('R11', 'fn get_values<PF: Rec>(input: &BatchOpening<PF::Input>) -> Vec<Fv>')
    bv.ensures('values_in_the_traversal_order', 'ret@ == BatchOpeningTargets::<PF>::pub_vals_(input)')
    bp = erase(u.extract(T, BI, 'get_private_values', 'BatchOpeningTargets::get_private_values'), 'BatchOpeningTargets', BS)
    bp.body = re.sub(r'input\s+\.opened_values', 'input.opened_values', bp.body)
    bp.set_sig('R11', 'fn get_private_values<PF: Rec>(input: &BatchOpening<PF::Input>) -> Vec<Fv>')
    bp.ensures('values_in_the_traversal_order', 'ret@ == BatchOpeningTargets::<PF>::priv_vals_(input)')
    HO, HI_ = 'for i_input_opened_values in 0..input.opened_values.len()', 'for i_inner in 0..inner.len()'
    bp.at_loop_end(HI_, 'proof { assert(inner@.take(i_inner + 1) =~= inner@.take(i_inner as int).push(inner@[i_inner as int])); assert(v0_@ =~= flat_vv(input.opened_values@.take(i_input_opened_values as int)) + inner@.take(i_inner + 1)); }')
    bp.at_loop_end(HO, 'proof { let row = input.opened_values@[i_input_opened_values as int]; lemma_flat_vv_take(input.opened_values@, i_input_opened_values as int); assert(row@.take(row@.len() as int) =~= row@); }')
    bp.before(HI_, 'proof { assert(*inner == input.opened_values@[i_input_opened_values as int]); assert(v0_@ =~= flat_vv(input.opened_values@.take(i_input_opened_values as int)) + inner@.take(0)); }')
    bp.before(HO, 'proof { assert(input.opened_values@.take(0) =~= Seq::<Vec<Fv>>::empty()); }')
    bp.loop(HI_, invariants=[('values_of_this_row_so_far', 'v0_@ == flat_vv(input.opened_values@.take(i_input_opened_values as int)) + inner@.take(i_inner as int) && *inner == input.opened_values@[i_input_opened_values as int]')])
    bp.loop(HO, invariants=[('rows_so_far', 'v0_@ == flat_vv(input.opened_values@.take(i_input_opened_values as int))')])
    bp.bind_tail('r_', '', before_text='')
    bp.at_end_expr('r_', 'proof { assert(input.opened_values@.take(input.opened_values@.len() as int) =~= input.opened_values@); assert(r_@ =~= BatchOpeningTargets::<PF>::priv_vals_(input)); }')
    u.text('verus! { pub mod batch_opening { use super::*;')
    for f in (bn, bv, bp):
        u.emit(f, vis='pub')
    u.text('} }')

    # ------------------------------------------------------------------ InputProofTargets = Vec<BatchOpeningTargets>
    II = r'Recursive<EF>\s*for InputProofTargets<F, EF, Inner>'
    IS = [(r'BatchOpeningTargets::<F, EF, Inner>::', 'BO::'), (r'BatchOpeningTargets::', 'BO::'), (r'Self::with_capacity', 'Vec::with_capacity')]
    inn = u.extract(T, II, 'new', 'InputProofTargets::new')
    inn.rewrite_re('R5', r'for (\w+) in input\.iter\(\) \{', r'for b_ in 0..input.len() { let \1 = &input[b_];', min_count=1)
    erase(inn, 'Vec', IS)
    inn.set_sig('R11', 'fn new<BO: Rec>(circuit: &mut CircuitBuilder, input: &Vec<BO::Input>) -> Vec<BO>')
    inn.rewrite_re('SPEC-type', r'let mut batch_openings = Vec::with_capacity\(num_batch_openings\);', 'let mut batch_openings: Vec<BO> = Vec::with_capacity(num_batch_openings);', min_count=1)
    inn.ensures('allocation_order_is_the_traversal_order', 'final(circuit).pubs@ == old(circuit).pubs@ + fl_pubs(ret@, ret@.len() as int) && final(circuit).privs@ == old(circuit).privs@ + fl_privs(ret@, ret@.len() as int)')
    inn.ensures('as_many_targets_as_values', 'ret@.len() == input@.len() && fl_pubs(ret@, ret@.len() as int).len() == fl_pub_vals::<BO>(input@, input@.len() as int).len() && fl_privs(ret@, ret@.len() as int).len() == fl_priv_vals::<BO>(input@, input@.len() as int).len()')
    HN = 'for b_ in 0..input.len()'
    inn.at_loop_end(HN, '''proof {
                lemma_fl_prefix(batch_openings@, vb_, b_ as int);
                assert(circuit.pubs@ =~= old(circuit).pubs@ + fl_pubs(batch_openings@, b_ + 1)); assert(circuit.privs@ =~= old(circuit).privs@ + fl_privs(batch_openings@, b_ + 1));
                assert forall|j: int| 0 <= j < b_ + 1 implies (#[trigger] batch_openings@[j]).pubs().len() == BO::pub_vals(&input@[j]).len() && batch_openings@[j].privs().len() == BO::priv_vals(&input@[j]).len() by { if j < b_ { assert(batch_openings@[j] == vb_[j]); } }
            }''')
    after_loop_binding(inn, HN, ' let ghost vb_ = batch_openings@;')
    inn.before(HN, 'proof { assert(circuit.pubs@ =~= old(circuit).pubs@ + fl_pubs(batch_openings@, 0)); assert(circuit.privs@ =~= old(circuit).privs@ + fl_privs(batch_openings@, 0)); }')
    inn.loop(HN, invariants=[
        ('openings_allocated_in_order', 'batch_openings@.len() == b_ && circuit.pubs@ == old(circuit).pubs@ + fl_pubs(batch_openings@, b_ as int) && circuit.privs@ == old(circuit).privs@ + fl_privs(batch_openings@, b_ as int)'),
        ('as_many_targets_as_values', 'forall|j: int| 0 <= j < b_ ==> (#[trigger] batch_openings@[j]).pubs().len() == BO::pub_vals(&input@[j]).len() && batch_openings@[j].privs().len() == BO::priv_vals(&input@[j]).len()'),
    ])
    inn.bind_tail('r_', '', before_text='')
    inn.at_end_expr('r_', 'proof { lemma_fl_lens::<BO>(r_@, input@, r_@.len() as int); }')
    inv_ = erase(u.extract(T, II, 'get_values', 'InputProofTargets::get_values'), 'Vec', IS)
    inv_.set_sig('R11', 'fn get_values<BO: Rec>(input: &Vec<BO::Input>) -> Vec<Fv>')
    inv_.ensures('values_in_the_traversal_order', 'ret@ == fl_pub_vals::<BO>(input@, input@.len() as int)')
    vals_loop(inv_, 'i_input', 'input', 'BO', 'pub', 'Seq::<Fv>::empty()')
    inp_ = erase(u.extract(T, II, 'get_private_values', 'InputProofTargets::get_private_values'), 'Vec', IS)
    inp_.set_sig('R11', 'fn get_private_values<BO: Rec>(input: &Vec<BO::Input>) -> Vec<Fv>')
    inp_.ensures('values_in_the_traversal_order', 'ret@ == fl_priv_vals::<BO>(input@, input@.len() as int)')
    vals_loop(inp_, 'i_input', 'input', 'BO', 'priv', 'Seq::<Fv>::empty()')
    for g_ in (inv_, inp_):
        g_.bind_tail('r_', '', before_text='')
        g_.at_end_expr('r_', 'proof { assert(r_@ =~= Seq::<Fv>::empty() + r_@); }')
    u.text('verus! { pub mod input_proof { use super::*;')
    for f in (inn, inv_, inp_):
        u.emit(f, vis='pub')
    u.text('} }')

    # ------------------------------------------------------------------ HidingFriProofTargets = (random opened values, inner FRI proof)
    u.text('''verus! {
pub struct HidingFriProofTargets<HO, FP> { pub random_opened_values: HO, pub inner_proof: FP }
}''')
    HI2 = r'Recursive<EF> for HidingFriProofTargets<F, EF, RecMmcs, InputProof, PowWitness>'
    HS = [(r'HidingOpenedValuesTargets::<EF>::', 'HO::'), (r'HidingOpenedValuesTargets::', 'HO::'), (r'FriProofTargets::<F, EF, RecMmcs, InputProof, PowWitness>::', 'FP::'), (r'FriProofTargets::', 'FP::')]
    hn = erase(u.extract(T, HI2, 'new', 'HidingFriProofTargets::new'), 'HidingFriProofTargets', HS)
    hn.set_sig('R11', 'fn new<HO: Rec, FP: Rec>(circuit: &mut CircuitBuilder, input: &(HO::Input, FP::Input)) -> HidingFriProofTargets<HO, FP>')
    hn.requires('random_openings_are_private_only', 'forall|i: HO::Input| (#[trigger] HO::pub_vals(&i)).len() == 0')
    hn.ensures('allocation_order_is_the_traversal_order', 'final(circuit).pubs@ == old(circuit).pubs@ + ret.inner_proof.pubs() && final(circuit).privs@ == old(circuit).privs@ + (ret.random_opened_values.privs() + ret.inner_proof.privs())')
    hn.ensures('as_many_targets_as_values', 'ret.inner_proof.pubs().len() == FP::pub_vals(&input.1).len() && ret.random_opened_values.privs().len() == HO::priv_vals(&input.0).len() && ret.inner_proof.privs().len() == FP::priv_vals(&input.1).len()')
    hn.bind_tail('r_', '', before_text='')
    hn.at_end_expr('r_', '''proof {
            assert(HO::pub_vals(&input.0).len() == 0); assert(r_.random_opened_values.pubs() =~= Seq::<ExprId>::empty());
            assert(circuit.pubs@ =~= old(circuit).pubs@ + r_.inner_proof.pubs());
            assert(circuit.privs@ =~= old(circuit).privs@ + (r_.random_opened_values.privs() + r_.inner_proof.privs()));
        }''')
    hv = erase(u.extract(T, HI2, 'get_values', 'HidingFriProofTargets::get_values'), 'HidingFriProofTargets', HS)
    hv.set_sig('R11', 'fn get_values<HO: Rec, FP: Rec>(input: &(HO::Input, FP::Input)) -> Vec<Fv>')
    hv.ensures('values_in_the_traversal_order', 'ret@ == FP::pub_vals(&input.1)')
    hp = erase(u.extract(T, HI2, 'get_private_values', 'HidingFriProofTargets::get_private_values'), 'HidingFriProofTargets', HS)
    hp.set_sig('R11', 'fn get_private_values<HO: Rec, FP: Rec>(input: &(HO::Input, FP::Input)) -> Vec<Fv>')
    hp.ensures('values_in_the_traversal_order', 'ret@ == HO::priv_vals(&input.0) + FP::priv_vals(&input.1)')
    hp.bind_tail('r_', '', before_text='')
    hp.at_end_expr('r_', 'proof { assert(r_@ =~= HO::priv_vals(&input.0) + FP::priv_vals(&input.1)); }')
    u.text('verus! { pub mod hiding_fri { use super::*;')
    for f in (hn, hv, hp):
        u.emit(f, vis='pub')
    u.text('} }')

    # ------------------------------------------------------------------ leaves: Witness, HashProofTargets, HidingHashProofTargets
    u.text('''verus! {
impl CircuitBuilder {
    /// one fresh public input (ASSUMED)
    #[verifier::external_body]
    pub fn alloc_public_input(&mut self, label: &'static str) -> (r: ExprId) ensures final(self).pubs@ == old(self).pubs@.push(r), final(self).privs@ == old(self).privs@ { unimplemented!() }
}
pub struct Witness { pub witness: Target }
pub struct HashProofTargets<const DIGEST_ELEMS: usize> { pub hash_proof_targets: Vec<[Target; DIGEST_ELEMS]> }
pub struct HidingHashProofTargets { pub salts: Vec<Vec<Target>> }
}''')
    WI = r'impl<F: Field, EF: ExtensionField<F>> Recursive<EF> for Witness<F>'
    ES = [(r'EF::from\(', 'ef_from(')]
    wn = erase(u.extract(T, WI, 'new', 'Witness::new'), 'Witness', ES)
    wn.set_sig('R11', 'fn new(circuit: &mut CircuitBuilder, _input: &Fv) -> Witness')
    wn.ensures('one_public_input', 'final(circuit).pubs@ == old(circuit).pubs@ + seq![ret.witness] && final(circuit).privs@ == old(circuit).privs@')
    wn.bind_tail('r_', '', before_text='')
    wn.at_end_expr('r_', 'proof { assert(circuit.pubs@ =~= old(circuit).pubs@ + seq![r_.witness]); }')
    wv = erase(u.extract(T, WI, 'get_values', 'Witness::get_values'), 'Witness', ES)
    wv.set_sig('R11', 'fn get_values(input: &Fv) -> Vec<Fv>')
    wv.ensures('one_public_value', 'ret@ == seq![*input]')
    wv.bind_tail('r_', '', before_text='')
    wv.at_end_expr('r_', 'proof { assert(r_@ =~= seq![*input]); }')
    HPI = r'Recursive<EF>\s*for HashProofTargets<F, DIGEST_ELEMS>'
    hpn = erase(u.extract(T, HPI, 'new', 'HashProofTargets::new'), 'HashProofTargets', ES)
    hpn.set_sig('R11', 'fn new<const DIGEST_ELEMS: usize>(_circuit: &mut CircuitBuilder, _input: &Vec<[Fv; DIGEST_ELEMS]>) -> HashProofTargets<DIGEST_ELEMS>')
    hpn.rewrite_re('R6', r'vec!\[\]', 'Vec::new()')
    hpn.ensures('allocates_nothing', 'final(_circuit).pubs@ == old(_circuit).pubs@ && final(_circuit).privs@ == old(_circuit).privs@ && ret.hash_proof_targets@.len() == 0')
    hpv = erase(u.extract(T, HPI, 'get_values', 'HashProofTargets::get_values'), 'HashProofTargets', ES)
    hpv.set_sig('R11', 'fn get_values<const DIGEST_ELEMS: usize>(_input: &Vec<[Fv; DIGEST_ELEMS]>) -> Vec<Fv>')
    hpv.rewrite_re('R6', r'vec!\[\]', 'Vec::new()')
    hpv.ensures('no_public_values', 'ret@.len() == 0')
    HHI = r'Recursive<EF>\s*for HidingHashProofTargets<F, DIGEST_ELEMS>'
    hhn = erase(u.extract(T, HHI, 'new', 'HidingHashProofTargets::new'), 'HidingHashProofTargets', ES)
    hhn.set_sig('R11', 'fn new<const DIGEST_ELEMS: usize>(circuit: &mut CircuitBuilder, input: &(Vec<Vec<Fv>>, Vec<[Fv; DIGEST_ELEMS]>)) -> HidingHashProofTargets')
    hhn.ensures('salts_allocated_in_order_one_target_per_value', '''final(circuit).privs@ == old(circuit).privs@ + flat_vv(ret.salts@) && final(circuit).pubs@ == old(circuit).pubs@
            && ret.salts@.len() == input.0@.len() && flat_vv(ret.salts@).len() == flat_vv(input.0@).len()''')
    HS_ = 'for m0_ in 0..input.0.len()'
    hhn.rewrite_re('SPEC-type', r'let mut v_m0_ = Vec::new\(\);', 'let mut v_m0_: Vec<Vec<Target>> = Vec::new();', min_count=1)
    hhn.at_loop_end(HS_, 'proof { lemma_flat_vv_push(vb_, x_m0_); assert(v_m0_@ =~= vb_.push(x_m0_)); assert(circuit.privs@ =~= old(circuit).privs@ + flat_vv(v_m0_@)); assert forall|k: int| 0 <= k < m0_ + 1 implies (#[trigger] v_m0_@[k])@.len() == input.0@[k]@.len() by { if k < m0_ { assert(v_m0_@[k] == vb_[k]); } } }')
    after_loop_binding(hhn, HS_, ' let ghost vb_ = v_m0_@;')
    hhn.before(HS_, 'proof { assert(circuit.privs@ =~= old(circuit).privs@ + flat_vv(v_m0_@)); }')
    hhn.loop(HS_, invariants=[
        ('salts_allocated_in_order', 'v_m0_@.len() == m0_ && circuit.privs@ == old(circuit).privs@ + flat_vv(v_m0_@) && circuit.pubs@ == old(circuit).pubs@'),
        ('one_target_per_value', 'forall|k: int| 0 <= k < m0_ ==> (#[trigger] v_m0_@[k])@.len() == input.0@[k]@.len()'),
    ])
    hhn.bind_tail('r_', '', before_text='')
    hhn.at_end_expr('r_', 'proof { lemma_flat_vv_len(r_.salts@, input.0@); }')
    hhp = erase(u.extract(T, HHI, 'get_private_values', 'HidingHashProofTargets::get_private_values'), 'HidingHashProofTargets', ES)
    hhp.body = re.sub(r'input\s*\.\s*0', 'input.0', hhp.body)
    hhp.set_sig('R11', 'fn get_private_values<const DIGEST_ELEMS: usize>(input: &(Vec<Vec<Fv>>, Vec<[Fv; DIGEST_ELEMS]>)) -> Vec<Fv>')
    hhp.ensures('salt_values_in_order', 'ret@ == flat_vv(input.0@)')
    HO2, HI3 = 'for i_input_0 in 0..input.0.len()', 'for i_salt in 0..salt.len()'
    hhp.at_loop_end(HI3, 'proof { assert(salt@.take(i_salt + 1) =~= salt@.take(i_salt as int).push(salt@[i_salt as int])); assert(v0_@ =~= flat_vv(input.0@.take(i_input_0 as int)) + salt@.take(i_salt + 1)); }')
    hhp.at_loop_end(HO2, 'proof { let row = input.0@[i_input_0 as int]; lemma_flat_vv_take(input.0@, i_input_0 as int); assert(row@.take(row@.len() as int) =~= row@); }')
    hhp.before(HI3, 'proof { assert(*salt == input.0@[i_input_0 as int]); assert(v0_@ =~= flat_vv(input.0@.take(i_input_0 as int)) + salt@.take(0)); }')
    hhp.before(HO2, 'proof { assert(input.0@.take(0) =~= Seq::<Vec<Fv>>::empty()); }')
    hhp.loop(HI3, invariants=[('values_of_this_salt_so_far', 'v0_@ == flat_vv(input.0@.take(i_input_0 as int)) + salt@.take(i_salt as int) && *salt == input.0@[i_input_0 as int]')])
    hhp.loop(HO2, invariants=[('salts_so_far', 'v0_@ == flat_vv(input.0@.take(i_input_0 as int))')])
    hhp.bind_tail('r_', '', before_text='')
    hhp.at_end_expr('r_', 'proof { assert(input.0@.take(input.0@.len() as int) =~= input.0@); }')
    for modname, fs in (('witness', (wn, wv)), ('hash_proof', (hpn, hpv)), ('hiding_hash_proof', (hhn, hhp))):
        u.text('verus! { pub mod ' + modname + ' { use super::*;')
        for f in fs:
            u.emit(f, vis='pub')
        u.text('} }')

    # ------------------------------------------------------------------ HidingOpenedValuesTargets = Vec<Vec<Vec<Vec<Target>>>> (rounds -> matrices -> points -> random values)
    u.text('''verus! {
pub struct HidingOpenedValuesTargets { pub rounds: Vec<Vec<Vec<Vec<Target>>>> }
pub open spec fn sh1(t: Seq<Vec<Target>>, v: Seq<Vec<Fv>>) -> bool { t.len() == v.len() && forall|p: int| 0 <= p < t.len() ==> (#[trigger] t[p])@.len() == v[p]@.len() }
pub open spec fn sh2(t: Seq<Vec<Vec<Target>>>, v: Seq<Vec<Vec<Fv>>>) -> bool { t.len() == v.len() && forall|k: int| 0 <= k < t.len() ==> sh1((#[trigger] t[k])@, v[k]@) }
pub open spec fn sh3(t: Seq<Vec<Vec<Vec<Target>>>>, v: Seq<Vec<Vec<Vec<Fv>>>>) -> bool { t.len() == v.len() && forall|r: int| 0 <= r < t.len() ==> sh2((#[trigger] t[r])@, v[r]@) }
pub proof fn lemma_tvvv_prefix(a: Seq<Vec<Vec<Target>>>, b: Seq<Vec<Vec<Target>>>, n: int)
    requires 0 <= n <= a.len(), n <= b.len(), forall|i: int| 0 <= i < n ==> a[i] == b[i] ensures flat_tvvv(a, n) == flat_tvvv(b, n) decreases n { if n > 0 { lemma_tvvv_prefix(a, b, n - 1); } }
pub proof fn lemma_tvvv_push(v: Seq<Vec<Vec<Target>>>, x: Vec<Vec<Target>>) ensures flat_tvvv(v.push(x), v.len() as int + 1) == flat_tvvv(v, v.len() as int) + flat_vv(x@)
{ lemma_tvvv_prefix(v.push(x), v, v.len() as int); }
pub proof fn lemma_tvvvv_prefix(a: Seq<Vec<Vec<Vec<Target>>>>, b: Seq<Vec<Vec<Vec<Target>>>>, n: int)
    requires 0 <= n <= a.len(), n <= b.len(), forall|i: int| 0 <= i < n ==> a[i] == b[i] ensures flat_tvvvv(a, n) == flat_tvvvv(b, n) decreases n { if n > 0 { lemma_tvvvv_prefix(a, b, n - 1); } }
pub proof fn lemma_tvvvv_push(v: Seq<Vec<Vec<Vec<Target>>>>, x: Vec<Vec<Vec<Target>>>) ensures flat_tvvvv(v.push(x), v.len() as int + 1) == flat_tvvvv(v, v.len() as int) + flat_tvvv(x@, x@.len() as int)
{ lemma_tvvvv_prefix(v.push(x), v, v.len() as int); }
}''')
    HOI = r'impl<EF: Field> Recursive<EF> for HidingOpenedValuesTargets<EF>'
    on = u.extract(T, HOI, 'new', 'HidingOpenedValuesTargets::new')
    on.set_sig('R11', 'fn new(circuit: &mut CircuitBuilder, input: &Vec<Vec<Vec<Vec<Fv>>>>) -> HidingOpenedValuesTargets')
    on.rewrite_re('R12', r'\bSelf\s*\{', 'HidingOpenedValuesTargets {')
    on.rewrite_re('R11', r',?\s*_phantom: PhantomData,?', '', min_count=0)
    uniter_first(on)
    unmap_iter_collect_general(on)
    on.ensures('allocation_order_is_the_traversal_order', 'final(circuit).privs@ == old(circuit).privs@ + flat_tvvvv(ret.rounds@, ret.rounds@.len() as int) && final(circuit).pubs@ == old(circuit).pubs@')
    on.ensures('one_target_per_random_value_at_every_point', 'sh3(ret.rounds@, input@)')
    L0, L1, L2 = 'for m0_ in 0..input.len()', 'for m1_ in 0..round.len()', 'for m2_ in 0..matrix.len()'
    if all(h in on.body for h in (L0, L1, L2)):
        on.rewrite_re('SPEC-type', r'let mut v_m0_ = Vec::new\(\);', 'let mut v_m0_: Vec<Vec<Vec<Vec<Target>>>> = Vec::new();', min_count=1)
        on.rewrite_re('SPEC-type', r'let mut v_m1_ = Vec::new\(\);', 'let mut v_m1_: Vec<Vec<Vec<Target>>> = Vec::new(); let ghost p1_ = circuit.privs@;', min_count=1)
        on.rewrite_re('SPEC-type', r'let mut v_m2_ = Vec::new\(\);', 'let mut v_m2_: Vec<Vec<Target>> = Vec::new(); let ghost p2_ = circuit.privs@;', min_count=1)
        for L, v, x in ((L2, 'v_m2_', 'x_m2_'), (L1, 'v_m1_', 'x_m1_'), (L0, 'v_m0_', 'x_m0_')):
            lo = on._loop_open(L)
            on.body = on.body[:lo + 1] + f' let ghost vb_{v} = {v}@; let ghost pb_{v} = circuit.privs@;' + on.body[lo + 1:]
        on.at_loop_end(L2, 'proof { lemma_flat_vv_push(vb_v_m2_, x_m2_); assert(v_m2_@ =~= vb_v_m2_.push(x_m2_)); assert(circuit.privs@ =~= p2_ + flat_vv(v_m2_@)); '
                           'assert forall|p: int| 0 <= p < m2_ + 1 implies (#[trigger] v_m2_@[p])@.len() == matrix@[p]@.len() by { if p < m2_ { assert(v_m2_@[p] == vb_v_m2_[p]); } } }')
        on.at_loop_end(L1, 'proof { lemma_tvvv_push(vb_v_m1_, x_m1_); assert(v_m1_@ =~= vb_v_m1_.push(x_m1_)); assert(circuit.privs@ =~= p1_ + flat_tvvv(v_m1_@, m1_ + 1)); '
                           'assert forall|k: int| 0 <= k < m1_ + 1 implies sh1((#[trigger] v_m1_@[k])@, round@[k]@) by { if k < m1_ { assert(v_m1_@[k] == vb_v_m1_[k]); } } }')
        on.at_loop_end(L0, 'proof { lemma_tvvvv_push(vb_v_m0_, x_m0_); assert(v_m0_@ =~= vb_v_m0_.push(x_m0_)); assert(circuit.privs@ =~= old(circuit).privs@ + flat_tvvvv(v_m0_@, m0_ + 1)); '
                           'assert forall|r: int| 0 <= r < m0_ + 1 implies sh2((#[trigger] v_m0_@[r])@, input@[r]@) by { if r < m0_ { assert(v_m0_@[r] == vb_v_m0_[r]); } } }')
        on.loop(L2, invariants=[('points_so_far', 'v_m2_@.len() == m2_ && circuit.privs@ == p2_ + flat_vv(v_m2_@) && circuit.pubs@ == old(circuit).pubs@ && forall|p: int| 0 <= p < m2_ ==> (#[trigger] v_m2_@[p])@.len() == matrix@[p]@.len()')])
        on.loop(L1, invariants=[('matrices_so_far', 'v_m1_@.len() == m1_ && circuit.privs@ == p1_ + flat_tvvv(v_m1_@, m1_ as int) && circuit.pubs@ == old(circuit).pubs@ && forall|k: int| 0 <= k < m1_ ==> sh1((#[trigger] v_m1_@[k])@, round@[k]@)')])
        on.loop(L0, invariants=[('rounds_so_far', 'v_m0_@.len() == m0_ && circuit.privs@ == old(circuit).privs@ + flat_tvvvv(v_m0_@, m0_ as int) && circuit.pubs@ == old(circuit).pubs@ && forall|r: int| 0 <= r < m0_ ==> sh2((#[trigger] v_m0_@[r])@, input@[r]@)')])
        on.before(L2, 'proof { assert(circuit.privs@ =~= p2_ + flat_vv(v_m2_@)); }')
        on.before(L1, 'proof { assert(circuit.privs@ =~= p1_ + flat_tvvv(v_m1_@, 0)); }')
        on.before(L0, 'proof { assert(circuit.privs@ =~= old(circuit).privs@ + flat_tvvvv(v_m0_@, 0)); }')
    og = u.extract(T, HOI, 'get_private_values', 'HidingOpenedValuesTargets::get_private_values')
    og.set_sig('R11', 'fn get_private_values(input: &Vec<Vec<Vec<Vec<Fv>>>>) -> Vec<Fv>')
    uniter_collect(og)
    og.ensures('values_in_the_traversal_order', 'ret@ == flat_vvvv(input@, input@.len() as int)')
    G0, G1, G2, G3 = 'for i_input in 0..input.len()', 'for i_round in 0..round.len()', 'for i_matrix in 0..matrix.len()', 'for i_point_vals in 0..point_vals.len()'
    if all(h in og.body for h in (G0, G1, G2, G3)):
        og.rewrite_re('SPEC-type', r'let mut v0_ = Vec::new\(\);', 'let mut v0_: Vec<Fv> = Vec::new();', min_count=1)
        og.loop(G3, invariants=[('values_of_this_point_so_far', 'v0_@ == flat_vvvv(input@, i_input as int) + flat_vvv(round@, i_round as int) + flat_vv(matrix@.take(i_matrix as int)) + point_vals@.take(i_point_vals as int) && *point_vals == matrix@[i_matrix as int] && *matrix == round@[i_round as int] && *round == input@[i_input as int]')])
        og.loop(G2, invariants=[('points_so_far', 'v0_@ == flat_vvvv(input@, i_input as int) + flat_vvv(round@, i_round as int) + flat_vv(matrix@.take(i_matrix as int)) && *matrix == round@[i_round as int] && *round == input@[i_input as int]')])
        og.loop(G1, invariants=[('matrices_so_far', 'v0_@ == flat_vvvv(input@, i_input as int) + flat_vvv(round@, i_round as int) && *round == input@[i_input as int]')])
        og.loop(G0, invariants=[('rounds_so_far', 'v0_@ == flat_vvvv(input@, i_input as int)')])
        og.at_loop_end(G3, 'proof { assert(point_vals@.take(i_point_vals + 1) =~= point_vals@.take(i_point_vals as int).push(point_vals@[i_point_vals as int])); assert(v0_@ =~= flat_vvvv(input@, i_input as int) + flat_vvv(round@, i_round as int) + flat_vv(matrix@.take(i_matrix as int)) + point_vals@.take(i_point_vals + 1)); }')
        og.at_loop_end(G2, 'proof { lemma_flat_vv_take(matrix@, i_matrix as int); let pv = matrix@[i_matrix as int]; assert(pv@.take(pv@.len() as int) =~= pv@); assert(v0_@ =~= flat_vvvv(input@, i_input as int) + flat_vvv(round@, i_round as int) + flat_vv(matrix@.take(i_matrix + 1))); }')
        og.at_loop_end(G1, 'proof { let mx = round@[i_round as int]; assert(mx@.take(mx@.len() as int) =~= mx@); assert(v0_@ =~= flat_vvvv(input@, i_input as int) + flat_vvv(round@, i_round + 1)); }')
        og.at_loop_end(G0, 'proof { assert(v0_@ =~= flat_vvvv(input@, i_input + 1)); }')
        for G, pre in ((G3, 'assert(v0_@ =~= flat_vvvv(input@, i_input as int) + flat_vvv(round@, i_round as int) + flat_vv(matrix@.take(i_matrix as int)) + point_vals@.take(0));'),
                       (G2, 'assert(matrix@.take(0) =~= Seq::<Vec<Fv>>::empty()); assert(v0_@ =~= flat_vvvv(input@, i_input as int) + flat_vvv(round@, i_round as int) + flat_vv(matrix@.take(0)));'),
                       (G1, 'assert(v0_@ =~= flat_vvvv(input@, i_input as int) + flat_vvv(round@, 0));'), (G0, 'assert(v0_@ =~= flat_vvvv(input@, 0));')):
            og.before(G, 'proof { ' + pre + ' }')
    u.text('verus! { pub mod hiding_opened_values { use super::*;\nimpl HidingOpenedValuesTargets {')
    u.emit(on, vis='pub')
    u.emit(og, vis='pub')
    u.text('}\n} }')

    # ------------------------------------------------------------------ CommitPhaseProofStepTargets (the packing must take EVERY sibling value: a surplus one makes the lengths differ and the run fail)
    u.text('''verus! {
pub struct CommitPhaseProofStep<PI> { pub log_arity: u8, pub sibling_values: Vec<Fv>, pub opening_proof: PI }
pub struct CommitPhaseProofStepTargets<PF> { pub log_arity: usize, pub sibling_coefficients: Vec<Target>, pub opening_proof: PF }
/// the basis coefficients of a sibling value, each lifted to the circuit field (`as_basis_coefficients_slice().iter().map(|&c| EF::from(c))`): EF::DIMENSION values
pub uninterp spec fn sp_coeffs(v: Fv) -> Seq<Fv>;
pub uninterp spec fn sp_dim() -> nat;
#[verifier::external_body] pub fn ef_dimension() -> (r: usize) ensures r == sp_dim() { unimplemented!() }
#[verifier::external_body] pub fn lifted_coeffs(v: &Fv) -> (r: Vec<Fv>) ensures r@ == sp_coeffs(*v), r@.len() == sp_dim() { unimplemented!() }
pub open spec fn flat_coeffs(s: Seq<Fv>, n: int) -> Seq<Fv> decreases n { if n <= 0 { Seq::empty() } else { flat_coeffs(s, n - 1) + sp_coeffs(s[n - 1]) } }
pub open spec fn pow2n(k: nat) -> nat decreases k { if k == 0 { 1 } else { 2 * pow2n((k - 1) as nat) } }
impl<PF: Rec> CommitPhaseProofStepTargets<PF> {
    pub open spec fn privs_(&self) -> Seq<ExprId> { self.sibling_coefficients@ + self.opening_proof.privs() }
    pub open spec fn priv_vals_(i: &CommitPhaseProofStep<PF::Input>) -> Seq<Fv> { flat_coeffs(i.sibling_values@, i.sibling_values@.len() as int) + PF::priv_vals(&i.opening_proof) }
}
pub proof fn lemma_shl_pow2n(k: usize) requires k < 64 ensures (1usize << k) == pow2n(k as nat) decreases k
{
    if k == 0 { assert((1usize << 0usize) == 1) by (bit_vector); }
    else { lemma_shl_pow2n((k - 1) as usize); let j = (k - 1) as usize; assert(j < 63 ==> (1usize << ((j + 1) as usize)) == 2 * (1usize << j)) by (bit_vector); }
}
}''')
    CI = r'Recursive<EF>\s*for CommitPhaseProofStepTargets<F, EF, RecMmcs>'
    CS = [(r'RecMmcs::Proof::', 'PF::'), (r'EF::DIMENSION', 'ef_dimension()')]
    cn = erase(u.extract(T, CI, 'new', 'CommitPhaseProofStepTargets::new'), 'CommitPhaseProofStepTargets', CS)
    cn.set_sig('R11', 'fn new<PF: Rec>(circuit: &mut CircuitBuilder, input: &CommitPhaseProofStep<PF::Input>) -> CommitPhaseProofStepTargets<PF>')
    cn.requires('realistic_arity', 'input.log_arity < 32 && sp_dim() < 0x1_0000')
    cn.ensures('allocation_order_is_the_traversal_order', 'final(circuit).privs@ == old(circuit).privs@ + ret.privs_() && final(circuit).pubs@ == old(circuit).pubs@ + ret.opening_proof.pubs()')
    cn.ensures('arity_minus_one_siblings_of_dimension_coefficients', 'ret.sibling_coefficients@.len() == (pow2n(input.log_arity as nat) - 1) * sp_dim()')
    cn.rewrite_re('SPEC', r'(let arity = 1usize << log_arity;)', r'\1 proof { lemma_shl_pow2n(log_arity); lemma_pow2n_small(log_arity as nat); assert((pow2n(log_arity as nat) - 1) * sp_dim() < 0x1_0000_0000_0000) by (nonlinear_arith) requires pow2n(log_arity as nat) <= 0x1_0000_0000, sp_dim() < 0x1_0000; }', min_count=0)
    cn.bind_tail('r_', 'proof { assert(circuit.privs@ =~= old(circuit).privs@ + r_.privs_()); }')
    cp = erase(u.extract(T, CI, 'get_private_values', 'CommitPhaseProofStepTargets::get_private_values'), 'CommitPhaseProofStepTargets', CS)
    cp.set_sig('R11', 'fn get_private_values<PF: Rec>(input: &CommitPhaseProofStep<PF::Input>) -> Vec<Fv>')
    cp.rewrite_re('R7', r'let mut values: Vec<EF> = Vec::(?:new\(\)|with_capacity\([^;]*\));', 'let mut values: Vec<Fv> = Vec::new();', min_count=0)
    cp.rewrite_re('R5', r'for (\w+) in &input\.sibling_values \{', r'for sv_ in 0..input.sibling_values.len() { let \1 = &input.sibling_values[sv_];', min_count=0)
    cp.rewrite_re('R5', r'for (\w+) in input\.sibling_values\.iter\(\)\.take\((\w+)\) \{', r'for sv_ in 0..(if \2 <= input.sibling_values.len() { \2 } else { input.sibling_values.len() }) { let \1 = &input.sibling_values[sv_];', min_count=0)
    cp.rewrite_re('R6', r'let coeffs = (\w+)\.as_basis_coefficients_slice\(\);\s*values\.extend\(coeffs\.iter\(\)\.map\(\|&c\| EF::from\(c\)\)\);', r'let coeffs = lifted_coeffs(\1); values.extend_from_slice(coeffs.as_slice());', min_count=0)
    cp.rewrite_re('R6', r'values\.extend\((\w+(?:::\w+)*\(\s*[^;]*?\))\);', r'let tmp_ = \1; values.extend_from_slice(tmp_.as_slice());', min_count=0, flags_dotall=True)
    cp.rewrite_re('R11', r'\(1usize << input\.log_arity\)', '(1usize << (input.log_arity as usize))', min_count=0)
    cp.ensures('every_sibling_value_with_all_its_coefficients_then_the_opening_proof', 'ret@ == CommitPhaseProofStepTargets::<PF>::priv_vals_(input)')
    SV = re.search(r'for sv_ in 0\.\.[^{]+', cp.body)
    if SV and 'input.sibling_values.len() {' in SV.group(0) + '{' and re.match(r'for sv_ in 0\.\.input\.sibling_values\.len\(\)\s*$', SV.group(0)):
        cp.loop('for sv_ in 0..input.sibling_values.len()', invariants=[('siblings_so_far', 'values@ == flat_coeffs(input.sibling_values@, sv_ as int)')])
    u.text('''verus! {
pub proof fn lemma_pow2n_pos(k: nat) ensures pow2n(k) >= 1 decreases k { if k > 0 { lemma_pow2n_pos((k - 1) as nat); } }
pub proof fn lemma_pow2n_mono(a: nat, b: nat) requires a <= b ensures pow2n(a) <= pow2n(b) decreases b { if a < b { lemma_pow2n_mono(a, (b - 1) as nat); lemma_pow2n_pos((b - 1) as nat); } }
pub proof fn lemma_pow2n_small(k: nat) requires k < 32 ensures pow2n(k) <= 0x1_0000_0000, pow2n(k) >= 1
{ lemma_pow2n_mono(k, 32); lemma_pow2n_pos(k); assert(pow2n(32) == 0x1_0000_0000) by (compute); }
pub mod commit_phase_step { use super::*;''')
    u.emit(cn, vis='pub')
    u.emit(cp, vis='pub')
    u.text('} }')
    u.text('verus! { pub mod query_proof { use super::*;')
    for f in (qn, qv, qp):
        u.emit(f, vis='pub')
    u.text('} }')
    return u
