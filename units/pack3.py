"""Unit `pack3` (C14, top-level proof structures): allocation order = packing order for the commitment block and the uni-STARK proof.

Real text: recursion/src/types/proof.rs  `impl Recursive for` CommitmentTargets {new, get_values}, ProofTargets {new, get_values, get_private_values},
CommonDataTargets {new, get_values}.  The struct CommitmentTargets is extracted on every run.
Contract: as in unit pack2 (trait Rec = the contract of `Recursive`): `new` extends the builder's public / private allocation orders by exactly the
concatenation, in ONE fixed traversal order (trace, permutation?, quotient chunks, random?  |  commitments, opened values, opening proof), of the
children's targets, and get_values / get_private_values return the children's values in that same order, for every child type meeting Rec."""
import re

from vf.extract import extract_item
from vf.unit import Unit, uniter_collect
from units.pack import PRELUDE as PACK_PRELUDE
from units.pack2 import SPEC as PACK2_SPEC
from units.serde16 import unoption_map

SPEC = r'''
verus! {
/// p3-batch-stark BatchCommitments / p3-uni-stark Commitments and Proof (transcribed: upstream types), generic in the children's inputs
pub struct BatchCommitments<CI> { pub main: CI, pub permutation: Option<CI>, pub quotient_chunks: CI, pub random: Option<CI> }
pub struct Commitments<CI> { pub trace: CI, pub quotient_chunks: CI, pub random: Option<CI> }
pub struct Proof<CI, OI, PI> { pub commitments: Commitments<CI>, pub opened_values: OI, pub opening_proof: PI, pub degree_bits: usize }
pub struct GlobalPreprocessed<CI> { pub commitment: CI, pub instances: Vec<Option<(usize, usize, usize)>>, pub matrix_to_instance: Vec<usize> }
pub struct Lookups { pub id: Ghost<int> }
pub struct Lookup { pub id: Ghost<int> }
impl Lookups { #[verifier::external_body] pub fn to_vec(&self) -> Vec<Lookup> { unimplemented!() } }
pub struct CommonData<CI> { pub preprocessed: Option<GlobalPreprocessed<CI>>, pub lookups: Vec<Lookups> }
pub struct PreprocessedInstanceMetas { pub instances: Vec<Option<(usize, usize, usize)>> }
pub struct GlobalPreprocessedTargets<C> { pub commitment: C, pub instances: PreprocessedInstanceMetas, pub matrix_to_instance: Vec<usize> }
pub struct CommonDataTargets<C> { pub preprocessed: Option<GlobalPreprocessedTargets<C>>, pub lookups: Vec<Vec<Lookup>> }
/// `.clone()` of plain data: an equal value (Clone contract of the upstream types)
#[verifier::external_body]
pub fn clone_of<T>(x: &T) -> (r: T) ensures r == *x { unimplemented!() }
pub open spec fn opt_pubs<C: Rec>(o: Option<C>) -> Seq<ExprId> { match o { Some(c) => c.pubs(), None => Seq::empty() } }
pub open spec fn opt_privs<C: Rec>(o: Option<C>) -> Seq<ExprId> { match o { Some(c) => c.privs(), None => Seq::empty() } }
pub open spec fn opt_pub_vals<C: Rec>(o: Option<C::Input>) -> Seq<Fv> { match o { Some(c) => C::pub_vals(&c), None => Seq::empty() } }
pub open spec fn opt_priv_vals<C: Rec>(o: Option<C::Input>) -> Seq<Fv> { match o { Some(c) => C::priv_vals(&c), None => Seq::empty() } }
} // verus!
'''

CT_SPEC = r'''
verus! {
impl<Comm: Rec> CommitmentTargets<Comm> {
    /// ONE traversal order: trace, permutation (if any), quotient chunks, random (if any)
    pub open spec fn pubs_(&self) -> Seq<ExprId> { self.trace_targets.pubs() + opt_pubs(self.permutation_targets) + self.quotient_chunks_targets.pubs() + opt_pubs(self.random_commit) }
    pub open spec fn privs_(&self) -> Seq<ExprId> { self.trace_targets.privs() + opt_privs(self.permutation_targets) + self.quotient_chunks_targets.privs() + opt_privs(self.random_commit) }
    pub open spec fn pub_vals_(i: &BatchCommitments<Comm::Input>) -> Seq<Fv> { Comm::pub_vals(&i.main) + opt_pub_vals::<Comm>(i.permutation) + Comm::pub_vals(&i.quotient_chunks) + opt_pub_vals::<Comm>(i.random) }
    pub open spec fn priv_vals_(i: &BatchCommitments<Comm::Input>) -> Seq<Fv> { Comm::priv_vals(&i.main) + opt_priv_vals::<Comm>(i.permutation) + Comm::priv_vals(&i.quotient_chunks) + opt_priv_vals::<Comm>(i.random) }
}
pub struct ProofTargets<Comm, OV, OP> { pub commitments_targets: CommitmentTargets<Comm>, pub opened_values_targets: OV, pub opening_proof: OP, pub degree_bits: usize }
pub open spec fn no_lookups<CI>(c: Commitments<CI>) -> BatchCommitments<CI> { BatchCommitments { main: c.trace, permutation: None, quotient_chunks: c.quotient_chunks, random: c.random } }
impl<Comm: Rec, OV: Rec, OP: Rec> ProofTargets<Comm, OV, OP> {
    /// ONE traversal order: commitments, opened values, opening proof
    pub open spec fn pubs_(&self) -> Seq<ExprId> { self.commitments_targets.pubs_() + self.opened_values_targets.pubs() + self.opening_proof.pubs() }
    pub open spec fn privs_(&self) -> Seq<ExprId> { self.commitments_targets.privs_() + self.opened_values_targets.privs() + self.opening_proof.privs() }
    pub open spec fn pub_vals_(i: &Proof<Comm::Input, OV::Input, OP::Input>) -> Seq<Fv> { CommitmentTargets::<Comm>::pub_vals_(&no_lookups(i.commitments)) + OV::pub_vals(&i.opened_values) + OP::pub_vals(&i.opening_proof) }
    pub open spec fn priv_vals_(i: &Proof<Comm::Input, OV::Input, OP::Input>) -> Seq<Fv> { OV::priv_vals(&i.opened_values) + OP::priv_vals(&i.opening_proof) }
}
} // verus!
'''

BP_SPEC = r'''
verus! {
pub struct Terminal(pub Fv);
pub struct BatchProof<CI, PI> { pub commitments: BatchCommitments<CI>, pub opened_values: BatchOpenedValues, pub opening_proof: PI, pub lookup_terminals: Vec<Option<Terminal>>, pub degree_bits: Vec<usize> }
pub struct BatchProofTargets<Comm, OP> { pub commitments_targets: CommitmentTargets<Comm>, pub flattened_opened_values_targets: OpenedValuesTargetsWithLookups, pub opened_values_targets: BatchOpenedValuesTargets,
    pub opening_proof: OP, pub lookup_terminals: Vec<Option<Target>>, pub degree_bits: Vec<usize> }
/// the present entries of the first n slots, in order
pub open spec fn somes(s: Seq<Option<ExprId>>, n: int) -> Seq<ExprId> decreases n { if n <= 0 { Seq::empty() } else { match s[n - 1] { Some(t) => somes(s, n - 1).push(t), None => somes(s, n - 1) } } }
pub open spec fn some_vals(s: Seq<Option<Terminal>>, n: int) -> Seq<Fv> decreases n { if n <= 0 { Seq::empty() } else { match s[n - 1] { Some(t) => some_vals(s, n - 1).push(t.0), None => some_vals(s, n - 1) } } }
pub proof fn lemma_somes_prefix(a: Seq<Option<ExprId>>, b: Seq<Option<ExprId>>, n: int)
    requires 0 <= n <= a.len(), n <= b.len(), forall|k: int| 0 <= k < n ==> #[trigger] a[k] == b[k]
    ensures somes(a, n) == somes(b, n) decreases n { if n > 0 { lemma_somes_prefix(a, b, n - 1); } }
pub open spec fn bp_pubs<Comm: Rec, OP: Rec>(r: &BatchProofTargets<Comm, OP>) -> Seq<ExprId> { r.commitments_targets.pubs_() + r.opening_proof.pubs() + somes(r.lookup_terminals@, r.lookup_terminals@.len() as int) }
pub open spec fn bp_privs<Comm: Rec, OP: Rec>(r: &BatchProofTargets<Comm, OP>) -> Seq<ExprId> { r.commitments_targets.privs_() + targets_flat_b(r.opened_values_targets.instances@) + r.opening_proof.privs() }
pub open spec fn bp_pub_vals<Comm: Rec, OP: Rec>(i: &BatchProof<Comm::Input, OP::Input>) -> Seq<Fv> { CommitmentTargets::<Comm>::pub_vals_(&i.commitments) + OP::pub_vals(&i.opening_proof) + some_vals(i.lookup_terminals@, i.lookup_terminals@.len() as int) }
pub open spec fn bp_priv_vals<Comm: Rec, OP: Rec>(i: &BatchProof<Comm::Input, OP::Input>) -> Seq<Fv> { values_flat_b(i.opened_values.instances@) + OP::priv_vals(&i.opening_proof) }
/// contracts proved for BatchOpenedValuesTargets in unit pack
#[verifier::external_body]
pub fn batch_opened_new(circuit: &mut CircuitBuilder, input: &BatchOpenedValues) -> (r: BatchOpenedValuesTargets)
    ensures final(circuit).privs@ == old(circuit).privs@ + targets_flat_b(r.instances@), final(circuit).pubs@ == old(circuit).pubs@,
            r.instances@.len() == input.instances@.len()
{ unimplemented!() }
#[verifier::external_body]
pub fn batch_opened_get_private_values(input: &BatchOpenedValues) -> (r: Vec<Fv>) ensures r@ == values_flat_b(input.instances@) { unimplemented!() }
/// `lookup_terminals.iter().flatten().map(|t| t.0)`: the values of the present terminals, in order
#[verifier::external_body]
pub fn present_terminal_values(t: &Vec<Option<Terminal>>) -> (r: Vec<Fv>) ensures r@ == some_vals(t@, t@.len() as int) { unimplemented!() }
impl CircuitBuilder {
    #[verifier::external_body]
    pub fn alloc_public_input(&mut self, label: &'static str) -> (r: ExprId) ensures final(self).pubs@ == old(self).pubs@.push(r), final(self).privs@ == old(self).privs@ { unimplemented!() }
}
} // verus!
'''


def norm(f, typename, drop_phantom=True):
    f.rewrite_re('R12', r'\bSelf \{', typename + ' {', min_count=0)
    if drop_phantom:
        f.rewrite_re('R11', r',?\s*_phantom: PhantomData,?', '', min_count=0)
    f.rewrite_re('R6', r'((?:\w+\.)+\w+)\.clone\(\)', r'clone_of(&\1)', min_count=0)
    f.rewrite_re('R11', r'\blet mut values = vec!\[\];', 'let mut values: Vec<Fv> = Vec::new();', min_count=0)
    # values.extend(<call>) with an owned vector (multi-line calls allowed)
    f.rewrite_re('R6', r'values\.extend\((\w+(?:::<[^>]*>)?(?:::\w+)*\(\s*[^;]*?\))\);', r'{ let mut tmp_ = \1; values.append(&mut tmp_); }', min_count=0, flags_dotall=True)
    unoption_map(f)
    uniter_collect(f)
    return f


def build():
    u = Unit('pack3', ['C14'])
    u.rlimit = 100
    u.assume('every child type (commitment, opened values, opening proof) is only known through the Recursive contract (trait Rec, as in unit pack2); generic parameters SC / F erased (R11); PhantomData dropped')
    u.assume('BatchCommitments / Commitments / Proof / CommonData transcribed from p3-batch-stark / p3-uni-stark 0.6; `.clone()` of their parts yields an equal value')
    u.text(PACK_PRELUDE)
    u.text(PACK2_SPEC)
    u.text(SPEC)
    P = 'recursion/src/types/proof.rs'
    st = extract_item(P, r'pub struct CommitmentTargets<F: Field, Comm: Recursive<F>>')
    st = st.replace('CommitmentTargets<F: Field, Comm: Recursive<F>>', 'CommitmentTargets<Comm>')
    st = re.sub(r'\s*pub _phantom: PhantomData<F>,', '', st)
    u.text('verus! {\n// extracted on every run (R11: F erased, PhantomData dropped)\n' + st + '\n}')
    u.text(CT_SPEC)

    # ------------------------------------------------------------------ CommitmentTargets
    CI = r'impl<F: Field, Comm> Recursive<F> for CommitmentTargets<F, Comm>'
    cn = norm(u.extract(P, CI, 'new', 'CommitmentTargets::new'), 'CommitmentTargets')
    cn.set_sig('R11', 'fn new<Comm: Rec>(circuit: &mut CircuitBuilder, input: &BatchCommitments<Comm::Input>) -> CommitmentTargets<Comm>')
    cn.ensures('allocation_order_is_the_traversal_order', 'final(circuit).pubs@ == old(circuit).pubs@ + ret.pubs_() && final(circuit).privs@ == old(circuit).privs@ + ret.privs_()')
    cn.bind_tail('r_', 'proof { assert(circuit.pubs@ =~= old(circuit).pubs@ + r_.pubs_()); // @@A:commitments_allocated_in_the_order_trace_permutation_quotient_random\n assert(circuit.privs@ =~= old(circuit).privs@ + r_.privs_()); }')
    cn.ensures('as_many_targets_as_values', 'ret.pubs_().len() == CommitmentTargets::<Comm>::pub_vals_(input).len() && ret.privs_().len() == CommitmentTargets::<Comm>::priv_vals_(input).len()')
    cv = norm(u.extract(P, CI, 'get_values', 'CommitmentTargets::get_values'), 'CommitmentTargets')
    cv.set_sig('R11', 'fn get_values<Comm: Rec>(input: &BatchCommitments<Comm::Input>) -> Vec<Fv>')
    cv.ensures('values_in_the_traversal_order', 'ret@ == CommitmentTargets::<Comm>::pub_vals_(input)')
    u.text('verus! { pub mod commitment_targets { use super::*;')
    u.emit(cn, vis='pub')
    u.emit(cv, vis='pub')
    u.text('''/// default method of the trait: no private values
pub fn get_private_values<Comm: Rec>(input: &BatchCommitments<Comm::Input>) -> (r: Vec<Fv>) ensures r@.len() == 0 { Vec::new() }
} }''')

    # ------------------------------------------------------------------ ProofTargets
    PI = r'Recursive<SC::Challenge> for ProofTargets<SC, Comm, OpeningProof>'
    PS = [(r'CommitmentTargets::<SC::Challenge, Comm>::get_values\(', 'commitment_targets::get_values::<Comm>('), (r'CommitmentTargets::new\(', 'commitment_targets::new::<Comm>('),
          (r'OpenedValuesTargets::<SC>::', 'OV::'), (r'OpenedValuesTargets::', 'OV::'), (r'OpeningProof::', 'OP::')]

    def pt(name):
        f = u.extract(P, PI, name, f'ProofTargets::{name}')
        for a, b in PS:
            f.rewrite_re('R11', a, b, min_count=0)
        return norm(f, 'ProofTargets')
    GEN = '<Comm: Rec, OV: Rec, OP: Rec>'
    INP = 'Proof<Comm::Input, OV::Input, OP::Input>'
    pn = pt('new')
    pn.set_sig('R11', f'fn new{GEN}(circuit: &mut CircuitBuilder, input: &{INP}) -> ProofTargets<Comm, OV, OP>')
    pn.ensures('allocation_order_is_the_traversal_order', 'final(circuit).pubs@ == old(circuit).pubs@ + ret.pubs_() && final(circuit).privs@ == old(circuit).privs@ + ret.privs_()')
    pn.bind_tail('r_', 'proof { assert(circuit.pubs@ =~= old(circuit).pubs@ + r_.pubs_()); // @@A:proof_allocated_in_the_order_commitments_opened_values_opening_proof\n assert(circuit.privs@ =~= old(circuit).privs@ + r_.privs_()); }')
    pn.ensures('as_many_targets_as_values', 'ret.pubs_().len() == ProofTargets::<Comm, OV, OP>::pub_vals_(input).len()')
    pv = pt('get_values')
    pv.set_sig('R11', f'fn get_values{GEN}(input: &{INP}) -> Vec<Fv>')
    pv.ensures('values_in_the_traversal_order', 'ret@ == ProofTargets::<Comm, OV, OP>::pub_vals_(input)')
    pp = pt('get_private_values')
    pp.set_sig('R11', f'fn get_private_values{GEN}(input: &{INP}) -> Vec<Fv>')
    pp.ensures('values_in_the_traversal_order', 'ret@ == ProofTargets::<Comm, OV, OP>::priv_vals_(input)')
    u.text('verus! { pub mod proof_targets { use super::*;')
    for f in (pn, pv, pp):
        u.emit(f, vis='pub')
    u.text('} }')

    # ------------------------------------------------------------------ BatchProofTargets
    from units.pack import SPEC as PACK_SPEC
    st = extract_item(P, r'pub struct OpenedValuesTargets<SC: StarkGenericConfig>')
    st = st.replace('OpenedValuesTargets<SC: StarkGenericConfig>', 'OpenedValuesTargets').replace('PhantomData<SC>', 'PhantomData<()>')
    st2 = extract_item(P, r'pub struct OpenedValuesTargetsWithLookups<SC: StarkGenericConfig>').replace('OpenedValuesTargetsWithLookups<SC: StarkGenericConfig>', 'OpenedValuesTargetsWithLookups').replace('OpenedValuesTargets<SC>', 'OpenedValuesTargets')
    st3 = extract_item(P, r'pub\(crate\) struct BatchOpenedValuesTargets<SC: StarkGenericConfig>').replace('BatchOpenedValuesTargets<SC: StarkGenericConfig>', 'BatchOpenedValuesTargets').replace('OpenedValuesTargetsWithLookups<SC>', 'OpenedValuesTargetsWithLookups').replace('pub(crate) ', 'pub ')
    u.text('verus! {\n// extracted on every run (as in unit pack)\n' + st + '\n' + st2 + '\n' + st3 + '\n}')
    u.text(PACK_SPEC)
    u.text(BP_SPEC)
    BI = r'Recursive<SC::Challenge> for BatchProofTargets<SC, Comm, OpeningProof>'
    BS = [(r'CommitmentTargets::<SC::Challenge, Comm>::get_values\(', 'commitment_targets::get_values::<Comm>('), (r'CommitmentTargets::new\(', 'commitment_targets::new::<Comm>('),
          (r'BatchOpenedValuesTargets::<SC>::get_private_values\(', 'batch_opened_get_private_values('), (r'BatchOpenedValuesTargets::new\(', 'batch_opened_new('), (r'OpeningProof::', 'OP::')]

    def bt(name):
        f = u.extract(P, BI, name, f'BatchProofTargets::{name}')
        for a, b in BS:
            f.rewrite_re('R11', a, b, min_count=0)
        m = re.search(r'let BatchProof \{([^}]*)\} = input;', f.body)
        if m:
            lets = []
            for part in [x.strip() for x in m.group(1).split(',') if x.strip()]:
                fld, nm = ([t.strip() for t in part.split(':')] + [None])[:2] if ':' in part else (part, part)
                if nm != '_':
                    lets.append(f'let {nm} = &input.{fld};')
            f.body = f.body[:m.start()] + ' '.join(lets) + f.body[m.end():]
            f.rewrites.append(('R1', 'destructuring of the borrowed input -> one borrow per field', ''))
        f.rewrite_re('R6', r'\.chain\(lookup_terminals\.iter\(\)\.flatten\(\)\.map\(\|t\| t\.0\)\)', '.chain(present_terminal_values(lookup_terminals))', min_count=0)
        f.rewrite_re('R6', r'chunk\.clone\(\)', 'clone_of(chunk)', min_count=0)
        return norm(f, 'BatchProofTargets', drop_phantom=False)
    BGEN = '<Comm: Rec, OP: Rec>'
    BINP = 'BatchProof<Comm::Input, OP::Input>'
    bn = bt('new')
    bn.set_sig('R11', f'fn new{BGEN}(circuit: &mut CircuitBuilder, input: &{BINP}) -> BatchProofTargets<Comm, OP>')
    bn.rewrite_re('R5', r'for (\w+) in &opened_values_targets\.instances \{', r'for bi_ in 0..opened_values_targets.instances.len() { let \1 = &opened_values_targets.instances[bi_];', min_count=0)
    bn.rewrite_re('R5', r'for (\w+) in &instance\.opened_values_no_lookups\.quotient_chunks_targets \{', r'for qc_ in 0..instance.opened_values_no_lookups.quotient_chunks_targets.len() { let \1 = &instance.opened_values_no_lookups.quotient_chunks_targets[qc_];', min_count=0)
    bn.rewrite_re('R6', r'(aggregated_\w+)\.extend\(&(instance\.[\w.]+)\);', r'\1.extend_from_slice(\2.as_slice());', min_count=0)
    bn.rewrite_re('R6', r'(aggregated_\w+)\.extend\((\w+)\);', r'\1.extend_from_slice(\2.as_slice());', min_count=0)
    bn.rewrite_re('R6', r'let mut (aggregated_quotient_chunks) = Vec::with_capacity\(num_instances\);', r'let mut \1: Vec<Vec<Target>> = Vec::with_capacity(num_instances);', min_count=0)
    bn.rewrite_re('R6', r'let mut (aggregated_\w+) = Vec::with_capacity\(num_instances\);', r'let mut \1: Vec<Target> = Vec::with_capacity(num_instances);', min_count=0)
    bn.rewrite_re('R6', r'\.collect::<Vec<_>>\(\)', '.collect()', min_count=0)
    bn.rewrite_re('R6', r'terminal\s*\.as_ref\(\)\s*\.map\(\|_\| circuit\.alloc_public_input\("lookup terminal"\)\)', '(match terminal { Some(_) => Some(circuit.alloc_public_input("lookup terminal")), None => None })', min_count=0)
    from vf.unit import unmap_iter_collect_general
    unmap_iter_collect_general(bn)
    bn.attr('#[verifier::loop_isolation(false)]')
    bn.ensures('allocation_order_is_the_traversal_order', 'final(circuit).pubs@ == old(circuit).pubs@ + bp_pubs(&ret) && final(circuit).privs@ == old(circuit).privs@ + bp_privs(&ret)')
    bn.ensures('as_many_public_targets_as_values', 'bp_pubs(&ret).len() == bp_pub_vals::<Comm, OP>(input).len()')
    TL = 'for m0_ in 0..input.lookup_terminals.len()'
    if TL in bn.body:
        bn.rewrite_re('SPEC-type', r'let mut v_m0_ = Vec::new\(\);', 'let mut v_m0_: Vec<Option<Target>> = Vec::new();', min_count=1)
        bn.before(TL, 'let ghost p_t = circuit.pubs@; let ghost q_t = circuit.privs@; proof { assert(somes(v_m0_@, 0) =~= Seq::<ExprId>::empty()); }')
        lo = bn._loop_open(TL)
        bn.body = bn.body[:lo + 1] + ' let ghost v_b = v_m0_@; ' + bn.body[lo + 1:]
        bn.at_loop_end(TL, '''proof { assert(v_m0_@ =~= v_b.push(x_m0_)); lemma_somes_prefix(v_m0_@, v_b, m0_ as int); assert(circuit.pubs@ =~= p_t + somes(v_m0_@, m0_ + 1)); }''')
        bn.loop(TL, invariants=[('terminals_allocated_in_order', '''v_m0_@.len() == m0_ && circuit.pubs@ == p_t + somes(v_m0_@, m0_ as int) && circuit.privs@ == q_t
                && somes(v_m0_@, m0_ as int).len() == some_vals(input.lookup_terminals@, m0_ as int).len()''')])
    bn.bind_tail('r_', '''proof {
            assert(circuit.pubs@ =~= old(circuit).pubs@ + bp_pubs(&r_)); // @@A:batch_proof_publics_allocated_in_the_order_commitments_opening_proof_terminals
            assert(circuit.privs@ =~= old(circuit).privs@ + bp_privs(&r_)); // @@A:batch_proof_privates_allocated_in_the_order_commitments_opened_values_opening_proof
        }''')
    bv = bt('get_values')
    bv.set_sig('R11', f'fn get_values{BGEN}(input: &{BINP}) -> Vec<Fv>')
    bv.ensures('values_in_the_traversal_order', 'ret@ == bp_pub_vals::<Comm, OP>(input)')
    bp_ = bt('get_private_values')
    bp_.set_sig('R11', f'fn get_private_values{BGEN}(input: &{BINP}) -> Vec<Fv>')
    bp_.ensures('values_in_the_traversal_order', 'ret@ == bp_priv_vals::<Comm, OP>(input)')
    u.text('verus! { pub mod batch_proof_targets { use super::*;')
    for f in (bn, bv, bp_):
        u.emit(f, vis='pub')
    u.text('} }')
    return u
