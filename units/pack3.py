"""Unit `pack3` (C14, top-level proof structures): allocation order = packing order for the commitment block and the uni-STARK proof.

Real text: recursion/src/types/proof.rs  `impl Recursive for` CommitmentTargets {new, get_values}, ProofTargets {new, get_values, get_private_values},
CommonDataTargets {new, get_values}.  The struct CommitmentTargets is extracted on every run.
Contract: as in unit pack2 (trait Rec = the contract of `Recursive`): `new` extends the builder's public / private allocation orders by exactly the
concatenation, in ONE fixed traversal order (trace, permutation?, quotient chunks, random?  |  commitments, opened values, opening proof), of the
children's targets, and get_values / get_private_values return the children's values in that same order, for every child type meeting Rec."""
import re

from vf.extract import extract_item
from vf.unit import Unit, uniter_collect
from units.pack import PRELUDE as PACK_PRELUDE
from units.pack2 import SPEC as PACK2_SPEC
from units.serde16 import unoption_map

SPEC = r'''
verus! {
/// p3-batch-stark BatchCommitments / p3-uni-stark Commitments and Proof (transcribed: upstream types), generic in the children's inputs
pub struct BatchCommitments<CI> { pub main: CI, pub permutation: Option<CI>, pub quotient_chunks: CI, pub random: Option<CI> }
pub struct Commitments<CI> { pub trace: CI, pub quotient_chunks: CI, pub random: Option<CI> }
pub struct Proof<CI, OI, PI> { pub commitments: Commitments<CI>, pub opened_values: OI, pub opening_proof: PI, pub degree_bits: usize }
pub struct GlobalPreprocessed<CI> { pub commitment: CI, pub instances: Vec<Option<(usize, usize, usize)>>, pub matrix_to_instance: Vec<usize> }
pub struct Lookups { pub id: Ghost<int> }
pub struct Lookup { pub id: Ghost<int> }
impl Lookups { #[verifier::external_body] pub fn to_vec(&self) -> Vec<Lookup> { unimplemented!() } }
pub struct CommonData<CI> { pub preprocessed: Option<GlobalPreprocessed<CI>>, pub lookups: Vec<Lookups> }
pub struct PreprocessedInstanceMetas { pub instances: Vec<Option<(usize, usize, usize)>> }
pub struct GlobalPreprocessedTargets<C> { pub commitment: C, pub instances: PreprocessedInstanceMetas, pub matrix_to_instance: Vec<usize> }
pub struct CommonDataTargets<C> { pub preprocessed: Option<GlobalPreprocessedTargets<C>>, pub lookups: Vec<Vec<Lookup>> }
/// `.clone()` of plain data: an equal value (Clone contract of the upstream types)
#[verifier::external_body]
pub fn clone_of<T>(x: &T) -> (r: T) ensures r == *x { unimplemented!() }
pub open spec fn opt_pubs<C: Rec>(o: Option<C>) -> Seq<ExprId> { match o { Some(c) => c.pubs(), None => Seq::empty() } }
pub open spec fn opt_privs<C: Rec>(o: Option<C>) -> Seq<ExprId> { match o { Some(c) => c.privs(), None => Seq::empty() } }
pub open spec fn opt_pub_vals<C: Rec>(o: Option<C::Input>) -> Seq<Fv> { match o { Some(c) => C::pub_vals(&c), None => Seq::empty() } }
pub open spec fn opt_priv_vals<C: Rec>(o: Option<C::Input>) -> Seq<Fv> { match o { Some(c) => C::priv_vals(&c), None => Seq::empty() } }
} // verus!
'''

CT_SPEC = r'''
verus! {
impl<Comm: Rec> CommitmentTargets<Comm> {
    /// ONE traversal order: trace, permutation (if any), quotient chunks, random (if any)
    pub open spec fn pubs_(&self) -> Seq<ExprId> { self.trace_targets.pubs() + opt_pubs(self.permutation_targets) + self.quotient_chunks_targets.pubs() + opt_pubs(self.random_commit) }
    pub open spec fn privs_(&self) -> Seq<ExprId> { self.trace_targets.privs() + opt_privs(self.permutation_targets) + self.quotient_chunks_targets.privs() + opt_privs(self.random_commit) }
    pub open spec fn pub_vals_(i: &BatchCommitments<Comm::Input>) -> Seq<Fv> { Comm::pub_vals(&i.main) + opt_pub_vals::<Comm>(i.permutation) + Comm::pub_vals(&i.quotient_chunks) + opt_pub_vals::<Comm>(i.random) }
    pub open spec fn priv_vals_(i: &BatchCommitments<Comm::Input>) -> Seq<Fv> { Comm::priv_vals(&i.main) + opt_priv_vals::<Comm>(i.permutation) + Comm::priv_vals(&i.quotient_chunks) + opt_priv_vals::<Comm>(i.random) }
}
pub struct ProofTargets<Comm, OV, OP> { pub commitments_targets: CommitmentTargets<Comm>, pub opened_values_targets: OV, pub opening_proof: OP, pub degree_bits: usize }
pub open spec fn no_lookups<CI>(c: Commitments<CI>) -> BatchCommitments<CI> { BatchCommitments { main: c.trace, permutation: None, quotient_chunks: c.quotient_chunks, random: c.random } }
impl<Comm: Rec, OV: Rec, OP: Rec> ProofTargets<Comm, OV, OP> {
    /// ONE traversal order: commitments, opened values, opening proof
    pub open spec fn pubs_(&self) -> Seq<ExprId> { self.commitments_targets.pubs_() + self.opened_values_targets.pubs() + self.opening_proof.pubs() }
    pub open spec fn privs_(&self) -> Seq<ExprId> { self.commitments_targets.privs_() + self.opened_values_targets.privs() + self.opening_proof.privs() }
    pub open spec fn pub_vals_(i: &Proof<Comm::Input, OV::Input, OP::Input>) -> Seq<Fv> { CommitmentTargets::<Comm>::pub_vals_(&no_lookups(i.commitments)) + OV::pub_vals(&i.opened_values) + OP::pub_vals(&i.opening_proof) }
    pub open spec fn priv_vals_(i: &Proof<Comm::Input, OV::Input, OP::Input>) -> Seq<Fv> { OV::priv_vals(&i.opened_values) + OP::priv_vals(&i.opening_proof) }
}
} // verus!
'''


def norm(f, typename):
    f.rewrite_re('R12', r'\bSelf \{', typename + ' {', min_count=0)
    f.rewrite_re('R11', r',?\s*_phantom: PhantomData,?', '', min_count=0)
    f.rewrite_re('R6', r'((?:\w+\.)+\w+)\.clone\(\)', r'clone_of(&\1)', min_count=0)
    f.rewrite_re('R11', r'\blet mut values = vec!\[\];', 'let mut values: Vec<Fv> = Vec::new();', min_count=0)
    # values.extend(<call>) with an owned vector (multi-line calls allowed)
    f.rewrite_re('R6', r'values\.extend\((\w+(?:::<[^>]*>)?(?:::\w+)*\(\s*[^;]*?\))\);', r'{ let mut tmp_ = \1; values.append(&mut tmp_); }', min_count=0, flags_dotall=True)
    unoption_map(f)
    uniter_collect(f)
    return f


def build():
    u = Unit('pack3', ['C14'])
    u.rlimit = 100
    u.assume('every child type (commitment, opened values, opening proof) is only known through the Recursive contract (trait Rec, as in unit pack2); generic parameters SC / F erased (R11); PhantomData dropped')
    u.assume('BatchCommitments / Commitments / Proof / CommonData transcribed from p3-batch-stark / p3-uni-stark 0.6; `.clone()` of their parts yields an equal value')
    u.text(PACK_PRELUDE)
    u.text(PACK2_SPEC)
    u.text(SPEC)
    P = 'recursion/src/types/proof.rs'
    st = extract_item(P, r'pub struct CommitmentTargets<F: Field, Comm: Recursive<F>>')
    st = st.replace('CommitmentTargets<F: Field, Comm: Recursive<F>>', 'CommitmentTargets<Comm>')
    st = re.sub(r'\s*pub _phantom: PhantomData<F>,', '', st)
    u.text('verus! {\n// extracted on every run (R11: F erased, PhantomData dropped)\n' + st + '\n}')
    u.text(CT_SPEC)

    # ------------------------------------------------------------------ CommitmentTargets
    CI = r'impl<F: Field, Comm> Recursive<F> for CommitmentTargets<F, Comm>'
    cn = norm(u.extract(P, CI, 'new', 'CommitmentTargets::new'), 'CommitmentTargets')
    cn.set_sig('R11', 'fn new<Comm: Rec>(circuit: &mut CircuitBuilder, input: &BatchCommitments<Comm::Input>) -> CommitmentTargets<Comm>')
    cn.ensures('allocation_order_is_the_traversal_order', 'final(circuit).pubs@ == old(circuit).pubs@ + ret.pubs_() && final(circuit).privs@ == old(circuit).privs@ + ret.privs_()')
    cn.bind_tail('r_', 'proof { assert(circuit.pubs@ =~= old(circuit).pubs@ + r_.pubs_()); // @@A:commitments_allocated_in_the_order_trace_permutation_quotient_random\n assert(circuit.privs@ =~= old(circuit).privs@ + r_.privs_()); }')
    cn.ensures('as_many_targets_as_values', 'ret.pubs_().len() == CommitmentTargets::<Comm>::pub_vals_(input).len() && ret.privs_().len() == CommitmentTargets::<Comm>::priv_vals_(input).len()')
    cv = norm(u.extract(P, CI, 'get_values', 'CommitmentTargets::get_values'), 'CommitmentTargets')
    cv.set_sig('R11', 'fn get_values<Comm: Rec>(input: &BatchCommitments<Comm::Input>) -> Vec<Fv>')
    cv.ensures('values_in_the_traversal_order', 'ret@ == CommitmentTargets::<Comm>::pub_vals_(input)')
    u.text('verus! { pub mod commitment_targets { use super::*;')
    u.emit(cn, vis='pub')
    u.emit(cv, vis='pub')
    u.text('''/// default method of the trait: no private values
pub fn get_private_values<Comm: Rec>(input: &BatchCommitments<Comm::Input>) -> (r: Vec<Fv>) ensures r@.len() == 0 { Vec::new() }
} }''')

    # ------------------------------------------------------------------ ProofTargets
    PI = r'Recursive<SC::Challenge> for ProofTargets<SC, Comm, OpeningProof>'
    PS = [(r'CommitmentTargets::<SC::Challenge, Comm>::get_values\(', 'commitment_targets::get_values::<Comm>('), (r'CommitmentTargets::new\(', 'commitment_targets::new::<Comm>('),
          (r'OpenedValuesTargets::<SC>::', 'OV::'), (r'OpenedValuesTargets::', 'OV::'), (r'OpeningProof::', 'OP::')]

    def pt(name):
        f = u.extract(P, PI, name, f'ProofTargets::{name}')
        for a, b in PS:
            f.rewrite_re('R11', a, b, min_count=0)
        return norm(f, 'ProofTargets')
    GEN = '<Comm: Rec, OV: Rec, OP: Rec>'
    INP = 'Proof<Comm::Input, OV::Input, OP::Input>'
    pn = pt('new')
    pn.set_sig('R11', f'fn new{GEN}(circuit: &mut CircuitBuilder, input: &{INP}) -> ProofTargets<Comm, OV, OP>')
    pn.ensures('allocation_order_is_the_traversal_order', 'final(circuit).pubs@ == old(circuit).pubs@ + ret.pubs_() && final(circuit).privs@ == old(circuit).privs@ + ret.privs_()')
    pn.bind_tail('r_', 'proof { assert(circuit.pubs@ =~= old(circuit).pubs@ + r_.pubs_()); // @@A:proof_allocated_in_the_order_commitments_opened_values_opening_proof\n assert(circuit.privs@ =~= old(circuit).privs@ + r_.privs_()); }')
    pn.ensures('as_many_targets_as_values', 'ret.pubs_().len() == ProofTargets::<Comm, OV, OP>::pub_vals_(input).len()')
    pv = pt('get_values')
    pv.set_sig('R11', f'fn get_values{GEN}(input: &{INP}) -> Vec<Fv>')
    pv.ensures('values_in_the_traversal_order', 'ret@ == ProofTargets::<Comm, OV, OP>::pub_vals_(input)')
    pp = pt('get_private_values')
    pp.set_sig('R11', f'fn get_private_values{GEN}(input: &{INP}) -> Vec<Fv>')
    pp.ensures('values_in_the_traversal_order', 'ret@ == ProofTargets::<Comm, OV, OP>::priv_vals_(input)')
    u.text('verus! { pub mod proof_targets { use super::*;')
    for f in (pn, pv, pp):
        u.emit(f, vis='pub')
    u.text('} }')
    return u
