"""unit packres (C14): the unified backend's packing entry points
Real text: recursion/src/backend/fri.rs  impl VerifierCircuitResult for FriVerifierResult::{pack_public_inputs, pack_private_inputs} (whole)

What `prove_next_layer` feeds the verifier circuit is what these two return.  Units pubin / pack* prove that the BUILDERS' pack_public_values / pack_private_values lay the values out in
allocation order (AIR public values, proof values, preprocessed commitment / common data); here: the backend hands out exactly the builder's vector for the matching input variant
and refuses a mismatching one.  A packing written out by hand in this function is judged against the same order (get_values of the parts have their pubin meaning: stubs).
"""
import re

from vf.unit import Unit

PRELUDE = r'''
#![allow(unused_imports, unused_variables, dead_code, unused_mut, unused_parens)]
use vstd::prelude::*;
verus! {
#[derive(Clone, Copy, PartialEq, Eq, Structural)] pub struct Fv(pub u64);
#[derive(Clone, Copy, PartialEq, Eq, Structural)] pub struct Bv(pub u64);
pub struct OpaqueString { pub _p: () }
#[verifier::external_body] pub fn errmsg() -> OpaqueString { unimplemented!() }
pub enum VerificationError { InvalidProofShape(OpaqueString), Other }
pub struct NonPrimitiveOpId(pub u32);
/// type erasure (R11): a uni-STARK proof, a batch proof (BatchStarkProof { proof, .. }), a commitment, the batch common data -- each stands for its flattened values
pub struct Proof { pub id: int }
pub struct BatchProofInner { pub id: int }
pub struct BatchStarkProof { pub proof: BatchProofInner }
pub struct Commitment { pub id: int }
pub struct CommonData { pub id: int }
pub struct AirStub { pub _p: () }
/// Recursive::get_values of the parts (their layouts are proved in units pack / pack2 / pack3)
pub uninterp spec fn sp_proof_values(p: Proof) -> Seq<Fv>;
pub uninterp spec fn sp_proof_private(p: Proof) -> Seq<Fv>;
pub uninterp spec fn sp_batch_values(p: BatchProofInner) -> Seq<Fv>;
pub uninterp spec fn sp_batch_private(p: BatchProofInner) -> Seq<Fv>;
pub uninterp spec fn sp_commit_values(c: Commitment) -> Seq<Fv>;
pub uninterp spec fn sp_common_values(c: CommonData) -> Seq<Fv>;
pub uninterp spec fn sp_lift(v: Bv) -> Fv;
pub open spec fn lift_all(s: Seq<Bv>) -> Seq<Fv> { Seq::new(s.len(), |i: int| sp_lift(s[i])) }
pub open spec fn flat_lift(s: Seq<Vec<Bv>>) -> Seq<Fv> decreases s.len() { if s.len() == 0 { Seq::empty() } else { flat_lift(s.drop_last()) + lift_all(s.last()@) } }
/// allocation order of StarkVerifierInputsBuilder::allocate (unit pubin): AIR public values, proof targets, preprocessed commitment
pub open spec fn uni_public(pi: Seq<Bv>, p: Proof, c: Option<Commitment>) -> Seq<Fv> {
    lift_all(pi) + sp_proof_values(p) + (match c { Some(cm) => sp_commit_values(cm), None => Seq::empty() })
}
/// allocation order of BatchStarkVerifierInputsBuilder::allocate (unit pubin): per-instance AIR public values, proof targets, common data
pub open spec fn batch_public(pi: Seq<Vec<Bv>>, p: BatchProofInner, c: CommonData) -> Seq<Fv> { flat_lift(pi) + sp_batch_values(p) + sp_common_values(c) }
pub struct StarkVerifierInputsBuilder { pub _p: () }
impl StarkVerifierInputsBuilder {
    #[verifier::external_body]
    pub fn pack_public_values(&self, air_public_values: &Vec<Bv>, proof: &Proof, preprocessed_commit: &Option<Commitment>) -> (r: Vec<Fv>)
        ensures r@ == uni_public(air_public_values@, *proof, *preprocessed_commit) { unimplemented!() }
    #[verifier::external_body]
    pub fn pack_private_values(&self, proof: &Proof) -> (r: Vec<Fv>) ensures r@ == sp_proof_private(*proof) { unimplemented!() }
}
pub struct BatchStarkVerifierInputsBuilder { pub _p: () }
impl BatchStarkVerifierInputsBuilder {
    #[verifier::external_body]
    pub fn pack_public_values(&self, air_public_values: &Vec<Vec<Bv>>, proof: &BatchProofInner, common: &CommonData) -> (r: Vec<Fv>)
        ensures r@ == batch_public(air_public_values@, *proof, *common) { unimplemented!() }
    #[verifier::external_body]
    pub fn pack_private_values(&self, proof: &BatchProofInner) -> (r: Vec<Fv>) ensures r@ == sp_batch_private(*proof) { unimplemented!() }
}
/// the parts' own get_values, for a packing written out by hand
#[verifier::external_body] pub fn proof_get_values(p: &Proof) -> (r: Vec<Fv>) ensures r@ == sp_proof_values(*p) { unimplemented!() }
#[verifier::external_body] pub fn commit_get_values(c: &Commitment) -> (r: Vec<Fv>) ensures r@ == sp_commit_values(*c) { unimplemented!() }
#[verifier::external_body] pub fn lift_vec(v: &Vec<Bv>) -> (r: Vec<Fv>) ensures r@ == lift_all(v@) { unimplemented!() }
#[verifier::external_body] pub fn vec_extend_(a: &mut Vec<Fv>, b: Vec<Fv>) ensures final(a)@ == old(a)@ + b@ { unimplemented!() }
pub enum FriVerifierResult { UniStark(StarkVerifierInputsBuilder, Vec<NonPrimitiveOpId>), BatchStark(BatchStarkVerifierInputsBuilder, Vec<NonPrimitiveOpId>) }
pub enum RecursionInput<'a> {
    UniStark { proof: &'a Proof, air: &'a AirStub, public_inputs: Vec<Bv>, preprocessed_commit: Option<Commitment> },
    BatchStark { proof: &'a BatchStarkProof, common_data: &'a CommonData, table_public_inputs: Vec<Vec<Bv>> },
}
} // verus!
'''


def build():
    u = Unit('packres', ['C14'])
    u.rlimit = 20
    u.assume('type erasure R11: proofs, commitments and common data stand for their flattened values (uninterpreted sequences); the builders\' pack_public_values / pack_private_values have the allocation-order contracts proved in unit pubin')
    u.assume('error strings dropped (R8)')
    u.text(PRELUDE)
    B = 'recursion/src/backend/fri.rs'
    IMPL = r'impl<SC, A> VerifierCircuitResult<SC, A> for FriVerifierResult<SC>'
    fns = []
    for name, post_uni, post_batch in (
        ('pack_public_inputs', 'v@ == uni_public(public_inputs@, *proof, preprocessed_commit)', 'v@ == batch_public(table_public_inputs@, proof.proof, *common_data)'),
        ('pack_private_inputs', 'v@ == sp_proof_private(*proof)', 'v@ == sp_batch_private(proof.proof)'),
    ):
        f = u.extract(B, IMPL, name, f'FriVerifierResult::{name}')
        f.set_sig('R11', f"fn {name}<'a>(&self, prev: &RecursionInput<'a>) -> Result<Vec<Fv>, VerificationError>")
        f.rewrite_re('R8', r'VerificationError::InvalidProofShape\(\s*"[^"]*"\s*\.to_string\(\)\s*,?\s*\)', 'VerificationError::InvalidProofShape(errmsg())', min_count=0, flags_dotall=True)
        f.rewrite_re('R8', r'VerificationError::InvalidProofShape\(\s*format!\([^;]*?\)\s*,?\s*\)', 'VerificationError::InvalidProofShape(errmsg())', min_count=0, flags_dotall=True)
        f.rewrite_re('R12', r'\bSelf::(UniStark|BatchStark)\b', r'FriVerifierResult::\1', min_count=0)
        # a packing written out by hand: the parts' get_values / lifting / extend keep their meaning (R11 / R6)
        f.rewrite_re('R11', r'<SC::Commitment as Recursive<SC::Challenge>>::get_values\(\s*(\w+)\s*,?\s*\)', r'commit_get_values(\1)', min_count=0, flags_dotall=True)
        f.rewrite_re('R11', r'ProofTargets::<[^;()]*?>::get_values\(\s*(\w+)\s*,?\s*\)', r'proof_get_values(\1)', min_count=0, flags_dotall=True)
        f.rewrite_re('R6', r'let mut (\w+): Vec<SC::Challenge>\s*=\s*(\w+)\.iter\(\)\.map\(\|&v\| v\.into\(\)\)\.collect\(\);', r'let mut \1: Vec<Fv> = lift_vec(\2);', min_count=0, flags_dotall=True)
        f.rewrite_re('R6', r'(\w+)\.extend\(\s*((?:commit|proof)_get_values\(\w+\))\s*,?\s*\);', r'vec_extend_(&mut \1, \2);', min_count=0, flags_dotall=True)
        f.ensures('the_builders_vector_for_the_matching_variant_an_error_otherwise', f'''match (*self, *prev) {{
            (FriVerifierResult::UniStark(_, _), RecursionInput::UniStark {{ proof, air, public_inputs, preprocessed_commit }}) => ret matches Ok(v) && {post_uni},
            (FriVerifierResult::BatchStark(_, _), RecursionInput::BatchStark {{ proof, common_data, table_public_inputs }}) => ret matches Ok(v) && {post_batch},
            _ => ret is Err,
        }}''')
        fns.append(f)
    u.text('verus! {\nimpl FriVerifierResult {')
    for f in fns:
        u.emit(f)
    u.text('}\n}')
    return u
