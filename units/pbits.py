"""Unit `pbits` (C19): the direction bits a permutation row reads from the witness (mmcs_bit, and mmcs_bit2 on arity-4 shapes) are validated: a value that is neither 0 nor 1
conflicts with the boolean column the row stores it in and must be an error -- success is never reported with a non-boolean bit read as `false`.
Real text: circuit/src/ops/poseidon_perm/executor.rs  PoseidonPermExecutor::{resolve_boolean_witness, resolve_mmcs_bit, resolve_mmcs_bit2} (whole functions)."""
import re

from vf.extract import ExtractError
from vf.unit import Unit, unref_patterns_in_arms, unok_or_else_q

PRELUDE = r'''
#![allow(unused_imports, unused_variables, dead_code, unused_mut, unused_parens)]
use vstd::prelude::*;
verus! {
global size_of usize == 8;
pub trait Field: Sized + Copy {
    spec fn fzero() -> Self;
    spec fn fone() -> Self;
    fn zero() -> (r: Self) ensures r == Self::fzero();
    fn one() -> (r: Self) ensures r == Self::fone();
    fn feq(&self, o: &Self) -> (r: bool) ensures r == (*self == *o);
}
#[derive(Clone, Copy)] pub struct NpoTypeId(pub u64);
#[derive(Clone, Copy)] pub struct NonPrimitiveOpId(pub u32);
#[derive(Clone, Copy, PartialEq, Eq, Structural)] pub struct WitnessId(pub u32);
pub struct ErrStr { pub _p: () }
#[verifier::external_body] pub fn errstr() -> ErrStr { unimplemented!() }
pub enum CircuitError { IncorrectNonPrimitiveOpPrivateData { op: NpoTypeId, operation_index: NonPrimitiveOpId, expected: ErrStr, got: ErrStr }, WitnessNotSet, Other }
/// the witness table as the execution context shows it: the slots that are set, with their values
pub struct ExecutionContext<F> { pub witness: Ghost<Map<WitnessId, F>>, pub op_id: NonPrimitiveOpId }
impl<F: Field> ExecutionContext<F> {
    #[verifier::external_body]
    pub fn get_witness(&self, w: WitnessId) -> (r: Result<F, CircuitError>)
        ensures (r matches Ok(v) ==> self.witness@.dom().contains(w) && v == self.witness@[w]), (r is Err ==> !self.witness@.dom().contains(w))
    { unimplemented!() }
    pub fn operation_id(&self) -> (r: NonPrimitiveOpId) ensures r == self.op_id { self.op_id }
}
pub struct PermCfg { pub wext: usize, pub a4: bool }
impl PermCfg {
    pub fn width_ext(&self) -> (r: usize) ensures r == self.wext { self.wext }
    pub fn is_arity4_shape(&self) -> (r: bool) ensures r == self.a4 { self.a4 }
}
pub struct PoseidonPermExecutor { pub op_type: NpoTypeId, pub merkle_path: bool, pub new_start: bool, pub config: PermCfg }
impl PermCfg { #[verifier::external_body] pub fn rate_ext(&self) -> (r: usize) ensures r <= self.wext { unimplemented!() } }
#[verifier::external_body] pub fn zero_vec_<F: Field>(n: usize) -> (r: Vec<F>) ensures r@.len() == n { unimplemented!() }
#[verifier::external_body] pub fn chain_missing_error_(id: NonPrimitiveOpId) -> CircuitError { unimplemented!() }
#[verifier::external_body] pub fn copy_prefix_<F: Field>(dst: &mut Vec<F>, src: &[F], n: usize) requires n <= old(dst)@.len(), n <= src@.len() ensures final(dst)@.len() == old(dst)@.len() { unimplemented!() }
pub fn min_(a: usize, b: usize) -> (r: usize) ensures r == (if a < b { a } else { b }) { if a < b { a } else { b } }

/// `inputs.get(slot).and_then(|v| v.first())`: the witness that feeds input slot `slot`, if the slot exists and is not empty
pub open spec fn slot_wid(inputs: Seq<Vec<WitnessId>>, slot: int) -> Option<WitnessId> { if 0 <= slot < inputs.len() && inputs[slot]@.len() > 0 { Some(inputs[slot]@[0]) } else { None } }
#[verifier::external_body]
pub fn first_of_slot<'a>(inputs: &'a [Vec<WitnessId>], slot: usize) -> (r: Option<&'a WitnessId>)
    ensures (r matches Some(w) ==> slot_wid(inputs@, slot as int) == Some(*w)), (r is None ==> slot_wid(inputs@, slot as int) is None)
{ unimplemented!() }
/// the attached value is the base-2 (arity 4: base-4) accumulation of the direction bits of the rows of its chain
pub uninterp spec fn index_sum_agrees_with_the_chain<F>(e: &PoseidonPermExecutor, v: F) -> bool;
/// what a successfully read direction bit says about the witness: the slot's value IS the bit (0 or 1); an absent slot reads as false and only off Merkle mode
pub open spec fn bit_read_ok<F: Field>(e: &PoseidonPermExecutor, inputs: Seq<Vec<WitnessId>>, ctx: &ExecutionContext<F>, slot: int, b: bool) -> bool {
    match slot_wid(inputs, slot) {
        Some(w) => ctx.witness@.dom().contains(w) && ((ctx.witness@[w] == F::fzero() && !b) || (ctx.witness@[w] == F::fone() && b)),
        None => !e.merkle_path && !b,
    }
}
} // verus!
'''


def norm(f):
    f.rewrite_re('R6', r'inputs\s*\.get\(([^()]+)\)\s*\.and_then\(\|v\| v\.first\(\)\)', r'first_of_slot(inputs, \1)', min_count=0)
    f.rewrite_re('R1', r'if let Some\(&(\w+)\) = ([^{]+?) \{', r'if let Some(\1_r_) = \2 { let \1 = *\1_r_;', min_count=0)
    unref_patterns_in_arms(f)
    f.rewrite_re('R11', r'(\w+) == F::ZERO\b', r'\1.feq(&F::zero())', min_count=0)
    f.rewrite_re('R11', r'(\w+) == F::ONE\b', r'\1.feq(&F::one())', min_count=0)
    f.rewrite_re('R11', r'(ctx\.get_witness\(\w+\)\?) == F::ONE\b', r'\1.feq(&F::one())', min_count=0)
    f.rewrite_re('R8', r'format!\((?:[^()]|\([^()]*\))*\)', 'errstr()', min_count=0)
    f.rewrite_re('R11', r'self\.op_type\.clone\(\)', 'self.op_type', min_count=0)
    f.sig_rewrite('R11', "ExecutionContext<'_, F>", 'ExecutionContext<F>') if "ExecutionContext<'_, F>" in f.sig else None
    return f


def build():
    u = Unit('pbits', ['C19'])
    u.assume('ExecutionContext::get_witness returns the value of a set slot and an error for an unset / out-of-range one (circuit/src/ops/context.rs, checked in every profile); error strings opaque (R8); '
             '`inputs.get(slot).and_then(|v| v.first())` is the stub first_of_slot (R6)')
    u.text(PRELUDE)
    E = 'circuit/src/ops/poseidon_perm/executor.rs'
    IMPL = r'impl<V: PoseidonVariant> PoseidonPermExecutor<V>'
    rb = norm(u.extract(E, IMPL, 'resolve_boolean_witness', 'PoseidonPermExecutor::resolve_boolean_witness'))
    rb.ensures('a_bit_that_is_neither_zero_nor_one_is_an_error', 'ret matches Ok(b) ==> bit_read_ok(self, inputs@, ctx, slot as int, b)')
    ia = norm(u.extract(E, IMPL, 'is_arity4', 'PoseidonPermExecutor::is_arity4'))
    ia.ensures('shape', 'ret == self.config.a4')
    r1 = norm(u.extract(E, IMPL, 'resolve_mmcs_bit', 'PoseidonPermExecutor::resolve_mmcs_bit'))
    r1.requires('fits', 'self.config.wext < 0x1_0000')
    r1.ensures('the_low_direction_bit_is_validated', 'ret matches Ok(b) ==> bit_read_ok(self, inputs@, ctx, self.config.wext + 1, b)')
    r2 = norm(u.extract(E, IMPL, 'resolve_mmcs_bit2', 'PoseidonPermExecutor::resolve_mmcs_bit2'))
    r2.requires('fits', 'self.config.wext < 0x1_0000')
    r2.ensures('the_high_direction_bit_is_validated_on_arity4_shapes_and_false_elsewhere',
               'ret matches Ok(b) ==> (if self.config.a4 { bit_read_ok(self, inputs@, ctx, self.config.wext + 2, b) } else { !b })')
    # ---------------------------------------------------------------- build_trace_row[index_sum]: the attached leaf-index accumulator (open finding: copied, never compared)
    from units.order import _stmt_at
    bt = u.extract(E, IMPL, 'build_trace_row', 'PoseidonPermExecutor::build_trace_row[index_sum]')
    st_ = _stmt_at(bt.body, r'let \(mmcs_index_sum, mmcs_index_sum_idx, mmcs_ctl_enabled\) =')
    if st_ is None:
        raise ExtractError('lost anchor in build_trace_row[index_sum]: `let (mmcs_index_sum, mmcs_index_sum_idx, mmcs_ctl_enabled) = ..;`')
    bt.rewrites.append(('R13', 'function body := the statement `let (mmcs_index_sum, mmcs_index_sum_idx, mmcs_ctl_enabled) = ..;`, then Ok(mmcs_index_sum)', 'everything else of build_trace_row (limb values, CTL flags, the row constructor)'))
    bt.body = '{\n' + st_ + '\nOk(mmcs_index_sum)\n}'
    norm(bt)
    bt.set_sig('R11', 'fn build_trace_row_index_sum<F: Field>(&self, inputs: &[Vec<WitnessId>], ctx: &ExecutionContext<F>, width_ext: usize) -> Result<F, CircuitError>', sliced=True)
    bt.rewrite_re('R11', r'\bF::ZERO\b', 'F::zero()', min_count=0)
    bt.requires('slot_exists', 'width_ext < inputs@.len()')
    bt.ensures('an_attached_accumulator_is_read_from_its_witness', 'ret matches Ok(v) ==> (inputs@[width_ext as int]@.len() == 1 ==> ctx.witness@.dom().contains(inputs@[width_ext as int]@[0]) && v == ctx.witness@[inputs@[width_ext as int]@[0]])')
    # C19 (open finding): the witness value is copied into the row; nothing compares it with the accumulator the chain's direction bits give (the trace generator recomputes the column, the
    # witness bus then carries a value the table does not send: run() reports success from conflicting inputs)
    bt.ensures('H_an_attached_index_accumulator_agrees_with_the_direction_bits_of_its_chain', 'ret matches Ok(v) ==> (inputs@[width_ext as int]@.len() == 1 ==> index_sum_agrees_with_the_chain(self, v))')
    # ---------------------------------------------------------------- init_chain_state: a chained row needs the previous output of its chain (C19: never run from an unset state)
    ic = norm(u.extract(E, IMPL, 'init_chain_state', 'PoseidonPermExecutor::init_chain_state'))
    ic.rewrite_re('R11', r'\bF::zero_vec\(', 'zero_vec_(', min_count=0)
    ic.rewrite_re('R11', r'\bV::chain_missing_error\(', 'chain_missing_error_(', min_count=0)
    ic.rewrite_re('R6', r'(\w+)\[\.\.(\w+)\]\.copy_from_slice\(&(\w+)\[\.\.\2\]\);', r'copy_prefix_(&mut \1, \3, \2);', min_count=0)
    ic.rewrite_re('R11', r'(self\.config\.rate_ext\(\)|\bwidth_ext|\bcarried)\.min\((\w+)\.len\(\)\)', r'min_(\1, \2.len())', min_count=0)
    unok_or_else_q(ic)
    ic.ensures('a_chained_row_without_a_previous_state_of_its_chain_is_an_error', '!self.new_start && last_output is None ==> ret is Err')
    ic.ensures('a_chain_start_begins_from_the_zero_state', 'self.new_start ==> (ret matches Ok(v) && v@.len() == self.config.wext)')
    u.text('verus! {\nimpl PoseidonPermExecutor {')
    for f in (ia, rb, r1, r2, bt, ic):
        u.emit(f)
    u.text('}\n}')
    return u
