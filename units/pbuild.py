"""Unit `pbuild` (C06 / C05): the one path from add_poseidon{1,2}_perm_for_challenger_base to the emitted permutation op,
circuit/src/ops/poseidon_perm/builder.rs  CircuitBuilder::add_poseidon_perm_base_inner (whole function).
Proved: the op pushed for a base-field (D=1) permutation row reads EVERY limb the caller gives from the witness bus (one-element input group) and leaves exactly the omitted
limbs empty, with the caller's chain-start flag and length tag.  An input group left empty is `in_ctl = 0` in the committed row: on a chain start the compact AIRs neither
read, chain nor zero-assert such a rate limb, so a given limb that is dropped becomes prover-chosen."""
import re

from vf.extract import ExtractError
from vf.unit import Unit

PRELUDE = r'''
#![allow(unused_imports, unused_variables, dead_code, unused_mut, unused_parens)]
use vstd::prelude::*;
verus! {
global size_of usize == 8;
#[derive(Clone, Copy, PartialEq, Eq, Structural)] pub struct ExprId(pub u32);
impl ExprId { pub const ZERO: ExprId = ExprId(0); }
#[derive(Clone, Copy)] pub struct NpoTypeId(pub u64);
#[derive(Clone, Copy)] pub struct NonPrimitiveOpId(pub u32);
#[derive(Clone, Copy)] pub struct PermConfig(pub u64);
pub struct CircuitBuilderError { pub _p: () }
pub struct PoseidonPermCallBase { pub config: PermConfig, pub new_start: bool, pub inputs: [Option<ExprId>; 16], pub out_ctl: [bool; 8], pub return_all_outputs: bool, pub absorb_len: usize }
pub struct PermParams { pub new_start: bool, pub merkle_path: bool, pub absorb_len: usize }
pub struct Labels { pub _p: () }
/// the input groups and parameters of the non-primitive op pushed last (a witness function: only push_non_primitive_op_with_outputs says anything about it)
pub uninterp spec fn last_pushed(cb: &CircuitBuilder) -> (Seq<Seq<ExprId>>, PermParams);
pub struct CircuitBuilder { pub _p: () }
impl CircuitBuilder {
    #[verifier::external_body] pub fn ensure_op_enabled(&self, t: &NpoTypeId) -> (r: Result<(), CircuitBuilderError>) { unimplemented!() }
    #[verifier::external_body]
    pub fn push_non_primitive_op_with_outputs(&mut self, op_type: NpoTypeId, inputs: Vec<Vec<ExprId>>, labels: Labels, params: Option<PermParams>, tag: &'static str)
        -> (r: (NonPrimitiveOpId, ExprId, Vec<Option<ExprId>>))
        ensures params matches Some(p) ==> last_pushed(final(self)) == (Seq::new(inputs@.len(), |i: int| inputs@[i]@), p)
    { unimplemented!() }
}
#[verifier::external_body] pub fn npo_type_id_(c: PermConfig) -> NpoTypeId { unimplemented!() }
#[verifier::external_body] pub fn perm_op_params_(new_start: bool, merkle_path: bool, absorb_len: usize) -> (r: PermParams) ensures r.new_start == new_start, r.merkle_path == merkle_path, r.absorb_len == absorb_len { unimplemented!() }
#[verifier::external_body] pub fn output_labels_(call: &PoseidonPermCallBase, a: &'static str, b: &'static str) -> Labels { unimplemented!() }
#[verifier::external_body] pub fn to16_(v: Vec<Option<ExprId>>) -> (r: [Option<ExprId>; 16]) { unimplemented!() }
/// what the row reads for limb i: the given target as a one-element group, nothing for an omitted limb
pub open spec fn group_of(o: Option<ExprId>) -> Seq<ExprId> { match o { Some(v) => seq![v], None => Seq::empty() } }
} // verus!
'''


def build():
    u = Unit('pbuild', ['C06', 'C05'])
    u.assume('push_non_primitive_op_with_outputs records the input groups and parameters it is given (last_pushed); the executor / preprocessing turn a one-element group into a bus read (in_ctl = 1) and an empty group into in_ctl = 0 '
             '(PoseidonPermExecutor::preprocess_inputs, unit pexec); output labels, the op-type lookup and the 16-array conversion are opaque stubs')
    u.text(PRELUDE)
    B = 'circuit/src/ops/poseidon_perm/builder.rs'
    f = u.extract(B, r'impl<F: Field> CircuitBuilder<F>', 'add_poseidon_perm_base_inner', 'CircuitBuilder::add_poseidon_perm_base_inner')
    f.set_sig('R11', "fn add_poseidon_perm_base_inner(&mut self, call: &PoseidonPermCallBase, out_label: &'static str, out_capacity_label: &'static str, tag: &'static str) -> Result<(NonPrimitiveOpId, [Option<ExprId>; 16]), CircuitBuilderError>")
    f.rewrite_re('R11', r'V::npo_type_id\(', 'npo_type_id_(', min_count=1)
    # R5: `[T; 16]::map(|opt| BODY)` over the 16 input limbs -> index loop pushing BODY (verbatim) for each limb
    m = re.search(r'let input_exprs: \[Vec<ExprId>; 16\] = call\s*\.inputs\s*\.map(\()', f.body)
    if not m:
        raise ExtractError('lost anchor in add_poseidon_perm_base_inner: `let input_exprs: [Vec<ExprId>; 16] = call.inputs.map(..)`')
    from vf.extract import match_brace
    close = match_brace(f.body, m.start(1))
    mi = re.match(r'\s*\|\s*(\w+)\s*\|\s*(.*)$', f.body[m.start(1) + 1:close], flags=re.S)
    me = re.match(r'\s*;', f.body[close + 1:])
    if not mi or not me:
        raise ExtractError('add_poseidon_perm_base_inner: the closure over the input limbs is outside the normaliser')
    body = mi.group(2).strip().rstrip(',').strip()
    f.body = (f.body[:m.start()] + f'let mut input_exprs: Vec<Vec<ExprId>> = Vec::new(); for k_ in 0..16usize {{ let {mi.group(1)} = call.inputs[k_]; let g_: Vec<ExprId> = {body}; input_exprs.push(g_); }}'
              + f.body[close + 1 + me.end():])
    f.rewrites.append(('R5', '`call.inputs.map(|opt| BODY)` over the 16 limbs -> index loop pushing BODY (verbatim)', ''))
    f.rewrite_re('R6', r'(\w+)\.map_or_else\(Vec::new, \|(\w+)\| vec!\[\2\]\)', r'(match \1 { Some(\2) => vec![\2], None => Vec::new() })', min_count=0)
    f.rewrite_re('R11', r"let output_labels: \[Option<&'static str>; 16\] = core::array::from_fn\(.*?\}\);", 'let output_labels = output_labels_(call, out_label, out_capacity_label);', min_count=1, flags_dotall=True)
    f.rewrite_re('R11', r'input_exprs\.into\(\)', 'input_exprs', min_count=1)
    f.rewrite_re('R11', r'output_labels\.into\(\)', 'output_labels', min_count=1)
    f.rewrite_re('R11', r'V::perm_op_params::<F>\(', 'perm_op_params_(', min_count=1)
    f.rewrite_re('R11', r'let outputs: \[Option<ExprId>; 16\] = outputs\s*\.try_into\(\)\s*\.expect\("[^"]*"\);', 'let outputs: [Option<ExprId>; 16] = to16_(outputs);', min_count=1, flags_dotall=True)
    f.ensures('every_given_limb_is_read_from_the_bus_and_exactly_the_omitted_limbs_are_left_empty',
              'ret is Ok ==> last_pushed(final(self)).0.len() == 16 && forall|i: int| 0 <= i < 16 ==> (#[trigger] last_pushed(final(self)).0[i]) =~= group_of(call.inputs@[i])')
    f.ensures('the_row_carries_the_callers_chain_start_flag_and_length_tag',
              'ret is Ok ==> last_pushed(final(self)).1.new_start == call.new_start && !last_pushed(final(self)).1.merkle_path && last_pushed(final(self)).1.absorb_len == call.absorb_len')
    f.loop('for k_ in 0..16usize', invariants=[('groups_so_far', 'input_exprs@.len() == k_ && forall|i: int| 0 <= i < k_ ==> (#[trigger] input_exprs@[i])@ =~= group_of(call.inputs@[i])')])
    u.text('verus! {\nimpl CircuitBuilder {')
    u.emit(f)
    u.text('}\n}')
    return u
