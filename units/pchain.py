"""Unit `pchain` (C06, table side of "in-table chaining of capacity for the base-field configuration"): the chaining constraints
of the compact D=1 Poseidon2 table.  Real text: poseidon2-circuit-air/src/air.rs  eval[compact_chaining] -- the block executed when
poseidon2_uses_compact_d1_preprocessed(..) holds (R13 slice; the prefix only borrows the two rows), and
poseidon-circuit-cols/src/preprocessed.rs  poseidon_d1_compact_preprocessed_header_cols.

Proved: the constraints asserted for one window (local row, next row, next row's preprocessed flags) are EXACTLY
  * rate limb chaining under the precomputed per-limb helper,
  * CAPACITY chaining  next_in[cap] = local_out[cap] (+ length tag on the first capacity element)  under  cap_chain_enable * (1 - merkle),
  * Merkle left/right placement under the per-limb Merkle helper times the direction bit,
  * chain start:  new_start * (1 - merkle)  pins the capacity to (tag, 0, .., 0)   -- NOT gated by the transition selector (row 0 included),
  * index-sum accumulation on Merkle continuation rows,
each as  gates * residual = 0  (ring = integers: an integral domain, as every field), and the two corollaries unit bind assumes of the table:
a chained sponge row receives the previous capacity, a chain start has the tag-only capacity."""
import re

from vf.extract import match_brace, ExtractError
from vf.unit import Unit, _split_method_chain
from units.air import PRELUDE as AIR_PRELUDE
from units.openin import slice_loop_body

SPEC = r'''
verus! {
impl R {
    pub fn one() -> (r: R) ensures r.v@ == 1 { R { v: Ghost(1) } }
    pub fn two() -> (r: R) ensures r.v@ == 2 { R { v: Ghost(2) } }
}
/// the constraint builder: `ok` is the conjunction "every (gated) polynomial asserted so far evaluates to zero on this window";
/// `trans` is the value of the transition selector on the window (non-zero exactly on transition rows)
pub struct AB { pub ok: Ghost<bool>, pub trans: Ghost<int> }
impl AB {
    /// `builder[.when_transition()][.when(g1)][.when(g2)].assert_zero(e)`  (R11: the filter chain flattened, missing gates = 1)
    #[verifier::external_body]
    pub fn gated_assert_zero(&mut self, transition: bool, g1: R, g2: R, e: R)
        ensures final(self).trans == old(self).trans,
                final(self).ok@ == (old(self).ok@ && (if transition { old(self).trans@ } else { 1int }) * g1.v@ * g2.v@ * e.v@ == 0)
    {}
    #[verifier::external_body]
    pub fn assert_bool(&mut self, x: R) ensures final(self).trans == old(self).trans, final(self).ok@ == (old(self).ok@ && x.v@ * (x.v@ - 1) == 0) {}
}
pub struct Cols { pub mmcs_index_sum: R, pub mmcs_bit: R }

/// the start value of the Merkle leaf-index accumulator is the one the runner writes (0, or the row's own exposed index)
pub uninterp spec fn index_accumulator_start_is_pinned(sum: int, bit: int) -> bool;
/// one window of the compact table, as integers
pub struct Win { pub lo: Seq<int>, pub ni: Seq<int>, pub s: Seq<int>, pub lsum: int, pub nsum: int, pub nbit: int, pub trans: int, pub d: int, pub rate: int, pub width: int }
impl Win {
    pub open spec fn hdr(self) -> int { self.rate + 2 + self.rate + self.rate }
    pub open spec fn tail(self) -> int { self.hdr() + self.width + self.rate + self.rate }
    pub open spec fn cap_en(self) -> int { self.s[self.rate + 1] }
    pub open spec fn tagv(self) -> int { self.s[self.rate] }
    pub open spec fn ns(self) -> int { self.s[self.tail() + 2] }
    pub open spec fn mk(self) -> int { self.s[self.tail() + 3] }
    pub open spec fn rate_help(self, limb: int) -> int { self.s[self.rate + 2 + limb] }
    pub open spec fn merkle_help(self, limb: int) -> int { self.s[self.rate + 2 + self.rate + limb] }
    pub open spec fn tag_at(self, limb: int, dd: int) -> int { if limb == self.rate && dd == 0 { self.tagv() } else { 0 } }
    pub open spec fn c_rate(self, limb: int, dd: int) -> bool { self.trans * self.rate_help(limb) * 1 * (self.ni[limb * self.d + dd] - self.lo[limb * self.d + dd]) == 0 }
    pub open spec fn c_cap(self, limb: int, dd: int) -> bool {
        self.trans * (self.cap_en() * (1 - self.mk())) * 1 * (self.ni[limb * self.d + dd] - self.lo[limb * self.d + dd] - self.tag_at(limb, dd)) == 0
    }
    pub open spec fn c_left(self, i: int, dd: int) -> bool { self.trans * (self.merkle_help(i) * (1 - self.nbit)) * 1 * (self.ni[i * self.d + dd] - self.lo[i * self.d + dd]) == 0 }
    pub open spec fn c_right(self, i: int, dd: int) -> bool { self.trans * (self.merkle_help(i) * self.nbit) * 1 * (self.ni[(self.rate + i) * self.d + dd] - self.lo[i * self.d + dd]) == 0 }
    pub open spec fn c_start(self, slot: int, dd: int) -> bool { 1 * self.ns() * (1 - self.mk()) * (self.ni[slot * self.d + dd] - self.tag_at(slot, dd)) == 0 }
    pub open spec fn c_sum(self) -> bool { self.trans * (1 - self.ns()) * self.mk() * (self.nsum - (self.lsum * 2 + self.nbit)) == 0 }
    pub open spec fn rate_ok(self, n: int) -> bool { forall|limb: int, dd: int| 0 <= limb < n && 0 <= dd < self.d ==> #[trigger] self.c_rate(limb, dd) }
    pub open spec fn cap_ok(self, n: int) -> bool { forall|limb: int, dd: int| self.rate <= limb < n && 0 <= dd < self.d ==> #[trigger] self.c_cap(limb, dd) }
    pub open spec fn c_merkle(self, i: int, dd: int) -> bool { self.c_left(i, dd) && self.c_right(i, dd) }
    pub open spec fn merkle_ok(self, n: int) -> bool { forall|i: int, dd: int| 0 <= i < n && 0 <= dd < self.d ==> #[trigger] self.c_merkle(i, dd) }
    pub open spec fn start_ok(self, n: int) -> bool { forall|slot: int, dd: int| self.rate <= slot < n && 0 <= dd < self.d ==> #[trigger] self.c_start(slot, dd) }
    /// THE constraint set of the compact chaining block
    pub open spec fn chain_ok(self) -> bool { self.rate_ok(self.rate) && self.cap_ok(self.width) && self.merkle_ok(self.rate) && self.start_ok(self.width) && self.c_sum() }
    pub open spec fn wf(self) -> bool {
        &&& 0 < self.d < 0x100 && 0 < self.rate < 0x1000 && self.rate < self.width < 0x1000
        &&& 2 * self.rate <= self.width
        &&& self.lo.len() >= self.width * self.d && self.ni.len() >= self.width * self.d && self.s.len() == self.tail() + 4
    }
}
/// what unit bind assumes of the table, as corollaries of chain_ok:
///  a transition into a chained sponge row (cap_chain_enable * (1 - merkle) != 0) carries the whole capacity over (plus the tag on its first element)
pub proof fn lemma_capacity_is_chained(w: Win, limb: int, dd: int)
    requires w.wf(), w.chain_ok(), w.trans != 0, w.cap_en() * (1 - w.mk()) != 0, w.rate <= limb < w.width, 0 <= dd < w.d
    ensures w.ni[limb * w.d + dd] == w.lo[limb * w.d + dd] + w.tag_at(limb, dd)
{
    assert(w.c_cap(limb, dd));
    let g = w.trans * (w.cap_en() * (1 - w.mk())) * 1; let e = w.ni[limb * w.d + dd] - w.lo[limb * w.d + dd] - w.tag_at(limb, dd);
    assert(g != 0) by (nonlinear_arith) requires g == w.trans * (w.cap_en() * (1 - w.mk())) * 1, w.trans != 0, w.cap_en() * (1 - w.mk()) != 0;
    assert(e == 0) by (nonlinear_arith) requires g * e == 0, g != 0;
}
///  a sponge chain start (new_start * (1 - merkle) != 0) has capacity (tag, 0, .., 0) on EVERY row, the first one included
pub proof fn lemma_chain_start_capacity_pinned(w: Win, slot: int, dd: int)
    requires w.wf(), w.chain_ok(), w.ns() * (1 - w.mk()) != 0, w.rate <= slot < w.width, 0 <= dd < w.d
    ensures w.ni[slot * w.d + dd] == w.tag_at(slot, dd)
{
    assert(w.c_start(slot, dd));
    let g = 1 * w.ns() * (1 - w.mk()); let e = w.ni[slot * w.d + dd] - w.tag_at(slot, dd);
    assert(g != 0) by (nonlinear_arith) requires g == 1 * w.ns() * (1 - w.mk()), w.ns() * (1 - w.mk()) != 0;
    assert(e == 0) by (nonlinear_arith) requires g * e == 0, g != 0;
}
} // verus!
'''


def ungate_chains(f):
    """R11: `builder[.when_transition()][.when(G)]*.assert_zero(E)` -> `builder.gated_assert_zero(TRANS, G1, G2, E)` (at most two gates; missing gate = R::one())"""
    n = 0
    pos = 0
    while True:
        m = re.search(r'\bbuilder\s*\.\s*(when_transition|when)\s*\(', f.body[pos:])
        if not m:
            break
        st = pos + m.start()
        en = f.body.index(';', st)
        # the statement may contain ';' inside parens: extend to the matching end
        depth = 0
        i = st
        while i < len(f.body):
            ch = f.body[i]
            if ch in '([{':
                i = match_brace(f.body, i)
            elif ch == ';':
                break
            i += 1
        en = i
        head, calls = _split_method_chain(f.body[st:en])
        if head.strip() != 'builder' or calls[-1][0] != 'assert_zero':
            pos = en
            continue
        trans, gates = 'false', []
        for name, arg in calls[:-1]:
            if name == 'when_transition':
                trans = 'true'
            elif name == 'when':
                gates.append(arg.strip())
            else:
                raise ExtractError(f'{f.qual}: filter .{name}(..) outside the gate flattener')
        if len(gates) > 2:
            raise ExtractError(f'{f.qual}: more than two gates')
        while len(gates) < 2:
            gates.append('R::one()')
        new = f'builder.gated_assert_zero({trans}, {gates[0]}, {gates[1]}, {calls[-1][1].strip().rstrip(",")})'
        f.body = f.body[:st] + new + f.body[en:]
        pos = st + len(new)
        n += 1
    if n:
        f.rewrites.append(('R11', f'{n} filter chain(s) `builder[.when_transition()][.when(g)]*.assert_zero(e)` flattened to gated_assert_zero(transition, g1, g2, e)', ''))
    return f


def build():
    u = Unit('pchain', ['C06', 'C11'])
    u.rlimit = 120
    u.assume('ring elements modelled as integers (integral domain; a gated constraint g*e = 0 with g != 0 forces e = 0 in every field as well); AB::Var / AB::Expr erased to R, `.into()`/`.clone()` identities (R11)')
    u.assume('the filter chain builder.when_transition().when(g).assert_zero(e) asserts transition_selector * g * e = 0 (p3-air FilteredAirBuilder); the transition selector is non-zero exactly on transition rows')
    u.text(AIR_PRELUDE)
    u.text(SPEC)
    P = 'poseidon-circuit-cols/src/preprocessed.rs'
    h = u.extract(P, '', 'poseidon_d1_compact_preprocessed_header_cols', 'poseidon_d1_compact_preprocessed_header_cols')
    h.requires('small', 'rate_ext < 0x1000')
    h.ensures('header_width', 'ret == rate_ext + 2 + rate_ext + rate_ext')
    u.text('verus! {')
    u.emit(h, vis='pub')
    u.text('pub fn poseidon2_d1_compact_preprocessed_header_cols(rate_ext: usize) -> (r: usize) requires rate_ext < 0x1000 ensures r == rate_ext + 2 + rate_ext + rate_ext { poseidon_d1_compact_preprocessed_header_cols(rate_ext) }')
    u.text('}')

    for PFX, A in (('poseidon2', 'poseidon2-circuit-air/src/air.rs'), ('poseidon1', 'poseidon1-circuit-air/src/air.rs')):
        e = u.extract(A, '', 'eval', f'{PFX}::eval[compact_chaining]')
        slice_loop_body(e, r'if ' + PFX + r'_uses_compact_d1_preprocessed\(D, WIDTH_EXT, RATE_EXT\) \{', 'prefix: arity-4 dispatch, row borrows, direction-bit booleanity; the else-branch (extension-mode layout) and the round constraints that follow')
        e.set_sig('R11', 'fn eval<const D: usize, const WIDTH_EXT: usize, const RATE_EXT: usize>(builder: &mut AB, local: &Cols, next: &Cols, local_out: &[R], next_in: &[R], next_preprocessed: &[R], next_bit: R)', sliced=True)
        e.rewrite_re('R9', r'debug_assert_eq!\(\s*next_preprocessed\.len\(\),\s*(.*?)\s*\);', r'assert(next_preprocessed.len() == \1);', flags_dotall=True)
        e.rewrite_re('R11', r'AB::Expr::ONE', 'R::one()')
        e.rewrite_re('R11', r'AB::Expr::ZERO', 'R::zero()')
        e.rewrite_re('R11', r'AB::Expr::TWO', 'R::two()')
        e.rewrite_re('R11', r'AB::(Expr|Var)\b(?!::)', 'R')
        e.rewrite_re('R11', r'\.into\(\)', '')
        e.rewrite_re('R6', r'(\w+) \+= ([^;]+);', r'\1 = \1 + \2;')
        e.rewrite_re('R11', r'\.clone\(\)', '')
        ungate_chains(e)
        W = 'Win { lo: iv(local_out@), ni: iv(next_in@), s: iv(next_preprocessed@), lsum: local.mmcs_index_sum.v@, nsum: next.mmcs_index_sum.v@, nbit: next_bit.v@, trans: old(builder).trans@, d: D as int, rate: RATE_EXT as int, width: WIDTH_EXT as int }'
        e.requires('window', f'({W}).wf() && next_bit == next.mmcs_bit')
        # C11 (open finding): no constraint pins mmcs_index_sum on a Merkle chain-start row (only the recurrence on continuation rows): the exposed index is 2^k * s + index(bits) with s prover-chosen
        e.ensures('H_the_index_accumulator_of_a_merkle_chain_start_row_is_pinned', f'final(builder).ok@ && ({W}).ns() == 1 && ({W}).mk() == 1 ==> index_accumulator_start_is_pinned(next.mmcs_index_sum.v@, next_bit.v@)')
        e.ensures('exactly_the_chaining_constraints_of_the_compact_table', f'final(builder).ok@ == (old(builder).ok@ && ({W}).chain_ok()) && final(builder).trans == old(builder).trans')
        e.at_start('let ghost w = ' + W.replace('old(builder)', 'builder') + '; let ghost ok0 = builder.ok@;'
                   ' proof { assert(w.width * w.d < 0x10_0000) by (nonlinear_arith) requires 0 < w.d < 0x100, 0 < w.width < 0x1000; }')
        # loop isolation is OFF for this function: the invariants must not name locals of the real code (a renamed or removed local would make the
        # unit fail to build instead of failing an obligation), so facts about those locals flow into the loops from their definitions
        e.attr('#[verifier::loop_isolation(false)]')
        CTX = 'w == (' + W + ') && w.wf() && builder.trans == old(builder).trans && ok0 == old(builder).ok@ && w.width * w.d < 0x10_0000 && next_bit == next.mmcs_bit'
        IDX = lambda v: f'proof {{ assert({v} * D + d < WIDTH_EXT * D) by (nonlinear_arith) requires 0 <= {v} < WIDTH_EXT, 0 <= d < D; assert({v} * D + d >= 0) by (nonlinear_arith) requires {v} >= 0, d >= 0, D >= 0; }}'
        from units.openin import after_loop_binding  # noqa
        # ---- inner loops (nth occurrence of `for d in 0..D`), innermost contracts first
        DONE1 = 'ok0 && w.rate_ok(w.rate)'
        DONE2 = DONE1 + ' && w.cap_ok(w.width)'
        DONE3 = DONE2 + ' && w.merkle_ok(w.rate)'
        specs = [
            # (outer head, outer var, lo, outer accumulated predicate(n), per-element predicate(limb, dd), extra ctx)
            ('for limb in 0..RATE_EXT', 'limb', 'ok0 && w.rate_ok({n})', 'w.c_rate({v}, {dd})', 'chain_en == s@[RATE_EXT + 2 + limb] && limb < RATE_EXT', 0),
            ('for limb in RATE_EXT..WIDTH_EXT', 'limb', DONE1 + ' && w.cap_ok({n})', 'w.c_cap({v}, {dd})', 'chain_en.v@ == w.cap_en() * (1 - w.mk()) && cap_tag.v@ == w.tagv() && RATE_EXT <= limb < WIDTH_EXT', 1),
            ('for i in 0..RATE_EXT', 'i', DONE2 + ' && w.merkle_ok({n})', 'w.c_left({v}, {dd}) && w.c_right({v}, {dd})', 'gate_left_i.v@ == w.merkle_help(i as int) * (1 - w.nbit) && gate_right_i.v@ == w.merkle_help(i as int) * w.nbit && i < RATE_EXT', 2),
            ('for slot in RATE_EXT..WIDTH_EXT', 'slot', DONE3 + ' && w.start_ok({n})', 'w.c_start({v}, {dd})', 'next_new_start.v@ == w.ns() && not_merkle.v@ == 1 - w.mk() && cap_tag.v@ == w.tagv() && RATE_EXT <= slot < WIDTH_EXT', 3),
        ]
        # a contract is attached only to a loop nest that is still there in this shape (outer head + inner `for d in 0..D`); a nest that was
        # rewritten keeps no loop contract and the function's postcondition decides (an obligation that held on the unchanged tree)
        def _nest_present(head):
            k = e.body.find(head + ' {')
            if k < 0:
                return False
            o = e.body.index('{', k)
            return 'for d in 0..D {' in e.body[o:match_brace(e.body, o)]
        specs = [sp for sp in specs if _nest_present(sp[0])]
        # the inner loops of the present nests, in source order: ordinal among all `for d in 0..D` loops
        _all_inner = [m.start() for m in re.finditer(r'for d in 0\.\.D \{', e.body)]
        def _inner_ordinal(head):
            k = e.body.find(head + ' {')
            o = e.body.index('{', k)
            first = e.body.index('for d in 0..D {', o)
            return _all_inner.index(first)
        ORD = {sp[5]: _inner_ordinal(sp[0]) for sp in specs}
        BYORD = {v_: k_ for k_, v_ in ORD.items()}
        SPEC_OF = {sp[5]: sp for sp in specs}
        # insertions first (anchors on bare loop heads), loop contracts afterwards
        cnt = [0]

        def inner_facts(mm):
            k_ = cnt[0]
            cnt[0] += 1
            if k_ not in BYORD:
                return mm.group(0)
            v = SPEC_OF[BYORD[k_]][1]
            extra = f' assert((RATE_EXT + {v}) * D + d < WIDTH_EXT * D) by (nonlinear_arith) requires RATE_EXT + {v} < WIDTH_EXT, 0 <= d < D;' if v == 'i' else ''
            return (f'for d in 0..D {{ proof {{ assert({v} * D + d < WIDTH_EXT * D) by (nonlinear_arith) requires 0 <= {v} < WIDTH_EXT, 0 <= d < D;'
                    f' assert({v} * D + d < {v} * D + D);{extra} }}')
        e.body = re.sub(r'for d in 0\.\.D \{', inner_facts, e.body)
        for head, v, acc, elem, extra, nth in specs:
            e.body = e.body.replace(head + ' {', head + f' {{ proof {{ assert({v} * D + D <= WIDTH_EXT * D) by (nonlinear_arith) requires 0 <= {v} < WIDTH_EXT, D > 0; }}', 1)
        # explicit step proofs (kept robust: each equality is stated, nothing is left to quantifier luck)
        ELEMS = {0: ['w.c_rate({v}, {dd})'], 1: ['w.c_cap({v}, {dd})'], 2: ['w.c_merkle({v}, {dd})'], 3: ['w.c_start({v}, {dd})']}
        ACCF = {0: 'rate_ok', 1: 'cap_ok', 2: 'merkle_ok', 3: 'start_ok'}
        LO = {0: '0', 1: 'w.rate', 2: '0', 3: 'w.rate'}
        # inner bodies: snapshot before the gated call(s), proof after them
        inner_heads = [m.start() for m in re.finditer(r'for d in 0\.\.D \{', e.body)]
        for nth in sorted(SPEC_OF, key=lambda q: -ORD[q]):
            v = SPEC_OF[nth][1]
            st = inner_heads[ORD[nth]]
            open_ = e.body.index('{', st)
            close = match_brace(e.body, open_)
            conj = ' && '.join(x.format(v=f'{v} as int', dd='d as int') for x in ELEMS[nth])
            allp = lambda hi: '(forall|dd: int| 0 <= dd < ' + hi + ' ==> ' + ' && '.join('#[trigger] ' + x.format(v=f'{v} as int', dd='dd') for x in ELEMS[nth]) + ')'
            proof = f''' proof {{
                        assert(builder.ok@ == (okb_ && {conj})); // @@A:constraint_{ACCF[nth]}_is_the_gated_residual_of_this_column
                        assert({allp('d + 1')} == ({allp('d as int')} && {conj})) by {{
                            if {allp('d as int')} && {conj} {{ assert forall|dd: int| 0 <= dd < d + 1 implies {' && '.join(x.format(v=f'{v} as int', dd='dd') for x in ELEMS[nth])} by {{ if dd == d {{ }} }} }}
                        }}
                    }}'''
            e.body = e.body[:close] + proof + e.body[close:]
            # snapshot right after the index-fact proof block that opens the body
            pb = e.body.index('proof {', open_)
            pe = match_brace(e.body, e.body.index('{', pb))
            e.body = e.body[:pe + 1] + ' let ghost okb_ = builder.ok@;' + e.body[pe + 1:]
        # outer bodies: accumulated predicate grows by one limb
        for head, v, acc, elem, extra, nth in specs:
            allD = '(forall|dd: int| 0 <= dd < w.d ==> ' + ' && '.join('#[trigger] ' + x.format(v=f'{v} as int', dd='dd') for x in ELEMS[nth]) + ')'
            e.at_loop_end(head, f'''proof {{
                    assert(w.{ACCF[nth]}({v} + 1) == (w.{ACCF[nth]}({v} as int) && {allD})) by {{
                        if w.{ACCF[nth]}({v} as int) && {allD} {{
                            assert forall|l_: int, dd: int| {LO[nth]} <= l_ < {v} + 1 && 0 <= dd < w.d implies {' && '.join(x.format(v='l_', dd='dd') for x in ELEMS[nth])} by {{ if l_ == {v} {{ }} }}
                        }}
                        if w.{ACCF[nth]}({v} + 1) {{
                            assert forall|dd: int| 0 <= dd < w.d implies {' && '.join(x.format(v=f'{v} as int', dd='dd') for x in ELEMS[nth])} by {{ }}
                        }}
                    }}
                }}''')
        for nth in sorted(SPEC_OF, key=lambda q: -ORD[q]):
            head, v, acc, elem, extra, _ = SPEC_OF[nth]
            e.loop('for d in 0..D', nth=ORD[nth], invariants=[
                ('ctx', CTX + f' && {v} * D + D <= WIDTH_EXT * D'),
                ('columns_of_this_limb_so_far', 'builder.ok@ == (' + acc.format(n=f'{v} as int') + ' && forall|dd: int| 0 <= dd < d ==> ' + ' && '.join('#[trigger] ' + x.format(v=f'{v} as int', dd='dd') for x in ELEMS[nth]) + ')'),
            ])
        for head, v, acc, elem, extra, nth in specs:
            e.loop(head, invariants=[
                ('ctx', CTX),
                ('limbs_so_far', 'builder.ok@ == (' + acc.format(n=f'{v} as int') + ')'),
            ])
        e.rewrite_re('R11', PFX + r'_d1_compact_preprocessed_header_cols', 'poseidon2_d1_compact_preprocessed_header_cols')
        u.text('verus! { mod ' + PFX + '_slice { use super::*;')
        u.emit(e, vis='')
        u.text('} }')
    return u
