"""unit pcswrap (C20): the domain operations the two RecursivePcs impls (TwoAdicFriPcs, HidingFriPcs) hand to the verifier
Real text: recursion/src/pcs/fri/targets.rs  impl RecursivePcs for {TwoAdicFriPcs, HidingFriPcs}::{evaluate_periodic_columns_at_point_circuit, create_disjoint_domain,
split_domains, log_size, first_point} (whole, both impls)

The verifiers (stark.rs / batch_stark.rs) pass the SAME domains the native verifier uses (the un-doubled initial trace domain under ZK included) and reach the gadgets of units
periodic / quot / gad only through these trait methods: each must be the native operation on the domain it is GIVEN -- no re-scaling, no other coset.
"""
from vf.unit import Unit

PRELUDE = r'''
#![allow(unused_imports, unused_variables, dead_code, unused_mut, unused_parens)]
use vstd::prelude::*;
verus! {
#[derive(Clone, Copy, PartialEq, Eq, Structural)] pub struct Fv(pub u64);
#[derive(Clone, Copy, PartialEq, Eq, Structural)] pub struct Bv(pub u64);
#[derive(Clone, Copy, PartialEq, Eq, Structural)] pub struct Target(pub u32);
pub struct VerificationError { pub _p: () }
pub struct CircuitBuilder { pub _p: () }
/// TwoAdicMultiplicativeCoset<Val<SC>> (R11): an opaque domain with its native operations
#[derive(Clone, Copy, PartialEq, Eq, Structural)] pub struct Dom { pub id: int }
pub uninterp spec fn sp_disjoint(d: Dom, degree: usize) -> Dom;
pub uninterp spec fn sp_split(d: Dom, degree: usize) -> Seq<Dom>;
pub uninterp spec fn sp_log_size(d: Dom) -> usize;
pub uninterp spec fn sp_first_point(d: Dom) -> Bv;
pub uninterp spec fn sp_lift(v: Bv) -> Fv;
impl Dom {
    #[verifier::external_body] pub fn create_disjoint_domain(self, degree: usize) -> (r: Dom) ensures r == sp_disjoint(self, degree) { unimplemented!() }
    #[verifier::external_body] pub fn split_domains(&self, degree: usize) -> (r: Vec<Dom>) ensures r@ == sp_split(*self, degree) { unimplemented!() }
    #[verifier::external_body] pub fn log_size(&self) -> (r: usize) ensures r == sp_log_size(*self) { unimplemented!() }
    #[verifier::external_body] pub fn first_point(&self) -> (r: Bv) ensures r == sp_first_point(*self) { unimplemented!() }
    /// other cosets one can derive from a domain: SOME coset, unrelated to the given one as far as the wrappers' contracts go
    #[verifier::external_body] pub fn shrink_coset(&self, log_scale: usize) -> (r: Option<Dom>) { unimplemented!() }
    #[verifier::external_body] pub fn exp_power_of_2(&self, k: usize) -> (r: Option<Dom>) { unimplemented!() }
}
#[verifier::external_body] pub fn lift_(v: Bv) -> (r: Fv) ensures r == sp_lift(v) { unimplemented!() }
/// crate::verifier::evaluate_periodic_columns_circuit (under contract in unit periodic): its result is a function of the builder state, the domain, the columns and the point
pub uninterp spec fn sp_periodic(c: CircuitBuilder, d: Dom, cols: Seq<Vec<Bv>>, point: Target) -> (Result<Vec<Target>, VerificationError>, CircuitBuilder);
#[verifier::external_body]
pub fn evaluate_periodic_columns_circuit(circuit: &mut CircuitBuilder, domain: &Dom, periodic_columns: &[Vec<Bv>], point: Target) -> (r: Result<Vec<Target>, VerificationError>)
    ensures (r, *final(circuit)) == sp_periodic(*old(circuit), *domain, periodic_columns@, point)
{ unimplemented!() }
pub struct TwoAdicFriPcsStub { pub _p: () }
pub struct HidingFriPcsStub { pub _p: () }
} // verus!
'''


def build():
    u = Unit('pcswrap', ['C20'])
    u.rlimit = 20
    u.assume('type erasure R11: the domain type is opaque with uninterpreted native operations; evaluate_periodic_columns_circuit is under contract in unit periodic and enters here as a function of (builder state, domain, columns, point)')
    u.text(PRELUDE)
    T = 'recursion/src/pcs/fri/targets.rs'
    for tag, container in (('TwoAdicFriPcs', r'impl<SC, Dft, Comm, InputMmcs, RecursiveInputMmcs, RecursiveFriMmcs, FriMmcs> RecursivePcs<'),
                           ('HidingFriPcs', r'impl<SC, Dft, Comm, InputMmcs, RecursiveInputMmcs, RecursiveFriMmcs, FriMmcs, R> RecursivePcs<')):
        fns = []
        f = u.extract(T, container, 'evaluate_periodic_columns_at_point_circuit', f'{tag}::evaluate_periodic_columns_at_point_circuit')
        f.set_sig('R11', 'fn evaluate_periodic_columns_at_point_circuit(&self, circuit: &mut CircuitBuilder, domain: &Dom, periodic_columns: &[Vec<Bv>], point: Target) -> Result<Vec<Target>, VerificationError>')
        f.rewrite_re('R12', r'crate::verifier::evaluate_periodic_columns_circuit\(', 'evaluate_periodic_columns_circuit(', min_count=0)
        f.ensures('the_periodic_columns_are_evaluated_over_the_domain_the_verifier_passes', '(ret, *final(circuit)) == sp_periodic(*old(circuit), *domain, periodic_columns@, point)')
        fns.append(f)
        f = u.extract(T, container, 'create_disjoint_domain', f'{tag}::create_disjoint_domain')
        f.set_sig('R11', 'fn create_disjoint_domain(&self, trace_domain: Dom, degree: usize) -> Dom')
        f.ensures('the_native_disjoint_domain_of_the_given_domain', 'ret == sp_disjoint(trace_domain, degree)')
        fns.append(f)
        f = u.extract(T, container, 'split_domains', f'{tag}::split_domains')
        f.set_sig('R11', 'fn split_domains(&self, trace_domain: &Dom, degree: usize) -> Vec<Dom>')
        f.ensures('the_native_split_of_the_given_domain', 'ret@ == sp_split(*trace_domain, degree)')
        fns.append(f)
        f = u.extract(T, container, 'log_size', f'{tag}::log_size')
        f.set_sig('R11', 'fn log_size(&self, trace_domain: &Dom) -> usize')
        f.ensures('the_log_size_of_the_given_domain', 'ret == sp_log_size(*trace_domain)')
        fns.append(f)
        f = u.extract(T, container, 'first_point', f'{tag}::first_point')
        f.set_sig('R11', 'fn first_point(&self, trace_domain: &Dom) -> Fv')
        f.rewrite_re('R11', r'(\w+)\.first_point\(\)\.into\(\)', r'lift_(\1.first_point())', min_count=0)
        f.ensures('the_first_point_of_the_given_domain_lifted', 'ret == sp_lift(sp_first_point(*trace_domain))')
        fns.append(f)
        u.text(f'verus! {{\nimpl {tag}Stub {{')
        for f in fns:
            u.emit(f)
        u.text('}\n}')
    return u
