"""Unit `periodic` (C20): the in-circuit value of a periodic column at the opening point is the native one,
P(point^(2^folds)) with P the interpolant over the order-`period` sub-coset (coefficients = coset inverse DFT of the column,
a build-time constant).  Real text: recursion/src/verifier/periodic.rs {evaluate_one, evaluate_periodic_columns_circuit}.
The signature is erased by type substitution only (parameters are kept as they are in the source)."""
import os
import re

from vf.extract import match_brace
from vf.unit import Unit
from units.fri import SPEC as FRI_SPEC

HERE = os.path.dirname(os.path.abspath(__file__))

SPEC = r'''
verus! {
/// a native base-field value (build-time constant)
#[derive(Clone, Copy)]
pub struct NF { pub id: Ghost<int> }
pub uninterp spec fn npow2(x: NF, k: nat) -> NF;                       // x^(2^k) natively
pub uninterp spec fn idft(col: Seq<NF>, shift: NF) -> Seq<NF>;         // Radix2Dit coset_idft: ascending monomial coefficients of the interpolant
pub uninterp spec fn lift<F: Field>(x: NF) -> F;                       // Challenge::from(base)
pub open spec fn lift_seq<F: Field>(s: Seq<NF>) -> Seq<F> { Seq::new(s.len(), |i: int| lift::<F>(s[i])) }
impl NF {
    #[verifier::external_body]
    pub fn exp_power_of_2(&self, k: usize) -> (r: NF) ensures r == npow2(*self, k as nat) { unimplemented!() }
}
pub struct TwoAdicMultiplicativeCoset { pub log_n: usize, pub sh: NF }
impl TwoAdicMultiplicativeCoset {
    pub open spec fn wf(&self) -> bool { self.log_n < 64 }
    #[verifier::external_body]
    pub fn size(&self) -> (r: usize) requires self.wf() ensures r == pow2(self.log_n as nat) { unimplemented!() }
    pub fn log_size(&self) -> (r: usize) ensures r == self.log_n { self.log_n }
    pub fn shift(&self) -> (r: NF) ensures r == self.sh { self.sh }
}
#[verifier::external_body]
pub fn is_power_of_two_(n: usize) -> (r: bool) ensures r == exists|k: nat| k < 64 && pow2(k) == n { unimplemented!() }
#[verifier::external_body]
pub fn log2_strict_usize(n: usize) -> (r: usize) requires exists|k: nat| k < 64 && pow2(k) == n ensures r < 64, pow2(r as nat) == n { unimplemented!() }
/// `Radix2Dit::default().coset_idft(col.to_vec(), shift)`
#[verifier::external_body]
pub fn coset_idft_(col: &[NF], shift: NF) -> (r: Vec<NF>) ensures r@ == idft(col@, shift), r@.len() == col@.len() { unimplemented!() }
pub trait LiftX: FieldX { fn from_base(x: NF) -> (r: Self) ensures r == lift::<Self>(x); }
#[derive(Debug)]
pub enum VerificationError { InvalidProofShape(ErrMsg) }
#[derive(Debug)]
pub struct ErrMsg { pub _p: () }
#[verifier::external_body]
pub fn errmsg() -> ErrMsg { unimplemented!() }
impl<F: Field> CircuitBuilder<F> {
    /// verified in unit gad
    #[verifier::external_body]
    pub fn exp_power_of_2(&mut self, base: ExprId, power_log: usize) -> (r: ExprId)
        requires old(self).has(base)
        ensures final(self).extends_pure(old(self)), final(self).has(r), final(self).val(r) == fpow(old(self).val(base), pow2(power_log as nat))
    { unimplemented!() }
}
/// the native value: PolynomialSpace::evaluate_periodic_column_at on a two-adic coset
pub open spec fn periodic_at<F: Field>(col: Seq<NF>, shift: NF, log_n: nat, log_period: nat, point: F) -> F {
    let folds = (log_n - log_period) as nat;
    poly_eval(lift_seq::<F>(idft(col, npow2(shift, folds))), fpow(point, pow2(folds)))
}
/// target t carries the native periodic value of column `col`
pub open spec fn col_ok<F: Field>(cb: &CircuitBuilder<F>, t: ExprId, col: Seq<NF>, shift: NF, log_n: nat, point: F) -> bool {
    cb.has(t) && exists|lp: nat| lp <= log_n && pow2(lp) == col.len() && cb.val(t) == periodic_at::<F>(col, shift, log_n, lp, point)
}
pub proof fn lemma_pow2_mono(a: nat, b: nat) requires pow2(a) <= pow2(b) ensures a <= b decreases a {
    if a > b { lemma_pow2_strict(b, a); }
}
pub proof fn lemma_pow2_strict(a: nat, b: nat) requires a < b ensures pow2(a) < pow2(b) decreases b {
    lemma_pow2_pos(a);
    if b == a + 1 { } else { lemma_pow2_strict(a, (b - 1) as nat); }
}
pub proof fn lemma_pow2_inj(a: nat, b: nat) requires pow2(a) == pow2(b) ensures a == b {
    lemma_pow2_mono(a, b); lemma_pow2_mono(b, a);
}
} // verus!
'''

TYPES = [(r'CircuitBuilder<Challenge>', 'CircuitBuilder<EF>'), (r'TwoAdicMultiplicativeCoset<Val>', 'TwoAdicMultiplicativeCoset'), (r'&\[Vec<Val>\]', '&[Vec<NF>]'), (r'&\[Val\]', '&[NF]')]


def erase_sig(f, generic):
    """R11 by type substitution: generics and the where clause are replaced, every parameter stays as written in the source"""
    sig = f.sig
    sig = re.sub(r'<Val, Challenge>', generic, sig, count=1)
    sig = re.sub(r'\s*where\b.*$', '', sig, flags=re.S)
    for a, b in TYPES:
        sig = re.sub(a, b, sig)
    f.sig = sig
    f.rewrites.append(('R11', 'signature: generics <Val, Challenge> + where clause erased to <EF: LiftX>, Val -> NF (parameters unchanged)', ''))
    return f


def build():
    u = Unit('periodic', ['C20'])
    u.rlimit = 80
    u.assume('native constants: x^(2^k), the coset inverse DFT (ascending monomial coefficients of the interpolant) and Challenge::from(base) are uninterpreted functions npow2 / idft / lift; '
             'is_power_of_two / log2_strict_usize / domain.size() have their arithmetic meaning (stubs)')
    u.assume('builder contracts define_const / mul_add (prelude) and exp_power_of_2 (proved in unit gad); field laws')
    u.text(open(os.path.join(HERE, 'gadget_prelude.rs')).read())
    u.text(FRI_SPEC)
    u.text(SPEC)
    P = 'recursion/src/verifier/periodic.rs'

    e = erase_sig(u.extract(P, '', 'evaluate_one', 'evaluate_one'), '<EF: LiftX>')
    e.erase_error_messages('VerificationError::InvalidProofShape')
    e.rewrite_re('R6', r'!(\w+)\.is_power_of_two\(\)', r'!is_power_of_two_(\1)', min_count=1)
    e.rewrite_re('R6', r'let coeffs: Vec<Val> = Radix2Dit::default\(\)\.coset_idft\(col\.to_vec\(\), sub_shift\);', 'let coeffs: Vec<NF> = coset_idft_(col, sub_shift);', min_count=1)
    e.rewrite_re('R6', r'let \(&leading, rest\) = coeffs\s*\.split_last\(\)\s*\.expect\("[^"]*"\);', 'let leading = coeffs[coeffs.len() - 1]; let rest = &coeffs[..coeffs.len() - 1];', min_count=1)
    e.rewrite_re('R11', r'Challenge::from\((\w+)\)', r'EF::from_base(\1)', min_count=2)
    e.rewrite_re('R5', r'for &c in rest\.iter\(\)\.rev\(\) \{', 'for r_ in 0..rest.len() { let c = rest[rest.len() - 1 - r_];', min_count=1)
    # R6 (general): `*OPT.get_or_insert_with(|| E)` on a `&mut Option<T>`
    e.rewrite_re('R6', r'\*(\w+)\.get_or_insert_with\(\|\| ([^;]+)\);', r'(match *\1 { Some(v_) => v_, None => { let v_ = \2; *\1 = Some(v_); v_ } });')
    e.requires('allocated', 'old(circuit).has(point) && domain.wf()')
    e.ensures('frame', 'final(circuit).extends_pure(old(circuit))')
    e.ensures('malformed_column_is_rejected', '''({ let pw = exists|k: nat| k < 64 && pow2(k) == col@.len(); (!pw || col@.len() > pow2(domain.log_n as nat)) ==> ret is Err })''')
    e.ensures('native_periodic_value', '''ret matches Ok(t) ==> final(circuit).has(t) && exists|lp: nat| lp <= domain.log_n && pow2(lp) == col@.len()
            && final(circuit).val(t) == periodic_at::<EF>(col@, domain.sh, domain.log_n as nat, lp, old(circuit).val(point))''')
    e.after('let log_period = log2_strict_usize(period);', 'proof { lemma_pow2_mono(log_period as nat, domain.log_n as nat); }')
    e.after('let coeffs: Vec<NF> = coset_idft_(col, sub_shift);', 'proof { lemma_pow2_pos(log_period as nat); }')
    e.after('let rest = &coeffs[..coeffs.len() - 1];', '''let ghost cv = lift_seq::<EF>(coeffs@); let ghost n = coeffs@.len() as int; let ghost lp = log_period as nat;
        let ghost x = fpow(circuit.val(point), pow2(folds as nat));
        proof { lemma_pow2_pos(lp); assert(n >= 1); assert(cv.subrange(n - 1, n).subrange(1, 1) =~= Seq::<EF>::empty()); reveal_with_fuel(poly_eval, 2); }''')
    e.before('if rest.is_empty() { return Ok(acc); }', '''proof {
            // a single coefficient: P is constant
            if n == 1 { lemma_mul_zero_right(x); EF::add_zero(cv[0]); assert(cv.subrange(0, 1) =~= cv); assert(poly_eval(cv, x) == cv[0]); }
            assert(poly_eval(cv.subrange(n - 1, n), x) == cv[n - 1]) by { lemma_mul_zero_right(x); EF::add_zero(cv[n - 1]); assert(cv.subrange(n - 1, n)[0] == cv[n - 1]); }
        }''')
    e.loop('for r_ in 0..rest.len()', invariants=[
        ('frame', 'circuit.extends_pure(old(circuit)) && circuit.has(acc) && circuit.has(zp) && circuit.val(zp) == x'),
        ('shape', 'rest@ == coeffs@.subrange(0, n - 1) && n == coeffs@.len() && n >= 2 && cv == lift_seq::<EF>(coeffs@)'),
        ('horner_suffix', 'circuit.val(acc) == poly_eval(cv.subrange(n - 1 - r_, n), x)'),
    ])
    e.at_loop_end('for r_ in 0..rest.len()', '''proof {
            let k = n - 2 - r_;
            let suf = cv.subrange(k, n);
            assert(suf.subrange(1, suf.len() as int) =~= cv.subrange(k + 1, n));
            assert(suf[0] == cv[k]);
            assert(cv[k] == lift::<EF>(c));
            EF::mul_comm(poly_eval(cv.subrange(k + 1, n), x), x);
            EF::add_comm(x.fmul(poly_eval(cv.subrange(k + 1, n), x)), cv[k]);
        }''')
    e.bind_tail('r_ok', 'proof { assert(cv.subrange(0, n) =~= cv); }')

    a = erase_sig(u.extract(P, '', 'evaluate_periodic_columns_circuit', 'evaluate_periodic_columns_circuit'), '<EF: LiftX>')
    # R6 (general): `XS.iter().map(|x| CALL).collect()` of Results -> loop with `?` (CALL kept verbatim)
    m = re.search(r'(\w+)\s*\.iter\(\)\s*\.map\(\|(\w+)\|\s*', a.body)
    if m:
        st = m.end()
        depth, i = 0, st
        while True:
            ch = a.body[i]
            if ch in '([{':
                i = match_brace(a.body, i)
            elif ch == ')':
                break
            i += 1
        call = a.body[st:i]
        rest = a.body[i + 1:]
        m2 = re.match(r'\s*\.collect\(\)', rest)
        if m2:
            new = (f'{{ let mut out_: Vec<Target> = Vec::new(); for ci_ in 0..{m.group(1)}.len() {{ let {m.group(2)} = &{m.group(1)}[ci_]; let ghost circ_b = *circuit; let ghost out_b = out_@; let t_ = {call}?; out_.push(t_); }} Ok(out_) }}')
            a.body = a.body[:m.start()] + new + rest[m2.end():]
            a.rewrites.append(('R6', '`xs.iter().map(|x| CALL).collect::<Result<Vec<_>,_>>()` -> loop pushing `CALL?` (CALL kept verbatim)', ''))
    a.requires('allocated', 'old(circuit).has(point) && domain.wf()')
    a.ensures('frame', 'final(circuit).extends_pure(old(circuit))')
    a.ensures('every_column_native', """ret matches Ok(v) ==> v@.len() == periodic_columns@.len() && forall|c: int| 0 <= c < v@.len() ==>
            col_ok(final(circuit), #[trigger] v@[c], periodic_columns@[c]@, domain.sh, domain.log_n as nat, old(circuit).val(point))""")
    a.at_loop_end('for ci_ in 0..periodic_columns.len()', """proof {
            assert(col_ok(circuit, t_, periodic_columns@[ci_ as int]@, domain.sh, domain.log_n as nat, old(circuit).val(point))) by { assert(circ_b.val(point) == old(circuit).val(point)); }
            assert forall|c: int| 0 <= c < out_@.len() implies col_ok(circuit, #[trigger] out_@[c], periodic_columns@[c]@, domain.sh, domain.log_n as nat, old(circuit).val(point)) by {
                if c < ci_ {
                    assert(out_@[c] == out_b[c]);
                    assert(col_ok(&circ_b, out_b[c], periodic_columns@[c]@, domain.sh, domain.log_n as nat, old(circuit).val(point)));
                    assert(circuit.val(out_b[c]) == circ_b.val(out_b[c]));
                }
            }
        }""")
    a.loop('for ci_ in 0..periodic_columns.len()', invariants=[
        ('frame', 'circuit.extends_pure(old(circuit)) && old(circuit).has(point) && domain.wf()'),
        ('done', 'out_@.len() == ci_ && forall|c: int| 0 <= c < ci_ ==> col_ok(circuit, #[trigger] out_@[c], periodic_columns@[c]@, domain.sh, domain.log_n as nat, old(circuit).val(point))'),
    ])
    u.text('''verus! {
pub proof fn lemma_mul_zero_right<F: Field>(a: F) ensures a.fmul(F::fzero()) == F::fzero() { F::mul_comm(a, F::fzero()); lemma_mul_zero_left(a); }
''')
    u.emit(e)
    u.emit(a)
    u.text('}')
    return u
