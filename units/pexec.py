"""Unit `pexec` (C19): PoseidonPermExecutor::resolve_private_data (circuit/src/ops/poseidon_perm/executor.rs) -- private (sibling) data
attached to a permutation row is either consumed (Merkle mode) or reported as an error; it is never silently ignored."""
import re

from vf.extract import ExtractError
from vf.unit import Unit, drop_capacity_hints

PRELUDE = r'''
#![allow(unused_imports, unused_variables, dead_code, unused_mut, unused_parens)]
use vstd::prelude::*;
verus! {
global size_of usize == 8;
pub trait Field: Sized + Copy {}
#[derive(Clone, Copy)] pub struct NpoTypeId(pub u64);
#[derive(Clone, Copy)] pub struct NonPrimitiveOpId(pub u32);
pub struct ErrStr { pub _p: () }
#[verifier::external_body] pub fn errstr() -> ErrStr { unimplemented!() }
pub enum CircuitError { IncorrectNonPrimitiveOpPrivateData { op: NpoTypeId, operation_index: NonPrimitiveOpId, expected: ErrStr, got: ErrStr }, PrivateDataNotSet, Other }
pub struct PoseidonPermPrivateData<F> { pub sibling: Vec<F> }
/// the type-erased private data of one op (Box<dyn Any>)
pub struct AnyData<F> { pub perm: Option<PoseidonPermPrivateData<F>> }
impl<F> AnyData<F> {
    /// `downcast_ref::<PoseidonPermPrivateData<F>>()`: Some exactly when the attached data has that type
    pub fn downcast_perm(&self) -> (r: Option<&PoseidonPermPrivateData<F>>) ensures r == (match self.perm { Some(p) => Some(&p), None => None::<&PoseidonPermPrivateData<F>> })
    { match &self.perm { Some(p) => Some(p), None => None } }
}
pub struct ExecutionContext<F> { pub private_data: Option<AnyData<F>>, pub op_id: NonPrimitiveOpId }
impl<F> ExecutionContext<F> {
    pub fn get_private_data(&self) -> (r: Result<&AnyData<F>, CircuitError>) ensures (r matches Ok(d) ==> self.private_data == Some(*d)) && (r is Err ==> self.private_data is None)
    { match &self.private_data { Some(d) => Ok(d), None => Err(CircuitError::PrivateDataNotSet) } }
    pub fn operation_id(&self) -> (r: NonPrimitiveOpId) ensures r == self.op_id { self.op_id }
    /// the sibling data attached to this op, if any (private data present AND of the permutation's sibling type)
    pub open spec fn sibling(&self) -> Option<Seq<F>> { match self.private_data { Some(d) => (match d.perm { Some(p) => Some(p.sibling@), None => None }), None => None } }
}
#[derive(Clone, Copy)]
pub struct PermCfg { pub wext: usize, pub dd: usize, pub a4: bool }
impl PermCfg {
    pub fn width_ext(&self) -> (r: usize) ensures r == self.wext { self.wext }
    pub fn d(&self) -> (r: usize) ensures r == self.dd { self.dd }
    pub fn is_arity4_shape(&self) -> (r: bool) ensures r == self.a4 { self.a4 }
    #[verifier::external_body] pub fn rate_ext(&self) -> usize { unimplemented!() }
}
pub struct PoseidonPermExecutor { pub op_type: NpoTypeId, pub merkle_path: bool, pub new_start: bool, pub absorb_len: usize, pub config: PermCfg }
impl PoseidonPermExecutor {
    /// the base-field row itself / the extension and Merkle path of `execute` (opaque: they may fail for their own reasons)
    #[verifier::external_body] pub fn execute_base_<F: Field>(&self, ctx: &ExecutionContext<F>) -> Result<(), CircuitError> { unimplemented!() }
    #[verifier::external_body] pub fn execute_ext_<F: Field>(&self, ctx: &ExecutionContext<F>) -> Result<(), CircuitError> { unimplemented!() }
}
/// the pre-permutation state under assembly, by the sequence of assembly steps applied to it
pub struct StateLog { pub log: Ghost<Seq<int>> }
pub spec const ST_INIT: int = 0; pub spec const ST_PLACE: int = 1; pub spec const ST_SIBLINGS: int = 2; pub spec const ST_WITNESS: int = 3; pub spec const ST_SWAP: int = 4;
impl PoseidonPermExecutor {
    #[verifier::external_body] pub fn init_chain_state_(&self) -> (r: Result<StateLog, CircuitError>) ensures r matches Ok(s) ==> s.log@ == seq![ST_INIT] { unimplemented!() }
    #[verifier::external_body] pub fn place_arity4_running_hash_(&self, s: &mut StateLog) ensures final(s).log@ == old(s).log@.push(ST_PLACE) { unimplemented!() }
    #[verifier::external_body] pub fn fill_sibling_data_(&self, s: &mut StateLog) ensures final(s).log@ == old(s).log@.push(ST_SIBLINGS) { unimplemented!() }
    #[verifier::external_body] pub fn apply_witness_values_(&self, s: &mut StateLog) -> (r: Result<(), CircuitError>) ensures final(s).log@ == old(s).log@.push(ST_WITNESS) { unimplemented!() }
    #[verifier::external_body] pub fn apply_merkle_swap_(&self, s: &mut StateLog) ensures final(s).log@ == old(s).log@.push(ST_SWAP) { unimplemented!() }
}
pub struct RecomposeExecutor { pub op_type: NpoTypeId, pub d: usize }
impl RecomposeExecutor {
    #[verifier::external_body] pub fn execute_row_<F: Field>(&self, ctx: &ExecutionContext<F>) -> Result<(), CircuitError> { unimplemented!() }
}
/// the preprocessed-column writer of one table row: the committed columns in order (by value)
pub struct PrepWriter { pub cols: Ghost<Seq<Fe>> }
pub uninterp spec fn wid_fe(w: WitnessId) -> Fe;
pub open spec fn wids_fe(ws: Seq<WitnessId>) -> Seq<Fe> { Seq::new(ws.len(), |i: int| wid_fe(ws[i])) }
impl PrepWriter {
    #[verifier::external_body]
    pub fn register_non_primitive_preprocessed_no_read(&mut self, op: &NpoTypeId, v: &[Fe]) ensures final(self).cols@ == old(self).cols@ + v@ { unimplemented!() }
    #[verifier::external_body]
    pub fn register_non_primitive_witness_reads(&mut self, op: &NpoTypeId, ws: &Vec<WitnessId>) -> (r: Result<(), CircuitError>)
        ensures r is Ok ==> final(self).cols@ == old(self).cols@ + wids_fe(ws@), r is Err ==> final(self).cols@ == old(self).cols@ { unimplemented!() }
    #[verifier::external_body]
    pub fn witness_index_as_field(&self, w: WitnessId) -> (r: Fe) ensures r == wid_fe(w) { unimplemented!() }
}
#[verifier::external_body] pub fn vec_of1(a: Fe) -> (r: Vec<Fe>) ensures r@ == seq![a] { unimplemented!() }
#[verifier::external_body] pub fn vec_of2(a: Fe, b: Fe) -> (r: Vec<Fe>) ensures r@ == seq![a, b] { unimplemented!() }
#[derive(Clone, Copy, PartialEq, Eq, Structural)] pub struct WitnessId(pub u32);
#[derive(Clone, Copy, PartialEq, Eq, Structural)] pub struct Fe(pub u64);
pub uninterp spec fn fe_bool(b: bool) -> Fe;
pub uninterp spec fn fe_u8(v: u8) -> Fe;
impl Fe {
    #[verifier::external_body] pub fn from_bool(b: bool) -> (r: Fe) ensures r == fe_bool(b) { unimplemented!() }
    #[verifier::external_body] pub fn from_u8(v: u8) -> (r: Fe) ensures r == fe_u8(v) { unimplemented!() }
}
/// every sibling limb of the row is witness-fed or chained: the row needs no private data (depends on the row's input slots, which resolve_private_data does not look at)
pub uninterp spec fn no_free_sibling_limb(e: &PoseidonPermExecutor) -> bool;
/// no sibling limb of the row is also fed from the witness (apply_witness_values runs after fill_sibling_data and silently overwrites a contradicting private sibling)
pub uninterp spec fn no_sibling_limb_is_witness_fed(e: &PoseidonPermExecutor) -> bool;
/// the number of sibling limbs fill_sibling_data places for this row (capacity_ext for arity 2; the free chunks for arity 4)
pub uninterp spec fn sibling_limbs_consumed(e: &PoseidonPermExecutor) -> int;
/// an input limb is read from the witness bus (CTL enabled): it names a witness
pub open spec fn sp_ctl(inp: Seq<WitnessId>) -> bool { inp.len() > 0 }
/// the committed header of a compact D=1 row:  [in_ctl_i]_{i<rate} ++ [absorb_len, cap_chain_enable] ++ [normal_chain_i]_{i<rate} ++ [merkle_chain_i]_{i<rate}
///  * the capacity is handed over in-table on EVERY row that continues a chain (`!new_start`), whatever it absorbs;
///  * a rate limb chains from the previous normal / Merkle output exactly when the row continues a chain of that kind and the limb is not witness-fed
pub open spec fn compact_header(e: &PoseidonPermExecutor, inputs: Seq<Vec<WitnessId>>, rate: int) -> Seq<Fe> {
    Seq::new((3 * rate + 2) as nat, |i: int|
        if i < rate { fe_bool(sp_ctl(inputs[i]@)) }
        else if i == rate { fe_u8(e.absorb_len as u8) }
        else if i == rate + 1 { fe_bool(!e.new_start) }
        else if i < 2 * rate + 2 { fe_bool(!e.new_start && !e.merkle_path && !sp_ctl(inputs[i - rate - 2]@)) }
        else { fe_bool(!e.new_start && e.merkle_path && !sp_ctl(inputs[i - 2 * rate - 2]@)) })
}
} // verus!
'''


def build():
    u = Unit('pexec', ['C19', 'C06'])
    u.rlimit = 30
    u.assume('ExecutionContext / Box<dyn Any> private data modelled by an option of the one concrete type the executor downcasts to (R11); error strings opaque (R8)')
    u.text(PRELUDE)
    E = 'circuit/src/ops/poseidon_perm/executor.rs'
    r = u.extract(E, r'impl<V: PoseidonVariant> PoseidonPermExecutor<V>', 'resolve_private_data', 'PoseidonPermExecutor::resolve_private_data')
    r.set_sig('R11', "fn resolve_private_data<'a, F: Field>(&self, ctx: &'a ExecutionContext<F>) -> Result<Option<&'a [F]>, CircuitError>")
    r.rewrite_re('R11', r'(\w+)\.downcast_ref::<PoseidonPermPrivateData<F>>\(\)', r'\1.downcast_perm()', min_count=0)
    r.rewrite_re('R8', r'"[^"]*"\.to_string\(\)', 'errstr()', min_count=0)
    r.rewrite_re('R11', r'self\.op_type\.clone\(\)', 'self.op_type', min_count=0)
    r.ensures('sibling_data_on_a_row_that_cannot_consume_it_is_an_error', 'ctx.sibling() is Some && !self.merkle_path ==> ret is Err')
    # C19 "missing / wrong-length / wrongly typed private data is an error" (open findings; side observations of the round-13 C19 mutation agent, reproduced)
    r.ensures('private_data_of_another_type_is_an_error', 'ctx.private_data is Some && ctx.sibling() is None ==> ret is Err')
    r.ensures('H_a_merkle_row_without_private_data_has_no_free_sibling_limb', '(self.merkle_path && ret == Ok::<Option<&[F]>, CircuitError>(None)) ==> no_free_sibling_limb(self)')
    r.ensures('H_a_row_with_private_siblings_has_no_witness_fed_sibling_limb', 'ret matches Ok(Some(s)) ==> no_sibling_limb_is_witness_fed(self)')
    r.ensures('H_the_attached_sibling_has_the_length_the_row_consumes', 'ret matches Ok(Some(s)) ==> s@.len() == sibling_limbs_consumed(self)')
    r.ensures('ok_returns_exactly_the_attached_sibling', '(ret matches Ok(Some(s)) ==> self.merkle_path && ctx.sibling() == Some(s@)) && (ret matches Ok(None) ==> ctx.sibling() is None)')
    # ---------------------------------------------------------------- preprocess_inputs[compact D=1 header]: the committed selector columns of a compact row (C06)
    ph = u.extract(E, r'impl<V: PoseidonVariant> PoseidonPermExecutor<V>', 'preprocess_inputs', 'PoseidonPermExecutor::preprocess_inputs[compact_header]')
    m1 = re.search(r'let cap_chain_enable\b', ph.body)
    m2 = re.search(r'preprocessed\.register_non_primitive_preprocessed_no_read\(&self\.op_type, &hdr\);', ph.body)
    if not m1 or not m2 or m2.start() < m1.start():
        raise ExtractError('lost anchor in preprocess_inputs[compact_header]: the header construction')
    ph.body = '{\n' + ph.body[m1.start():m2.start()] + '\nhdr\n}'
    ph.rewrites.append(('R13', 'function body := the statements that build the header `hdr` of a compact D=1 row (from `let cap_chain_enable` to its registration); the slice returns `hdr`',
                        'prefix: layout dispatch and the capacity-slot check; suffix: per-limb index columns and the non-compact layout'))
    ph.set_sig('R11', 'fn preprocess_inputs_compact_header(&self, inputs: &Vec<Vec<WitnessId>>, rate_ext: usize) -> Vec<Fe>', sliced=True)
    drop_capacity_hints(ph)
    ph.rewrite_re('R7', r'let mut hdr = Vec::new\(\);', 'let mut hdr: Vec<Fe> = Vec::new();', min_count=0)
    k_ = [0]

    def take_loop(m):
        k_[0] += 1
        return f'let n_t{k_[0]}_ = if {m.group(3)} <= {m.group(2)}.len() {{ {m.group(3)} }} else {{ {m.group(2)}.len() }}; for t{k_[0]}_ in 0..n_t{k_[0]}_ {{ let {m.group(1)} = &{m.group(2)}[t{k_[0]}_];'
    ph.rewrite_re('R5', r'for (\w+) in (\w+)\.iter\(\)\.take\((\w+)\) \{', take_loop, min_count=0)
    ph.rewrite_re('R11', r'Self::limb_ctl_enabled\(', 'limb_ctl_enabled(', min_count=0)
    ph.rewrite_re('R11', r'\bF::from_bool\(', 'Fe::from_bool(', min_count=0)
    ph.rewrite_re('R11', r'\bF::from_u8\(', 'Fe::from_u8(', min_count=0)
    ph.requires('row_shape', 'rate_ext <= inputs@.len() && rate_ext < 0x1000')
    ph.ensures('header_columns_are_the_rows_flags', 'ret@ == compact_header(self, inputs@, rate_ext as int)')
    heads = re.findall(r'for (t\d+_) in 0\.\.n_t\d+_', ph.body)
    if len(heads) == 3 and 'hdr.push(Fe::from_u8(' in ph.body and 'let cap_chain_enable' in ph.body:
        t1, t2, t3 = heads
        R = 'rate_ext as int'
        ph.loop(f'for {t1} in 0..n_{t1}', invariants=[('ctl_flags', f'rate_ext <= inputs@.len() && n_{t1} == rate_ext && hdr@ == compact_header(self, inputs@, {R}).take({t1} as int)')])
        ph.loop(f'for {t2} in 0..n_{t2}', invariants=[('normal_chain_selectors', f'rate_ext <= inputs@.len() && n_{t2} == rate_ext && cap_chain_enable == !self.new_start && hdr@ == compact_header(self, inputs@, {R}).take({R} + 2 + {t2})')])
        ph.loop(f'for {t3} in 0..n_{t3}', invariants=[('merkle_chain_selectors', f'rate_ext <= inputs@.len() && n_{t3} == rate_ext && hdr@ == compact_header(self, inputs@, {R}).take(2 * ({R}) + 2 + {t3})')])
        ph.before(f'let n_{t1} =', f'proof {{ assert(hdr@ =~= compact_header(self, inputs@, {R}).take(0)); }}')
        for t, off in ((t1, '0'), (t2, f'{R} + 2'), (t3, f'2 * ({R}) + 2')):
            ph.at_loop_end(f'for {t} in 0..n_{t}', f'proof {{ let h = compact_header(self, inputs@, {R}); assert(h.take({off} + {t} + 1) =~= h.take({off} + {t}).push(h[{off} + {t}])); }}')
        ph.rewrite_re('SPEC', r'(hdr\.push\(Fe::from_bool\(cap_chain_enable\)\);)', rf'\1 proof {{ let h = compact_header(self, inputs@, {R}); assert(h.take({R} + 1) =~= h.take({R}).push(h[{R}])); assert(h.take({R} + 2) =~= h.take({R} + 1).push(h[{R} + 1])); }}')
        ph.bind_tail('r_', f'proof {{ let h = compact_header(self, inputs@, {R}); assert(h.take(3 * ({R}) + 2) =~= h); }}')
    # ---------------------------------------------------------------- preprocess_flags (whole): the committed tail of a row ends with its chain-start flag and its Merkle flag (C06: the compact AIR gates `capacity == tag` by it)
    pf = u.extract(E, r'impl<V: PoseidonVariant> PoseidonPermExecutor<V>', 'preprocess_flags', 'PoseidonPermExecutor::preprocess_flags')
    pf.set_sig('R11', 'fn preprocess_flags(&self, inputs: &Vec<Vec<WitnessId>>, preprocessed: &mut PrepWriter) -> Result<(), CircuitError>')
    pf.rewrite_re('R11', r'\bF::from_bool\(', 'Fe::from_bool(', min_count=0)
    pf.rewrite_re('R11', r'\bF::ZERO\b', 'Fe::from_bool(false)', min_count=0)
    pf.rewrite_re('R11', r'\bF::ONE\b', 'Fe::from_bool(true)', min_count=0)
    pf.rewrite_re('R7', r'&\[([^\[\],]+)\]\s*\)', r'vec_of1(\1).as_slice())', min_count=0)
    pf.rewrite_re('R7', r'&\[([^\[\],]+),\s*([^\[\],]+?),?\s*\]\s*,?\s*\)', r'vec_of2(\1, \2).as_slice())', min_count=0)
    pf.rewrite_re('R6', r'(\w+)\[([^\]]+)\]\.is_empty\(\)', r'(\1[\2].len() == 0)', min_count=0)
    pf.requires('row_shape', 'inputs@.len() >= self.config.wext + 3 && self.config.wext < 0x1000')
    pf.ensures('the_committed_tail_ends_with_the_chain_start_flag_and_the_merkle_flag', '''ret is Ok ==> ({ let c = final(preprocessed).cols@; let n = c.len() as int;
            n >= old(preprocessed).cols@.len() + 2 && c[n - 2] == fe_bool(self.new_start) && c[n - 1] == fe_bool(self.merkle_path) && c.take(old(preprocessed).cols@.len() as int) =~= old(preprocessed).cols@ })''')
    pf.ensures('compact_d1_sponge_row_tail', '''ret is Ok && self.config.dd == 1 && !self.merkle_path ==>
            final(preprocessed).cols@ =~= old(preprocessed).cols@ + seq![fe_bool(false), fe_bool(false), fe_bool(self.new_start), fe_bool(self.merkle_path)]''')
    # ---------------------------------------------------------------- execute[base_dispatch] (R13 prefix) and RecomposeExecutor::execute[checks] (R13 prefix): rows that consume no private data report attached data (C19)
    xb = u.extract(E, r'NonPrimitiveExecutor<F>\s*for PoseidonPermExecutor<V>', 'execute', 'PoseidonPermExecutor::execute[base_dispatch]')
    mb_ = re.search(r'if self\.config\.d\(\) == 1 && !self\.merkle_path (\{)', xb.body)
    if not mb_:
        raise ExtractError('lost anchor in PoseidonPermExecutor::execute[base_dispatch]: the D=1 non-Merkle dispatch')
    from vf.extract import match_brace
    cb_ = match_brace(xb.body, mb_.start(1))
    xb.body = '{\n' + xb.body[mb_.start():cb_ + 1] + '\n self.execute_ext_(ctx) }'
    xb.rewrites.append(('R13', 'function body := the D=1 non-Merkle dispatch block; prefix (permutation lookup in the configuration) dropped, remainder = the extension / Merkle path (opaque callee execute_ext_)', ''))
    xb.set_sig('R11', "fn execute<F: Field>(&self, ctx: &ExecutionContext<F>) -> Result<(), CircuitError>", sliced=True)
    xb.rewrite_re('R11', r'self\.execute_base\(inputs, outputs, ctx, exec\.as_ref\(\)\)', 'self.execute_base_(ctx)', min_count=0)
    xb.ensures('private_data_on_a_base_field_sponge_row_is_an_error', 'self.config.dd == 1 && !self.merkle_path && ctx.sibling() is Some ==> ret is Err')
    rx = u.extract('circuit/src/ops/recompose.rs', r'NonPrimitiveExecutor<F>\s*for RecomposeExecutor<F>', 'execute', 'RecomposeExecutor::execute[checks]')
    mr_ = re.search(r'let input_wids = &inputs\[0\];', rx.body)
    if not mr_:
        raise ExtractError('lost anchor in RecomposeExecutor::execute[checks]: `let input_wids = &inputs[0];`')
    rx.body = rx.body[:mr_.start()] + '\n self.execute_row_(ctx) }'
    rx.rewrites.append(('R13', 'function body truncated before `let input_wids = &inputs[0];`: the shape / private-data checks; remainder = reading the limbs, recomposing, recording the row (opaque callee execute_row_)', ''))
    rx.set_sig('R11', "fn execute<F: Field>(&self, inputs: &Vec<Vec<WitnessId>>, outputs: &Vec<Vec<WitnessId>>, ctx: &ExecutionContext<F>) -> Result<(), CircuitError>", sliced=True)
    rx.erase_struct_error('CircuitError::NonPrimitiveOpLayoutMismatch', 'CircuitError::Other')
    rx.rewrite_re('R8', r'"[^"]*"\.to_string\(\)', 'errstr()', min_count=0)
    rx.rewrite_re('R11', r'self\.op_type\.clone\(\)', 'self.op_type', min_count=0)
    rx.rewrite_re('R6', r'ctx\.get_private_data\(\)\.is_ok\(\)', '(match ctx.get_private_data() { Ok(_) => true, Err(_) => false })', min_count=0)
    rx.ensures('private_data_on_a_recompose_row_is_an_error', 'ctx.private_data is Some ==> ret is Err')
    from vf.unit import pull_in_helpers
    helpers = pull_in_helpers(u, pf, E, r'impl<V: PoseidonVariant> PoseidonPermExecutor<V>', {'preprocess_flags', 'resolve_private_data', 'preprocess_inputs'}, 'PoseidonPermExecutor')
    lc = u.extract(E, r'impl<V: PoseidonVariant> PoseidonPermExecutor<V>', 'limb_ctl_enabled', 'PoseidonPermExecutor::limb_ctl_enabled')
    lc.set_sig('R11', 'fn limb_ctl_enabled(slot: &Vec<WitnessId>) -> bool')
    lc.rewrite_re('R6', r'!slot\.is_empty\(\)', 'slot.len() > 0', min_count=0)
    lc.ensures('ctl_enabled_iff_the_limb_names_a_witness', 'ret == sp_ctl(slot@)')
    u.text('verus! {')
    u.emit(lc)
    u.text('}')
    # ---------------------------------------------------------------- execute[state_assembly]: in which ORDER the pre-permutation state of a Merkle / extension row is assembled (C08 / C19)
    # the limbs the circuit wires into the row (witness bus) are written AFTER the prover's private sibling limbs, so they win; the direction swap comes last
    asm = u.extract(E, r'NonPrimitiveExecutor<F>\s*for PoseidonPermExecutor<V>', 'execute', 'PoseidonPermExecutor::execute[state_assembly]')
    a1 = re.search(r'let mut state = self\.init_chain_state\(', asm.body)
    a2 = re.search(r'let output = exec\(&state\);', asm.body)
    if not a1 or not a2 or a2.start() < a1.start():
        raise ExtractError('lost anchor in PoseidonPermExecutor::execute[state_assembly]: `let mut state = self.init_chain_state(` .. `let output = exec(&state);`')
    asm.rewrites.append(('R13', f'function body := from `let mut state = self.init_chain_state(..)` up to `let output = exec(&state);`, then Ok(state); every helper is a stub that appends its tag to the ghost log of the state', 'prefix: shape validation and resolution of the auxiliary data; suffix: permutation, trace row, outputs'))
    asm.body = '{\n' + asm.body[a1.start():a2.start()] + '\nOk(state)\n}'
    asm.set_sig('R11', 'fn execute_assemble(&self) -> Result<StateLog, CircuitError>', sliced=True)
    asm.rewrite_re('R11', r'self\.init_chain_state\([^;]*\)\?', 'self.init_chain_state_()?', min_count=1)
    asm.rewrite_re('R11', r'self\.place_arity4_running_hash\(&mut state,[^;]*\);', 'self.place_arity4_running_hash_(&mut state);', min_count=0)
    asm.rewrite_re('R11', r'self\.fill_sibling_data\(&mut state,[^;]*\);', 'self.fill_sibling_data_(&mut state);', min_count=0)
    asm.rewrite_re('R11', r'self\.apply_witness_values\(&mut state,[^;]*\)\?;', 'self.apply_witness_values_(&mut state)?;', min_count=0)
    asm.rewrite_re('R11', r'self\.apply_merkle_swap\(&mut state,[^;]*\);', 'self.apply_merkle_swap_(&mut state);', min_count=0)
    asm.ensures('private_siblings_first_then_the_circuit_wired_limbs_then_the_direction_swap',
                'ret matches Ok(s) ==> s.log@ =~= seq![ST_INIT, ST_PLACE, ST_SIBLINGS, ST_WITNESS, ST_SWAP]')
    # ---------------------------------------------------------------- new / Clone::clone: an executor and its copy (Op::clone, Circuit::clone, boxed()) are the same row description (C06: the length tag absorb_len included)
    def exnorm(f):
        f.rewrite_re('R12', r'\bSelf \{', 'PoseidonPermExecutor {', min_count=0)
        f.rewrite_re('R12', r'\bSelf::new\(', 'PoseidonPermExecutor::new(', min_count=0)
        f.rewrite_re('R11', r'_variant: PhantomData,?', '', min_count=0)
        f.rewrite_re('R11', r'self\.op_type\.clone\(\)', 'self.op_type', min_count=0)
        f.sig_rewrite('R12', '-> Self', '-> PoseidonPermExecutor') if '-> Self' in f.sig else None
        f.sig_rewrite('R11', 'V::Config', 'PermCfg') if 'V::Config' in f.sig else None
        return f
    nw = exnorm(u.extract(E, r'impl<V: PoseidonVariant> PoseidonPermExecutor<V>', 'new', 'PoseidonPermExecutor::new'))
    nw.ensures('the_row_description_given', 'ret.new_start == new_start && ret.merkle_path == merkle_path && ret.absorb_len == absorb_len && ret.config == config')
    cl = exnorm(u.extract(E, r'impl<V: PoseidonVariant> Clone for PoseidonPermExecutor<V>', 'clone', 'PoseidonPermExecutor::clone'))
    cl.ensures('a_copy_describes_the_same_row_length_tag_included', 'ret.new_start == self.new_start && ret.merkle_path == self.merkle_path && ret.absorb_len == self.absorb_len && ret.config == self.config')
    u.text('verus! {\nimpl PoseidonPermExecutor {')
    u.emit(r)
    u.emit(nw)
    u.emit(cl)
    u.emit(asm)
    u.emit(ph)
    u.emit(pf)
    u.emit(xb)
    for h_ in helpers:
        u.emit(h_)
    u.text('}\nimpl RecomposeExecutor {')
    u.emit(rx)
    u.text('}\n}')
    return u
