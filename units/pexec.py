"""Unit `pexec` (C19): PoseidonPermExecutor::resolve_private_data (circuit/src/ops/poseidon_perm/executor.rs) -- private (sibling) data
attached to a permutation row is either consumed (Merkle mode) or reported as an error; it is never silently ignored."""
from vf.unit import Unit

PRELUDE = r'''
#![allow(unused_imports, unused_variables, dead_code, unused_mut, unused_parens)]
use vstd::prelude::*;
verus! {
global size_of usize == 8;
pub trait Field: Sized + Copy {}
#[derive(Clone, Copy)] pub struct NpoTypeId(pub u64);
#[derive(Clone, Copy)] pub struct NonPrimitiveOpId(pub u32);
pub struct ErrStr { pub _p: () }
#[verifier::external_body] pub fn errstr() -> ErrStr { unimplemented!() }
pub enum CircuitError { IncorrectNonPrimitiveOpPrivateData { op: NpoTypeId, operation_index: NonPrimitiveOpId, expected: ErrStr, got: ErrStr }, PrivateDataNotSet, Other }
pub struct PoseidonPermPrivateData<F> { pub sibling: Vec<F> }
/// the type-erased private data of one op (Box<dyn Any>)
pub struct AnyData<F> { pub perm: Option<PoseidonPermPrivateData<F>> }
impl<F> AnyData<F> {
    /// `downcast_ref::<PoseidonPermPrivateData<F>>()`: Some exactly when the attached data has that type
    pub fn downcast_perm(&self) -> (r: Option<&PoseidonPermPrivateData<F>>) ensures r == (match self.perm { Some(p) => Some(&p), None => None::<&PoseidonPermPrivateData<F>> })
    { match &self.perm { Some(p) => Some(p), None => None } }
}
pub struct ExecutionContext<F> { pub private_data: Option<AnyData<F>>, pub op_id: NonPrimitiveOpId }
impl<F> ExecutionContext<F> {
    pub fn get_private_data(&self) -> (r: Result<&AnyData<F>, CircuitError>) ensures (r matches Ok(d) ==> self.private_data == Some(*d)) && (r is Err ==> self.private_data is None)
    { match &self.private_data { Some(d) => Ok(d), None => Err(CircuitError::PrivateDataNotSet) } }
    pub fn operation_id(&self) -> (r: NonPrimitiveOpId) ensures r == self.op_id { self.op_id }
    /// the sibling data attached to this op, if any (private data present AND of the permutation's sibling type)
    pub open spec fn sibling(&self) -> Option<Seq<F>> { match self.private_data { Some(d) => (match d.perm { Some(p) => Some(p.sibling@), None => None }), None => None } }
}
pub struct PoseidonPermExecutor { pub op_type: NpoTypeId, pub merkle_path: bool }
} // verus!
'''


def build():
    u = Unit('pexec', ['C19'])
    u.rlimit = 30
    u.assume('ExecutionContext / Box<dyn Any> private data modelled by an option of the one concrete type the executor downcasts to (R11); error strings opaque (R8)')
    u.text(PRELUDE)
    E = 'circuit/src/ops/poseidon_perm/executor.rs'
    r = u.extract(E, r'impl<V: PoseidonVariant> PoseidonPermExecutor<V>', 'resolve_private_data', 'PoseidonPermExecutor::resolve_private_data')
    r.set_sig('R11', "fn resolve_private_data<'a, F: Field>(&self, ctx: &'a ExecutionContext<F>) -> Result<Option<&'a [F]>, CircuitError>")
    r.rewrite_re('R11', r'(\w+)\.downcast_ref::<PoseidonPermPrivateData<F>>\(\)', r'\1.downcast_perm()', min_count=0)
    r.rewrite_re('R8', r'"[^"]*"\.to_string\(\)', 'errstr()', min_count=0)
    r.rewrite_re('R11', r'self\.op_type\.clone\(\)', 'self.op_type', min_count=0)
    r.ensures('sibling_data_on_a_row_that_cannot_consume_it_is_an_error', 'ctx.sibling() is Some && !self.merkle_path ==> ret is Err')
    r.ensures('ok_returns_exactly_the_attached_sibling', '(ret matches Ok(Some(s)) ==> self.merkle_path && ctx.sibling() == Some(s@)) && (ret matches Ok(None) ==> ctx.sibling() is None)')
    u.text('verus! {\nimpl PoseidonPermExecutor {')
    u.emit(r)
    u.text('}\n}')
    return u
