"""Unit `pphase` (C09 / C18): the two passes of poseidon_preprocess_for_prover.

Real text: circuit-prover/src/batch_stark_prover.rs poseidon_preprocess_for_prover, WHOLE function, with its two inner row loops replaced (R13)
by calls that stand for their bodies (those bodies are under contract in unit pread: [mmcs_read_row], [out_ctl_slot]).
Contract: the creator multiplicities written into the returned base columns of EVERY Poseidon op type are computed from read counters that already
include the conditional reads of ALL Poseidon op types of the map -- whatever order the hash map is iterated in: there is a listing `es` of
the map's entries such that the final ext_reads is the fold of the per-table counting over `es`, and each returned table is the out_ctl
rewriting of its own rows under those FINAL counters."""
import re

from vf.extract import match_brace, ExtractError
from vf.unit import Unit, _find_all

PRELUDE = r'''
#![allow(unused_imports, unused_variables, dead_code, unused_mut, unused_parens)]
use vstd::prelude::*;
verus! {
global size_of usize == 8;
#[derive(Clone, Copy, PartialEq, Eq, Structural)]
pub struct V(pub u64);          // base-field value
pub struct XV { pub id: Ghost<int> }   // extension-field preprocessed value (opaque)
#[derive(PartialEq, Eq, Structural, Clone, Copy)]
pub struct NpoTypeId(pub u32);
impl NpoTypeId { pub fn as_str(&self) -> (r: OpStr) ensures r.of == *self { OpStr { of: *self } } }
impl Clone for OpStr { fn clone(&self) -> (r: Self) ensures r == *self { *self } }
#[derive(PartialEq, Eq, Structural, Copy)]
pub struct OpStr { pub of: NpoTypeId }
pub struct Prefix { pub id: Ghost<int> }
pub struct Rest { pub of: NpoTypeId }
pub uninterp spec fn sp_has_prefix(op: NpoTypeId, p: &Prefix) -> bool;
pub uninterp spec fn sp_cfg(op: NpoTypeId) -> Option<(usize, usize, usize)>;
impl OpStr {
    #[verifier::external_body] pub fn starts_with(&self, p: &Prefix) -> (r: bool) ensures r == sp_has_prefix(self.of, p) { unimplemented!() }
    #[verifier::external_body] pub fn strip_prefix(&self, p: &Prefix) -> (r: Option<Rest>) ensures r is Some <==> sp_has_prefix(self.of, p), r matches Some(x) ==> x.of == self.of { unimplemented!() }
}
/// the `parse_cfg` closure parameter: a pure function of the variant-name suffix
#[verifier::external_body] pub fn parse_cfg(rest: Rest) -> (r: Option<(usize, usize, usize)>) ensures r == sp_cfg(rest.of) { unimplemented!() }
pub enum CircuitError { InvalidPreprocessedValues, Other }
pub uninterp spec fn sp_base(v: Seq<XV>) -> Option<Seq<V>>;
/// `prep.iter().map(|v| v.as_base().ok_or(..)).collect::<Result<Vec<_>, _>>()?`
#[verifier::external_body]
pub fn to_base_vec(prep: &Vec<XV>) -> (r: Result<Vec<V>, CircuitError>) ensures (r matches Ok(v) ==> sp_base(prep@) == Some(v@)) && (r is Err ==> sp_base(prep@) is None) { unimplemented!() }
pub uninterp spec fn sp_multiple(a: usize, b: usize) -> bool;
#[verifier::external_body] pub fn is_multiple_of_(a: usize, b: usize) -> (r: bool) ensures r == sp_multiple(a, b) { unimplemented!() }
pub uninterp spec fn sp_npow2(n: usize) -> usize;
#[verifier::external_body] pub fn next_power_of_two_(n: usize) -> (r: usize) ensures r == sp_npow2(n) { unimplemented!() }
pub uninterp spec fn sp_roww_air(d: usize, w: usize, r: usize) -> usize;
pub uninterp spec fn sp_compact(d: usize, w: usize, r: usize) -> bool;
pub uninterp spec fn sp_hdr(r: usize) -> usize;
pub uninterp spec fn sp_roww(w: usize, r: usize) -> usize;
#[verifier::external_body] pub fn poseidon_preprocessed_row_width_for_air(d: usize, w: usize, r: usize) -> (x: usize) ensures x == sp_roww_air(d, w, r), x > 0 { unimplemented!() }
#[verifier::external_body] pub fn poseidon_uses_compact_d1_preprocessed(d: usize, w: usize, r: usize) -> (x: bool) ensures x == sp_compact(d, w, r) { unimplemented!() }
#[verifier::external_body] pub fn poseidon_d1_compact_preprocessed_header_cols(r: usize) -> (x: usize) ensures x == sp_hdr(r), x < 0x1_0000 { unimplemented!() }
#[verifier::external_body] pub fn poseidon_preprocessed_row_width(w: usize, r: usize) -> (x: usize) ensures x == sp_roww(w, r), 4 <= x < 0x1_0000_0000 { unimplemented!() }

/// HashMap<NpoTypeId, Vec<ExtF>> / HashMap<NpoTypeId, Vec<bool>> / HashMap<NpoTypeId, Vec<F>> by their views
pub struct NpMap { pub m: Ghost<Map<NpoTypeId, Seq<XV>>> }
pub open spec fn is_listing(es: Seq<(NpoTypeId, Vec<XV>)>, m: Map<NpoTypeId, Seq<XV>>) -> bool {
    &&& forall|i: int, j: int| 0 <= i < j < es.len() ==> es[i].0 != es[j].0
    &&& forall|i: int| 0 <= i < es.len() ==> m.dom().contains((#[trigger] es[i]).0) && m[es[i].0] == es[i].1@
    &&& forall|k: NpoTypeId| m.dom().contains(k) ==> exists|i: int| 0 <= i < es.len() && (#[trigger] es[i]).0 == k
}
impl NpMap {
    /// `self.iter()`: the entries in SOME order (a fresh, arbitrary one at every call)
    #[verifier::external_body] pub fn entries(&self) -> (r: Vec<(NpoTypeId, Vec<XV>)>) ensures is_listing(r@, self.m@) { unimplemented!() }
}
pub struct DupMap { pub m: Ghost<Map<NpoTypeId, Seq<bool>>> }
impl DupMap { #[verifier::external_body] pub fn get(&self, k: &NpoTypeId) -> (r: Option<&Vec<bool>>)
    ensures (r matches Some(v) ==> self.m@.dom().contains(*k) && v@ == self.m@[*k]) && (r is None ==> !self.m@.dom().contains(*k)) { unimplemented!() } }
pub struct OutMap { pub m: Ghost<Map<NpoTypeId, Seq<V>>> }
impl OutMap {
    #[verifier::external_body] pub fn new() -> (r: Self) ensures r.m@ == Map::<NpoTypeId, Seq<V>>::empty() { unimplemented!() }
    #[verifier::external_body] pub fn insert(&mut self, k: NpoTypeId, v: Vec<V>) ensures final(self).m@ == old(self).m@.insert(k, v@) { unimplemented!() }
}
pub struct PreprocessedColumns { pub non_primitive: NpMap, pub ext_reads: Vec<u32>, pub dup_npo_outputs: DupMap }
pub open spec fn dupv(d: &DupMap, k: NpoTypeId) -> Option<Seq<bool>> { if d.m@.dom().contains(k) { Some(d.m@[k]) } else { None } }

// ---- the two row passes, by what unit pread proves about their bodies (uninterpreted functions of exactly what the bodies read)
pub uninterp spec fn counted(er: Seq<u32>, base: Seq<V>, roww: usize, tail: usize, rows: usize, pad: bool, d: int) -> Seq<u32>;
pub uninterp spec fn with_ctls(base: Seq<V>, er: Seq<u32>, dup: Option<Seq<bool>>, compact: bool, rows: usize, roww: usize, w: usize, r: usize, neg_one: V, d: int) -> Seq<V>;
/// phase-1 row loop (R13: stands for the loop it replaces; body = unit pread [mmcs_read_row]); it touches the read counters only
#[verifier::external_body]
pub fn count_mmcs_reads<const D: usize>(ext_reads: &mut Vec<u32>, prep_base: &Vec<V>, prep_row_width: usize, tail: usize, num_rows: usize, has_padding: bool)
    ensures final(ext_reads)@ == counted(old(ext_reads)@, prep_base@, prep_row_width, tail, num_rows, has_padding, D as int)
{ unimplemented!() }
/// phase-2 row loop (R13; body = unit pread [out_ctl_slot]); it reads the counters and the duplicate flags
#[verifier::external_body]
pub fn set_out_ctls<const D: usize>(ext_reads: &Vec<u32>, prep_base: &mut Vec<V>, dup_wids: Option<&Vec<bool>>, compact: bool, num_rows: usize, prep_row_width: usize, w_ext: usize, r_ext: usize, neg_one: V)
    ensures final(prep_base)@ == with_ctls(old(prep_base)@, ext_reads@, match dup_wids { Some(v) => Some(v@), None => None }, compact, num_rows, prep_row_width, w_ext, r_ext, neg_one, D as int)
{ unimplemented!() }

/// what phase 1 does for one entry (skipped unless a non-arity-4 Poseidon table of this family)
pub open spec fn count_one(er: Seq<u32>, e: (NpoTypeId, Vec<XV>), p: &Prefix, dd: int) -> Seq<u32> {
    if !sp_has_prefix(e.0, p) || sp_cfg(e.0) is None || sp_base(e.1@) is None { er } else {
        let (d, w, r) = sp_cfg(e.0).unwrap(); let base = sp_base(e.1@).unwrap(); let roww = sp_roww_air(d, w, r);
        if 4 * (w - r) == w { er } else {
            let rows = (base.len() / roww as nat) as usize;
            let tail = if sp_compact(d, w, r) { (sp_hdr(r) + w + r + r) as usize } else { (sp_roww(w, r) - 4) as usize };
            counted(er, base, roww, tail, rows, sp_npow2(rows) > rows, dd)
        }
    }
}
pub open spec fn count_all(er: Seq<u32>, es: Seq<(NpoTypeId, Vec<XV>)>, n: int, p: &Prefix, dd: int) -> Seq<u32> decreases n {
    if n <= 0 { er } else { count_one(count_all(er, es, n - 1, p, dd), es[n - 1], p, dd) }
}
/// what phase 2 returns for one table, given the counters it reads
pub open spec fn table_of(e_prep: Seq<XV>, op: NpoTypeId, er: Seq<u32>, dup: Option<Seq<bool>>, neg_one: V, dd: int) -> Seq<V> {
    let (d, w, r) = sp_cfg(op).unwrap(); let base = sp_base(e_prep).unwrap(); let roww = sp_roww_air(d, w, r);
    with_ctls(base, er, dup, sp_compact(d, w, r), (base.len() / roww as nat) as usize, roww, w, r, neg_one, dd)
}
pub uninterp spec fn sp_neg_one() -> V;
#[verifier::external_body] pub fn neg_one_() -> (r: V) ensures r == sp_neg_one() { unimplemented!() }
} // verus!
'''


def replace_row_loop(f, nth, of, call, why):
    """R13: the nth of exactly `of` loops `for row_idx in 0..num_rows { .. }` -> `call;` (its body is under contract elsewhere)"""
    ms = list(re.finditer(r'for row_idx in 0\.\.num_rows \{', f.body))
    if len(ms) != of:
        raise ExtractError(f'lost anchor in {f.qual}: `for row_idx in 0..num_rows` matched {len(ms)}x, expected {of}')
    o = f.body.index('{', ms[nth].end() - 1)
    c = match_brace(f.body, o)
    f.body = f.body[:ms[nth].start()] + call + f.body[c + 1:]
    f.rewrites.append(('R13', f'row loop #{nth} replaced by `{call.split("(")[0]}(..)`', why))


def build():
    u = Unit('pphase', ['C09', 'C18'])
    u.rlimit = 100
    u.assume('the two inner row loops are represented by calls whose effect is an uninterpreted function of exactly what the loop bodies read (their bodies are under contract in unit pread)')
    u.assume('HashMap iteration yields the entries in an arbitrary order, possibly a different one at every call (NpMap::entries); string prefix tests / config parsing / layout helpers are uninterpreted pure functions; base conversion by value')
    u.text(PRELUDE)
    B = 'circuit-prover/src/batch_stark_prover.rs'
    f = u.extract(B, '', 'poseidon_preprocess_for_prover', 'poseidon_preprocess_for_prover[two_passes]')
    # the later loop first (positions of the earlier one stay valid)
    replace_row_loop(f, 1, 2, 'set_out_ctls::<D>(&preprocessed.ext_reads, &mut prep_base, dup_wids, compact, num_rows, prep_row_width, w_ext, r_ext, neg_one);', 'unit pread [out_ctl_slot]')
    replace_row_loop(f, 0, 1, 'count_mmcs_reads::<D>(&mut preprocessed.ext_reads, &prep_base, prep_row_width, tail, num_rows, has_padding);', 'unit pread [mmcs_read_row]')
    f.set_sig('R11', 'fn poseidon_preprocess_for_prover<const D: usize>(preprocessed: &mut PreprocessedColumns, prefix: &Prefix) -> Result<OutMap, CircuitError>', sliced=True)
    f.rewrite_re('R11', r'let neg_one = F::NEG_ONE;', 'let neg_one = neg_one_();', min_count=0)
    k = [0]
    def it_(m):
        k[0] += 1
        n = k[0]
        return f'let es{n}_ = preprocessed.non_primitive.entries(); for e{n}_ in 0..es{n}_.len() {{ let {m.group(1)} = &es{n}_[e{n}_].0; let {m.group(2)} = &es{n}_[e{n}_].1;'
    f.rewrite_re('R5', r'for \((\w+), (\w+)\) in preprocessed\.non_primitive\.iter\(\) \{', it_, min_count=1)
    # R6: `let X = E.ok_or(ERR)?;` -> match with early return
    f.rewrite_re('R6', r'let (\(?[\w, ]+\)?) = ([^;]+?)\s*\.ok_or\((CircuitError::\w+)\)\?;', r'let \1 = match \2 { Some(v_) => v_, None => { return Err(\3); } };', min_count=0, flags_dotall=True)
    f.rewrite_re('R6', r'let (mut )?prep_base: Vec<F> = prep\s*\.iter\(\)\s*\.map\(\|v\| v\.as_base\(\)\.ok_or\(CircuitError::InvalidPreprocessedValues\)\)\s*\.collect::<Result<Vec<_>, CircuitError>>\(\)\?;',
                 r'let \1prep_base: Vec<V> = to_base_vec(prep)?;', min_count=1)
    f.rewrite_re('R11', r'!prep_base\.len\(\)\.is_multiple_of\(prep_row_width\)', '!is_multiple_of_(prep_base.len(), prep_row_width)', min_count=0)
    f.rewrite_re('R11', r'(\w+)\.next_power_of_two\(\)', r'next_power_of_two_(\1)', min_count=0)
    f.rewrite_re('R7', r'let mut non_primitive_base: NonPrimitivePreprocessedMap<F> = HashMap::new\(\);', 'let mut non_primitive_base: OutMap = OutMap::new();', min_count=0)
    f.rewrite_re('R6', r'op_type\.clone\(\)', '*op_type', min_count=0)
    f.attr('#[verifier::loop_isolation(false)]')
    f.requires('sane_configs', 'D > 0 && forall|op: NpoTypeId| (#[trigger] sp_cfg(op)) matches Some(c) ==> c.2 <= c.1 && c.1 < 0x1_0000')
    M = 'old(preprocessed).non_primitive.m@'
    f.ensures('frame', 'final(preprocessed).non_primitive == old(preprocessed).non_primitive && final(preprocessed).dup_npo_outputs == old(preprocessed).dup_npo_outputs')
    f.ensures('every_table_is_rewritten_under_read_counts_that_include_every_table', f'''ret matches Ok(out) ==> exists|es: Seq<(NpoTypeId, Vec<XV>)>| #![trigger is_listing(es, {M})]
            is_listing(es, {M})
            && final(preprocessed).ext_reads@ == count_all(old(preprocessed).ext_reads@, es, es.len() as int, prefix, D as int)
            && (forall|op: NpoTypeId| #[trigger] out.m@.dom().contains(op) <==> ({M}.dom().contains(op) && sp_has_prefix(op, prefix)))
            && (forall|op: NpoTypeId| #[trigger] out.m@.dom().contains(op) ==> out.m@[op] == table_of({M}[op], op, final(preprocessed).ext_reads@, dupv(&old(preprocessed).dup_npo_outputs, op), sp_neg_one(), D as int))''')
    L1 = 'for e1_ in 0..es1_.len()'
    L2 = 'for e2_ in 0..es2_.len()'
    if L1 in f.body and L2 in f.body:
        f.at_start('let ghost r0 = preprocessed.ext_reads@; let ghost m0 = preprocessed.non_primitive.m@;')
        lo = f._loop_open(L1)
        f.body = f.body[:lo + 1] + ' let ghost er_b = preprocessed.ext_reads@; ' + f.body[lo + 1:]
        f.at_loop_end(L1, 'proof { assert(preprocessed.ext_reads@ == count_one(er_b, es1_@[e1_ as int], prefix, D as int)); }')
        f.before(L2, 'let ghost r1 = preprocessed.ext_reads@;')
        lo = f._loop_open(L2)
        f.body = f.body[:lo + 1] + ' let ghost out_b = non_primitive_base.m@; ' + f.body[lo + 1:]
        f.at_loop_end(L2, '''proof {
                let op = es2_@[e2_ as int].0;
                assert(m0.dom().contains(op) && m0[op] == es2_@[e2_ as int].1@);
                assert forall|o2: NpoTypeId| #[trigger] non_primitive_base.m@.dom().contains(o2) <==> (exists|j: int| 0 <= j < e2_ + 1 && (#[trigger] es2_@[j]).0 == o2 && sp_has_prefix(o2, prefix)) by {
                    if out_b.dom().contains(o2) { let j = choose|j: int| 0 <= j < e2_ && (#[trigger] es2_@[j]).0 == o2 && sp_has_prefix(o2, prefix); assert(es2_@[j].0 == o2); }
                    if o2 == op && sp_has_prefix(op, prefix) { assert(es2_@[e2_ as int].0 == o2); }
                    if exists|j: int| 0 <= j < e2_ + 1 && (#[trigger] es2_@[j]).0 == o2 && sp_has_prefix(o2, prefix) {
                        let j = choose|j: int| 0 <= j < e2_ + 1 && (#[trigger] es2_@[j]).0 == o2 && sp_has_prefix(o2, prefix);
                        if j < e2_ { assert(out_b.dom().contains(o2)); }
                    }
                }
            }''')
        f.loop(L1, invariants=[('reads_counted_for_the_tables_visited_so_far', '''preprocessed.non_primitive == old(preprocessed).non_primitive && preprocessed.dup_npo_outputs == old(preprocessed).dup_npo_outputs
                && preprocessed.ext_reads@ == count_all(r0, es1_@, e1_ as int, prefix, D as int)''')])
        f.loop(L2, invariants=[('tables_rewritten_under_the_final_counts', '''preprocessed.non_primitive == old(preprocessed).non_primitive && preprocessed.dup_npo_outputs == old(preprocessed).dup_npo_outputs && preprocessed.ext_reads@ == r1
                && (forall|o2: NpoTypeId| #[trigger] non_primitive_base.m@.dom().contains(o2) <==> (exists|j: int| 0 <= j < e2_ && (#[trigger] es2_@[j]).0 == o2 && sp_has_prefix(o2, prefix)))
                && (forall|o2: NpoTypeId| #[trigger] non_primitive_base.m@.dom().contains(o2) ==> m0.dom().contains(o2) && non_primitive_base.m@[o2] == table_of(m0[o2], o2, r1, dupv(&old(preprocessed).dup_npo_outputs, o2), sp_neg_one(), D as int))''')])
        f.before('Ok(non_primitive_base)', '''proof {
            assert(is_listing(es1_@, m0));
            assert forall|op: NpoTypeId| #[trigger] non_primitive_base.m@.dom().contains(op) <==> (m0.dom().contains(op) && sp_has_prefix(op, prefix)) by {
                if m0.dom().contains(op) && sp_has_prefix(op, prefix) { let j = choose|j: int| 0 <= j < es2_@.len() && (#[trigger] es2_@[j]).0 == op; assert(es2_@[j].0 == op); }
            }
        }''')
    u.text('verus! {')
    u.emit(f, vis='')
    u.text('}')
    return u
