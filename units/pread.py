"""Unit `pread` (C09): the prover-side read counting and creator multiplicities of the Poseidon permutation tables.

Real text: circuit-prover/src/batch_stark_prover.rs poseidon_preprocess_for_prover, two slices (R13):
 [mmcs_read_row]  the body of the phase-1 row loop: the conditional read of the `mmcs_index_sum` slot that the AIR performs on a row whose
                  SUCCESSOR IN THE PADDED TRACE starts a new chain is counted in ext_reads -- the successor of the last real row is the first
                  padding row (new_start = 1) when the table is padded and row 0 (wrap-around) when it is exactly full;
 [out_ctl_slot]   the body of the phase-2 (row, j) loop: an exposed output limb is a creator with + the reads of ITS slot, a duplicate
                  creator is a reader (-1), an unexposed limb stays 0."""
import re

from vf.unit import Unit, unget_copied_unwrap_or
from units.openin import slice_loop_body

PRELUDE = r'''
#![allow(unused_imports, unused_variables, dead_code, unused_mut, unused_parens)]
use vstd::prelude::*;
use vstd::std_specs::ops::*;
verus! {
global size_of usize == 8;
/// a base-field value: opaque, with its canonical representative
#[derive(Clone, Copy, PartialEq, Eq, Structural)]
pub struct V(pub u64);
pub uninterp spec fn vfrom(n: u32) -> V;
pub uninterp spec fn vmul(a: V, b: V) -> V;
/// a field has no zero divisors
#[verifier::external_body]
pub proof fn ax_vmul_zero(a: V, b: V) ensures (vmul(a, b) == V(0)) <==> (a == V(0) || b == V(0)) {}
impl MulSpecImpl<V> for V {
    open spec fn obeys_mul_spec() -> bool { true }
    open spec fn mul_req(self, rhs: V) -> bool { true }
    open spec fn mul_spec(self, rhs: V) -> V { vmul(self, rhs) }
}
impl core::ops::Mul for V { type Output = V; #[verifier::external_body] fn mul(self, o: V) -> (r: V) { unimplemented!() } }
impl V {
    pub fn as_canonical_u64(&self) -> (r: u64) ensures r == self.0 { self.0 }
    #[verifier::external_body] pub fn from_u32(n: u32) -> (r: V) ensures r == vfrom(n) { unimplemented!() }
    pub fn from_bool(b: bool) -> (r: V) ensures r == (if b { V(1) } else { V(0) }) { if b { V(1) } else { V(0) } }
    pub fn zero() -> (r: V) ensures r == V(0) { V(0) }
    pub fn one() -> (r: V) ensures r == V(1) { V(1) }
}
pub struct PreprocessedColumns { pub ext_reads: Vec<u32> }
#[derive(PartialEq, Eq, Structural, Clone, Copy)]
pub struct NpoTypeId(pub u32);
/// HashMap<NpoTypeId, Vec<bool>> (duplicate-creator flags per op type), by view
pub struct DupMap { pub m: Ghost<Map<NpoTypeId, Seq<bool>>> }
impl DupMap { #[verifier::external_body] pub fn get(&self, k: &NpoTypeId) -> (r: Option<&Vec<bool>>)
    ensures (r matches Some(v) ==> self.m@.dom().contains(*k) && v@ == self.m@[*k]) && (r is None ==> !self.m@.dom().contains(*k)) { unimplemented!() } }
/// HashSet<u32> of hinted output slots, by view
pub struct WidSet { pub s: Ghost<Set<u32>> }
impl WidSet { #[verifier::external_body] pub fn contains(&self, k: &u32) -> (r: bool) ensures r == self.s@.contains(*k) { unimplemented!() } }
/// the fields of PreprocessedColumns the recompose preprocessor reads
/// a set of slot indices computed by the dropped prefix (HashSet<usize>): contents arbitrary
pub struct IdxSet { pub s: Ghost<Set<usize>> }
impl IdxSet { #[verifier::external_body] pub fn contains(&self, k: &usize) -> (r: bool) ensures r == self.s@.contains(*k) { unimplemented!() } }
pub struct PrepView { pub ext_reads: Vec<u32>, pub dup_npo_outputs: DupMap, pub hint_output_wids: WidSet }
/// the coefficient slot i of the row takes part in the witness bus (non-zero multiplicity) whoever creates it
pub uninterp spec fn every_coefficient_is_on_the_bus(new: Seq<V>, rs: int, i: int) -> bool;
pub open spec fn coef_ok(new: Seq<V>, old: Seq<V>, er: Seq<u32>, hints: Set<u32>, rs: int, i: int, d: int) -> bool {
    let cw = (old[rs + 2 + i * 2].0 as usize / (d as usize)) as int;
    new[rs + 2 + i * 2 + 1] == vfrom(if hints.contains(cw as usize as u32) { reads_of(er, cw) } else { 0 })
}
pub open spec fn dup_at(m: Map<NpoTypeId, Seq<bool>>, op: NpoTypeId, w: int) -> bool { m.dom().contains(op) && 0 <= w < m[op].len() && m[op][w] }


/// new_start of the row that FOLLOWS row r in the padded trace
pub open spec fn sp_next_new_start(prep: Seq<V>, w: int, tail: int, n: int, pad: bool, r: int) -> V {
    if r + 1 < n { prep[(r + 1) * w + tail + 2] } else if pad { V(1) } else { prep[tail + 2] }
}
pub open spec fn bump(er: Seq<u32>, i: int) -> Seq<u32> {
    let e2 = if i >= er.len() { er + Seq::new((i + 1 - er.len()) as nat, |k: int| 0u32) } else { er };
    e2.update(i, (e2[i] + 1) as u32)
}
pub open spec fn reads_after(er: Seq<u32>, prep: Seq<V>, w: int, tail: int, n: int, pad: bool, r: int, d: int) -> Seq<u32> {
    if prep[r * w + tail + 1] != V(0) && sp_next_new_start(prep, w, tail, n, pad, r) != V(0) { bump(er, (prep[r * w + tail].0 as usize / (d as usize)) as int) } else { er }
}
pub open spec fn reads_of(er: Seq<u32>, w: int) -> u32 { if 0 <= w < er.len() { er[w] } else { 0 } }
pub open spec fn new_ctl(old_ctl: V, idx: V, er: Seq<u32>, dup: Option<Seq<bool>>, d: int, neg_one: V) -> V {
    let w = (idx.0 as usize / (d as usize)) as int;
    if old_ctl == V(0) { old_ctl } else if (match dup { Some(dv) => if w < dv.len() { dv[w] } else { false }, None => false }) { neg_one } else { vfrom(reads_of(er, w)) }
}
} // verus!
'''


def unand_then_get_unwrap_or(f):
    """R6: `OPT.and_then(|d| d.get(I).copied()).unwrap_or(DFLT)` -> `(match OPT { Some(d) => if I < d.len() { d[I] } else { DFLT }, None => DFLT })`"""
    f.rewrite_re('R6', r'((?:\w+\s*\.\s*)*\w+(?:\([^()]*\))?)\s*\.and_then\(\|(\w+)\| \2\.get\(([^()]+)\)\.copied\(\)\)\s*\.unwrap_or\(([^()]+)\)',
                 r'(match \1 { Some(\2) => if \3 < \2.len() { \2[\3] } else { \4 }, None => \4 })', min_count=0)
    return f


def common(f):
    f.rewrite_re('R11', r'\bF::ZERO - F::ONE\b', 'V::neg_one()', min_count=0)
    f.rewrite_re('R11', r'\bF::ONE\b', 'V::one()', min_count=0)
    f.rewrite_re('R11', r'\bF::ZERO\b', 'V::zero()', min_count=0)
    f.rewrite_re('R11', r'\bF::as_canonical_u64\(', 'V::as_canonical_u64(', min_count=0)
    f.rewrite_re('R11', r'\bF::from_u32\(', 'V::from_u32(', min_count=0)
    f.rewrite_re('R11', r'\bF::from_bool\(', 'V::from_bool(', min_count=0)
    f.rewrite_re('R6', r'([\w.]+)\[(\w+)\] \+= 1;', r'\1[\2] = \1[\2] + 1;', min_count=0)
    return f


def build():
    u = Unit('pread', ['C09'])
    u.rlimit = 60
    u.assume('the base field is an opaque value type with a canonical u64 representative; multiplication is uninterpreted except that a product is zero iff a factor is zero (field); from_u32 uninterpreted')
    u.assume('row layout of the Poseidon preprocessed data (tail = idx, tail+1 = mmcs_merkle_flag, tail+2 = new_start) as computed by the dropped prefix of the loop body\'s function; the AIR sets new_start = 1 on the first padding row (circuit-prover poseidon AIR wrappers)')
    u.text(PRELUDE)
    B = 'circuit-prover/src/batch_stark_prover.rs'
    HEAD = r'for row_idx in 0\.\.num_rows \{'
    a = common(u.extract(B, '', 'poseidon_preprocess_for_prover', 'poseidon_preprocess_for_prover[mmcs_read_row]'))
    slice_loop_body(a, HEAD, 'phase 1 outer loop over op types (prefix filter, config parsing, base conversion, layout offsets) and all of phase 2', nth=0, of=2)
    unget_copied_unwrap_or(a)
    a.set_sig('R11', 'fn poseidon_preprocess_for_prover<const D: usize>(preprocessed: &mut PreprocessedColumns, prep_base: &Vec<V>, row_idx: usize, prep_row_width: usize, tail: usize, num_rows: usize, has_padding: bool)', sliced=True)
    a.requires('layout', '''D > 0 && row_idx < num_rows && prep_base@.len() == num_rows * prep_row_width && tail + 2 < prep_row_width && prep_base@.len() < 0x1_0000_0000_0000 && prep_base@[row_idx * prep_row_width + tail].0 < 0x1_0000_0000''')
    a.requires('read_counters_do_not_overflow', 'forall|i: int| 0 <= i < old(preprocessed).ext_reads@.len() ==> #[trigger] old(preprocessed).ext_reads@[i] < u32::MAX')
    a.ensures('a_merkle_row_whose_padded_successor_starts_a_chain_reads_its_index_sum_slot_once',
              'final(preprocessed).ext_reads@ == reads_after(old(preprocessed).ext_reads@, prep_base@, prep_row_width as int, tail as int, num_rows as int, has_padding, row_idx as int, D as int)')
    a.at_start('''proof {
            vstd::arithmetic::mul::lemma_mul_inequality(row_idx as int + 1, num_rows as int, prep_row_width as int);
            vstd::arithmetic::mul::lemma_mul_is_distributive_add_other_way(prep_row_width as int, row_idx as int, 1);
            assert((row_idx + 1) * prep_row_width == row_idx * prep_row_width + prep_row_width);
            vstd::arithmetic::mul::lemma_mul_nonnegative(row_idx as int, prep_row_width as int);
            if row_idx + 1 < num_rows { vstd::arithmetic::mul::lemma_mul_inequality(row_idx as int + 2, num_rows as int, prep_row_width as int); vstd::arithmetic::mul::lemma_mul_is_distributive_add_other_way(prep_row_width as int, row_idx as int + 1, 1); }
            vstd::arithmetic::mul::lemma_mul_inequality(1, num_rows as int, prep_row_width as int);
        }''')
    a.at_end('''proof {
            ax_vmul_zero(prep_base@[row_idx * prep_row_width + tail + 1], sp_next_new_start(prep_base@, prep_row_width as int, tail as int, num_rows as int, has_padding, row_idx as int));
            assert(preprocessed.ext_reads@ =~= reads_after(old(preprocessed).ext_reads@, prep_base@, prep_row_width as int, tail as int, num_rows as int, has_padding, row_idx as int, D as int)); // @@A:the_successor_of_the_last_row_is_the_first_padding_row_or_row_zero
        }''')

    b = common(u.extract(B, '', 'poseidon_preprocess_for_prover', 'poseidon_preprocess_for_prover[out_ctl_slot]'))
    slice_loop_body(b, r'for j in 0\.\.r_ext \{', 'phase 1, the phase-2 loops over op types and rows (layout offsets, base conversion) and the final insert')
    b.set_sig('R11', 'fn poseidon_preprocess_for_prover<const D: usize>(preprocessed: &PreprocessedColumns, prep_base: &mut Vec<V>, dup_wids: Option<&Vec<bool>>, j: usize, compact: bool, out_base: usize, r_ext: usize, neg_one: V)', sliced=True)
    unand_then_get_unwrap_or(b)
    unget_copied_unwrap_or(b)
    OFF = '(if compact { out_base + r_ext + j } else { out_base + j * 2 + 1 })'
    O0 = '(if compact { out_base + j } else { out_base + j * 2 })'
    b.requires('layout', f'D > 0 && j < r_ext && r_ext < 0x1_0000 && out_base < 0x1_0000_0000_0000 && {OFF} < old(prep_base)@.len()')
    b.ensures('an_exposed_output_limb_creates_with_the_reads_of_its_own_slot_a_duplicate_reads',
              f'''final(prep_base)@ == old(prep_base)@.update({OFF} as int, new_ctl(old(prep_base)@[{OFF} as int], old(prep_base)@[{O0} as int], preprocessed.ext_reads@,
                    match dup_wids {{ Some(dv) => Some(dv@), None => None }}, D as int, neg_one))''')
    b.at_end(f'''proof {{
            assert(prep_base@ =~= old(prep_base)@.update({OFF} as int, new_ctl(old(prep_base)@[{OFF} as int], old(prep_base)@[{O0} as int], preprocessed.ext_reads@,
                    match dup_wids {{ Some(dv) => Some(dv@), None => None }}, D as int, neg_one))); // @@A:out_ctl_follows_the_slots_own_role
        }}''')

    # ------------------------------------------------------------------ recompose_preprocess_for_op[row]
    R = 'circuit-prover/src/batch_stark_prover/recompose.rs'
    c = common(u.extract(R, '', 'recompose_preprocess_for_op', 'recompose_preprocess_for_op[row]'))
    full_ = c.body
    slice_loop_body(c, r'for row_idx in 0\.\.num_rows \{', 'lookup of the op type\'s rows, base conversion, width check; the final insert')
    # R13: index sets (`let NAME: HashSet<usize> = ..`) computed by the dropped prefix and read by the row body become parameters with arbitrary contents
    extra_ = [m_.group(1) for m_ in re.finditer(r'let (\w+): HashSet<usize> =', full_) if re.search(r'(?<![.\w])' + m_.group(1) + r'\b', c.body)]
    c.set_sig('R11', 'fn recompose_preprocess_for_op<const D: usize>(prep: &PrepView, op_type: &NpoTypeId, coeff_lookups: bool, prep_base: &mut Vec<V>, row_idx: usize, prep_width: usize, neg_one: V'
              + ''.join(f', {nm_}: &IdxSet' for nm_ in extra_) + ')', sliced=True)
    unand_then_get_unwrap_or(c)
    unget_copied_unwrap_or(c)
    c.attr('#[verifier::loop_isolation(false)]')
    c.requires('layout', '''D > 0 && D < 16 && prep_width == (if coeff_lookups { 2 + 2 * D } else { 2 }) && row_idx < 0x1_0000_0000 && (row_idx + 1) * prep_width <= old(prep_base)@.len() && old(prep_base)@.len() < 0x1_0000_0000_0000''')
    DUP = 'prep.dup_npo_outputs.m@'
    c.ensures('output_multiplicity_follows_the_output_slots_own_role', '''({ let rs = row_idx * prep_width; let w = (old(prep_base)@[rs].0 as usize / D) as int;
            final(prep_base)@[rs + 1] == (if dup_at(prep.dup_npo_outputs.m@, *op_type, w) { neg_one } else { vfrom(reads_of(prep.ext_reads@, w)) }) })''')
    c.ensures('coefficient_multiplicities_count_reads_of_hinted_coefficients_only', '''coeff_lookups ==> forall|i: int| 0 <= i < D ==>
            #[trigger] coef_ok(final(prep_base)@, old(prep_base)@, prep.ext_reads@, prep.hint_output_wids.s@, row_idx * prep_width, i, D as int)''')
    # C12 / C09 (open finding, round 17): a coefficient whose slot has ANOTHER creator (a constant through assert_zero, a public input through connect) is not a hint output any more, so the coefficient table
    # neither creates nor reads it (multiplicity 0): on the very path documented as the sound one nothing ties that coefficient to the decomposed value
    c.ensures('H_a_coefficient_that_has_another_creator_is_still_read_by_the_coefficient_table', '''coeff_lookups ==> forall|i: int| 0 <= i < D ==>
            #[trigger] every_coefficient_is_on_the_bus(final(prep_base)@, row_idx * prep_width, i)''')
    c.ensures('index_columns_and_other_rows_untouched', '''final(prep_base)@.len() == old(prep_base)@.len() && forall|q: int| 0 <= q < old(prep_base)@.len() && !(row_idx * prep_width < q < (row_idx + 1) * prep_width && (q - row_idx * prep_width) % 2 == 1)
            ==> #[trigger] final(prep_base)@[q] == old(prep_base)@[q]''')
    c.at_start('''proof { vstd::arithmetic::mul::lemma_mul_is_distributive_add_other_way(prep_width as int, row_idx as int, 1); vstd::arithmetic::mul::lemma_mul_nonnegative(row_idx as int, prep_width as int); assert((row_idx + 1) * prep_width == row_idx * prep_width + prep_width); assert(prep_width >= 2); assert(row_idx * prep_width + prep_width <= prep_base@.len()); assert(row_idx * prep_width <= usize::MAX); }''')
    if 'for i in 0..D' in c.body:
        c.before('for i in 0..D', 'let ghost pb1 = prep_base@; proof { assert forall|q: int| 0 <= q < pb1.len() && q != row_start + 1 implies #[trigger] pb1[q] == old(prep_base)@[q] by {} }')
        c.at_loop_end('for i in 0..D', '''proof {
                    let pos = row_start + 2 + i * 2 + 1;
                    assert(pb_i[row_start + 2 + i * 2] == pb1[row_start + 2 + i * 2]);
                    assert(pb1[row_start + 2 + i * 2] == old(prep_base)@[row_start + 2 + i * 2]);
                    assert forall|q: int| 0 <= q < prep_base@.len() && !(row_start + 2 <= q < row_start + 2 + 2 * (i + 1) && (q - row_start) % 2 == 1) implies #[trigger] prep_base@[q] == pb1[q] by { assert(q != pos); assert(prep_base@[q] == pb_i[q]); }
                    assert forall|t: int| 0 <= t < i + 1 implies #[trigger] coef_ok(prep_base@, old(prep_base)@, prep.ext_reads@, prep.hint_output_wids.s@, row_start as int, t, D as int) by {
                        if t < i { assert(coef_ok(pb_i, old(prep_base)@, prep.ext_reads@, prep.hint_output_wids.s@, row_start as int, t, D as int)); assert(row_start + 2 + t * 2 + 1 != pos); assert(prep_base@[row_start + 2 + t * 2 + 1] == pb_i[row_start + 2 + t * 2 + 1]); }
                    }
                }''')
        lo = c._loop_open('for i in 0..D')
        c.body = c.body[:lo + 1] + ' let ghost pb_i = prep_base@; ' + c.body[lo + 1:]
        c.loop('for i in 0..D', invariants=[
            ('coefficients_done', '''prep_base@.len() == old(prep_base)@.len() && row_start == row_idx * prep_width
                && (forall|q: int| 0 <= q < prep_base@.len() && !(row_start + 2 <= q < row_start + 2 + 2 * i && (q - row_start) % 2 == 1) ==> #[trigger] prep_base@[q] == pb1[q])
                && (forall|t: int| 0 <= t < i ==> #[trigger] coef_ok(prep_base@, old(prep_base)@, prep.ext_reads@, prep.hint_output_wids.s@, row_start as int, t, D as int))''')])
    u.text('verus! { mod mmcs_read_row { use super::*;')
    u.emit(a, vis='')
    u.text('} mod out_ctl_slot { use super::*;')
    u.emit(b, vis='')
    u.text('} mod recompose_row { use super::*;')
    u.emit(c, vis='')
    u.text('} }')
    return u
