"""Unit `prep` (C09, C04-kernel): bus roles emitted by Circuit::generate_preprocessed_columns.
Real text: circuit/src/circuit.rs Circuit::generate_preprocessed_columns (whole function) and
PreprocessedColumns::increment_ext_reads.

Ghost accounting is derived from the FLAGS THE CODE EMITS into the ALU/Const/Public columns (the data the tables
are built from), not from the code's own bookkeeping:
   creators(s) = number of emitted rows that take the creator role for slot s
   reads(s)    = number of emitted reader roles for slot s
Obligations: creators(s) <= 1 after every op (per-arm assertions), the `defined` table is exactly "has a creator",
the reader list handed to increment_ext_reads is exactly the flag-derived reader list, ext_reads == reads."""
import re

from vf.extract import extract_item
from vf.unit import Unit, unfilter_map_collect_set, unoption_filter, unmap_or

PRELUDE = r'''
#![allow(unused_imports, unused_variables, dead_code, unused_mut, unused_parens)]
use vstd::prelude::*;
use std::collections::{HashMap, HashSet, BTreeMap, BTreeSet, VecDeque};
verus! {
global size_of usize == 8;

/// field values used as flags: 0, 1, 2 are pairwise distinct (characteristic > 2)
pub trait Field: Sized + Copy {
    spec fn fzero() -> Self;
    spec fn fone() -> Self;
    spec fn ftwo() -> Self;
    proof fn distinct() ensures Self::fzero() != Self::fone(), Self::fone() != Self::ftwo(), Self::fzero() != Self::ftwo();
    fn zero() -> (r: Self) ensures r == Self::fzero();
    fn one() -> (r: Self) ensures r == Self::fone();
    fn two() -> (r: Self) ensures r == Self::ftwo();
    fn from_bool(b: bool) -> (r: Self) ensures r == (if b { Self::fone() } else { Self::fzero() });
    fn feq(&self, o: Self) -> (r: bool) ensures r == (*self == o);
    fn is_zero(&self) -> (r: bool) ensures r == (*self == Self::fzero());
}
pub struct NpoTypeId { pub _p: () }
pub struct NonPrimitivePreprocessedMap<F> { pub _p: core::marker::PhantomData<F> }
pub struct DupNpoOutputs { pub _p: () }
pub enum CircuitError { UnclaimedPrivateInput { witness_id: WitnessId }, Other }
#[derive(Clone, Copy, PartialEq, Eq, Structural)]
pub struct NonPrimitiveOpId(pub u32);

// ---- assumed std specifications (vstd has none for these)
#[verifier::external_body]
pub fn clone_u32_set(s: &HashSet<u32>) -> (r: HashSet<u32>) ensures r@ == s@ { s.clone() }

// ---------------------------------------------------------------- types cut from /repo
@@TYPES@@

#[verifier::reject_recursive_types(F)]
pub struct Circuit<F> {
    pub witness_count: u32,
    pub ops: Vec<Op<F>>,
    pub private_input_rows: Vec<WitnessId>,
}
pub trait HintExecutor<F> {}
pub trait NonPrimitiveExecutor<F: Field> {
    fn op_type(&self) -> &NpoTypeId;
    fn num_exposed_outputs(&self) -> Option<usize>;
}
/// `executor.preprocess(inputs, outputs, &mut preprocessed)`: plugin preprocessing is opaque; it may only ADD table
/// reads (each increment is a read by its own table)
#[verifier::external_body]
pub fn npo_preprocess<F: Field, const D: usize>(executor: &Box<dyn NonPrimitiveExecutor<F>>, inputs: &Vec<Vec<WitnessId>>, outputs: &Vec<Vec<WitnessId>>, p: &mut PreprocessedColumns<F, D>) -> (r: Result<(), CircuitError>)
    ensures final(p).primitive == old(p).primitive, final(p).hint_output_wids == old(p).hint_output_wids,
            final(p).ext_reads@.len() >= old(p).ext_reads@.len(),
            forall|s: int| 0 <= s < old(p).ext_reads@.len() ==> final(p).ext_reads@[s] >= old(p).ext_reads@[s] && final(p).ext_reads@[s] <= old(p).ext_reads@[s] + 0x100,
            forall|s: int| old(p).ext_reads@.len() <= s < final(p).ext_reads@.len() ==> final(p).ext_reads@[s] <= 0x100
{ unimplemented!() }
impl WitnessId {
    /// D-scaled index as a field element (not under contract here; overflow of n*D is a stated size assumption)
    #[verifier::external_body]
    pub fn base_field_index<F: Field, const D: usize>(self) -> (r: F) { unimplemented!() }
}
impl<F: Field, const D: usize> PreprocessedColumns<F, D> {
    #[verifier::external_body]
    pub fn new() -> (r: Self)
        ensures r.primitive@.len() == 3, r.ext_reads@.len() == 0, forall|i: int| 0 <= i < 3 ==> (#[trigger] r.primitive@[i])@.len() == 0
    { unimplemented!() }
    /// 6-line bookkeeping `dup_npo_outputs.entry(op).or_default(); resize; dup[i] = true` (R11: prover-side hint only)
    #[verifier::external_body]
    pub fn mark_dup_npo_output(&mut self, op_type: &NpoTypeId, wid_idx: usize)
        ensures final(self).primitive == old(self).primitive, final(self).ext_reads == old(self).ext_reads, final(self).hint_output_wids == old(self).hint_output_wids
    {}
}

/// the duplicate flag is kept per (table, slot): the prover-side conversion cannot tell the creating row from a later writing row of the SAME table
pub uninterp spec fn every_read_hint_output_has_a_creator<F>(ops: Seq<Op<F>>) -> bool;
pub uninterp spec fn first_writer_of_the_slot_is_a_row_of_another_table(op: NpoTypeId, wid: int) -> bool;
// ---------------------------------------------------------------- ghost accounting
pub type Cnt = spec_fn(u32) -> int;
pub open spec fn inc(c: Cnt, s: u32) -> Cnt { |x: u32| if x == s { c(x) + 1 } else { c(x) } }
pub open spec fn inc_if(c: Cnt, cond: bool, s: u32) -> Cnt { if cond { inc(c, s) } else { c } }
pub open spec fn occ(w: Seq<WitnessId>, s: u32) -> int decreases w.len() {
    if w.len() == 0 { 0 } else { occ(w.drop_last(), s) + (if w.last().0 == s { 1int } else { 0int }) }
}
pub open spec fn rd(v: Seq<u32>, s: u32) -> int { if (s as int) < v.len() { v[s as int] as int } else { 0 } }
/// the row's `out` slot is GIVEN (created earlier, a hint output, or a private input) and no earlier row created `b`: the row solves for b
pub open spec fn given_out_unsolved_b(def: Seq<bool>, out: u32, b: u32, hints: Set<u32>, privs: Set<u32>) -> bool {
    (((out as int) < def.len() && def[out as int]) || hints.contains(out) || privs.contains(out)) && !((b as int) < def.len() && def[b as int])
}
pub uninterp spec fn horner_accumulator_is_the_previous_rows_output_or_zero<F>(ops: Seq<Op<F>>, i: int) -> bool;
pub uninterp spec fn created_by_a_coeff_lookup_row<F>(ops: Seq<Op<F>>, i: int, w: u32) -> bool;
/// what the Const table's committed (preprocessed) data would have to determine: the constant's value
pub uninterp spec fn const_row_commits_the_value_of<F>(op: Op<F>, committed: F) -> bool;
/// the slot a Const / Public row creates
pub open spec fn cp_out<F>(op: Op<F>) -> Option<u32> { match op { Op::Const { out, .. } => Some(out.0), Op::Public { out, .. } => Some(out.0), _ => None } }
pub open spec fn one_creator(c: Cnt) -> bool { forall|s: u32| 0 <= #[trigger] c(s) <= 1 }
/// C09 third clause for one operand column: a slot that has a creator somewhere (defined earlier, an input / hint slot, or the slot this row creates through `out`) is not left off the bus
pub open spec fn on_bus_when_created(def: Seq<bool>, w: u32, out: u32, privs: Set<u32>, hints: Set<u32>, skipped: bool) -> bool {
    (((w as int) < def.len() && def[w as int]) || privs.contains(w) || hints.contains(w) || w == out) ==> !skipped
}
pub open spec fn defined_is_created(d: Seq<bool>, c: Cnt) -> bool {
    forall|s: u32| ((s as int) < d.len() && d[s as int]) <==> #[trigger] c(s) >= 1
}
pub open spec fn reads_match(v: Seq<u32>, r: Cnt) -> bool { forall|s: u32| #[trigger] r(s) == rd(v, s) }
/// reader roles of one ALU row, read off the emitted flags
pub open spec fn alu_row_readers<F: Field>(a: WitnessId, b: WitnessId, c: WitnessId, out: WitnessId, a_state: F, b_is_creator: F, c_state: F, out_is_creator: F) -> Seq<WitnessId> {
    let s0 = Seq::<WitnessId>::empty();
    let s1 = if b_is_creator == F::fzero() { s0.push(b) } else { s0 };
    let s2 = if out_is_creator == F::fzero() { s1.push(out) } else { s1 };
    let s3 = if a_state == F::fone() { s2.push(a) } else { s2 };
    if c_state == F::fone() { s3.push(c) } else { s3 }
}
pub open spec fn total_len(v: Seq<Vec<WitnessId>>) -> int decreases v.len() { if v.len() == 0 { 0 } else { total_len(v.drop_last()) + v.last()@.len() } }
pub open spec fn npo_out_elems<F>(op: Op<F>) -> int { match op { Op::NonPrimitiveOpWithExecutor { outputs, .. } => total_len(outputs@), _ => 0 } }
pub proof fn lemma_occ_bound(w: Seq<WitnessId>, s: u32) ensures 0 <= occ(w, s) <= w.len() decreases w.len() { if w.len() > 0 { lemma_occ_bound(w.drop_last(), s); } }
pub proof fn lemma_total_len_take(v: Seq<Vec<WitnessId>>, k: int)
    requires 0 <= k < v.len()
    ensures total_len(v.take(k + 1)) == total_len(v.take(k)) + v[k]@.len(), total_len(v.take(k + 1)) <= total_len(v)
    decreases v.len() - k
{
    assert(v.take(k + 1).drop_last() =~= v.take(k));
    if k + 1 < v.len() { lemma_total_len_take(v, k + 1); } else { assert(v.take(k + 1) =~= v); }
}
pub proof fn lemma_total_len_take_le(v: Seq<Vec<WitnessId>>, k: int)
    requires 0 <= k <= v.len()
    ensures 0 <= total_len(v.take(k)) <= total_len(v)
    decreases k
{
    if k == 0 { assert(v.take(0) =~= Seq::<Vec<WitnessId>>::empty()); lemma_total_len_nonneg(v); }
    else { lemma_total_len_take(v, k - 1); lemma_total_len_take_le(v, k - 1); }
}
pub proof fn lemma_total_len_nonneg(v: Seq<Vec<WitnessId>>) ensures total_len(v) >= 0 decreases v.len() { if v.len() > 0 { lemma_total_len_nonneg(v.drop_last()); } }
pub proof fn lemma_occ_bound_all()
    ensures forall|w: Seq<WitnessId>, s: u32| 0 <= #[trigger] occ(w, s) <= w.len()
{ assert forall|w: Seq<WitnessId>, s: u32| 0 <= #[trigger] occ(w, s) <= w.len() by { lemma_occ_bound(w, s); } }
pub proof fn lemma_occ_push(w: Seq<WitnessId>, x: WitnessId, s: u32)
    ensures occ(w.push(x), s) == occ(w, s) + (if x.0 == s { 1int } else { 0int })
{ assert(w.push(x).drop_last() =~= w); }
} // verus!
'''


def types_from_repo():
    t = []
    t.append('#[derive(Clone, Copy, PartialEq, Eq, Hash, Structural)]\n' + extract_item('circuit/src/types.rs', r'pub struct WitnessId\b'))
    t.append('#[derive(Clone, Copy, PartialEq, Eq, Hash, Structural)]\n' + extract_item('circuit/src/ops/op.rs', r'pub enum AluOpKind\b'))
    t.append('#[verifier::reject_recursive_types(F)]\n' + extract_item('circuit/src/ops/op.rs', r'pub enum Op<F>'))
    pc = extract_item('circuit/src/circuit.rs', r'pub struct PreprocessedColumns<F, const D: usize>')
    pc = pc.replace('HashMap<NpoTypeId, Vec<bool>>', 'DupNpoOutputs').replace('hashbrown::HashSet<u32>', 'HashSet<u32>')
    t.append(pc)
    return '\n\n'.join(t)


def discriminants():
    e = extract_item('circuit/src/ops/op.rs', r'pub enum PrimitiveOpType\b')
    return dict(re.findall(r'(\w+)\s*=\s*(\d+)', e))


def build():
    u = Unit('prep', ['C09', 'C04', 'C12', 'C11'])
    u.rlimit = 200
    u.assume('non-primitive plugin preprocessing is opaque: it may only add reads (each ext_reads increment it makes is a read by its own table)')
    u.assume('flag values 0, 1, 2 are distinct field elements; base_field_index is injective below the stated witness-count bound (not under contract)')
    u.assume('Vec::resize / HashSet::clone have their standard meaning (assumed specifications); dup_npo_outputs bookkeeping replaced by an opaque call (R11)')
    u.text(PRELUDE.replace('@@TYPES@@', types_from_repo()))
    C = 'circuit/src/circuit.rs'
    disc = discriminants()

    inc_ = u.extract(C, r'PreprocessedWriter<F> for PreprocessedColumns<F, D>', 'increment_ext_reads', 'PreprocessedColumns::increment_ext_reads')
    inc_.rewrite('R5', 'for wid in wids {', 'for q_ in 0..wids.len() { let wid = &wids[q_];')
    inc_.requires('no_counter_overflow', 'forall|s: u32| #[trigger] rd(old(self).ext_reads@, s) + wids@.len() <= u32::MAX')
    inc_.ensures('counts_every_occurrence', 'forall|s: u32| rd(final(self).ext_reads@, s) == rd(old(self).ext_reads@, s) + #[trigger] occ(wids@, s)')
    inc_.ensures('frame', 'final(self).primitive == old(self).primitive && final(self).hint_output_wids == old(self).hint_output_wids && final(self).ext_reads@.len() >= old(self).ext_reads@.len()')
    inc_.at_start('let ghost wv = wids@; let ghost mut done_: Seq<WitnessId> = Seq::empty();')
    inc_.loop('for q_ in 0..wids.len()', invariants=[
        ('frame', 'self.primitive == old(self).primitive && self.hint_output_wids == old(self).hint_output_wids && self.ext_reads@.len() >= old(self).ext_reads@.len() && wv == wids@'),
        ('bound', 'forall|s: u32| #[trigger] rd(self.ext_reads@, s) + (wids@.len() - q_) <= u32::MAX'),
        ('count', 'done_ == wv.take(q_ as int) && forall|s: u32| rd(self.ext_reads@, s) == rd(old(self).ext_reads@, s) + #[trigger] occ(done_, s)'),
    ])
    inc_.after('let wid = &wids[q_];', 'let ghost prev = self.ext_reads@; let ghost done0 = done_; proof { assert(rd(prev, wid.0) + (wids@.len() - q_) <= u32::MAX); }')
    inc_.at_loop_end('for q_ in 0..wids.len()', '''proof {
            assert(wv.take(q_ as int + 1) =~= wv.take(q_ as int).push(wv[q_ as int]));
            assert forall|s: u32| rd(self.ext_reads@, s) == rd(prev, s) + (if s == wid.0 { 1int } else { 0int }) by {
                if (s as int) < prev.len() { assert(self.ext_reads@[s as int] == (if s == wid.0 { (prev[s as int] + 1) as u32 } else { prev[s as int] })); }
            }
            assert(wv[q_ as int] == *wid);
            done_ = done0.push(*wid);
            assert forall|s: u32| #[trigger] rd(self.ext_reads@, s) + (wids@.len() - (q_ + 1)) <= u32::MAX by { assert(rd(prev, s) + (wids@.len() - q_) <= u32::MAX); }
            assert forall|s: u32| rd(self.ext_reads@, s) == rd(old(self).ext_reads@, s) + #[trigger] occ(done_, s) by {
                lemma_occ_push(done0, *wid, s);
                assert(rd(prev, s) == rd(old(self).ext_reads@, s) + occ(done0, s));
                assert(rd(self.ext_reads@, s) == rd(prev, s) + (if s == wid.0 { 1int } else { 0int }));
            }
        }''')
    inc_.before('for q_ in 0..wids.len()', 'proof { assert(wv.take(0) =~= Seq::<WitnessId>::empty()); }')
    inc_.at_end('proof { assert(wv.take(wv.len() as int) =~= wv); }')
    inc_.bind_tail  # (no tail)
    u.text('verus! {\nimpl<F: Field, const D: usize> PreprocessedColumns<F, D> {')
    u.emit(inc_)
    u.text('}\n}')

    g = u.extract(C, r'impl<F: Field> Circuit<F>', 'generate_preprocessed_columns', 'Circuit::generate_preprocessed_columns')
    g.set_sig('R11', 'fn generate_preprocessed_columns<const D: usize>(&self) -> Result<PreprocessedColumns<F, D>, CircuitError>')
    for name, d in disc.items():
        g.rewrite_re('R11', r'PrimitiveOpType::%s as usize' % name, '%susize' % d)
    g.rewrite_re('R11', r'\bF::ONE\b', 'F::one()')
    g.rewrite_re('R11', r'\bF::ZERO\b', 'F::zero()')
    g.rewrite_re('R11', r'\bF::TWO\b', 'F::two()')
    g.rewrite_re('R11', r'(\w+) == F::(zero|one|two)\(\)', r'\1.feq(F::\2())', min_count=8)
    g.rewrite('R6', 'let private_input_wids: hashbrown::HashSet<u32> = self.private_input_rows.iter().map(|w| w.0).collect();',
              'let mut private_input_wids: HashSet<u32> = HashSet::new(); for q_ in 0..self.private_input_rows.len() { private_input_wids.insert(self.private_input_rows[q_].0); }')
    unfilter_map_collect_set(g)
    g.rewrite_re('R6', r'preprocessed\.hint_output_wids = self\s*\.ops\s*\.iter\(\)\s*\.filter_map\(\|op\| \{\s*if let Op::Hint \{ outputs, \.\. \} = op \{\s*Some\(outputs\.iter\(\)\.map\(\|w\| w\.0\)\)\s*\} else \{\s*None\s*\}\s*\}\)\s*\.flatten\(\)\s*\.filter\(\|wid\| !(\w+)\.contains\(wid\)\)\s*\.collect\(\);',
                 r'''let mut how_: HashSet<u32> = HashSet::new();
        for q_ in 0..self.ops.len() { if let Op::Hint { outputs, .. } = &self.ops[q_] { for r_ in 0..outputs.len() { let wid = outputs[r_].0; if !\1.contains(&wid) { how_.insert(wid); } } } }
        preprocessed.hint_output_wids = how_;''', min_count=1)
    g.rewrite('R11', 'preprocessed.hint_output_wids.clone()', 'clone_u32_set(&preprocessed.hint_output_wids)')
    g.rewrite('R5', 'for op in &self.ops {', 'for oi_ in 0..self.ops.len() { let op = &self.ops[oi_];')
    unoption_filter(g)
    unmap_or(g)
    g.rewrite('R6', 'preprocessed.primitive[2usize].extend([', 'preprocessed.primitive[2usize].extend_from_slice(&[')
    g.rewrite('R11', 'executor.preprocess(inputs, outputs, &mut preprocessed)?;', 'npo_preprocess::<F, D>(executor, inputs, outputs, &mut preprocessed)?;')
    g.rewrite('R6', 'executor.num_exposed_outputs().unwrap_or(outputs.len())', '(match executor.num_exposed_outputs() { Some(n_) => n_, None => outputs.len() })')
    g.rewrite('R5', 'for out_limb in outputs.iter().take(n_exposed) { for wid in out_limb {',
              '''proof { assert(n_exposed >= outputs@.len()); } // @@A:H_every_output_slot_of_a_table_row_is_exposed_on_the_bus
                    for ol_ in 0..(if n_exposed < outputs.len() { n_exposed } else { outputs.len() }) { let out_limb = &outputs[ol_]; for wl_ in 0..out_limb.len() { let wid = &out_limb[wl_];''')
    g.rewrite('R11', '''let dup = preprocessed .dup_npo_outputs .entry(op_type.clone()) .or_default(); if wid_idx >= dup.len() { dup.resize(wid_idx + 1, false); } dup[wid_idx] = true;''',
              '''proof { assert(first_writer_of_the_slot_is_a_row_of_another_table(*op_type, wid_idx as int)); } // @@A:H_a_slot_a_table_writes_again_was_created_by_another_table
                                preprocessed.mark_dup_npo_output(op_type, wid_idx);''')
    g.rewrite('R5', 'for &wid in &self.private_input_rows {', 'for pr_ in 0..self.private_input_rows.len() { let wid = self.private_input_rows[pr_];')

    g.requires('realistic_sizes', 'self.ops@.len() < 0x8_0000 && forall|k: int| 0 <= k < self.ops@.len() ==> npo_out_elems(#[trigger] self.ops@[k]) < 0x1000')
    g.requires('slot_ids_are_witnesses', '''self.witness_count < 0x4000_0000
            && forall|k: int| 0 <= k < self.private_input_rows@.len() ==> (#[trigger] self.private_input_rows@[k]).0 < self.witness_count''')
    g.ensures('no_hint_output_slot_is_also_created_by_a_const_or_public_row',
              'ret matches Ok(p) ==> forall|k: int| 0 <= k < self.ops@.len() ==> (cp_out(#[trigger] self.ops@[k]) matches Some(w) ==> !p.hint_output_wids@.contains(w))')
    # C10 (open finding): a private input no ALU row uses is accepted by build() and by the runner and refused here, so the circuit cannot be proven
    g.ensures('H_a_built_circuit_is_never_refused_for_a_private_input_no_alu_row_uses', 'ret matches Err(e) ==> !(e is UnclaimedPrivateInput)')
    # C10 (open finding, round 17): a hint output that only non-primitive rows read (e.g. hinted coefficients hashed by Poseidon2) gets no creator: the NPO arm counts the reads, the creator role is only ever
    # taken by an ALU row or by the table that outputs the slot -- the builder accepts the program and the honest proof fails the WitnessChecks lookup
    g.ensures('H_a_hint_output_read_only_by_non_primitive_rows_has_a_creator', 'ret is Ok ==> every_read_hint_output_has_a_creator(self.ops@)')
    g.ensures('ext_reads_cover_all_witnesses', 'ret matches Ok(p) ==> p.ext_reads@.len() >= self.witness_count')

    g.after('let hint_output_wids = clone_u32_set(&preprocessed.hint_output_wids);', '''
        let ghost mut creators: Cnt = |s: u32| 0int;
        let ghost mut reads: Cnt = |s: u32| 0int;
        proof { F::distinct(); }''')
    mcp = re.search(r'let mut (\w+): HashSet<u32> = HashSet::new\(\); for (fs\d+_) in 0\.\.self\.ops\.len\(\)', g.body)
    mh = re.search(r'if !(\w+)\.contains\(&wid\) \{ how_\.insert\(wid\); \}', g.body)
    if mcp and mh and mcp.group(1) == mh.group(1):
        CPS, FS = mcp.group(1), mcp.group(2)
        g.loop(f'for {FS} in 0..self.ops.len()', invariants=[('const_and_public_outputs_collected', f'forall|k: int| 0 <= k < {FS} ==> (cp_out(#[trigger] self.ops@[k]) matches Some(w) ==> {CPS}@.contains(w))')])
        g.loop('for q_ in 0..self.ops.len()', invariants=[('hint_slots_exclude_const_and_public_slots', f'forall|w: u32| #[trigger] how_@.contains(w) ==> !{CPS}@.contains(w)')], nth=0)
        g.loop('for r_ in 0..outputs.len()', invariants=[('hint_slots_exclude_const_and_public_slots', f'forall|w: u32| #[trigger] how_@.contains(w) ==> !{CPS}@.contains(w)')])
        g.rewrite_re('SPEC', r'(preprocessed\.hint_output_wids = how_;)', f'\\1 let ghost hw0_ = how_@; let ghost cps_ = {CPS}@; proof {{ assert forall|k: int| 0 <= k < self.ops@.len() implies (cp_out(#[trigger] self.ops@[k]) matches Some(w) ==> !hw0_.contains(w)) by {{ if cp_out(self.ops@[k]) is Some {{ assert(cps_.contains(cp_out(self.ops@[k]).unwrap())); }} }} }}')
        HINT_POST = True
    else:
        g.loop('for q_ in 0..self.ops.len()', invariants=[('t', 'true')], nth=0)
        g.loop('for r_ in 0..outputs.len()', invariants=[('t', 'true')])
        HINT_POST = False
    HW = ' && preprocessed.hint_output_wids@ == hw0_' if HINT_POST else ''
    INV = [
        ('shape', 'preprocessed.primitive@.len() == 3 && defined@.len() >= self.witness_count && self.witness_count < 0x4000_0000 && self.ops@.len() < 0x8_0000 && (forall|k: int| 0 <= k < self.ops@.len() ==> npo_out_elems(#[trigger] self.ops@[k]) < 0x1000)' + HW),
        ('budget', 'forall|s: u32| #[trigger] rd(preprocessed.ext_reads@, s) <= 0x1104 * oi_'),
        ('one_creator', 'one_creator(creators)'),
        ('defined_is_created', 'defined_is_created(defined@, creators)'),
        ('reads_match', 'reads_match(preprocessed.ext_reads@, reads)'),
    ]
    g.loop('for oi_ in 0..self.ops.len()', invariants=INV)
    # simple loops before the main one
    g.loop('for q_ in 0..self.private_input_rows.len()', invariants=[('t', 'true')])

    # ---- Const / Public arms: the row is a creator of `out`
    # C11 (constant op kind): the defining relation of a Const row is `out = val`; the verifying data of the Const table is its preprocessed row, which carries the slot index only
    # (the value is a main-trace column the prover fills): finding C11-const-values-unbound
    g.after('preprocessed.primitive[0usize].push(idx);', 'proof { creators = inc(creators, out.0); assert(const_row_commits_the_value_of(self.ops@[oi_ as int], idx)); } // @@A:H_the_preprocessed_row_of_a_constant_commits_its_value')
    g.after('preprocessed.primitive[1usize].push(idx);', 'proof { creators = inc(creators, out.0); }')
    g.after('defined[out_idx] = true;', '''proof {
                    // NOT established when the slot already has a creator (connected constants / public inputs): known finding C09-two-creators
                    assert(one_creator(creators)); // @@A:one_creator_after_const_row
                }''', nth=0)
    g.after('defined[out_idx] = true;', '''proof {
                    assert(one_creator(creators)); // @@A:one_creator_after_public_row
                }''', nth=1)

    # ---- ALU arm: roles read off the emitted flags
    g.before('preprocessed.primitive[2usize].extend_from_slice(&[', '''let ghost cr0 = creators; let ghost rd0 = reads; let ghost def0 = defined@;
                    let ghost a_cr = a_state == F::ftwo(); let ghost b_cr = b_is_creator == F::fone(); let ghost c_cr = c_state == F::ftwo(); let ghost o_cr = out_is_creator == F::fone();
                    proof {
                        F::distinct();
                        creators = inc_if(inc_if(inc_if(inc_if(creators, o_cr, out.0), b_cr, b.0), a_cr, a.0), c_cr, c_wid.0);
                        // alias cases the code has no guard for (each is the recorded finding C09-alias-double-creator):
                        // C10 / C09: the first row that mentions a free slot (a hint output, a private input) must create it -- for `b` as for `a` and `c` -- unless `a` or `c` of this very row does
                        let ghost b_free_first_use = (b.0 as int >= def0.len() || !def0[b.0 as int]) && (hint_output_wids@.contains(b.0) || private_input_wids@.contains(b.0));
                        assert(b_free_first_use ==> (b_cr || (a_cr && a.0 == b.0) || (c_cr && c_wid.0 == b.0))); // @@A:a_free_slot_first_read_as_b_gets_its_creator_in_this_row
                        // the recorded inputs of that finding: b is a private input at its first use, or the row solves for b (its out slot is given). Any OTHER way for b to share the creator role is not covered by it:
                        let ghost known_b_shape = private_input_wids@.contains(b.0) || !o_cr || hint_output_wids@.contains(out.0) || private_input_wids@.contains(out.0);
                        assert(!(a_cr && b_cr && a.0 == b.0 && !known_b_shape)); // @@A:a_and_b_are_both_creators_of_one_slot_only_in_the_recorded_alias_shapes
                        assert(!(c_cr && b_cr && c_wid.0 == b.0 && !known_b_shape)); // @@A:c_and_b_are_both_creators_of_one_slot_only_in_the_recorded_alias_shapes
                        assert(!(a_cr && b_cr && a.0 == b.0)); // @@A:H_a_and_b_not_both_creators_of_one_slot
                        assert(!(b_cr && o_cr && b.0 == out.0)); // @@A:H_b_and_out_not_both_creators_of_one_slot
                        assert(!(c_cr && b_cr && c_wid.0 == b.0)); // @@A:H_c_and_b_not_both_creators_of_one_slot
                        assert(!(c_cr && a_cr && c_wid.0 == a.0)); // @@A:H_c_and_a_not_both_creators_of_one_slot
                        // with those excluded, the guards in the code (a/c aliased by out, defined[] tests) give one creator per slot
                        assert(one_creator(creators)); // @@A:one_creator_after_alu_row
                        // a row whose `out` slot is GIVEN (created earlier, a hint output, or a private input) solves for `b`: b is created here unless an earlier row created it
                        assert(given_out_unsolved_b(def0, out.0, b.0, hint_output_wids@, private_input_wids@) ==> b_cr); // @@A:a_row_with_a_given_out_slot_creates_the_operand_it_solves_for
                        // a HornerAcc row's relation also depends on its accumulator (`intermediate_out`): no role is emitted for it -- it is bound only by row adjacency when it is the previous
                        // step's output; a chain START from a non-zero accumulator is not (finding C09-horner-chain-start-accumulator-off-the-bus)
                        assert(*kind is HornerAcc ==> horner_accumulator_is_the_previous_rows_output_or_zero(self.ops@, oi_ as int)); // @@A:H_horner_accumulator_operand_is_bound
                        // a hint output that a recompose/coeff row also creates must not take the creator role here (the NPO arm marks only the op's OUTPUTS as defined): finding C09-hint-coefficient-created-twice
                        assert(a_cr && hint_output_wids@.contains(a.0) ==> !created_by_a_coeff_lookup_row(self.ops@, oi_ as int, a.0)); // @@A:H_a_hint_slot_created_here_is_not_also_created_by_a_recompose_coeff_row
                        // C09, third clause: an operand of the row's relation takes part in the bus whenever its slot has a creator at all --
                        // an earlier row, an input / hint slot at its first use, or this very row through `out`  (b and out always carry a role)
                        assert(on_bus_when_created(def0, a.0, out.0, private_input_wids@, hint_output_wids@, a_state == F::fzero())); // @@A:operand_a_takes_part_in_the_witness_bus
                        assert(c matches Some(w) ==> on_bus_when_created(def0, w.0, out.0, private_input_wids@, hint_output_wids@, c_state == F::fzero())); // @@A:operand_c_takes_part_in_the_witness_bus
                    }''')
    g.before('preprocessed.increment_ext_reads(&readers);', '''proof {
                        assert(readers@ =~= alu_row_readers(*a, *b, c_wid, *out, a_state, b_is_creator, c_state, out_is_creator)); // @@A:reader_list_is_flag_derived
                        reads = |s: u32| rd0(s) + occ(readers@, s);
                        assert(readers@.len() <= 4);
                        assert forall|s: u32| #[trigger] rd(preprocessed.ext_reads@, s) + readers@.len() <= u32::MAX by {}
                    }''')
    g.after('preprocessed.increment_ext_reads(&readers);', '''proof {
                        assert forall|s: u32| #[trigger] rd(preprocessed.ext_reads@, s) <= 0x1104 * (oi_ + 1) by { lemma_occ_bound(readers@, s); }
                    }''')
    step = lambda conds: "proof { assert forall|s: u32| ((s as int) < defined@.len() && defined@[s as int]) <==> (#[trigger] cr0(s) >= 1 || %s) by { assert(((s as int) < def0.len() && def0[s as int]) <==> cr0(s) >= 1); } }" % conds
    g.after_enclosing_block('defined[out_idx] = true;', step('(o_cr && s == out.0)'), nth=2)
    g.after_enclosing_block('defined[b_idx] = true;', step('(o_cr && s == out.0) || (b_cr && s == b.0)'))
    g.after_enclosing_block('defined[a_idx] = true;', step('(o_cr && s == out.0) || (b_cr && s == b.0) || (a_cr && s == a.0)'))
    g.after_enclosing_block('defined[c_idx] = true;', '''proof {
                        assert forall|s: u32| ((s as int) < defined@.len() && defined@[s as int]) <==> #[trigger] creators(s) >= 1 by {
                            assert(cr0(s) >= 0);
                            assert(creators(s) == cr0(s) + (if o_cr && s == out.0 { 1int } else { 0 }) + (if b_cr && s == b.0 { 1int } else { 0 }) + (if a_cr && s == a.0 { 1int } else { 0 }) + (if c_cr && s == c_wid.0 { 1int } else { 0 }));
                        }
                        assert(defined_is_created(defined@, creators)); // @@A:defined_table_tracks_creators_alu
                    }''')
    # ---- NPO arm
    g.before('npo_preprocess::<F, D>(executor, inputs, outputs, &mut preprocessed)?;', 'let ghost er0 = preprocessed.ext_reads@;')
    g.after('npo_preprocess::<F, D>(executor, inputs, outputs, &mut preprocessed)?;', '''proof { let er = preprocessed.ext_reads@; reads = |s: u32| rd(er, s);
                        assert forall|s: u32| #[trigger] rd(er, s) <= 0x1104 * oi_ + 0x100 by { assert(rd(er0, s) <= 0x1104 * oi_); } }
                    let ghost mut added: int = 0; let ghost mut seen: int = 0;
                    proof { assert(outputs@.take(0) =~= Seq::<Vec<WitnessId>>::empty()); assert(npo_out_elems(self.ops@[oi_ as int]) < 0x1000); }''')
    NPO = ('preprocessed.hint_output_wids@ == hw0_ && ' if HINT_POST else '') + 'preprocessed.primitive@.len() == 3 && defined@.len() >= self.witness_count && one_creator(creators) && defined_is_created(defined@, creators) && reads_match(preprocessed.ext_reads@, reads) && oi_ < self.ops@.len() && total_len(outputs@) < 0x1000 && self.ops@.len() < 0x8_0000'
    g.loop('for ol_ in 0..', invariants=[
        ('state', NPO),
        ('seen', 'ol_ <= outputs@.len() && seen == total_len(outputs@.take(ol_ as int)) && 0 <= added <= seen'),
        ('budget', 'forall|s: u32| #[trigger] rd(preprocessed.ext_reads@, s) <= 0x1104 * oi_ + 0x100 + added'),
    ])
    g.after('let out_limb = &outputs[ol_];', 'let ghost seen0 = seen; proof { lemma_total_len_take(outputs@, ol_ as int); }')
    g.loop('for wl_ in 0..out_limb.len()', invariants=[
        ('state', NPO),
        ('seen', 'ol_ < outputs@.len() && out_limb@ == outputs@[ol_ as int]@ && seen0 == total_len(outputs@.take(ol_ as int)) && seen0 + out_limb@.len() <= total_len(outputs@) && seen == seen0 + wl_ && 0 <= added <= seen'),
        ('budget', 'forall|s: u32| #[trigger] rd(preprocessed.ext_reads@, s) <= 0x1104 * oi_ + 0x100 + added'),
    ])
    g.rewrite('R-bind-temp', 'preprocessed.increment_ext_reads(&[*wid]);', 'let one_ = [*wid]; preprocessed.increment_ext_reads(&one_);')
    g.before('let one_ = [*wid]; preprocessed.increment_ext_reads(&one_);', '''let ghost rd1 = reads; let ghost er1 = preprocessed.ext_reads@;
                                proof { assert forall|s: u32| #[trigger] rd(preprocessed.ext_reads@, s) + 1 <= u32::MAX by { assert(rd(er1, s) <= 0x1104 * oi_ + 0x100 + added); } }''')
    g.after('preprocessed.increment_ext_reads(&one_);', '''proof { assert(one_@.len() == 1); let er2 = preprocessed.ext_reads@; reads = |s: u32| rd(er2, s); added = added + 1;
                                    lemma_occ_bound_all();
                                    assert forall|s: u32| #[trigger] rd(preprocessed.ext_reads@, s) <= 0x1104 * oi_ + 0x100 + added by { lemma_occ_bound(one_@, s); assert(rd(preprocessed.ext_reads@, s) == rd(er1, s) + occ(one_@, s)); assert(rd(er1, s) <= 0x1104 * oi_ + 0x100 + (added - 1)); } }''')
    g.before('if wid_idx >= defined.len() { defined.resize(wid_idx + 1, false); } defined[wid_idx] = true;', 'let ghost crn = creators; let ghost defn = defined@;')
    g.after('defined[wid_idx] = true;', '''proof { creators = inc(creators, wid.0);
                                    assert(crn(wid.0) == 0) by { assert(((wid.0 as int) < defn.len() && defn[wid.0 as int]) <==> crn(wid.0) >= 1); assert(0 <= crn(wid.0)); }
                                    assert forall|s: u32| ((s as int) < defined@.len() && defined@[s as int]) <==> #[trigger] creators(s) >= 1 by {
                                        assert(((s as int) < defn.len() && defn[s as int]) <==> crn(s) >= 1); assert(0 <= crn(s) <= 1);
                                    }
                                    assert forall|s: u32| 0 <= #[trigger] creators(s) <= 1 by { assert(0 <= crn(s) <= 1); }
                                }''')
    g.at_loop_end('for wl_ in 0..out_limb.len()', 'proof { seen = seen + 1; }')
    g.at_loop_end('for ol_ in 0..', 'proof { assert(seen == total_len(outputs@.take(ol_ as int + 1))); }')
    g.after_enclosing_block('let out_limb = &outputs[ol_];', '''proof {
                        lemma_total_len_take_le(outputs@, (if n_exposed < outputs@.len() { n_exposed as int } else { outputs@.len() as int }));
                        assert(added < 0x1000);
                        assert forall|s: u32| #[trigger] rd(preprocessed.ext_reads@, s) <= 0x1104 * (oi_ + 1) by { assert(rd(preprocessed.ext_reads@, s) <= 0x1104 * oi_ + 0x100 + added); }
                    }''')
    g.loop('for pr_ in 0..self.private_input_rows.len()', invariants=[('t', 'defined@.len() >= self.witness_count && preprocessed.ext_reads@.len() >= self.witness_count && forall|k: int| 0 <= k < self.private_input_rows@.len() ==> (#[trigger] self.private_input_rows@[k]).0 < self.witness_count')])
    u.text('verus! {\nimpl<F: Field> Circuit<F> {')
    u.emit(g)
    u.text('}\n}')
    return u
