"""Unit `ptrace` (C09 / C10): what the scheduled ALU preprocessed trace stores for a packed Horner row.

Real text: circuit-prover/src/air/alu_air.rs AluAir::build_scheduled_preprocessed_trace, sliced (R13) to the block of the
`ScheduleEntry::PackedHorner(first_idx, actual_k)` arm that runs in lane 0.  The struct views obtained with `borrow_mut()` / `borrow()` over a
column range are read field-by-field as the columns they alias (field order extracted from alu_columns.rs on every run).
Contract: the lane columns are those of the FIRST op of the group, with the output index / multiplicity of the LAST op and the shared-`b`
multiplicity multiplied by the group's OWN number of steps k (one bus read of b per packed step, matching ext_reads); selector sel_k is set; for
every later step t < k the step block carries that op's a / c indices, reader flags and the lookup multiplicities mult_a * reader."""
import re

from vf.extract import extract_item, match_brace, ExtractError
from vf.unit import Unit, _find_all
from units.openin import loop_if_present


def fields(struct_re):
    item = extract_item('circuit-prover/src/air/alu_columns.rs', struct_re)
    body = item[item.index('{') + 1:item.rindex('}')]
    return re.findall(r'pub\s+(\w+)\s*:', body)


def prelude():
    prep = fields(r'pub\(crate\) struct AluPrepLaneCols<T>')
    step = fields(r'pub\(crate\) struct AluPackedHornerStepPrepCols<T>')
    t = ['''#![allow(unused_imports, unused_variables, dead_code, unused_mut, unused_parens)]
use vstd::prelude::*;
use vstd::std_specs::ops::*;
verus! {
global size_of usize == 8;
/// a base-field value: opaque with uninterpreted multiplication and embedding of small integers
#[derive(Clone, Copy, PartialEq, Eq, Structural)]
pub struct Fe(pub int);
pub uninterp spec fn fe_mul(a: Fe, b: Fe) -> Fe;
pub uninterp spec fn fe_from(n: nat) -> Fe;
impl MulSpecImpl<Fe> for Fe {
    open spec fn obeys_mul_spec() -> bool { true }
    open spec fn mul_req(self, rhs: Fe) -> bool { true }
    open spec fn mul_spec(self, rhs: Fe) -> Fe { fe_mul(self, rhs) }
}
impl core::ops::Mul for Fe { type Output = Fe; #[verifier::external_body] fn mul(self, o: Fe) -> (r: Fe) { unimplemented!() } }
impl Fe {
    #[verifier::external_body] pub fn from_usize(n: usize) -> (r: Fe) ensures r == fe_from(n as nat) { unimplemented!() }
    #[verifier::external_body] pub fn one() -> (r: Fe) ensures r == fe_from(1) { unimplemented!() }
    #[verifier::external_body] pub fn zero() -> (r: Fe) ensures r == fe_from(0) { unimplemented!() }
}''']
    t.append(f'pub const PREP_LANE_WIDTH: usize = {len(prep)};')
    t.append(f'pub const PACKED_HORNER_STEP_PREP_WIDTH: usize = {len(step)};')
    for k, f in enumerate(prep):
        t.append(f'pub const P_{f.upper()}: usize = {k};')
    for k, f in enumerate(step):
        t.append(f'pub const S_{f.upper()}: usize = {k};')
    t.append('''pub struct AluAirV { pub preprocessed: Vec<Fe>, pub lanes: usize, pub horner_packed_steps: usize }
/// copy of alu_columns.rs extra_prep_sel_k_idx / extra_prep_a_idx_for_step (under contract in unit alu)
pub fn extra_prep_sel_k_idx(k: usize) -> (r: usize) requires k >= 2 ensures r == k - 2 { k - 2 }
pub fn extra_prep_a_idx_for_step(t: usize, k_max: usize) -> (r: usize) requires t >= 1, k_max >= 1, (k_max - 1) + PACKED_HORNER_STEP_PREP_WIDTH * (t - 1) <= usize::MAX
    ensures r == (k_max - 1) + PACKED_HORNER_STEP_PREP_WIDTH * (t - 1) { (k_max - 1) + PACKED_HORNER_STEP_PREP_WIDTH * (t - 1) }
/// `dst[a..a+n].copy_from_slice(src[b..b+n])`
#[verifier::external_body]
pub fn copy_cols(dst: &mut Vec<Fe>, a: usize, src: &Vec<Fe>, b: usize, n: usize)
    requires a + n <= old(dst)@.len(), b + n <= src@.len()
    ensures final(dst)@.len() == old(dst)@.len(), forall|q: int| 0 <= q < old(dst)@.len() ==> #[trigger] final(dst)@[q] == (if a <= q < a + n { src@[b + (q - a)] } else { old(dst)@[q] })
{ unimplemented!() }
pub open spec fn op_col(pre: Seq<Fe>, op: int, c: int) -> Fe { pre[op * PREP_LANE_WIDTH + c] }
/// the step block of step t (t >= 1) of a packed row: operands / reader flags of op first+t, lookup multiplicities mult_a * reader (the `on` factor is 1 for t < k)
pub open spec fn step_ok(v: Seq<Fe>, pre: Seq<Fe>, xb: int, kmax: int, first: int, t: int, ma: Fe) -> bool {
    let p = xb + (kmax - 1) + PACKED_HORNER_STEP_PREP_WIDTH * (t - 1);
    &&& v[p + S_A_IDX] == op_col(pre, first + t, P_A_IDX as int) && v[p + S_C_IDX] == op_col(pre, first + t, P_C_IDX as int)
    &&& v[p + S_A_READER] == op_col(pre, first + t, P_A_IS_READER as int) && v[p + S_C_READER] == op_col(pre, first + t, P_C_IS_READER as int)
    &&& v[p + S_HORNER_LOOKUP_MULT_A] == fe_mul(fe_mul(ma, op_col(pre, first + t, P_A_IS_READER as int)), fe_from(1))
    &&& v[p + S_HORNER_LOOKUP_MULT_C] == fe_mul(fe_mul(ma, op_col(pre, first + t, P_C_IS_READER as int)), fe_from(1))
}
} // verus!''')
    return '\n'.join(t), prep, step


def unborrow_views(f, prep, step):
    """R11: `let NAME: &[mut] VIEW<F> = VEC[START..END].borrow[_mut]();` -> the binding is dropped and every `NAME.FIELD` in scope reads / writes
    `VEC[START + IDX_FIELD]` (IDX = position of the field in the #[repr(C)] struct, extracted from alu_columns.rs);  `x *= e` -> `x = x * e`."""
    views = {'AluPrepLaneCols': ('P_', prep), 'AluPackedHornerStepPrepCols': ('S_', step)}
    n = 0
    while True:
        m = re.search(r'let (\w+): &(mut )?(\w+)<F> =\s*([\w.]+)\s*\[(.+?)\.\.(.+?)\]\s*\.borrow(?:_mut)?\(\);', f.body, flags=re.S)
        if not m:
            m2 = re.search(r'let (\w+): &(mut )?(\w+)<F> =\s*(\w+)\.borrow(?:_mut)?\(\);', f.body)
            if not m2:
                break
            # a view of a whole named slice `S` that was itself bound as `let S = &VEC[A..B];`
            name, _, ty, src = m2.groups()
            ms = re.search(r'let ' + src + r' = &([\w.]+)\s*\[(.+?)\.\.(.+?)\];', f.body, flags=re.S)
            if not ms or ty not in views:
                break
            vec, start = ms.group(1), ' '.join(ms.group(2).split())
            span = (m2.start(), m2.end())
        else:
            name, _, ty, vec, start, _end = m.groups()
            start = ' '.join(start.split())
            span = (m.start(), m.end())
            if ty not in views:
                break
        pfx, flds = views[ty]
        # scope: to the end of the enclosing block
        depth, e = 0, span[1]
        while e < len(f.body):
            if f.body[e] == '{':
                depth += 1
            elif f.body[e] == '}':
                if depth == 0:
                    break
                depth -= 1
            e += 1
        scope = f.body[span[1]:e]
        for fld in flds:
            scope = re.sub(r'\b' + name + r'\.' + fld + r'\b', f'{vec}[({start}) + {pfx}{fld.upper()}]', scope)
        f.body = f.body[:span[0]] + scope + f.body[e:]
        n += 1
    f.rewrite_re('R6', r'([\w.]+\[[^;=]+?\]) \*= ([^;]+);', r'\1 = \1 * \2;', min_count=0)
    if n:
        f.rewrites.append(('R11', f'{n} struct views over a column range (`borrow()` / `borrow_mut()`) -> per-field column accesses at the field\'s #[repr(C)] position', ''))
    return f


def build():
    u = Unit('ptrace', ['C09', 'C10'])
    u.rlimit = 100
    pre, prep, step = prelude()
    u.assume('field values opaque (uninterpreted product, from_usize); `#[repr(C)]` struct views alias consecutive columns in field order (field lists extracted from alu_columns.rs); copy_from_slice copies the range')
    u.assume('R13 slice: the lane-0 block of the PackedHorner arm; row / base offsets and the in-range facts of the enclosing loop are parameters / preconditions')
    u.text(pre)
    A = 'circuit-prover/src/air/alu_air.rs'
    IMPL = r'impl<F: Field \+ PrimeCharacteristicRing \+ Copy, const D: usize> AluAir<F, D>'
    f = u.extract(A, IMPL, 'build_scheduled_preprocessed_trace', 'AluAir::build_scheduled_preprocessed_trace[packed_row]')
    m = re.search(r'ScheduleEntry::PackedHorner\(first_idx, actual_k\) => \{\s*if lane == 0 (\{)', f.body)
    if not m:
        raise ExtractError('lost anchor in build_scheduled_preprocessed_trace: PackedHorner arm / lane-0 block')
    c = match_brace(f.body, m.start(1))
    dropped = len(f.body) - (c - m.start(1))
    # prefix `let NAME = RHS;` statements of the function that only read `self` / constants / earlier kept names stay in front of the slice
    # (a value hoisted out of the loop is then still the value the real code computes); the others (allocation, sizes from `schedule`) are dropped
    from vf.extract import _split_stmts
    loop_at = f.body.find('for (pos, entry) in')
    kept, known = [], {'self', 'F', 'PREP_LANE_WIDTH', 'PACKED_HORNER_STEP_PREP_WIDTH', 'usize', 'from_usize', 'horner_packed_steps', 'lanes', 'ONE', 'ZERO'}
    params = {'values', 'first_idx', 'actual_k', 'row', 'row_width', 'base', 'plw'}
    for st in _split_stmts(f.body[1:loop_at] if loop_at > 0 else ''):
        ml = re.match(r'\s*let (?:mut )?(\w+)(?::[^=]+)? = (.*);\s*$', st, flags=re.S)
        if not ml or ml.group(1) in params:
            continue
        ids = set(re.findall(r'[A-Za-z_]\w*', ml.group(2)))
        if ids <= known | set(k_ for k_, _ in kept):
            kept.append((ml.group(1), st.strip()))
    f.body = '{ ' + ' '.join(t_ for _, t_ in kept) + ' ' + f.body[m.start(1):c + 1] + ' }'
    f.rewrites.append(('R13', f'function body := the lane-0 block of the PackedHorner arm ({dropped} chars around it dropped: allocation, the Op / Separator arms, padding)', ''))
    f.set_sig('R11', 'fn build_scheduled_preprocessed_trace(&self, values: &mut Vec<Fe>, first_idx: &usize, actual_k: &usize, row: usize, row_width: usize, base: usize, plw: usize)', sliced=True)
    f.rewrite_re('R11', r'\bF::from_usize\(', 'Fe::from_usize(', min_count=0)
    f.rewrite_re('R11', r'\bF::ONE\b', 'Fe::one()', min_count=0)
    f.rewrite_re('R11', r'\bF::ZERO\b', 'Fe::zero()', min_count=0)
    f.rewrite_re('R6', r'values\[base\.\.base \+ plw\]\.copy_from_slice\(src0\);', 'copy_cols(values, base, &self.preprocessed, *first_idx * plw, plw);', min_count=0)
    f.rewrite_re('R5', r'for t in 1\.\.(\w+) \{', r'for t in it_: 1..\1 {', min_count=0)
    unborrow_views(f, prep, step)
    f.attr('#[verifier::loop_isolation(false)]')
    PRE = 'self.preprocessed@'
    f.requires('layout', '''plw == PREP_LANE_WIDTH && 2 <= *actual_k <= self.horner_packed_steps && self.horner_packed_steps < 64 && self.lanes >= 1 && self.lanes < 0x1_0000
            && (*first_idx + *actual_k) * PREP_LANE_WIDTH <= self.preprocessed@.len() && self.preprocessed@.len() < 0x1_0000_0000
            && row_width == self.lanes * PREP_LANE_WIDTH + (self.horner_packed_steps - 1) + PACKED_HORNER_STEP_PREP_WIDTH * (self.horner_packed_steps - 1)
            && base == row * row_width && (row + 1) * row_width <= old(values)@.len() && old(values)@.len() < 0x100_0000_0000''')
    XB = '(base + self.lanes * PREP_LANE_WIDTH)'
    f.ensures('lane_columns_are_the_first_op_with_the_last_ops_output_and_b_read_once_per_step', f'''forall|c: int| 0 <= c < PREP_LANE_WIDTH ==> #[trigger] final(values)@[base + c] ==
            (if c == P_OUT_IDX || c == P_MULT_OUT {{ op_col({PRE}, *first_idx + *actual_k - 1, c) }}
             else if c == P_MULT_B {{ fe_mul(op_col({PRE}, *first_idx as int, c), fe_from(*actual_k as nat)) }}
             else {{ op_col({PRE}, *first_idx as int, c) }})''')
    # the lane's b multiplicity is `k x (first step's)`: the same as the SUM of the steps' own multiplicities only if every step of the group has the first step's
    # (all readers); a private `b` first used by step 0 is a creator there and a reader later (finding C09-packed-group-b-creator-multiplied)
    f.ensures('H_every_step_of_a_packed_group_has_the_b_multiplicity_of_its_first_step',
              f'forall|t: int| 1 <= t < *actual_k ==> #[trigger] op_col({PRE}, *first_idx + t, P_MULT_B as int) == op_col({PRE}, *first_idx as int, P_MULT_B as int)')
    f.ensures('arity_selector_set', f'final(values)@[{XB} + (*actual_k - 2)] == fe_from(1)')
    f.ensures('later_steps_carry_their_own_operands_and_reader_multiplicities', f'''forall|t: int| 1 <= t < *actual_k ==> #[trigger] step_ok(final(values)@, {PRE}, {XB} as int, self.horner_packed_steps as int, *first_idx as int, t, op_col({PRE}, *first_idx as int, P_MULT_A as int))''')
    f.ensures('nothing_else_written', f'''final(values)@.len() == old(values)@.len() && forall|q: int| 0 <= q < old(values)@.len() && !(base <= q < base + PREP_LANE_WIDTH) && !({XB} <= q < (row + 1) * row_width)
            ==> #[trigger] final(values)@[q] == old(values)@[q]''')
    f.at_start('''proof {
            assert((row + 1) * row_width == row * row_width + row_width) by (nonlinear_arith);
            assert(0 <= row * row_width) by (nonlinear_arith);
            assert((*first_idx + *actual_k) * PREP_LANE_WIDTH == *first_idx * PREP_LANE_WIDTH + *actual_k * PREP_LANE_WIDTH) by (nonlinear_arith);
            assert((*first_idx + 1) * PREP_LANE_WIDTH == *first_idx * PREP_LANE_WIDTH + PREP_LANE_WIDTH) by (nonlinear_arith);
            assert((*first_idx + *actual_k - 1) * PREP_LANE_WIDTH + PREP_LANE_WIDTH == (*first_idx + *actual_k) * PREP_LANE_WIDTH) by (nonlinear_arith);
            assert(0 <= *first_idx * PREP_LANE_WIDTH) by (nonlinear_arith);
            assert(self.lanes * PREP_LANE_WIDTH >= PREP_LANE_WIDTH) by (nonlinear_arith) requires self.lanes >= 1;
        }''')
    TL = 'for t in it_: 1..k'
    if TL in f.body:
        f.before(TL, 'let ghost v1 = values@; let ghost ma = op_col(self.preprocessed@, *first_idx as int, P_MULT_A as int); proof { assert(mult_a_lane == ma); }')
        lo = f._loop_open(TL)
        f.body = f.body[:lo + 1] + ''' let ghost v_b = values@; proof {
                assert((*first_idx + t + 1) * PREP_LANE_WIDTH == (*first_idx + t) * PREP_LANE_WIDTH + PREP_LANE_WIDTH) by (nonlinear_arith);
                assert((*first_idx + t + 1) * PREP_LANE_WIDTH <= (*first_idx + *actual_k) * PREP_LANE_WIDTH) by (nonlinear_arith) requires t + 1 <= *actual_k;
                assert(0 <= (*first_idx + t) * PREP_LANE_WIDTH) by (nonlinear_arith);
                assert(PACKED_HORNER_STEP_PREP_WIDTH * (t - 1) + PACKED_HORNER_STEP_PREP_WIDTH <= PACKED_HORNER_STEP_PREP_WIDTH * (self.horner_packed_steps - 1)) by (nonlinear_arith) requires 1 <= t < self.horner_packed_steps;
            } ''' + f.body[lo + 1:]
        f.at_loop_end(TL, '''proof {
                assert forall|s: int| 1 <= s < t + 1 implies #[trigger] step_ok(values@, self.preprocessed@, extra_base as int, self.horner_packed_steps as int, *first_idx as int, s, ma) by {
                    if s < t { assert(step_ok(v_b, self.preprocessed@, extra_base as int, self.horner_packed_steps as int, *first_idx as int, s, ma));
                               assert(PACKED_HORNER_STEP_PREP_WIDTH * (s - 1) + PACKED_HORNER_STEP_PREP_WIDTH <= PACKED_HORNER_STEP_PREP_WIDTH * (t - 1)) by (nonlinear_arith) requires 1 <= s < t; }
                }
            }''')
        f.loop(TL, invariants=[
            ('steps_written_so_far', '''values@.len() == old(values)@.len() && extra_base == base + self.lanes * PREP_LANE_WIDTH && k == *actual_k && it_.iter.end == k''' + (' && k_max == self.horner_packed_steps' if re.search(r'let k_max\b', f.body) else '') + '''
                && (forall|s: int| 1 <= s < t ==> #[trigger] step_ok(values@, self.preprocessed@, extra_base as int, self.horner_packed_steps as int, *first_idx as int, s, ma))
                && (forall|q: int| 0 <= q < values@.len() && !(extra_base + (self.horner_packed_steps - 1) <= q < extra_base + (self.horner_packed_steps - 1) + PACKED_HORNER_STEP_PREP_WIDTH * (t - 1)) ==> #[trigger] values@[q] == v1[q])'''),
        ])
    u.text('verus! {\nimpl AluAirV {')
    u.emit(f, vis='')
    u.text('}\n}')
    return u
