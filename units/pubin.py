"""Unit `pubin` (C14): the input builders that pair `allocate()` with `pack_*()` -- recursion/src/public_inputs.rs
StarkVerifierInputs::build, construct_batch_stark_verifier_inputs, StarkVerifierInputsBuilder::{allocate, pack_public_values, pack_private_values},
BatchStarkVerifierInputsBuilder::{allocate, pack_public_values, pack_private_values}: the packed public vector is (AIR public values, proof values,
preprocessed commitment / common data) in exactly the order -- and with the lengths -- in which `allocate` created the public targets, for every
proof-target type that meets the `Recursive` contract (trait Rec of unit pack2)."""
import re

from vf.extract import ExtractError
from vf.unit import Unit, unmap_iter_collect_general, unrange_map_collect_general
from units.pack import PRELUDE as PACK_PRELUDE
from units.pack2 import SPEC as PACK2_SPEC

SPEC = r'''
verus! {
/// every instance's public values have the length `allocate` was given for that instance (native: PublicValuesLengthMismatch)
pub uninterp spec fn per_instance_lengths_are_the_allocated_ones(v: Seq<Vec<Fv>>) -> bool;
/// `PublicInputBuilder<F>`: a growing vector; `add_proof_values(iter)` appends the iterator's items (here: a vector's elements, in order)
pub struct PublicInputBuilder { pub inputs: Vec<Fv> }
impl PublicInputBuilder {
    pub fn new() -> (r: Self) ensures r.inputs@ == Seq::<Fv>::empty() { PublicInputBuilder { inputs: Vec::new() } }
    pub fn add_vec(&mut self, values: &Vec<Fv>) ensures final(self).inputs@ == old(self).inputs@ + values@
    { let mut k: usize = 0; while k < values.len() invariant k <= values@.len(), self.inputs@ == old(self).inputs@ + values@.take(k as int) decreases values@.len() - k
        { self.inputs.push(values[k]); k = k + 1; proof { assert(values@.take(k as int) =~= values@.take(k as int - 1).push(values@[k as int - 1])); } }
      proof { assert(values@.take(values@.len() as int) =~= values@); } }
    pub fn add_slice(&mut self, values: &[Fv]) ensures final(self).inputs@ == old(self).inputs@ + values@
    { let mut k: usize = 0; while k < values.len() invariant k <= values@.len(), self.inputs@ == old(self).inputs@ + values@.take(k as int) decreases values@.len() - k
        { self.inputs.push(values[k]); k = k + 1; proof { assert(values@.take(k as int) =~= values@.take(k as int - 1).push(values@[k as int - 1])); } }
      proof { assert(values@.take(values@.len() as int) =~= values@); } }
    pub fn build(self) -> (r: Vec<Fv>) ensures r@ == self.inputs@ { self.inputs }
}
impl CircuitBuilder {
    /// `CircuitBuilder::public_input()`: one fresh public input (ASSUMED: the builder's allocation log is the ghost `pubs`)
    #[verifier::external_body]
    pub fn public_input(&mut self) -> (r: ExprId) ensures final(self).pubs@ == old(self).pubs@.push(r), final(self).privs@ == old(self).privs@ { unimplemented!() }
}
pub struct StarkVerifierInputs { pub air_public_values: Vec<Fv>, pub proof_values: Vec<Fv>, pub preprocessed: Vec<Fv> }
pub struct StarkVerifierInputsBuilder<PT, CM> { pub air_public_targets: Vec<ExprId>, pub proof_targets: PT, pub preprocessed_commit: Option<CM> }
pub struct BatchStarkVerifierInputsBuilder<PT, CD> { pub air_public_targets: Vec<Vec<ExprId>>, pub proof_targets: PT, pub common_data: CD }
pub open spec fn opt_pubs<CM: Rec>(o: Option<CM>) -> Seq<ExprId> { match o { Some(c) => c.pubs(), None => Seq::empty() } }
pub open spec fn opt_pub_vals<CM: Rec>(o: Option<CM::Input>) -> Seq<Fv> { match o { Some(c) => CM::pub_vals(&c), None => Seq::empty() } }
} // verus!
'''


def common(f):
    f.rewrite_re('R11', r'\.iter\(\)\.map\(\|&v\| v\.into\(\)\)', '', min_count=0)            # F -> EF lift: values are opaque, the lift is the identity on their representation
    f.rewrite_re('R11', r'\.iter\(\)\.copied\(\)', '', min_count=0)
    f.rewrite_re('R11', r'\.to_vec\(\)', '.clone()', min_count=0)
    return f


def build():
    u = Unit('pubin', ['C14'])
    u.rlimit = 80
    u.assume('proof-target types are arbitrary implementors of the Recursive contract (trait Rec, unit pack2); base and challenge values are opaque copyable Fv and `v.into()` is the identity on them; '
             '`add_proof_values(iter)` appends the items of a vector / slice in order')
    u.text(PACK_PRELUDE)
    u.text(PACK2_SPEC)
    u.text(SPEC)
    P = 'recursion/src/public_inputs.rs'
    # ---- StarkVerifierInputs::build
    sb = common(u.extract(P, r'impl<F, EF> StarkVerifierInputs<F, EF>', 'build', 'StarkVerifierInputs::build'))
    sb.set_sig('R11', 'fn build(self) -> Vec<Fv>')
    sb.rewrite_re('R6', r'builder\.add_proof_values\(self\.(\w+)\);', r'builder.add_vec(&self.\1);', min_count=0)
    sb.ensures('air_values_then_proof_values_then_preprocessed', 'ret@ == self.air_public_values@ + self.proof_values@ + self.preprocessed@')
    # ---- construct_batch_stark_verifier_inputs
    cb = common(u.extract(P, '', 'construct_batch_stark_verifier_inputs', 'construct_batch_stark_verifier_inputs'))
    cb.set_sig('R11', 'fn construct_batch_stark_verifier_inputs(air_public_values: &[Vec<Fv>], proof_values: &[Fv], common_data: &[Fv]) -> Vec<Fv>')
    cb.rewrite_re('R5', r'for (\w+) in air_public_values \{', r'for ai_ in 0..air_public_values.len() { let \1 = &air_public_values[ai_];', min_count=0)
    cb.rewrite_re('R6', r'builder\.add_proof_values\(instance_pv\);', 'builder.add_vec(instance_pv);', min_count=0)
    cb.rewrite_re('R6', r'builder\.add_proof_values\((proof_values|common_data)\);', r'builder.add_slice(\1);', min_count=0)
    cb.ensures('instance_values_then_proof_values_then_common_data', 'ret@ == flat_vv(air_public_values@) + proof_values@ + common_data@')
    LA = 'for ai_ in 0..air_public_values.len()'
    if LA in cb.body:
        cb.loop(LA, invariants=[('instances_so_far', 'builder.inputs@ == flat_vv(air_public_values@.take(ai_ as int))')])
        cb.before(LA, 'proof { assert(air_public_values@.take(0) =~= Seq::<Vec<Fv>>::empty()); }')
        cb.at_loop_end(LA, 'proof { lemma_flat_vv_take(air_public_values@, ai_ as int); }')
        cb.rewrite_re('SPEC', r'(builder\.add_slice\(proof_values\);)', r'proof { assert(air_public_values@.take(air_public_values@.len() as int) =~= air_public_values@); } \1')
    # ---- StarkVerifierInputsBuilder
    SI = r'impl<SC, Comm, OpeningProof> StarkVerifierInputsBuilder<SC, Comm, OpeningProof>'
    al = u.extract(P, SI, 'allocate', 'StarkVerifierInputsBuilder::allocate')
    al.set_sig('R11', 'fn allocate<PT: Rec, CM: Rec>(circuit: &mut CircuitBuilder, proof: &PT::Input, preprocessed_commit: Option<&CM::Input>, num_air_public_inputs: usize) -> StarkVerifierInputsBuilder<PT, CM>')
    al.rewrite_re('R12', r'\bSelf\s*\{', 'StarkVerifierInputsBuilder {')
    al.rewrite_re('R11', r'ProofTargets::new\(', 'PT::new(', min_count=0)
    al.rewrite_re('R11', r'Comm::new\(', 'CM::new(', min_count=0)
    unrange_map_collect_general(al)
    al.rewrite_re('R6', r'let preprocessed_commit = preprocessed_commit\s*\.as_ref\(\)\s*\.map\(\|prep_comm\| CM::new\(circuit, prep_comm\)\);',
                  'let preprocessed_commit = match preprocessed_commit { Some(prep_comm) => Some(CM::new(circuit, prep_comm)), None => None };', min_count=0)
    al.ensures('public_targets_in_packing_order', 'final(circuit).pubs@ == old(circuit).pubs@ + ret.air_public_targets@ + ret.proof_targets.pubs() + opt_pubs(ret.preprocessed_commit)')
    al.ensures('as_many_targets_as_values', '''ret.air_public_targets@.len() == num_air_public_inputs && ret.proof_targets.pubs().len() == PT::pub_vals(proof).len()
            && opt_pubs(ret.preprocessed_commit).len() == (match preprocessed_commit { Some(c) => CM::pub_vals(c).len(), None => 0 })''')
    al.ensures('private_targets_are_the_proof_and_commitment_ones', 'final(circuit).privs@ == old(circuit).privs@ + ret.proof_targets.privs() + (match ret.preprocessed_commit { Some(c) => c.privs(), None => Seq::empty() })')
    for mm in re.finditer(r'for (\w+) in 0\.\.num_air_public_inputs', al.body):
        k = mm.group(1)
        vm = re.search(r'let mut (\w+)(?::[^=;]+)? = Vec::new\(\);\s*for ' + k, al.body)
        if vm:
            v = vm.group(1)
            al.rewrite_re('SPEC-type', r'let mut ' + v + r' = Vec::new\(\);', f'let mut {v}: Vec<ExprId> = Vec::new();', min_count=0)
            al.loop(mm.group(0), invariants=[('air_targets_so_far', f'{v}@.len() == {k} && circuit.pubs@ == old(circuit).pubs@ + {v}@ && circuit.privs@ == old(circuit).privs@')])
            lo = al._loop_open(mm.group(0))
            al.body = al.body[:lo + 1] + f' let ghost vb_ = {v}@;' + al.body[lo + 1:]
            al.at_loop_end(mm.group(0), f'proof {{ assert(circuit.pubs@ =~= old(circuit).pubs@ + {v}@); }}')
            al.before(mm.group(0), f'proof {{ assert(circuit.pubs@ =~= old(circuit).pubs@ + {v}@); }}')
        break
    al.bind_tail('r_', '''proof {
            assert(circuit.pubs@ =~= old(circuit).pubs@ + r_.air_public_targets@ + r_.proof_targets.pubs() + opt_pubs(r_.preprocessed_commit));
            assert(circuit.privs@ =~= old(circuit).privs@ + r_.proof_targets.privs() + (match r_.preprocessed_commit { Some(c) => c.privs(), None => Seq::<ExprId>::empty() }));
        }''')
    pp = common(u.extract(P, SI, 'pack_public_values', 'StarkVerifierInputsBuilder::pack_public_values'))
    pp.set_sig('R11', 'fn pack_public_values<PT: Rec, CM: Rec>(air_public_values: &Vec<Fv>, proof: &PT::Input, preprocessed_commit: &Option<CM::Input>) -> Vec<Fv>', drop_self=True)
    pp.rewrite_re('R11', r'ProofTargets::<SC, Comm, OpeningProof>::get_values\(', 'PT::get_values(', min_count=0)
    pp.rewrite_re('R6', r'preprocessed_commit\s*\.as_ref\(\)\s*\.map_or_else\(Vec::new, \|prep_comm\| Comm::get_values\(prep_comm\)\)', '(match preprocessed_commit { Some(prep_comm) => CM::get_values(prep_comm), None => Vec::new() })', min_count=0)
    pp.ensures('packed_in_allocation_order', 'ret@ == air_public_values@ + PT::pub_vals(proof) + (match preprocessed_commit { Some(c) => CM::pub_vals(c), None => Seq::empty() })')
    pv = u.extract(P, SI, 'pack_private_values', 'StarkVerifierInputsBuilder::pack_private_values')
    pv.set_sig('R11', 'fn pack_private_values<PT: Rec>(proof: &PT::Input) -> Vec<Fv>', drop_self=True)
    pv.rewrite_re('R11', r'ProofTargets::<SC, Comm, OpeningProof>::get_private_values\(', 'PT::get_private_values(', min_count=0)
    pv.ensures('the_proofs_private_values', 'ret@ == PT::priv_vals(proof)')
    # ---- BatchStarkVerifierInputsBuilder
    BI = r'impl<SC, Comm, OpeningProof> BatchStarkVerifierInputsBuilder<SC, Comm, OpeningProof>'
    ba = u.extract(P, BI, 'allocate', 'BatchStarkVerifierInputsBuilder::allocate')
    ba.set_sig('R11', 'fn allocate<PT: Rec, CD: Rec>(circuit: &mut CircuitBuilder, proof: &PT::Input, common_data: &CD::Input, air_public_counts: &[usize]) -> BatchStarkVerifierInputsBuilder<PT, CD>')
    ba.rewrite_re('R9', r'assert_eq!\(\s*air_public_counts\.len\(\),\s*proof\.opened_values\.instances\.len\(\),\s*"[^"]*"\s*\);', '/* R9: panicking shape assertion (abort path; partial correctness) */', min_count=0)
    ba.rewrite_re('R12', r'\bSelf\s*\{', 'BatchStarkVerifierInputsBuilder {')
    ba.rewrite_re('R11', r'BatchProofTargets::new\(', 'PT::new(', min_count=0)
    ba.rewrite_re('R11', r'CommonDataTargets::<SC, Comm>::new\(', 'CD::new(', min_count=0)
    unrange_map_collect_general(ba)
    unmap_iter_collect_general(ba)
    ba.ensures('public_targets_in_packing_order', 'final(circuit).pubs@ == old(circuit).pubs@ + flat_vv(ret.air_public_targets@) + ret.proof_targets.pubs() + ret.common_data.pubs()')
    ba.ensures('as_many_targets_per_instance_as_counted', """ret.air_public_targets@.len() == air_public_counts@.len()
            && (forall|i: int| 0 <= i < air_public_counts@.len() ==> (#[trigger] ret.air_public_targets@[i])@.len() == air_public_counts@[i])
            && ret.proof_targets.pubs().len() == PT::pub_vals(proof).len() && ret.common_data.pubs().len() == CD::pub_vals(common_data).len()""")
    ba.ensures('private_targets_are_the_proof_and_common_data_ones', 'final(circuit).privs@ == old(circuit).privs@ + ret.proof_targets.privs() + ret.common_data.privs()')
    mo = re.search(r'let mut (v_m\w+) = Vec::new\(\); (for (\w+) in 0\.\.air_public_counts\.len\(\))', ba.body)
    mi = re.search(r'let mut (v_r\w+) = Vec::new\(\); (for (\w+) in 0\.\.count)', ba.body)
    if mo and mi:
        vo, ho, ko = mo.groups()
        vi, hi, ki = mi.groups()
        ba.rewrite_re('SPEC-type', r'let mut ' + vo + r' = Vec::new\(\);', f'let mut {vo}: Vec<Vec<ExprId>> = Vec::new();')
        ba.rewrite_re('SPEC-type', r'let mut ' + vi + r' = Vec::new\(\);', f'let mut {vi}: Vec<ExprId> = Vec::new(); let ghost pb_ = circuit.pubs@;')
        ba.loop(ho, invariants=[('instances_so_far', f"""{vo}@.len() == {ko} && circuit.pubs@ == old(circuit).pubs@ + flat_vv({vo}@) && circuit.privs@ == old(circuit).privs@
            && (forall|i: int| 0 <= i < {ko} ==> (#[trigger] {vo}@[i])@.len() == air_public_counts@[i])""")])
        ba.loop(hi, invariants=[('targets_of_this_instance_so_far', f'{vi}@.len() == {ki} && circuit.pubs@ == pb_ + {vi}@ && circuit.privs@ == old(circuit).privs@')])
        ba.before(ho, f'proof {{ assert(circuit.pubs@ =~= old(circuit).pubs@ + flat_vv({vo}@)); }}')
        ba.before(hi, f'proof {{ assert(circuit.pubs@ =~= pb_ + {vi}@); }}')
        ba.at_loop_end(hi, f'proof {{ assert(circuit.pubs@ =~= pb_ + {vi}@); }}')
        ba.rewrite_re('SPEC', vo + r'\.push\((\w+)\);', f'proof {{ lemma_flat_vv_push({vo}@, \\1); assert(circuit.pubs@ =~= old(circuit).pubs@ + (flat_vv({vo}@) + \\1@)); }} {vo}.push(\\1);')
    ba.bind_tail('r_', """proof {
            assert(circuit.pubs@ =~= old(circuit).pubs@ + flat_vv(r_.air_public_targets@) + r_.proof_targets.pubs() + r_.common_data.pubs());
            assert(circuit.privs@ =~= old(circuit).privs@ + r_.proof_targets.privs() + r_.common_data.privs());
        }""")
    bp = common(u.extract(P, BI, 'pack_public_values', 'BatchStarkVerifierInputsBuilder::pack_public_values'))
    bp.set_sig('R11', 'fn pack_public_values<PT: Rec, CD: Rec>(air_public_values: &[Vec<Fv>], proof: &PT::Input, common: &CD::Input) -> Vec<Fv>', drop_self=True)
    bp.rewrite_re('R11', r'CommonDataTargets::<SC, Comm>::get_values\(', 'CD::get_values(', min_count=0)
    bp.rewrite_re('R11', r'BatchProofTargets::<SC, Comm, OpeningProof>::get_values\(', 'PT::get_values(', min_count=0)
    bp.rewrite_re('R6', r'construct_batch_stark_verifier_inputs\(air_public_values, &proof_values, &common_data\)', 'construct_batch_stark_verifier_inputs(air_public_values, proof_values.as_slice(), common_data.as_slice())', min_count=0)
    bp.ensures('packed_in_allocation_order', 'ret@ == flat_vv(air_public_values@) + PT::pub_vals(proof) + CD::pub_vals(common)')
    # C15 (open finding): the packer flattens; nothing compares the per-instance lengths with the windows `allocate` made, so values re-cut across instances ([[42, 50], []] for [[42], [50]]) are packed like the honest ones
    bp.ensures('H_each_instances_values_have_the_length_allocated_for_that_instance', 'per_instance_lengths_are_the_allocated_ones(air_public_values@)')
    bv = u.extract(P, BI, 'pack_private_values', 'BatchStarkVerifierInputsBuilder::pack_private_values')
    bv.set_sig('R11', 'fn pack_private_values<PT: Rec>(proof: &PT::Input) -> Vec<Fv>', drop_self=True)
    bv.rewrite_re('R11', r'BatchProofTargets::<SC, Comm, OpeningProof>::get_private_values\(', 'PT::get_private_values(', min_count=0)
    bv.ensures('the_proofs_private_values', 'ret@ == PT::priv_vals(proof)')
    u.text('verus! {\nimpl StarkVerifierInputs {')
    u.emit(sb)
    u.text('}')
    u.emit(cb)
    u.text('pub mod uni { use super::*;')
    for f in (al, pp, pv):
        u.emit(f)
    u.text('}\npub mod batch { use super::*;')
    for f in (ba, bp, bv):
        u.emit(f)
    u.text('}\n}')
    return u
