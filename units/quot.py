"""Unit `quot` (C20): quotient recomposition from its chunks.  Real text: recursion/src/verifier/quotient.rs
compute_quotient_chunk_products, compute_quotient_evaluation, recompose_quotient_from_chunks_circuit.
Native counterpart (p3-uni-stark / p3-batch-stark verifier):
    zps[i]  = prod_{j != i} Z_j(zeta) / Z_j(g_i)              (the circuit computes (prod_j Z_j(zeta) / Z_i(zeta)) / prod_{j != i} Z_j(g_i))
    Q(zeta) = sum_i zps[i] * sum_k e_k * chunk_i[k]
The callees vanishing_poly_at_point_{circuit,native}, mul_many and inner_product are under contract in unit gad (same contracts, assumed here)."""
import os
import re

from units.openin import loop_if_present
from vf.unit import Unit, unmap_iter_collect_general, unrange_map_collect_general, unenumerate_filter_fold
from units.gad import SPEC as GAD_SPEC

HERE = os.path.dirname(os.path.abspath(__file__))

SPEC = r'''
verus! {
global size_of usize == 8;
pub uninterp spec fn sp_dimension<F: Field>() -> nat;
pub uninterp spec fn sp_basis<F: Field>(i: nat) -> F;
pub trait ExtX: FieldX {
    /// SC::Challenge::DIMENSION
    fn dimension() -> (r: usize) ensures r == sp_dimension::<Self>();
    /// SC::Challenge::ith_basis_element(i).expect(..)
    fn basis_element(i: usize) -> (r: Self) requires i < sp_dimension::<Self>() ensures r == sp_basis::<Self>(i as nat);
}
pub open spec fn basis_seq<F: Field>() -> Seq<F> { Seq::new(sp_dimension::<F>(), |k: int| sp_basis::<F>(k as nat)) }

// ---- callee contracts proved in unit gad
impl<F: FieldX> CircuitBuilder<F> {
    #[verifier::external_body]
    pub fn mul_many(&mut self, inputs: &[Target]) -> (ret: Target)
        requires old(self).has_all(inputs@)
        ensures final(self).extends_pure(old(self)), final(self).has(ret), final(self).val(ret) == fprod(old(self).vals_of(inputs@))
    { unimplemented!() }
    #[verifier::external_body]
    pub fn inner_product(&mut self, a: &[Target], b: &[Target]) -> (ret: Target)
        requires old(self).has_all(a@) && old(self).has_all(b@), a@.len() == b@.len()
        ensures final(self).extends_pure(old(self)), final(self).has(ret), final(self).val(ret) == fdot(old(self).vals_of(a@), old(self).vals_of(b@))
    { unimplemented!() }
}
#[verifier::external_body]
pub fn vanishing_poly_at_point_native<F: FieldX, Domain, P: PcsStub<F, Domain>>(pcs: &P, domain: &Domain, point: F) -> (ret: F)
    ensures ret == sp_vanishing(point, pcs.sp_first_point(domain), pcs.sp_log_size(domain))
{ unimplemented!() }
#[verifier::external_body]
pub fn vanishing_poly_at_point_circuit<F: FieldX, Domain, P: PcsStub<F, Domain>>(pcs: &P, domain: &Domain, point: Target, circuit: &mut CircuitBuilder<F>) -> (ret: Target)
    requires old(circuit).has(point)
    ensures final(circuit).extends_pure(old(circuit)), final(circuit).has(ret),
            final(circuit).val(ret) == sp_vanishing(old(circuit).val(point), pcs.sp_first_point(domain), pcs.sp_log_size(domain))
{ unimplemented!() }

/// Z_j(p): the vanishing polynomial of chunk domain j at p
pub open spec fn zj<F: Field, Domain, P: PcsStub<F, Domain>>(pcs: &P, ds: Seq<Domain>, j: int, p: F) -> F { sp_vanishing(p, pcs.sp_first_point(&ds[j]), pcs.sp_log_size(&ds[j])) }
/// prod_{j < n, j != i} Z_j(g_i), accumulated left to right from 1
pub open spec fn den_prod<F: Field, Domain, P: PcsStub<F, Domain>>(pcs: &P, ds: Seq<Domain>, i: int, n: int) -> F
    decreases n
{
    if n <= 0 { F::fone() } else if n - 1 == i { den_prod(pcs, ds, i, n - 1) } else { den_prod(pcs, ds, i, n - 1).fmul(zj(pcs, ds, n - 1, pcs.sp_first_point(&ds[i]))) }
}
pub open spec fn zs<F: Field, Domain, P: PcsStub<F, Domain>>(pcs: &P, ds: Seq<Domain>, zeta: F) -> Seq<F> { Seq::new(ds.len(), |j: int| zj(pcs, ds, j, zeta)) }
/// the Lagrange-type coefficient of chunk i as the circuit computes it
pub open spec fn zp<F: Field, Domain, P: PcsStub<F, Domain>>(pcs: &P, ds: Seq<Domain>, i: int, zeta: F) -> F {
    fprod(zs(pcs, ds, zeta)).fdiv(zj(pcs, ds, i, zeta)).fdiv(den_prod(pcs, ds, i, ds.len() as int))
}
/// divisors that must be non-zero for the quotient to be defined (native: zeta outside every chunk domain; distinct cosets)
pub open spec fn zp_defined<F: Field, Domain, P: PcsStub<F, Domain>>(pcs: &P, ds: Seq<Domain>, zeta: F) -> bool {
    forall|i: int| 0 <= i < ds.len() ==> #[trigger] zj(pcs, ds, i, zeta) != F::fzero() && den_prod(pcs, ds, i, ds.len() as int) != F::fzero()
}
pub open spec fn chunk_eval<F: Field>(c: Seq<F>) -> F { fdot(c, basis_seq::<F>()) }
} // verus!
'''


def build():
    u = Unit('quot', ['C20'])
    u.rlimit = 80
    u.assume('builder arithmetic contracts (assumed; unit expr proves the expression level); mul_many / inner_product / vanishing_poly_at_point_{circuit,native} carry the contracts proved in unit gad')
    u.assume('SC::Challenge::DIMENSION and ith_basis_element are an uninterpreted dimension and basis of the challenge field; the PCS exposes first_point / log_size of a domain (trait PcsStub)')
    u.assume('Itertools::collect_vec == collect::<Vec<_>>() (R6)')
    u.text(open(os.path.join(HERE, 'gadget_prelude.rs')).read())
    u.text(GAD_SPEC)
    u.text(SPEC)
    Q = 'recursion/src/verifier/quotient.rs'
    GSIG = '<F: ExtX, Domain: Copy, P: PcsStub<F, Domain>>'

    # ------------------------------------------------------------------ compute_quotient_evaluation
    qe = u.extract(Q, '', 'compute_quotient_evaluation', 'compute_quotient_evaluation')
    qe.set_sig('R11', 'fn compute_quotient_evaluation<F: ExtX>(circuit: &mut CircuitBuilder<F>, opened_quotient_chunks: &[Vec<Target>], zps: &[Target]) -> Target')
    qe.rewrite_re('R11', r'SC::Challenge::DIMENSION', 'F::dimension()', min_count=1)
    qe.rewrite_re('R11', r'SC::Challenge::ZERO', 'F::zero()', min_count=1)
    qe.rewrite_re('R11', r'SC::Challenge::ith_basis_element\((\w+)\)\s*\.expect\("[^"]*"\)', r'F::basis_element(\1)', min_count=1)
    qe.rewrite_re('R9', r'debug_assert_eq!\(\s*chunk\.len\(\),\s*d,\s*"[^"]*"\s*,?\s*\);', 'assert(chunk.len() == d);')
    unrange_map_collect_general(qe)
    unmap_iter_collect_general(qe)
    qe.rewrite_re('R6', r'circuit\.inner_product\(chunk, &basis_targets\)', 'circuit.inner_product(chunk.as_slice(), basis_targets.as_slice())')
    qe.rewrite_re('R6', r'circuit\.inner_product\(&chunk_evals, zps\)', 'circuit.inner_product(chunk_evals.as_slice(), zps)')
    qe.requires('allocated', 'old(circuit).has_all(zps@) && forall|i: int| 0 <= i < opened_quotient_chunks@.len() ==> old(circuit).has_all(#[trigger] opened_quotient_chunks@[i]@)')
    qe.requires('one_coefficient_per_chunk_and_one_value_per_basis_element', 'opened_quotient_chunks@.len() == zps@.len() && forall|i: int| 0 <= i < opened_quotient_chunks@.len() ==> (#[trigger] opened_quotient_chunks@[i])@.len() == sp_dimension::<F>()')
    qe.ensures('frame', 'final(circuit).extends_pure(old(circuit)) && final(circuit).has(ret)')
    qe.ensures('sum_over_chunks_of_coefficient_times_basis_recomposition',
               '''final(circuit).val(ret) == (if sp_dimension::<F>() == 0 || opened_quotient_chunks@.len() == 0 { F::fzero() } else {
                    fdot(Seq::new(opened_quotient_chunks@.len(), |i: int| chunk_eval(old(circuit).vals_of(opened_quotient_chunks@[i]@))), old(circuit).vals_of(zps@)) })''')
    qe.at_start('let ghost nch = opened_quotient_chunks@.len() as int; let ghost zv = circuit.vals_of(zps@);')
    L1, L2 = 'for i in 0..d', 'for m0_ in 0..opened_quotient_chunks.len()'
    qe.after('}; v_m0_.push(x_m0_);', '''proof {
            let c = opened_quotient_chunks@[m0_ as int]@;
            assert(vb =~= basis_seq::<F>());
            assert(vc =~= old(circuit).vals_of(c)) by { assert forall|k: int| 0 <= k < c.len() implies b_m.val(#[trigger] c[k]) == old(circuit).val(c[k]) by { assert(old(circuit).has(c[k])); } }
        }''')
    qe.after('let chunk = &opened_quotient_chunks[m0_];', ''' let ghost b_m = *circuit; let ghost vb = circuit.vals_of(basis_targets@); let ghost vc = circuit.vals_of(chunk@);
            proof {
                assert(*chunk == opened_quotient_chunks@[m0_ as int]);
                assert(circuit.has_all(chunk@)) by { assert(old(circuit).has_all(opened_quotient_chunks@[m0_ as int]@)); assert forall|k: int| 0 <= k < chunk@.len() implies circuit.has(#[trigger] chunk@[k]) by { assert(old(circuit).has(chunk@[k])); } }
            }''')
    qe.bind_tail('r_', '', before_text='''proof {
            let ce = circuit.vals_of(chunk_evals@);
            assert(ce =~= Seq::new(nch as nat, |i: int| chunk_eval(old(circuit).vals_of(opened_quotient_chunks@[i]@))));
            assert(circuit.vals_of(zps@) =~= zv) by { assert forall|k: int| 0 <= k < zps@.len() implies circuit.val(#[trigger] zps@[k]) == old(circuit).val(zps@[k]) by { assert(old(circuit).has(zps@[k])); } }
            assert(circuit.has_all(zps@)) by { assert forall|k: int| 0 <= k < zps@.len() implies circuit.has(#[trigger] zps@[k]) by { assert(old(circuit).has(zps@[k])); } }
        }''')
    qe.loop(L1, invariants=[
        ('frame', 'circuit.extends_pure(old(circuit)) && d == sp_dimension::<F>()'),
        ('basis_constants', 'v_r0_@.len() == i && forall|k: int| 0 <= k < i ==> circuit.has(#[trigger] v_r0_@[k]) && circuit.val(v_r0_@[k]) == sp_basis::<F>(k as nat)'),
    ])
    qe.loop(L2, invariants=[
        ('frame', 'circuit.extends_pure(old(circuit)) && d == sp_dimension::<F>() && nch == opened_quotient_chunks@.len() && nch == zps@.len()'),
        ('pre', 'old(circuit).has_all(zps@) && (forall|i: int| 0 <= i < nch ==> old(circuit).has_all(#[trigger] opened_quotient_chunks@[i]@)) && (forall|i: int| 0 <= i < nch ==> (#[trigger] opened_quotient_chunks@[i])@.len() == sp_dimension::<F>())'),
        ('basis', 'basis_targets@.len() == d && forall|k: int| 0 <= k < d ==> circuit.has(#[trigger] basis_targets@[k]) && circuit.val(basis_targets@[k]) == sp_basis::<F>(k as nat)'),
        ('chunk_values', 'v_m0_@.len() == m0_ && forall|k: int| 0 <= k < m0_ ==> circuit.has(#[trigger] v_m0_@[k]) && circuit.val(v_m0_@[k]) == chunk_eval(old(circuit).vals_of(opened_quotient_chunks@[k]@))'),
    ])
    # ------------------------------------------------------------------ compute_quotient_chunk_products
    cp = u.extract(Q, '', 'compute_quotient_chunk_products', 'compute_quotient_chunk_products')
    cp.set_sig('R11', f'fn compute_quotient_chunk_products{GSIG}(circuit: &mut CircuitBuilder<F>, quotient_chunks_domains: &[Domain], zeta: Target, pcs: &P) -> Vec<Target>')
    cp.rewrite_re('R11', r'vanishing_poly_at_point_circuit::<SC, _, _, _, _>\(', 'vanishing_poly_at_point_circuit(')
    cp.rewrite_re('R11', r'vanishing_poly_at_point_native::<\s*SC,\s*InputProof,\s*OpeningProof,\s*Comm,\s*Domain,\s*>\(', 'vanishing_poly_at_point_native(')
    cp.rewrite_re('R11', r'SC::Challenge::ONE', 'F::one()', min_count=1)
    # R11: `acc * CALL(..)` on field values -> `acc.mul(CALL(..))`
    mm = re.search(r'\bacc \* (vanishing_poly_at_point_native)(\()', cp.body)
    if mm:
        from vf.extract import match_brace
        c_ = match_brace(cp.body, mm.start(2))
        cp.body = cp.body[:mm.start()] + 'acc.mul(' + cp.body[mm.start(1):c_ + 1] + ')' + cp.body[c_ + 1:]
        cp.rewrites.append(('R11', '`acc * f(..)` on field values', 'acc.mul(f(..))'))
    cp.rewrite_re('R11', r'\((pcs\.first_point\([^()]*\)) \* (\w+)\)', r'\1.mul(\2)', min_count=0)
    from units.openin import unall
    unall(cp)
    unenumerate_filter_fold(cp)
    unmap_iter_collect_general(cp)
    DS = 'quotient_chunks_domains@'
    cp.requires('allocated', 'old(circuit).has(zeta)')
    cp.ensures('frame', f'final(circuit).extends_pure(old(circuit)) && ret@.len() == {DS}.len() && final(circuit).has_all(ret@)')
    # the gadget computes prod_j Z_j(zeta) / Z_i(zeta) (one division per chunk); native multiplies the OTHER factors: for zeta on a chunk domain native is defined, the circuit divides by zero
    cp.ensures('H_the_evaluation_point_lies_on_no_quotient_chunk_domain', f'zp_defined(pcs, {DS}, old(circuit).val(zeta))')
    cp.ensures('each_coefficient_is_the_product_of_the_other_vanishing_ratios',
               f'zp_defined(pcs, {DS}, old(circuit).val(zeta)) ==> forall|i: int| 0 <= i < {DS}.len() ==> final(circuit).val(#[trigger] ret@[i]) == zp(pcs, {DS}, i, old(circuit).val(zeta))')
    cp.at_start(f'let ghost ds = {DS}; let ghost zv = circuit.val(zeta); let ghost n = {DS}.len() as int;')
    CTX = f'circuit.extends_pure(old(circuit)) && old(circuit).has(zeta) && ds == {DS} && zv == old(circuit).val(zeta) && n == ds.len()'
    cp.before('let total_vp_zeta_product = circuit.mul_many(&vp_zeta_values);', 'proof { assert(circuit.vals_of(vp_zeta_values@) =~= zs(pcs, ds, zv)); }')
    cp.after('let total_vp_zeta_product = circuit.mul_many(&vp_zeta_values);', ' let ghost b_t = *circuit;')
    cp.after('let den = den_targets[i];', '''proof {
                assert(b_t.has(vp_zeta_i) && b_t.val(vp_zeta_i) == zj(pcs, ds, i as int, zv));
                assert(circuit.val(den) == den_prod(pcs, ds, i as int, n));
            }''')
    from units.openin import loop_if_present as _lip
    def loop_if_named(f, head, invariants=()):
        # attach only when the loop AND every generated vector the invariants speak about are present (a restructured body shifts the generated names)
        names = set(re.findall(r'\bv_m\d+_\b', ' '.join(t for _, t in invariants)))
        from vf.unit import _find_all
        from vf.extract import match_brace
        ms = _find_all(head, f.body)
        if not ms:
            return
        o_ = f.body.index('{', ms[0].end() - 1)
        lbody = f.body[o_:match_brace(f.body, o_)]
        if all((n + '.push(') in lbody for n in names):      # the loop fills exactly the vectors its contract speaks about
            _lip(f, head, invariants=invariants)
    L_M0 = 'for m0_ in 0..quotient_chunks_domains.len()'
    L_I = 'for i in 0..quotient_chunks_domains.len()'
    L_J = 'for j in 0..quotient_chunks_domains.len()'
    L_M2 = 'for m2_ in 0..den_constants.len()'
    L_F = 'for i in 0..vp_zeta_values.len()'
    loop_if_named(cp, L_M0, invariants=[('ctx', CTX), ('vanishing_values_at_zeta', 'v_m0_@.len() == m0_ && forall|k: int| 0 <= k < m0_ ==> circuit.has(#[trigger] v_m0_@[k]) && circuit.val(v_m0_@[k]) == zj(pcs, ds, k, zv)')])
    loop_if_named(cp, L_I, invariants=[('ctx', CTX), ('denominators_so_far', 'v_m1_@.len() == i && forall|k: int| 0 <= k < i ==> #[trigger] v_m1_@[k] == den_prod(pcs, ds, k, n)')])
    loop_if_named(cp, L_J, invariants=[('ctx', f'ds == {DS} && n == ds.len() && 0 <= i < n && domain_i == ds[i as int] && fp_i == pcs.sp_first_point(&ds[i as int])'), ('product_over_the_other_domains_so_far', 'acc == den_prod(pcs, ds, i as int, j as int)')])
    loop_if_named(cp, L_M2, invariants=[('ctx', CTX + ' && b_t.has(total_vp_zeta_product) && circuit.extends_pure(&b_t)'), ('lifted', 'v_m2_@.len() == m2_ && forall|k: int| 0 <= k < m2_ ==> circuit.has(#[trigger] v_m2_@[k]) && circuit.val(v_m2_@[k]) == den_constants@[k]')])
    loop_if_named(cp, L_F, invariants=[
        ('ctx', CTX + ''' && circuit.extends_pure(&b_t) && b_t.has(total_vp_zeta_product) && b_t.val(total_vp_zeta_product) == fprod(zs(pcs, ds, zv)) && vp_zeta_values@.len() == n && den_targets@.len() == n
            && (forall|k: int| 0 <= k < n ==> b_t.has(#[trigger] vp_zeta_values@[k]) && b_t.val(vp_zeta_values@[k]) == zj(pcs, ds, k, zv))
            && (forall|k: int| 0 <= k < n ==> circuit.has(#[trigger] den_targets@[k]) && circuit.val(den_targets@[k]) == den_prod(pcs, ds, k, n))'''),
        ('coefficients_so_far', 'v_m3_@.len() == i && forall|k: int| 0 <= k < i ==> circuit.has(#[trigger] v_m3_@[k]) && (zp_defined(pcs, ds, zv) ==> circuit.val(v_m3_@[k]) == zp(pcs, ds, k, zv))'),
    ])
    # ------------------------------------------------------------------ recompose_quotient_from_chunks_circuit
    rq = u.extract(Q, '', 'recompose_quotient_from_chunks_circuit', 'recompose_quotient_from_chunks_circuit')
    rq.set_sig('R11', f'fn recompose_quotient_from_chunks_circuit{GSIG}(circuit: &mut CircuitBuilder<F>, quotient_chunks_domains: &[Domain], quotient_chunks: &[Vec<Target>], zeta: Target, pcs: &P) -> Target')
    rq.rewrite_re('R11', r'compute_quotient_chunk_products::<SC, _, _, _, _>\(', 'compute_quotient_chunk_products(', min_count=1)
    rq.rewrite_re('R11', r'compute_quotient_evaluation::<SC>\(', 'compute_quotient_evaluation(', min_count=1)
    rq.rewrite_re('R6', r'compute_quotient_evaluation\(circuit, quotient_chunks, &zps\)', 'compute_quotient_evaluation(circuit, quotient_chunks, zps.as_slice())')
    rq.requires('allocated', 'old(circuit).has(zeta) && forall|i: int| 0 <= i < quotient_chunks@.len() ==> old(circuit).has_all(#[trigger] quotient_chunks@[i]@)')
    rq.requires('one_chunk_per_domain_one_value_per_basis_element', f'quotient_chunks@.len() == {DS}.len() && forall|i: int| 0 <= i < quotient_chunks@.len() ==> (#[trigger] quotient_chunks@[i])@.len() == sp_dimension::<F>()')
    rq.ensures('frame', 'final(circuit).extends_pure(old(circuit)) && final(circuit).has(ret)')
    rq.ensures('quotient_value_is_the_native_recomposition',
               f'''zp_defined(pcs, {DS}, old(circuit).val(zeta)) && sp_dimension::<F>() > 0 && {DS}.len() > 0 ==>
                final(circuit).val(ret) == fdot(Seq::new({DS}.len(), |i: int| chunk_eval(old(circuit).vals_of(quotient_chunks@[i]@))), Seq::new({DS}.len(), |i: int| zp(pcs, {DS}, i, old(circuit).val(zeta))))''')
    rq.before('compute_quotient_evaluation(circuit, quotient_chunks, zps.as_slice())', '''let ghost b1 = *circuit;
    proof {
        assert forall|i: int| 0 <= i < quotient_chunks@.len() implies b1.has_all(#[trigger] quotient_chunks@[i]@) && b1.vals_of(quotient_chunks@[i]@) == old(circuit).vals_of(quotient_chunks@[i]@) by {
            let c = quotient_chunks@[i]@; assert(old(circuit).has_all(c));
            assert forall|k: int| 0 <= k < c.len() implies b1.has(#[trigger] c[k]) && b1.val(c[k]) == old(circuit).val(c[k]) by { assert(old(circuit).has(c[k])); }
            assert(b1.vals_of(c) =~= old(circuit).vals_of(c));
        }
        if zp_defined(pcs, quotient_chunks_domains@, old(circuit).val(zeta)) {
            assert(b1.vals_of(zps@) =~= Seq::new(quotient_chunks_domains@.len(), |i: int| zp(pcs, quotient_chunks_domains@, i, old(circuit).val(zeta))));
        }
        assert(Seq::new(quotient_chunks@.len(), |i: int| chunk_eval(b1.vals_of(quotient_chunks@[i]@))) =~= Seq::new(quotient_chunks_domains@.len(), |i: int| chunk_eval(old(circuit).vals_of(quotient_chunks@[i]@))));
    }''')
    cp.sig = cp.sig  # (emitted before its caller)
    u.text('''verus! {
impl<F: Field> CircuitBuilder<F> {
    /// verified in unit gad
    #[verifier::external_body]
    pub fn exp_power_of_2(&mut self, base: ExprId, power_log: usize) -> (r: ExprId)
        requires old(self).has(base)
        ensures final(self).extends_pure(old(self)), final(self).has(r), final(self).val(r) == fpow(old(self).val(base), pow2(power_log as nat))
    { unimplemented!() }
}
}''')
    u.text('verus! {')
    u.emit(qe, vis='')
    u.emit(cp, vis='')
    u.emit(rq, vis='')
    u.text('}')
    return u
