"""Unit `rcair` (C12): what the recompose table enforces.  Real text: circuit-prover/src/air/recompose_air.rs  <RecomposeAir as Air>::eval
(from the lane-width bindings to the end; the prefix only borrows the row slices, which are parameters here).
The table has NO local constraint; per lane it pushes on the WitnessChecks bus
    narrow:  (output_idx, row_0 .. row_{D-1})                      with multiplicity out_mult
    wide  :  the same, plus for every i  (coeff_idx_i, row_i, 0, .., 0)   with multiplicity coeff_mult_i
and nothing else: in the narrow variant no tuple mentions a coefficient slot, which is the assumed table semantics of unit coef."""
import re

from vf.unit import Unit
from units.air import PRELUDE as AIR_PRELUDE
from units.coef import slice_from

AIR_SPEC = r'''
verus! {
/// the interaction builder: the ghost list of (tuple values, multiplicity) pushed on the WitnessChecks bus
pub struct IB { pub sent: Ghost<Seq<(Seq<int>, int)>> }
pub struct Count { pub m: R }
impl Count { pub fn bounded(m: R, b: usize) -> (r: Count) ensures r.m == m { Count { m } } }
impl IB {
    #[verifier::external_body]
    pub fn push_interaction(&mut self, bus: &str, values: Vec<R>, count: Count)
        ensures final(self).sent@ == old(self).sent@.push((iv(values@), count.m.v@))
    {}
}
pub struct RecomposeAir<const D: usize> { pub lanes: usize, pub coeff_lookups: bool }
pub const RECOMPOSE_PREP_LANE_WIDTH: usize = 2;
pub struct RecomposePrepColMap { pub output_idx: usize, pub out_mult: usize }
pub const RECOMPOSE_PREP_LANE_COL_MAP: RecomposePrepColMap = RecomposePrepColMap { output_idx: 0, out_mult: 1 };
impl<const D: usize> RecomposeAir<D> {
    pub fn lane_width() -> (r: usize) ensures r == D { D }
    pub open spec fn plw(&self) -> int { if self.coeff_lookups { 2 + 2 * D as int } else { 2 } }
    pub fn preprocessed_lane_width(&self) -> (r: usize) requires D < 0x1000 ensures r == self.plw() { if self.coeff_lookups { RECOMPOSE_PREP_LANE_WIDTH + 2 * D } else { RECOMPOSE_PREP_LANE_WIDTH } }
}
/// the packed-output tuple of lane l: (output_idx, row_0 .. row_{D-1}) with multiplicity out_mult
pub open spec fn out_tuple(m: Seq<int>, p: Seq<int>, l: int, d: int, plw: int) -> (Seq<int>, int) {
    (seq![p[l * plw]] + m.subrange(l * d, l * d + d), p[l * plw + 1])
}
/// the coefficient tuple i of lane l: (coeff_idx_i, row_i, 0, .., 0) with multiplicity coeff_mult_i
pub open spec fn coeff_tuple(m: Seq<int>, p: Seq<int>, l: int, i: int, d: int, plw: int) -> (Seq<int>, int) {
    (seq![p[l * plw + 2 + 2 * i], m[l * d + i]] + Seq::new((d - 1) as nat, |k: int| 0int), p[l * plw + 2 + 2 * i + 1])
}
pub open spec fn lane_tuples(m: Seq<int>, p: Seq<int>, l: int, d: int, plw: int, wide: bool, ncoef: int) -> Seq<(Seq<int>, int)>
    decreases ncoef
{
    if !wide || ncoef <= 0 { seq![out_tuple(m, p, l, d, plw)] } else { lane_tuples(m, p, l, d, plw, wide, ncoef - 1).push(coeff_tuple(m, p, l, ncoef - 1, d, plw)) }
}
pub open spec fn all_tuples(m: Seq<int>, p: Seq<int>, lanes: int, d: int, plw: int, wide: bool) -> Seq<(Seq<int>, int)>
    decreases lanes
{
    if lanes <= 0 { Seq::empty() } else { all_tuples(m, p, lanes - 1, d, plw, wide) + lane_tuples(m, p, lanes - 1, d, plw, wide, d) }
}
} // verus!
'''




def build():
    u = Unit('rcair', ['C12'])
    u.rlimit = 80
    u.assume('R11: AB::Var / AB::Expr erased to one ring type R (integers); `.into()` between them is the identity; InteractionBuilder::push_interaction records (tuple, multiplicity)')
    u.text(AIR_PRELUDE)
    u.text(AIR_SPEC)
    A = 'circuit-prover/src/air/recompose_air.rs'
    e = u.extract(A, r'impl<AB: AirBuilder \+ InteractionBuilder, const D: usize> Air<AB> for RecomposeAir<AB::F, D>', 'eval', 'RecomposeAir::eval')
    slice_from(e, 'let lane_w = Self::lane_width();', 'prefix: borrows of the current main / preprocessed row slices')
    e.set_sig('R11', 'fn eval(&self, builder: &mut IB, main_local: &[R], prep_local: &[R])', sliced=True)
    e.rewrite_re('R11', r'Self::lane_width\(\)', 'RecomposeAir::<D>::lane_width()')
    e.rewrite_re('R11', r'AB::Expr::ZERO', 'R::zero()')
    e.rewrite_re('R11', r'AB::Expr', 'R')
    e.rewrite_re('R11', r'\.into\(\)', '')
    e.rewrite_re('R5', r'for _ in 1\.\.D \{', 'for z_ in 1..D {')
    e.requires('geometry', '0 < D < 0x1000 && self.lanes < 0x1_0000 && main_local@.len() >= self.lanes * D && prep_local@.len() >= self.lanes * self.plw()')
    e.ensures('exactly_these_bus_tuples_and_no_constraint',
              'final(builder).sent@ == old(builder).sent@ + all_tuples(iv(main_local@), iv(prep_local@), self.lanes as int, D as int, self.plw(), self.coeff_lookups)')
    e.at_start('let ghost m = iv(main_local@); let ghost p = iv(prep_local@); let ghost s0 = builder.sent@; let ghost plw = self.plw(); let ghost d = D as int; let ghost wide = self.coeff_lookups;')
    e.at_loop_end('for lane in 0..self.lanes', '''proof {
                assert(all_tuples(m, p, lane + 1, d, plw, wide) == all_tuples(m, p, lane as int, d, plw, wide) + lane_tuples(m, p, lane as int, d, plw, wide, d));
                if !wide { assert(lane_tuples(m, p, l, d, plw, wide, d) == lane_tuples(m, p, l, d, plw, wide, 0)); }
                assert(builder.sent@ == s_l + lane_tuples(m, p, l, d, plw, wide, d));
                assert(builder.sent@ =~= s0 + all_tuples(m, p, lane + 1, d, plw, wide));
            }''')
    from units.openin import after_loop_binding
    e.before('let main_off = lane * lane_w;', '''let ghost s_l = builder.sent@; let ghost l = lane as int;
            proof {
                assert(l * d + d <= self.lanes * d) by (nonlinear_arith) requires 0 <= l < self.lanes, d > 0;
                assert(l * plw + plw <= self.lanes * plw) by (nonlinear_arith) requires 0 <= l < self.lanes, plw > 0;
                assert(self.lanes * d < 0x1000_0000 && self.lanes * plw < 0x1_0000_0000) by (nonlinear_arith) requires self.lanes < 0x1_0000, 0 < d < 0x1000, 0 < plw <= 2 + 2 * d;
            }''')
    e.before('builder.push_interaction("WitnessChecks", values, Count::bounded(out_mult, 1));', '''proof { assert((iv(values@), out_mult.v@) == out_tuple(m, p, l, d, plw)) by { assert(iv(values@) =~= seq![p[l * plw]] + m.subrange(l * d, l * d + d)); } }''')
    e.after('builder.push_interaction("WitnessChecks", values, Count::bounded(out_mult, 1));', ''' proof { assert(builder.sent@ == s_l.push(out_tuple(m, p, l, d, plw))); assert(lane_tuples(m, p, l, d, plw, wide, 0) =~= seq![out_tuple(m, p, l, d, plw)]); assert(s_l.push(out_tuple(m, p, l, d, plw)) =~= s_l + lane_tuples(m, p, l, d, plw, wide, 0)); }''')
    e.at_loop_end('for i in 0..D', '''proof {
                        assert((iv(coeff_values@), coeff_mult.v@) == coeff_tuple(m, p, l, i as int, d, plw)) by {
                            assert(iv(coeff_values@) =~= seq![p[l * plw + 2 + 2 * i], m[l * d + i]] + Seq::new((d - 1) as nat, |k: int| 0int));
                        }
                        assert(lane_tuples(m, p, l, d, plw, wide, i + 1) == lane_tuples(m, p, l, d, plw, wide, i as int).push(coeff_tuple(m, p, l, i as int, d, plw)));
                        assert(builder.sent@ =~= s_l + lane_tuples(m, p, l, d, plw, wide, i + 1));
                    }''')
    CTX_L = ('m == iv(main_local@) && p == iv(prep_local@) && plw == self.plw() && d == D && 0 < D < 0x1000 && wide == self.coeff_lookups && l == lane && 0 <= l < self.lanes && main_off == l * d && prep_off == l * plw '
             '&& l * d + d <= self.lanes * d && l * plw + plw <= self.lanes * plw && self.lanes * d < 0x1000_0000 && self.lanes * plw < 0x1_0000_0000 && main_local@.len() >= self.lanes * d && prep_local@.len() >= self.lanes * plw')
    e.before('values.push(main_local[main_off + j]);', 'let ghost vb = values@;')
    e.after('values.push(main_local[main_off + j]);', ''' proof {
                    assert(values@ == vb.push(main_local@[main_off + j])); assert(m[l * d + j] == main_local@[main_off + j].v@);
                    assert forall|q: int| 0 <= q < values@.len() implies iv(values@)[q] == (seq![p[l * plw]] + m.subrange(l * d, l * d + j + 1))[q] by {
                        if q < vb.len() { assert(iv(vb)[q] == (seq![p[l * plw]] + m.subrange(l * d, l * d + j))[q]); }
                    }
                }''')
    e.before('coeff_values.push(R::zero());', 'let ghost cb = coeff_values@;')
    e.after('coeff_values.push(R::zero());', ''' proof {
                        assert(coeff_values@ == cb.push(R { v: Ghost(0) }) || coeff_values@.last().v@ == 0);
                        assert forall|q: int| 0 <= q < coeff_values@.len() implies iv(coeff_values@)[q] == (seq![p[l * plw + 2 + 2 * i], m[l * d + i]] + Seq::new(z_ as nat, |k: int| 0int))[q] by {
                            if q < cb.len() { assert(coeff_values@[q] == cb[q]); assert(iv(cb)[q] == (seq![p[l * plw + 2 + 2 * i], m[l * d + i]] + Seq::new((z_ - 1) as nat, |k: int| 0int))[q]); }
                        }
                    }''')
    e.loop('for z_ in 1..D', invariants=[('zeros', 'coeff_values@.len() == 1 + z_ && iv(coeff_values@) =~= seq![p[l * plw + 2 + 2 * i], m[l * d + i]] + Seq::new((z_ - 1) as nat, |k: int| 0int) && d == D && 0 <= i < d && D < 0x1000')])
    e.loop('for i in 0..D', invariants=[('ctx', CTX_L + ' && wide'), ('coefficient_tuples_so_far', 'builder.sent@ == s_l + lane_tuples(m, p, l, d, plw, wide, i as int)')])
    e.loop('for j in 0..D', invariants=[('ctx', CTX_L), ('row_values_so_far', 'values@.len() == 1 + j && iv(values@) =~= seq![p[l * plw]] + m.subrange(l * d, l * d + j)')])
    e.loop('for lane in 0..self.lanes', invariants=[
        ('ctx', 'm == iv(main_local@) && p == iv(prep_local@) && plw == self.plw() && d == D && 0 < D < 0x1000 && wide == self.coeff_lookups && lane_w == D && prep_lane_w == plw && self.lanes < 0x1_0000 && main_local@.len() >= self.lanes * D && prep_local@.len() >= self.lanes * self.plw()'),
        ('lanes_done', 'builder.sent@ == s0 + all_tuples(m, p, lane as int, d, plw, wide)'),
    ])
    u.text('verus! {\nimpl<const D: usize> RecomposeAir<D> {')
    u.emit(e, vis='pub')
    u.text('}\n}')
    return u
