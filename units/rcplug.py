"""Unit `rcplug` (C17, C16): the recompose table plugin's verifier-side AIR -- RecomposeProver::{batch_air_from_table_entry,
air_with_committed_preprocessed} (circuit-prover/src/batch_stark_prover/recompose.rs): a layer's proof is re-read (natively and by the
next layer's verifier circuit) with an AIR built from the lane count THE PROOF DECLARES, so a parameter change between steps does not
make a valid layer unreadable."""
from vf.unit import Unit

PRELUDE = r'''
#![allow(unused_imports, unused_variables, dead_code, unused_mut, unused_parens)]
use vstd::prelude::*;
verus! {
global size_of usize == 8;
pub struct BaseVal(pub u64);
pub struct StarkCfg { pub _p: () }
pub struct NonPrimitiveTableEntry { pub lanes: usize, pub rows: usize }
/// a recompose AIR is determined by the arguments it is built from
pub struct RecomposeAir<const D: usize> { pub lanes: usize, pub prep: Vec<BaseVal>, pub min_height: usize, pub coeff_lookups: bool }
impl<const D: usize> RecomposeAir<D> {
    #[verifier::external_body]
    pub fn new_with_preprocessed(lanes: usize, prep: Vec<BaseVal>, min_height: usize, coeff_lookups: bool) -> (r: Self)
        ensures r.lanes == lanes, r.prep@ == prep@, r.min_height == min_height, r.coeff_lookups == coeff_lookups
    { unimplemented!() }
}
pub struct DynamicAirEntry<const D: usize> { pub air: RecomposeAir<D> }
impl<const D: usize> DynamicAirEntry<D> { pub fn new(air: RecomposeAir<D>) -> (r: Self) ensures r.air == air { DynamicAirEntry { air } } }
pub struct ErrString { pub _p: () }
pub struct RecomposeProver<const D: usize> { pub lanes: usize, pub coeff_lookups: bool }
} // verus!
'''


def build():
    u = Unit('rcplug', ['C17', 'C16'])
    u.rlimit = 30
    u.assume('SC, Val<SC> and the Box<dyn ..> around the AIR erased (R11); RecomposeAir::new_with_preprocessed is determined by its arguments')
    u.text(PRELUDE)
    R = 'circuit-prover/src/batch_stark_prover/recompose.rs'
    IMPL = r'impl<SC, const D: usize> TableProver<SC> for RecomposeProver<D>'
    b = u.extract(R, IMPL, 'batch_air_from_table_entry', 'RecomposeProver::batch_air_from_table_entry')
    import re
    me = re.search(r'(\w+)\s*:\s*&NonPrimitiveTableEntry', b.sig)
    TE = me.group(1) if me else 'table_entry'          # the parameter keeps whatever name the code gives it (an unused one is spelled `_table_entry`)
    b.set_sig('R11', f'fn batch_air_from_table_entry(&self, _config: &StarkCfg, _degree: usize, _circuit_extension_degree: u32, {TE}: &NonPrimitiveTableEntry) -> Result<DynamicAirEntry<D>, ErrString>')
    for f in (b,):
        f.rewrite_re('R11', r'RecomposeAir::<Val<SC>, D>::', 'RecomposeAir::<D>::')
        f.rewrite_re('R11', r'Box::new\((\w+)\)', r'\1')
    b.ensures('the_air_has_the_lane_count_the_proof_declares', f'ret matches Ok(e) ==> e.air.lanes == {TE}.lanes && e.air.coeff_lookups == self.coeff_lookups && e.air.prep@.len() == 0 && e.air.min_height == 1')
    a = u.extract(R, IMPL, 'air_with_committed_preprocessed', 'RecomposeProver::air_with_committed_preprocessed')
    a.set_sig('R11', 'fn air_with_committed_preprocessed(&self, committed_prep: Vec<BaseVal>, min_height: usize, lanes: usize, _circuit_extension_degree: u32) -> Option<DynamicAirEntry<D>>')
    a.rewrite_re('R11', r'RecomposeAir::<Val<SC>, D>::', 'RecomposeAir::<D>::')
    a.rewrite_re('R11', r'Box::new\((\w+)\)', r'\1')
    a.ensures('the_air_is_built_from_the_given_lanes_height_and_columns', 'ret matches Some(e) && e.air.lanes == lanes && e.air.coeff_lookups == self.coeff_lookups && e.air.prep@ == committed_prep@ && e.air.min_height == min_height')
    u.text('verus! {\nimpl<const D: usize> RecomposeProver<D> {')
    u.emit(b)
    u.emit(a)
    u.text('}\n}')
    return u
